/-
  Thm/C04.lean — property C04: nested spans always form one consistent trace tree.
  Property theorems only; `runT_eq_spec` (the tree executed on the C03 machine = a pure function of the ambient
  map, machine restored) and `spec_eq_ref` (= the map-free trace tree `ref` for clean trees) are proved in
  Lemmas/Span.lean.

  Reading guide. `runT t c tree s n` / `runL` is what the driver executes: the span tree run on thread `t`,
  context `c` of the C03 machine `s` (`step` = the thread-local swap machine the C03 theorems are about).
  `ref tr sp pa tree` is the trace tree with no maps: `tr` the trace id in force, `sp` the id of the innermost
  ENABLED span (or the incoming span id), `pa` that span's parent. `Clean` = no event overrides an id key with
  its own property and no span's user ctxt props use `id` or an id key (the macro call sites cannot).

  OBLIGATIONS (audited by `check` with `#print axioms`):
    sequential_view, revert_on_end, revert_on_panic, revert_on_end_is_exit_restores, thread_independent, carried_frame_is_transparent, trace_tree,
    driver_trace_tree, completion_carries_span_ids, one_trace, one_traceL, one_trace_root, parent_is_enclosing, ids_resolveL, span_idsL,
    ids_distinct, rng_zero_absent, rng_holders_transparent, rng_holders_transparentL, rng_none_draws_nothingL,
    tp_frame_shows_child_ids, tp_enter_exit_symmetric  (+ EmitModel.Span.runT_eq_spec, runL_eq_spec, spec_eq_ref, specL_eq_refL, current_push)
-/
import EmitModel.Lemmas.Span
import EmitModel.Thm.C03
import EmitModel.Model.Traceparent
namespace EmitModel.C04
open EmitModel.Ctxt EmitModel.Span

/-- **sequential_view.** Executing a tree on the thread-local machine — frames pushed, entered and exited, bodies
    carried to other threads inside `Frame::current` — emits exactly what the pure function `spec` of the ambient
    map says, and leaves every thread's view of every context as it was. -/
theorem sequential_view (tree : Tree) (t c : Nat) (s : St IdVal) (n : Nat) :
    (runT t c tree s n).1 = spec ((s.active t c).getD []) tree ∧
    (∀ t' c', (runT t c tree s n).2.1.active t' c' = s.active t' c') :=
  ⟨(runT_eq_spec tree t c s n).1, (runT_eq_spec tree t c s n).2.active⟩

/-- **revert_on_end.** When a span (any list of siblings) has ended, the ambient ids are what they were before
    it: `SpanCtxt::current` reads the parent's ids again. (Proved on the C03 machine: `exit` swaps back.) -/
theorem revert_on_end (ts : List Tree) (t c : Nat) (s : St IdVal) (n : Nat) (t' c' : Nat) :
    (runL t c ts s n).2.1.active t' c' = s.active t' c' ∧
    current (((runL t c ts s n).2.1.active t c).getD []) = current ((s.active t c).getD []) := by
  have h := (runL_eq_spec ts t c s n).2.active
  exact ⟨h t' c', by rw [h t c]⟩

/-- **revert_on_end is C03's exit_restores.** What `runL` does to the machine is the execution (`exec`) of a list
    of C03 events (`evsL`: every span = open, enter, body, completion read, exit; every carried body = open a
    `Frame::current`, enter/exit on the other thread) that is a WELL-NESTED, BALANCED block of the C03 discipline
    from any consistent bookkeeping `g` whose handles from `n` on are unused. So the C03 theorems apply to span
    trees verbatim: `exit_restores` gives that every thread sees what it saw before, and every frame holds its
    own view again. -/
theorem revert_on_end_is_exit_restores (ts : List Tree) (t c : Nat) (s : St IdVal) (n : Nat) (g : G IdVal)
    (hi : Inv s g) (hf : FreshFrom g n) :
    exec s (evsL t c ts s n) = (runL t c ts s n).2.1 ∧
    ∃ g', run s g (evsL t c ts s n) = some ((runL t c ts s n).2.1, g') ∧ g'.stack = g.stack ∧
      (∀ t' c', (runL t c ts s n).2.1.active t' c' = s.active t' c') ∧
      (∀ f c', g'.ctxtOf f = some c' → g'.loc f = none → ((runL t c ts s n).2.1.slot f).get = g'.view f) := by
  obtain ⟨g', hr, hst, _⟩ := evsL_wellNested ts t c s n g hi hf
  rw [exec_evsL] at hr
  obtain ⟨h1, _, _, h4⟩ := C03.exit_restores s g hi _ _ g' hr hst
  exact ⟨exec_evsL ts t c s n, g', hr, hst, h1, h4⟩

/-- **revert_on_panic.** A panic that unwinds out of span bodies (any depth, any mix of sync/async paths and
    carried frames) and is caught by an enclosing `catch_unwind` leaves no trace either: what follows the catch
    point runs in exactly the ambient the catch point itself had (`specL amb rest` — the same `amb`), every
    thread sees in every context what it saw before, and — `revert_on_end_is_exit_restores` holds for trees
    with panics too — the machine effects are still a balanced, well-nested C03 block: each unwound span did
    its completion read and its `exit` (the `EnterGuard` drop). -/
theorem revert_on_panic (body rest : List Tree) (t c : Nat) (s : St IdVal) (n : Nat) :
    (runL t c (.catch_ body :: rest) s n).1 =
      specL ((s.active t c).getD []) body ++ specL ((s.active t c).getD []) rest ∧
    (∀ t' c', (runL t c (.catch_ body :: rest) s n).2.1.active t' c' = s.active t' c') ∧
    (∀ id en rt rs user children, Span.panicsL children = true →
      ∀ t' c', (runT t c (.span id en rt rs user children) s n).2.1.active t' c' = s.active t' c') := by
  refine ⟨?_, (runL_eq_spec _ t c s n).2.active, fun id en rt rs user children _ => (runT_eq_spec _ t c s n).2.active⟩
  rw [(runL_eq_spec _ t c s n).1]
  simp [specL, spec, Tree.panics]

/-- non-vacuity of the hypotheses: the pristine machine with the empty bookkeeping -/
example : Inv (St.init IdVal true) (C03.G0 IdVal) ∧ FreshFrom (C03.G0 IdVal) 0 :=
  ⟨C03.inv_init true, fun _ _ => rfl⟩

/-- The records depend on the ambient map only — not on the thread the tree runs on, nor on the rest of the
    machine state (other threads, other contexts, frame slots, handle counter). -/
theorem thread_independent (tree : Tree) (t1 t2 c : Nat) (s1 s2 : St IdVal) (n1 n2 : Nat)
    (h : (s1.active t1 c).getD [] = (s2.active t2 c).getD []) :
    (runT t1 c tree s1 n1).1 = (runT t2 c tree s2 n2).1 := by
  rw [(runT_eq_spec tree t1 c s1 n1).1, (runT_eq_spec tree t2 c s2 n2).1, h]

/-- A body continued on another thread (or in a task polled there) inside a carried `Frame::current` emits
    what it would have emitted in place. -/
theorem carried_frame_is_transparent (t' : Nat) (children : List Tree) (t c : Nat) (s : St IdVal) (n : Nat) :
    (runT t c (.group t' children) s n).1 = (runL t c children s n).1 := by
  rw [(runT_eq_spec _ t c s n).1, (runL_eq_spec children t c s n).1]; simp [spec]

/-- **trace_tree.** For clean trees the records are the map-free trace tree of the ambient ids — however deep,
    whatever mix of enabled and rejected spans, hand-offs, rng readings (good, zero, absent). -/
theorem trace_tree (ts : List Tree) (hc : CleanL ts) (t c : Nat) (s : St IdVal) (n : Nat) :
    (runL t c ts s n).1 =
      refL (current ((s.active t c).getD [])).trace (current ((s.active t c).getD [])).span
        (current ((s.active t c).getD [])).parent ts := by
  rw [(runL_eq_spec ts t c s n).1, specL_eq_refL ts _ hc]

/-! ### one trace -/

mutual
/-- **one_trace.** Below a trace id in force (incoming, or started by an enclosing span) every record — event,
    `SpanCtxt::current`, span completion, at any depth — carries that trace id. -/
theorem one_trace (tree : Tree) (tr sp pa : Option Nat) (τ : Nat) (h : tr = some τ) :
    ∀ r ∈ ref tr sp pa tree, r.trace = some τ := by
  cases tree with
  | event eid own => intro r hr; simp [ref] at hr; simp [hr, h]
  | cur cid => intro r hr; simp [ref] at hr; simp [hr, h]
  | span id enabled rt rs user children =>
    cases enabled with
    | false => simp only [ref]; exact one_traceL children tr sp pa τ h
    | true =>
      intro r hr
      have h' : tr.or (randTrace rt) = some τ := by simp [h]
      simp only [ref, if_true, List.mem_append, List.mem_singleton] at hr
      rcases hr with hr | hr
      · exact one_traceL children _ _ _ τ h' r hr
      · simp [hr, h']
  | group t children => simp only [ref]; exact one_traceL children tr sp pa τ h
  | panic => intro r hr; simp [ref] at hr
  | catch_ children => simp only [ref]; exact one_traceL children tr sp pa τ h
theorem one_traceL (ts : List Tree) (tr sp pa : Option Nat) (τ : Nat) (h : tr = some τ) :
    ∀ r ∈ refL tr sp pa ts, r.trace = some τ := by
  cases ts with
  | nil => intro r hr; simp [refL] at hr
  | cons x xs =>
    intro r hr
    simp only [refL, List.mem_append] at hr
    rcases hr with hr | hr
    · exact one_trace x tr sp pa τ h r hr
    · split at hr
      · simp at hr
      · exact one_traceL xs tr sp pa τ h r hr
end

/-- a root span starts the trace: no incoming trace id, a good reading `τ` -/
theorem one_trace_root (id : Nat) (rt rs : Option Nat) (user : List (String × IdVal)) (children : List Tree)
    (sp pa : Option Nat) (τ : Nat) (h : randTrace rt = some τ) :
    ∀ r ∈ ref none sp pa (.span id true rt rs user children), r.trace = some τ := by
    intro r hr
    simp only [ref, if_true, List.mem_append, List.mem_singleton] at hr
    rcases hr with hr | hr
    · exact one_traceL children _ _ _ τ (by simp [h]) r hr
    · simp [hr, h]


/-! ### span ids -/

mutual
/-- the u64 rng readings consumed by the ENABLED spans of a tree, in completion order -/
def sids : Tree → List (Option Nat)
  | .span _ enabled _ rs _ ch => if enabled then sidsL ch ++ [rs] else sidsL ch
  | .group _ ch => sidsL ch
  | .catch_ ch => sidsL ch
  | _ => []
def sidsL : List Tree → List (Option Nat)
  | [] => []
  | x :: xs => sids x ++ (if x.panics then [] else sidsL xs)
end

/-- a reading the random source is supposed to give: present, non-zero, 64 bit -/
def Good (r : Option Nat) : Prop := ∃ n, r = some n ∧ 0 < n ∧ n < 2 ^ 64

theorem randSpan_good (r : Option Nat) (h : Good r) : randSpan r = r := by
  obtain ⟨n, rfl, h0, h1⟩ := h
  simp [randSpan, h1, nz, Nat.ne_of_gt h0]

def isSpanRec (r : Rec) : Bool := r.kind == "s"

mutual
theorem span_ids (tree : Tree) (tr sp pa : Option Nat) (hg : ∀ r ∈ sids tree, Good r) :
    ((ref tr sp pa tree).filter isSpanRec).map (·.span) = sids tree := by
  cases tree with
  | event eid own => simp [ref, sids, isSpanRec]
  | cur cid => simp [ref, sids, isSpanRec]
  | span id enabled rt rs user children =>
    cases enabled with
    | false =>
      simp only [sids, Bool.false_eq_true, if_false] at hg ⊢
      simp only [ref, Bool.false_eq_true, if_false]; exact span_idsL children tr sp pa hg
    | true =>
      simp only [sids, if_true] at hg ⊢
      have hrs : Good rs := hg rs (by simp)
      simp only [ref, if_true, List.filter_append, List.map_append]
      rw [span_idsL children _ _ _ (fun r hr => hg r (by simp [hr]))]
      simp [isSpanRec, randSpan_good rs hrs]
      obtain ⟨n, rfl, _, _⟩ := hrs
      simp
  | group t children =>
    simp only [sids] at hg ⊢
    simp only [ref]; exact span_idsL children tr sp pa hg
  | panic => simp [ref, sids]
  | catch_ children =>
    simp only [sids] at hg ⊢
    simp only [ref]; exact span_idsL children tr sp pa hg
theorem span_idsL (ts : List Tree) (tr sp pa : Option Nat) (hg : ∀ r ∈ sidsL ts, Good r) :
    ((refL tr sp pa ts).filter isSpanRec).map (·.span) = sidsL ts := by
  cases ts with
  | nil => simp [refL, sidsL]
  | cons x xs =>
    simp only [sidsL] at hg ⊢
    simp only [refL, List.filter_append, List.map_append]
    rw [span_ids x tr sp pa (fun r hr => hg r (by simp [hr]))]
    cases hp : x.panics with
    | true => simp
    | false =>
      simp only [hp, Bool.false_eq_true, if_false] at hg ⊢
      rw [span_idsL xs tr sp pa (fun r hr => hg r (by simp [hr]))]
end

/-- **ids_distinct.** If the random source gives the enabled spans good readings (present, non-zero) that do not
    repeat, the completed spans' ids are exactly those readings: non-zero and pairwise distinct. -/
theorem ids_distinct (ts : List Tree) (tr sp pa : Option Nat) (hg : ∀ r ∈ sidsL ts, Good r)
    (hd : (sidsL ts).Nodup) :
    (((refL tr sp pa ts).filter isSpanRec).map (·.span)).Nodup ∧
    ∀ r ∈ (refL tr sp pa ts).filter isSpanRec, ∃ n, r.span = some n ∧ n ≠ 0 := by
  have h := span_idsL ts tr sp pa hg
  refine ⟨h ▸ hd, fun r hr => ?_⟩
  have : r.span ∈ sidsL ts := h ▸ List.mem_map_of_mem hr
  obtain ⟨n, hn, h0, _⟩ := hg _ this
  exact ⟨n, hn, Nat.ne_of_gt h0⟩

/-- a zero or missing rng reading gives an ABSENT id, never a zero one -/
theorem rng_zero_absent (cur : SpanCtxt) (rt : Option Nat) :
    (newChild cur rt none).span = none ∧ (newChild cur rt (some 0)).span = none ∧
    (newChild ⟨none, cur.parent, cur.span⟩ none rt).trace = none ∧
    (newChild ⟨none, cur.parent, cur.span⟩ (some 0) rt).trace = none := by
  simp [newChild, randSpan, randTrace, nz]


/-! ### parents -/

/-- **parent_is_enclosing**, spelled out on the trace tree `ref tr sp pa` (`sp` = the id of the innermost enabled
    span around this point, or the incoming span id; `pa` = that span's parent):
    an event (and `SpanCtxt::current`) carries `sp`; a span rejected by the filter contributes nothing — its
    children see `sp`; an enabled span with a good reading `rs` reports parent `sp` (when there is one) and id
    `rs`, and its children see `rs` with parent `sp`. -/
theorem parent_is_enclosing (tr sp pa : Option Nat) :
    (∀ eid own, ref tr sp pa (.event eid own) = [⟨"e", some eid, tr, pa, sp⟩]) ∧
    (∀ cid, ref tr sp pa (.cur cid) = [⟨"c", some cid, tr, pa, sp⟩]) ∧
    (∀ id rt rs user ch, ref tr sp pa (.span id false rt rs user ch) = refL tr sp pa ch) ∧
    (∀ id rt rs user ch, Good rs →
      ref tr sp pa (.span id true rt rs user ch) =
        refL (tr.or (randTrace rt)) rs (sp.or pa) ch ++ [⟨"s", some id, tr.or (randTrace rt), sp.or pa, rs⟩]) ∧
    (∀ x, sp = some x → sp.or pa = some x) := by
  refine ⟨fun _ _ => rfl, fun _ => rfl, fun _ _ _ _ _ => by simp [ref], ?_, fun x h => by simp [h]⟩
  intro id rt rs user ch hg
  have h := randSpan_good rs hg
  obtain ⟨n, rfl, _, _⟩ := hg
  simp [ref, h]

mutual
/-- Every id a record mentions resolves inside the tree: a record's span id is the enclosing `sp` or the id of
    a completed span of this tree; a completed span's parent is the enclosing `sp` (`pa` if there is none) or
    the id of a completed span of this tree. -/
theorem ids_resolve (tree : Tree) (tr sp pa : Option Nat) (hg : ∀ r ∈ sids tree, Good r) :
    ∀ r ∈ ref tr sp pa tree, (r.span = sp ∨ r.span ∈ sids tree) ∧
      (isSpanRec r = true → r.parent = sp.or pa ∨ r.parent ∈ sids tree) := by
  cases tree with
  | event eid own => intro r hr; simp [ref] at hr; simp [hr, isSpanRec]
  | cur cid => intro r hr; simp [ref] at hr; simp [hr, isSpanRec]
  | span id enabled rt rs user children =>
    cases enabled with
    | false =>
      simp only [sids, Bool.false_eq_true, if_false] at hg ⊢
      simp only [ref, Bool.false_eq_true, if_false]; exact ids_resolveL children tr sp pa hg
    | true =>
      simp only [sids, if_true] at hg ⊢
      have hrs : Good rs := hg rs (by simp)
      have h := randSpan_good rs hrs
      intro r hr
      simp only [ref, if_true, List.mem_append, List.mem_singleton] at hr
      rcases hr with hr | hr
      · obtain ⟨h1, h2⟩ := ids_resolveL children _ _ _ (fun r hr => hg r (by simp [hr])) r hr
        obtain ⟨n, rfl, _, _⟩ := hrs
        simp only [h, Option.some_or] at h1 h2
        refine ⟨Or.inr ?_, fun hs => Or.inr ?_⟩
        · rcases h1 with h1 | h1 <;> simp [h1]
        · rcases h2 hs with h2 | h2 <;> simp [h2]
      · obtain ⟨n, rfl, _, _⟩ := hrs
        simp [hr, h]
  | group t children =>
    simp only [sids] at hg ⊢
    simp only [ref]; exact ids_resolveL children tr sp pa hg
  | panic => intro r hr; simp [ref] at hr
  | catch_ children =>
    simp only [sids] at hg ⊢
    simp only [ref]; exact ids_resolveL children tr sp pa hg
theorem ids_resolveL (ts : List Tree) (tr sp pa : Option Nat) (hg : ∀ r ∈ sidsL ts, Good r) :
    ∀ r ∈ refL tr sp pa ts, (r.span = sp ∨ r.span ∈ sidsL ts) ∧
      (isSpanRec r = true → r.parent = sp.or pa ∨ r.parent ∈ sidsL ts) := by
  cases ts with
  | nil => intro r hr; simp [refL] at hr
  | cons x xs =>
    simp only [sidsL] at hg ⊢
    intro r hr
    simp only [refL, List.mem_append] at hr
    rcases hr with hr | hr
    · obtain ⟨h1, h2⟩ := ids_resolve x tr sp pa (fun r hr => hg r (by simp [hr])) r hr
      exact ⟨h1.imp_right (fun h => List.mem_append_left _ h), fun hs => (h2 hs).imp_right (fun h => List.mem_append_left _ h)⟩
    · cases hp : x.panics with
      | true => simp [hp] at hr
      | false =>
        simp only [hp, Bool.false_eq_true, if_false] at hg hr ⊢
        obtain ⟨h1, h2⟩ := ids_resolveL xs tr sp pa (fun r hr => hg r (by simp [hr])) r hr
        exact ⟨h1.imp_right (fun h => List.mem_append_right _ h), fun hs => (h2 hs).imp_right (fun h => List.mem_append_right _ h)⟩
end

/-- **completion_carries_span_ids.** A span's own completion event is emitted INSIDE its frame — by the guard's
    drop (default completion, also while unwinding: panic completion) and by `complete_with` in the macro's
    `Ok` / `Err` arms alike (macros/src/span.rs result_completion; macro_hooks.rs `__PrivateCompleteSpanOk` /
    `__PrivateCompleteSpanErr` pass `rt.ctxt()` to `emit`), which is why the model has one completion step and no
    exit-path parameter. So the completion record carries exactly the ids `SpanCtxt::current` reads at the end
    of the body: the span's own trace id, parent and span id — the id its children and inner events refer to. -/
theorem completion_carries_span_ids (amb : List (String × IdVal)) (id k : Nat) (rt rs : Option Nat)
    (user : List (String × IdVal)) (children : List Tree) (hp : Span.panicsL children = false) :
    ∃ x : Rec, x.kind = "c" ∧ x.tag = some k ∧
      spec amb (.span id true rt rs user (children ++ [.cur k])) =
        specL (insertAll amb (spanProps id user (newChild (current amb) rt rs))) children ++
          [x, ⟨"s", pullNum (insertAll amb (spanProps id user (newChild (current amb) rt rs))) "id",
               x.trace, x.parent, x.span⟩] := by
  have happ : ∀ (a : List (String × IdVal)) (xs : List Tree), Span.panicsL xs = false →
      specL a (xs ++ [.cur k]) = specL a xs ++ [recOf "c" (some k) a] := by
    intro a xs
    induction xs with
    | nil => intro _; simp [specL, spec, Tree.panics]
    | cons y ys ih =>
      intro h
      simp only [Span.panicsL, Bool.or_eq_false_iff] at h
      simp [specL, h.1, ih h.2]
  refine ⟨recOf "c" (some k) (insertAll amb (spanProps id user (newChild (current amb) rt rs))), rfl, rfl, ?_⟩
  simp [spec, happ _ _ hp, recOf]

/-- **driver_trace_tree.** What the driver computes for a case, end to end: the incoming props are pushed by an
    outer frame, the tree runs inside it on the C03 machine; for clean trees the records are the trace tree of
    the incoming ids, whatever form those were given in. -/
theorem driver_trace_tree (incoming : List (String × IdVal)) (ts : List Tree) (hc : CleanL ts) (inl : Bool) :
    let s2 := step (step (St.init IdVal inl) (.open 0 0 0 Kind.push incoming)) (.enter 0 0 0)
    let inc := current (insertAll [] incoming)
    (runL 0 0 ts s2 1).1 = refL inc.trace inc.span inc.parent ts := by
  intro s2 inc
  have : (s2.active 0 0).getD [] = insertAll [] incoming := by
    simp [s2, step, swap, setActive, setSlot, St.init, openFrame]
  rw [trace_tree ts hc 0 0 s2 1, this]

/-! ### Holders: how the runtime holds its rng, and the traceparent context -/

mutual
/-- **rng_holders_transparent** (G18). Every holder but `Option::None` — `&T`, `Some(T)`, `Box<T>`, `Arc<T>`,
    `AssertInternal<T>`, `dyn ErasedRng` — leaves the tree, hence every record of every theorem above, as it is. -/
theorem rng_holders_transparent (h : RngHolder) (hne : h ≠ .none_) : ∀ t : Tree, t.hold h = t
  | .span id en rt rs user ch => by
    have hr : ∀ r, h.read r = r := by intro r; cases h <;> simp_all [RngHolder.read]
    simp [Tree.hold, hr, rng_holders_transparentL h hne ch]
  | .group t ch => by simp [Tree.hold, rng_holders_transparentL h hne ch]
  | .catch_ ch => by simp [Tree.hold, rng_holders_transparentL h hne ch]
  | .event _ _ => rfl
  | .cur _ => rfl
  | .panic => rfl
theorem rng_holders_transparentL (h : RngHolder) (hne : h ≠ .none_) : ∀ ts : List Tree, holdL h ts = ts
  | [] => rfl
  | x :: xs => by simp [holdL, rng_holders_transparent h hne x, rng_holders_transparentL h hne xs]
end

mutual
/-- the holder does not change where a tree panics -/
theorem hold_panics (h : RngHolder) : ∀ t : Tree, (t.hold h).panics = t.panics
  | .span _ _ _ _ _ ch => by simp [Tree.hold, Tree.panics, hold_panicsL h ch]
  | .group _ ch => by simp [Tree.hold, Tree.panics, hold_panicsL h ch]
  | .catch_ _ => by simp [Tree.hold, Tree.panics]
  | .event _ _ => rfl
  | .cur _ => rfl
  | .panic => rfl
theorem hold_panicsL (h : RngHolder) : ∀ ts : List Tree, Span.panicsL (holdL h ts) = Span.panicsL ts
  | [] => rfl
  | x :: xs => by simp [holdL, Span.panicsL, hold_panics h x, hold_panicsL h xs]
end

mutual
/-- **rng_none_draws_nothing** (G18). With `Option::None` as the rng no id is ever generated: every record of
    the whole tree carries the trace id and span id that were in force outside it (the incoming ones, or none). -/
theorem rng_none_draws_nothing (tr sp : Option Nat) : ∀ (t : Tree) (pa : Option Nat),
    ∀ r ∈ ref tr sp pa (t.hold .none_), r.trace = tr ∧ r.span = sp ∧ (r.parent = pa ∨ r.parent = sp.or pa)
  | .event _ _, pa => by simp [Tree.hold, ref]
  | .cur _, pa => by simp [Tree.hold, ref]
  | .panic, pa => by simp [Tree.hold, ref]
  | .group _ ch, pa => by simpa [Tree.hold, ref] using rng_none_draws_nothingL tr sp ch pa
  | .catch_ ch, pa => by simpa [Tree.hold, ref] using rng_none_draws_nothingL tr sp ch pa
  | .span id en rt rs user ch, pa => by
    intro r hr
    simp only [Tree.hold, RngHolder.read, ref, randTrace, randSpan, Option.bind_none, Option.or_none,
      Option.none_or] at hr
    split at hr
    · rcases List.mem_append.1 hr with h | h
      · obtain ⟨h1, h2, h3⟩ := rng_none_draws_nothingL tr sp ch (sp.or pa) r h
        refine ⟨h1, h2, Or.inr ?_⟩
        rcases h3 with h3 | h3
        · exact h3
        · rw [h3]; cases sp <;> simp
      · simp at h; subst h; simp
    · exact rng_none_draws_nothingL tr sp ch pa r hr
theorem rng_none_draws_nothingL (tr sp : Option Nat) : ∀ (ts : List Tree) (pa : Option Nat),
    ∀ r ∈ refL tr sp pa (holdL .none_ ts), r.trace = tr ∧ r.span = sp ∧ (r.parent = pa ∨ r.parent = sp.or pa)
  | [], pa => by simp [holdL, refL]
  | x :: xs, pa => by
    intro r hr
    simp only [holdL, refL] at hr
    rcases List.mem_append.1 hr with h | h
    · exact rng_none_draws_nothing tr sp x pa r h
    · split at h
      · simp at h
      · exact rng_none_draws_nothingL tr sp xs pa r h
end

open EmitModel.Traceparent in
/-- **tp_frame_shows_child_ids.** Under `TraceparentCtxt` a span's frame does not store its ids in the wrapped
    context; `open_push` turns them into the frame's traceparent slot and `with_current` synthesises them from
    the active traceparent. For a span whose ids are in the class `tpClass` — a span id that differs from the
    active one, the inherited trace id when one is active — inside a sampled, valid (or absent) active
    traceparent, what is synthesised inside the frame is exactly the child's `SpanCtxt` (trace id, parent =
    the enclosing span id, span id): the ids the plain context shows after `Frame::push(ctxt_props ++ ids)`
    (`Span.current_push`). So on the class the two contexts give the same records. -/
theorem tp_frame_shows_child_ids (c : Cfg) (st : Option Active) (hv : st.filter (fun a => a.tp.valid) = st)
    (hs : ∀ a, st = some a → a.tp.sampled = true) (tr : Option Id) (sid : Id)
    (hne : st.bind (·.tp.spanId) ≠ some sid)
    (htr : ∀ a, st = some a → tr = a.tp.traceId) (calls : Nat) :
    ∃ a, (incoming c false st tr (some sid) .all calls).1 = some a ∧
      ambientIds (some a) = ⟨tr, (ambientIds st).spanId, some sid⟩ := by
  cases st with
  | none => exact ⟨⟨⟨tr, some sid, 1⟩, none, 0⟩, by simp [incoming, applyMask], by simp [ambientIds, TP.sampled, Ids.empty]⟩
  | some a0 =>
    have hs0 := hs a0 rfl
    have ht0 := htr a0 rfl
    have hne' : (a0.tp.spanId == some sid) = false := by
      simpa using hne
    refine ⟨⟨⟨a0.tp.traceId, some sid, a0.tp.flags % 256⟩, a0.tp.spanId, a0.state⟩, ?_, ?_⟩
    · simp only [incoming, hv, Option.bind_some]
      simp [hne', applyMask]
    · have : (a0.tp.flags % 256) % 2 = a0.tp.flags % 2 := by omega
      simp only [TP.sampled] at hs0
      simp [ambientIds, TP.sampled, this, hs0, ht0]

open EmitModel.Traceparent in
/-- **tp_enter_exit_symmetric.** `TraceparentCtxt::enter` and `exit` are the same swap of the frame's slot with
    the thread's active traceparent: one after the other restores frame and thread exactly — for every frame,
    active or not, and every thread state. By induction, a span polled any number of times (`FrameFuture::poll`
    = enter, poll, exit) shows the same ids in every poll and leaves the thread as it found it after each. -/
theorem tp_enter_exit_symmetric (f : Frm) (st : Option Active) :
    ((f.swap st).1.swap (f.swap st).2) = (f, st) ∧
    (∀ n : Nat, (Nat.repeat (fun p : Frm × Option Active => (p.1.swap p.2).1.swap (p.1.swap p.2).2) n (f, st)) = (f, st)) := by
  have h1 : ∀ (f : Frm) (st : Option Active), ((f.swap st).1.swap (f.swap st).2) = (f, st) := by
    intro f st
    obtain ⟨a, sl⟩ := f
    cases a <;> simp [Frm.swap]
  refine ⟨h1 f st, fun n => ?_⟩
  induction n with
  | zero => rfl
  | succ n ih => simp only [Nat.repeat, ih]; exact h1 f st

/-! ### Non-vacuity and the forms incoming ids come in -/

example : castTrace (.trace 42) = some 42 ∧ castTrace (.num 42) = some 42 ∧
    castTrace (.text "0000000000000000000000000000002a") = some 42 ∧
    castTrace (.text "0000000000000000000000000000002A") = some 42 := by decide
example : castSpan (.span 255) = some 255 ∧ castSpan (.num 255) = some 255 ∧
    castSpan (.text "00000000000000ff") = some 255 := by decide
-- not ids: the other id type, zero, wrong length, a non-hex char, a number too large for a span id
example : castTrace (.span 5) = none ∧ castSpan (.trace 5) = none ∧ castTrace (.num 0) = none ∧
    castSpan (.text "0000000000000000") = none ∧ castSpan (.text "ff") = none ∧
    castSpan (.text "000000000000000g") = none ∧ castSpan (.num (2 ^ 64)) = none := by decide
-- a 16-digit decimal number is a number, not hex text
example : castSpan (.num 1234567890123456) = some 1234567890123456 := by decide
example : (IdVal.trace 42).display = "0000000000000000000000000000002a" := by decide

/-- incoming trace as hex text and span id as u64; a disabled span between two enabled ones; a group on thread 2 -/
def demo : List Tree :=
  [.span 1 true (some 7) (some 11) []
     [.event 2 [],
      .span 3 false none (some 12) [] [.span 4 true none (some 13) [] [.cur 5], .event 6 []],
      .group 2 [.span 7 true none (some 14) [("user", .num 1)] []]]]

def demoIncoming : List (String × IdVal) :=
  [("trace_id", .text "0000000000000000000000000000002a"), ("span_id", .num 9)]

example : CleanL demo := by simp [demo, CleanL, Clean, NoKeys, idKeys]
example : (∀ r ∈ sidsL demo, Good r) ∧ (sidsL demo).Nodup := by
  simp [demo, sidsL, sids, Good, Tree.panics, Span.panicsL]
example :
    (runL 0 0 demo (step (step (St.init IdVal true) (.open 0 0 0 Kind.push demoIncoming)) (.enter 0 0 0)) 1).1 =
      [⟨"e", some 2, some 42, some 9, some 11⟩, ⟨"c", some 5, some 42, some 11, some 13⟩,
       ⟨"s", some 4, some 42, some 11, some 13⟩, ⟨"e", some 6, some 42, some 9, some 11⟩,
       ⟨"s", some 7, some 42, some 11, some 14⟩, ⟨"s", some 1, some 42, some 9, some 11⟩] := by
  decide

/-- a span whose body panics below a second span; the panic is caught; then an event and a new root span:
    both unwound spans complete with their own ids, the event carries no ids, the new span has no parent -/
def demoPanic : List Tree :=
  [.catch_ [.span 1 true (some 7) (some 11) [] [.span 2 true none (some 12) [] [.event 3 [], .panic, .event 4 []],
                                               .event 5 []]],
   .event 6 [], .span 7 true (some 8) (some 13) [] []]

example : Span.panicsL [.span 1 true (some 7) (some 11) [] [.span 2 true none (some 12) [] [.event 3 [], .panic]]] = true := by
  decide
example :
    (runL 0 0 demoPanic (St.init IdVal true) 0).1 =
      [⟨"e", some 3, some 7, some 11, some 12⟩, ⟨"s", some 2, some 7, some 11, some 12⟩,
       ⟨"s", some 1, some 7, none, some 11⟩, ⟨"e", some 6, none, none, none⟩,
       ⟨"s", some 7, some 8, none, some 13⟩] := by
  decide

end EmitModel.C04
