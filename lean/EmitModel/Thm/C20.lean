/-
  Thm/C20.lean — property C20: a runtime slot is initialised at most once and is inert before that.
  All theorems quantify over every label list = every interleaving of any number of initialisers, emitters
  and observers, given that `OnceLock::set`/`get` are linearisable (trusted, see props/C20.json).
-/
import EmitModel.Model.Slot

namespace EmitModel.C20
open EmitModel.Slot

def final (ls : List Label) : State := (run init0 ls).1
def winners (s : State) : List Nat := (s.inits.filter (·.2)).map (·.1)

/-- The invariant tying the ghost history to the cell. -/
structure Inv (s : State) : Prop where
  winners_slot : winners s = s.slot.toList
  received_winner : ∀ p ∈ s.received, s.slot = some p.1
  none_fresh : s.slot = none → s.received = [] ∧ ∀ p ∈ s.inits, p.2 = false

theorem inv_init : Inv init0 := ⟨rfl, by simp [init0], by simp [init0]⟩

theorem inv_step (s : State) (l : Label) (h : Inv s) : Inv (step s l).1 := by
  obtain ⟨h1, h2, h3⟩ := h
  cases l with
  | init i =>
    cases hs : s.slot with
    | none =>
      have := h3 hs
      refine ⟨?_, ?_, ?_⟩
      · simp [step, hs, winners] at h1 ⊢; simpa [winners] using h1
      · simp [step, hs, this.1]
      · simp [step, hs]
    | some w =>
      refine ⟨?_, ?_, ?_⟩
      · simpa [step, hs, winners] using h1
      · simpa [step, hs] using h2
      · simp [step, hs]
  | observe => exact ⟨h1, h2, h3⟩
  | emit e =>
    cases hs : s.slot with
    | none => simpa [step, hs] using (⟨by simpa [hs] using h1, by simpa [hs] using h2, by simpa [hs] using h3⟩ : Inv s)
    | some w =>
      refine ⟨?_, ?_, ?_⟩
      · simpa [step, hs, winners] using h1
      · intro p hp
        simp only [step, hs, List.mem_cons] at hp ⊢
        rcases hp with rfl | hp
        · rfl
        · simpa [hs] using h2 p hp
      · simp [step, hs]
  | flush => exact ⟨h1, h2, h3⟩
  | enabled => exact ⟨h1, h2, h3⟩

theorem run_append (s : State) (a b : List Label) :
    (run s (a ++ b)).1 = (run (run s a).1 b).1 := by
  induction a generalizing s with
  | nil => rfl
  | cons l a ih => simp only [List.cons_append, run]; exact ih _

theorem inv_run (s : State) (ls : List Label) (h : Inv s) : Inv (run s ls).1 := by
  induction ls generalizing s with
  | nil => exact h
  | cons l rest ih => simp only [run]; exact ih _ (inv_step s l h)

/-- **Exactly one winner.** Under every interleaving at most one `init` reports success, and exactly one if
    any `init` ran at all; every other attempt reports failure (`init_slot` panics for those). -/
theorem at_most_one_winner (ls : List Label) :
    (winners (final ls)).length ≤ 1 ∧
    ((∃ i, Label.init i ∈ ls) → (winners (final ls)).length = 1) := by
  have hinv := inv_run init0 ls inv_init
  refine ⟨by rw [final, hinv.winners_slot]; cases (run init0 ls).1.slot <;> simp, ?_⟩
  rintro ⟨i, hi⟩
  rw [final, hinv.winners_slot]
  -- after an init the cell is full
  suffices ∀ s : State, (∃ i, Label.init i ∈ ls) ∨ s.slot.isSome → (run s ls).1.slot.isSome by
    have := this init0 (Or.inl ⟨i, hi⟩)
    cases h : (run init0 ls).1.slot <;> simp_all
  clear hinv hi i
  induction ls with
  | nil => intro s h; rcases h with ⟨i, hi⟩ | h; simp at hi; exact h
  | cons l rest ih =>
    intro s h
    simp only [run]
    apply ih
    by_cases hr : ∃ i, Label.init i ∈ rest
    · exact Or.inl hr
    · right
      rcases h with ⟨i, hi⟩ | h
      · have : l = .init i := by
          rcases List.mem_cons.mp hi with e | e
          · exact e.symm
          · exact absurd ⟨i, e⟩ hr
        subst this
        cases hs : s.slot <;> simp [step, hs]
      · cases l <;> cases hs : s.slot <;> simp_all [step]

/-- **Losers are never used.** Every event ever delivered went to the emitter of the configuration whose
    `init` succeeded; a configuration whose `init` failed receives nothing, under every interleaving. -/
theorem losers_never_used (ls : List Label) (cfg e : Nat) (h : (cfg, e) ∈ (final ls).received) :
    (final ls).slot = some cfg ∧ winners (final ls) = [cfg] := by
  have hinv := inv_run init0 ls inv_init
  have := hinv.received_winner (cfg, e) h
  exact ⟨this, by rw [final, hinv.winners_slot]; simp [final] at this; simp [this]⟩

/-- **Once enabled, always the same winner, all five components together.** From any state in which the cell
    holds `w`, every later observation — after any further steps by any threads — reads all five components
    of `w`, `is_enabled` is true and events go to `w`. -/
theorem all_or_nothing (s : State) (w : Nat) (h : s.slot = some w) (ls : List Label) :
    (run s ls).1.slot = some w ∧
    (step (run s ls).1 .observe).2 = .components (some (w, w, w, w, w)) ∧
    (step (run s ls).1 .enabled).2 = .isEnabled true ∧
    ∀ e, (step (run s ls).1 (.emit e)).2 = .emitted (some w) := by
  have key : (run s ls).1.slot = some w := by
    induction ls generalizing s with
    | nil => exact h
    | cons l rest ih =>
      simp only [run]; apply ih
      cases l <;> simp [step, h]
  refine ⟨key, by simp [step, key], by simp [step, key], fun e => by simp [step, key]⟩

/-- **Inert before initialisation.** While no `init` has run, emitting delivers nothing, flush returns true,
    observers see the empty runtime, `is_enabled` is false, and nothing is recorded anywhere. -/
theorem inert_before (ls : List Label) (h : ∀ i, Label.init i ∉ ls) :
    (final ls).slot = none ∧ (final ls).received = [] ∧
    ∀ o ∈ (run init0 ls).2, o = .emitted none ∨ o = .flushed true ∨ o = .components none ∨ o = .isEnabled false := by
  suffices ∀ s : State, s.slot = none → s.received = [] →
      (run s ls).1.slot = none ∧ (run s ls).1.received = [] ∧
      ∀ o ∈ (run s ls).2, o = .emitted none ∨ o = .flushed true ∨ o = .components none ∨ o = .isEnabled false from
    this init0 rfl rfl
  induction ls with
  | nil => intro s h1 h2; simp [run, h1, h2]
  | cons l rest ih =>
    intro s h1 h2
    have hl : ∀ i, l ≠ .init i := fun i e => h i (by simp [e])
    have hrest : ∀ i, Label.init i ∉ rest := fun i e => h i (by simp [e])
    simp only [run]
    cases l with
    | init i => exact absurd rfl (hl i)
    | observe =>
      obtain ⟨a, b, c⟩ := ih hrest s h1 h2
      exact ⟨by simpa [step] using a, by simpa [step] using b, by
        intro o ho; simp only [step, List.mem_cons] at ho
        rcases ho with rfl | ho
        · simp [h1]
        · exact c o ho⟩
    | emit e =>
      obtain ⟨a, b, c⟩ := ih hrest s h1 h2
      refine ⟨by simpa [step, h1] using a, by simpa [step, h1] using b, ?_⟩
      intro o ho; simp only [step, h1, List.mem_cons] at ho
      rcases ho with rfl | ho
      · simp
      · exact c o ho
    | flush =>
      obtain ⟨a, b, c⟩ := ih hrest s h1 h2
      refine ⟨by simpa [step] using a, by simpa [step] using b, ?_⟩
      intro o ho; simp only [step, List.mem_cons] at ho
      rcases ho with rfl | ho
      · simp
      · exact c o ho
    | enabled =>
      obtain ⟨a, b, c⟩ := ih hrest s h1 h2
      refine ⟨by simpa [step] using a, by simpa [step] using b, ?_⟩
      intro o ho; simp only [step, List.mem_cons] at ho
      rcases ho with rfl | ho
      · simp [h1]
      · exact c o ho

/-! ### Non-vacuity -/
example : winners (final [.emit 1, .init 3, .init 4, .emit 2, .init 3]) = [3] := by decide
example : (final [.emit 1, .init 3, .init 4, .emit 2]).received = [(3, 2)] := by decide


/-! ### Two slots never influence each other -/

/-- the steps of a two-slot schedule that address slot `k` -/
def only (k : Bool) (ls : List (Bool × Label)) : List Label := (ls.filter fun x => x.1 == k).map (·.2)

/-- **Slots are independent.** Under every schedule over two slots, each slot ends in exactly the state it would
    reach if only the steps addressed to it had been run: losing (or winning) the initialisation of one slot — on
    whatever thread — never affects whether an initialisation of the other succeeds, what it observes or where its
    events go. (So every single-slot theorem above applies to each slot of a process separately.) -/
theorem slots_independent (ls : List (Bool × Label)) (s : State × State) :
    (run2 s ls).1 = ((run s.1 (only false ls)).1, (run s.2 (only true ls)).1) := by
  induction ls generalizing s with
  | nil => rfl
  | cons x rest ih =>
    obtain ⟨k, l⟩ := x
    cases k
    · simp only [run2, step2, only, List.filter, List.map, Bool.false_eq_true, if_false, beq_self_eq_true, run]
      rw [ih]
      simp [only]
    · simp only [run2, step2, only, List.filter, List.map, if_true, beq_self_eq_true, run]
      rw [ih]
      simp [only]

example : ((run2 (init0, init0) [(false, .init 1), (false, .init 2), (true, .init 3), (true, .emit 9)]).1.2).received = [(3, 9)] := by
  decide


end EmitModel.C20
