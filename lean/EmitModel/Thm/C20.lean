/-
  Thm/C20.lean — property C20: a runtime slot is initialised at most once and is inert before that.
  All theorems quantify over every label list = every interleaving of any number of initialisers, emitters
  and observers, given that `OnceLock::set`/`get` are linearisable (trusted, see props/C20.json).
-/
import EmitModel.Model.Slot

namespace EmitModel.C20
open EmitModel.Slot

def final (ls : List Label) : State := (run init0 ls).1
def winners (s : State) : List Nat := (s.inits.filter (·.2)).map (·.1)

/-- The invariant tying the ghost history to the cell. -/
structure Inv (s : State) : Prop where
  winners_slot : winners s = s.slot.toList
  received_winner : ∀ p ∈ s.received, s.slot = some p.1
  none_fresh : s.slot = none → s.received = [] ∧ ∀ p ∈ s.inits, p.2 = false

theorem inv_init : Inv init0 := ⟨rfl, by simp [init0], by simp [init0]⟩

theorem inv_step (s : State) (l : Label) (h : Inv s) : Inv (step s l).1 := by
  obtain ⟨h1, h2, h3⟩ := h
  cases l with
  | init i =>
    cases hs : s.slot with
    | none =>
      have := h3 hs
      refine ⟨?_, ?_, ?_⟩
      · simp [step, hs, winners] at h1 ⊢; simpa [winners] using h1
      · simp [step, hs, this.1]
      · simp [step, hs]
    | some w =>
      refine ⟨?_, ?_, ?_⟩
      · simpa [step, hs, winners] using h1
      · simpa [step, hs] using h2
      · simp [step, hs]
  | observe => exact ⟨h1, h2, h3⟩
  | emit e =>
    cases hs : s.slot with
    | none => simpa [step, hs] using (⟨by simpa [hs] using h1, by simpa [hs] using h2, by simpa [hs] using h3⟩ : Inv s)
    | some w =>
      refine ⟨?_, ?_, ?_⟩
      · simpa [step, hs, winners] using h1
      · intro p hp
        simp only [step, hs, List.mem_cons] at hp ⊢
        rcases hp with rfl | hp
        · rfl
        · simpa [hs] using h2 p hp
      · simp [step, hs]
  | flush => exact ⟨h1, h2, h3⟩
  | enabled => exact ⟨h1, h2, h3⟩

theorem run_append (s : State) (a b : List Label) :
    (run s (a ++ b)).1 = (run (run s a).1 b).1 := by
  induction a generalizing s with
  | nil => rfl
  | cons l a ih => simp only [List.cons_append, run]; exact ih _

theorem inv_run (s : State) (ls : List Label) (h : Inv s) : Inv (run s ls).1 := by
  induction ls generalizing s with
  | nil => exact h
  | cons l rest ih => simp only [run]; exact ih _ (inv_step s l h)

/-- **Exactly one winner.** Under every interleaving at most one `init` reports success, and exactly one if
    any `init` ran at all; every other attempt reports failure (`init_slot` panics for those). -/
theorem at_most_one_winner (ls : List Label) :
    (winners (final ls)).length ≤ 1 ∧
    ((∃ i, Label.init i ∈ ls) → (winners (final ls)).length = 1) := by
  have hinv := inv_run init0 ls inv_init
  refine ⟨by rw [final, hinv.winners_slot]; cases (run init0 ls).1.slot <;> simp, ?_⟩
  rintro ⟨i, hi⟩
  rw [final, hinv.winners_slot]
  -- after an init the cell is full
  suffices ∀ s : State, (∃ i, Label.init i ∈ ls) ∨ s.slot.isSome → (run s ls).1.slot.isSome by
    have := this init0 (Or.inl ⟨i, hi⟩)
    cases h : (run init0 ls).1.slot <;> simp_all
  clear hinv hi i
  induction ls with
  | nil => intro s h; rcases h with ⟨i, hi⟩ | h; simp at hi; exact h
  | cons l rest ih =>
    intro s h
    simp only [run]
    apply ih
    by_cases hr : ∃ i, Label.init i ∈ rest
    · exact Or.inl hr
    · right
      rcases h with ⟨i, hi⟩ | h
      · have : l = .init i := by
          rcases List.mem_cons.mp hi with e | e
          · exact e.symm
          · exact absurd ⟨i, e⟩ hr
        subst this
        cases hs : s.slot <;> simp [step, hs]
      · cases l <;> cases hs : s.slot <;> simp_all [step]

/-- **Losers are never used.** Every event ever delivered went to the emitter of the configuration whose
    `init` succeeded; a configuration whose `init` failed receives nothing, under every interleaving. -/
theorem losers_never_used (ls : List Label) (cfg e : Nat) (h : (cfg, e) ∈ (final ls).received) :
    (final ls).slot = some cfg ∧ winners (final ls) = [cfg] := by
  have hinv := inv_run init0 ls inv_init
  have := hinv.received_winner (cfg, e) h
  exact ⟨this, by rw [final, hinv.winners_slot]; simp [final] at this; simp [this]⟩

/-- **Once enabled, always the same winner, all five components together.** From any state in which the cell
    holds `w`, every later observation — after any further steps by any threads — reads all five components
    of `w`, `is_enabled` is true and events go to `w`. -/
theorem all_or_nothing (s : State) (w : Nat) (h : s.slot = some w) (ls : List Label) :
    (run s ls).1.slot = some w ∧
    (step (run s ls).1 .observe).2 = .components (some (w, w, w, w, w)) ∧
    (step (run s ls).1 .enabled).2 = .isEnabled true ∧
    ∀ e, (step (run s ls).1 (.emit e)).2 = .emitted (some w) := by
  have key : (run s ls).1.slot = some w := by
    induction ls generalizing s with
    | nil => exact h
    | cons l rest ih =>
      simp only [run]; apply ih
      cases l <;> simp [step, h]
  refine ⟨key, by simp [step, key], by simp [step, key], fun e => by simp [step, key]⟩

/-- **Inert before initialisation.** While no `init` has run, emitting delivers nothing, flush returns true,
    observers see the empty runtime, `is_enabled` is false, and nothing is recorded anywhere. -/
theorem inert_before (ls : List Label) (h : ∀ i, Label.init i ∉ ls) :
    (final ls).slot = none ∧ (final ls).received = [] ∧
    ∀ o ∈ (run init0 ls).2, o = .emitted none ∨ o = .flushed true ∨ o = .components none ∨ o = .isEnabled false := by
  suffices ∀ s : State, s.slot = none → s.received = [] →
      (run s ls).1.slot = none ∧ (run s ls).1.received = [] ∧
      ∀ o ∈ (run s ls).2, o = .emitted none ∨ o = .flushed true ∨ o = .components none ∨ o = .isEnabled false from
    this init0 rfl rfl
  induction ls with
  | nil => intro s h1 h2; simp [run, h1, h2]
  | cons l rest ih =>
    intro s h1 h2
    have hl : ∀ i, l ≠ .init i := fun i e => h i (by simp [e])
    have hrest : ∀ i, Label.init i ∉ rest := fun i e => h i (by simp [e])
    simp only [run]
    cases l with
    | init i => exact absurd rfl (hl i)
    | observe =>
      obtain ⟨a, b, c⟩ := ih hrest s h1 h2
      exact ⟨by simpa [step] using a, by simpa [step] using b, by
        intro o ho; simp only [step, List.mem_cons] at ho
        rcases ho with rfl | ho
        · simp [h1]
        · exact c o ho⟩
    | emit e =>
      obtain ⟨a, b, c⟩ := ih hrest s h1 h2
      refine ⟨by simpa [step, h1] using a, by simpa [step, h1] using b, ?_⟩
      intro o ho; simp only [step, h1, List.mem_cons] at ho
      rcases ho with rfl | ho
      · simp
      · exact c o ho
    | flush =>
      obtain ⟨a, b, c⟩ := ih hrest s h1 h2
      refine ⟨by simpa [step] using a, by simpa [step] using b, ?_⟩
      intro o ho; simp only [step, List.mem_cons] at ho
      rcases ho with rfl | ho
      · simp
      · exact c o ho
    | enabled =>
      obtain ⟨a, b, c⟩ := ih hrest s h1 h2
      refine ⟨by simpa [step] using a, by simpa [step] using b, ?_⟩
      intro o ho; simp only [step, List.mem_cons] at ho
      rcases ho with rfl | ho
      · simp [h1]
      · exact c o ho

/-! ### Non-vacuity -/
example : winners (final [.emit 1, .init 3, .init 4, .emit 2, .init 3]) = [3] := by decide
example : (final [.emit 1, .init 3, .init 4, .emit 2]).received = [(3, 2)] := by decide


/-! ### Two slots never influence each other -/

/-- the steps of a two-slot schedule that address slot `k` -/
def only (k : Bool) (ls : List (Bool × Label)) : List Label := (ls.filter fun x => x.1 == k).map (·.2)

/-- **Slots are independent.** Under every schedule over two slots, each slot ends in exactly the state it would
    reach if only the steps addressed to it had been run: losing (or winning) the initialisation of one slot — on
    whatever thread — never affects whether an initialisation of the other succeeds, what it observes or where its
    events go. (So every single-slot theorem above applies to each slot of a process separately.) -/
theorem slots_independent (ls : List (Bool × Label)) (s : State × State) :
    (run2 s ls).1 = ((run s.1 (only false ls)).1, (run s.2 (only true ls)).1) := by
  induction ls generalizing s with
  | nil => rfl
  | cons x rest ih =>
    obtain ⟨k, l⟩ := x
    cases k
    · simp only [run2, step2, only, List.filter, List.map, Bool.false_eq_true, if_false, beq_self_eq_true, run]
      rw [ih]
      simp [only]
    · simp only [run2, step2, only, List.filter, List.map, if_true, beq_self_eq_true, run]
      rw [ih]
      simp [only]

example : ((run2 (init0, init0) [(false, .init 1), (false, .init 2), (true, .init 3), (true, .emit 9)]).1.2).received = [(3, 9)] := by
  decide

/-! ## The process-global slots through the public front doors -/

def gfinal (ls : List GLabel) : GState := (grun g0 ls).1


/-- The invariant of the global machine: a filter is stored exactly with a winner, a kept guard belongs to the
    winner of the shared slot, and every delivery and every flush went to a slot's winner. -/
structure GInv (s : GState) : Prop where
  sharedF_iff : s.sharedF.isSome = s.shared.slot.isSome
  internalF_iff : s.internalF.isSome = s.internal.slot.isSome
  guards_winner : ∀ g ∈ s.guards, s.shared.slot = some g.1
  delivered_winner : ∀ d ∈ s.delivered, s.shared.slot = some d.cfg ∨ s.internal.slot = some d.cfg
  flushes_winner : ∀ p ∈ s.flushes, s.shared.slot = some p.1
  guards_le_one : s.guards.length ≤ 1

theorem ginv_init : GInv g0 := ⟨rfl, rfl, by simp [g0], by simp [g0], by simp [g0], by simp [g0]⟩

theorem initShared_spec (s : GState) (i : Nat) (f : FSpec) :
    (s.shared.slot = none → (s.initShared i f).2 = true ∧ (s.initShared i f).1.shared.slot = some i ∧
      (s.initShared i f).1.sharedF = some f) ∧
    (∀ w, s.shared.slot = some w → (s.initShared i f).2 = false ∧ (s.initShared i f).1.shared.slot = some w ∧
      (s.initShared i f).1.sharedF = s.sharedF) ∧
    (s.initShared i f).1.internal = s.internal ∧ (s.initShared i f).1.internalF = s.internalF ∧
    (s.initShared i f).1.guards = s.guards ∧ (s.initShared i f).1.delivered = s.delivered ∧
    (s.initShared i f).1.flushes = s.flushes := by
  cases h : s.shared.slot <;> simp [GState.initShared, step, h]

theorem initInternal_spec (s : GState) (i : Nat) (f : FSpec) :
    (s.internal.slot = none → (s.initInternal i f).2 = true ∧ (s.initInternal i f).1.internal.slot = some i ∧
      (s.initInternal i f).1.internalF = some f) ∧
    (∀ w, s.internal.slot = some w → (s.initInternal i f).2 = false ∧ (s.initInternal i f).1.internal.slot = some w ∧
      (s.initInternal i f).1.internalF = s.internalF) ∧
    (s.initInternal i f).1.shared = s.shared ∧ (s.initInternal i f).1.sharedF = s.sharedF ∧
    (s.initInternal i f).1.guards = s.guards ∧ (s.initInternal i f).1.delivered = s.delivered ∧
    (s.initInternal i f).1.flushes = s.flushes := by
  cases h : s.internal.slot <;> simp [GState.initInternal, step, h]

theorem ginv_initShared (s : GState) (i : Nat) (f : FSpec) (h : GInv s) : GInv (s.initShared i f).1 := by
  obtain ⟨h1, h2, h3, h4, h5, h6⟩ := h
  obtain ⟨a, b, c1, c2, c3, c4, c5⟩ := initShared_spec s i f
  cases hs : s.shared.slot with
  | none =>
    obtain ⟨_, a2, a3⟩ := a hs
    have hg : s.guards = [] := by
      cases hgs : s.guards with
      | nil => rfl
      | cons g gs => have := h3 g (by simp [hgs]); simp [hs] at this
    have hf : s.flushes = [] := by
      cases hfs : s.flushes with
      | nil => rfl
      | cons p ps => have := h5 p (by simp [hfs]); simp [hs] at this
    refine ⟨by simp [a2, a3], by rw [c1, c2]; exact h2, by simp [c3, hg], ?_, by simp [c5, hf], by simp [c3, hg]⟩
    intro d hd
    rw [c4] at hd
    rcases h4 d hd with h | h
    · simp [hs] at h
    · right; rw [c1]; exact h
  | some w =>
    obtain ⟨_, b2, b3⟩ := b w hs
    refine ⟨by rw [b2, b3, h1, hs], by rw [c1, c2]; exact h2, by rw [c3, b2, ← hs]; exact h3, ?_,
      by rw [c5, b2, ← hs]; exact h5, by rw [c3]; exact h6⟩
    intro d hd
    rw [c4] at hd
    rw [b2, c1, ← hs]; exact h4 d hd

theorem ginv_initInternal (s : GState) (i : Nat) (f : FSpec) (h : GInv s) : GInv (s.initInternal i f).1 := by
  obtain ⟨h1, h2, h3, h4, h5, h6⟩ := h
  obtain ⟨a, b, c1, c2, c3, c4, c5⟩ := initInternal_spec s i f
  cases hs : s.internal.slot with
  | none =>
    obtain ⟨_, a2, a3⟩ := a hs
    refine ⟨by rw [c1, c2]; exact h1, by simp [a2, a3], by rw [c3, c1]; exact h3, ?_, by rw [c5, c1]; exact h5,
      by rw [c3]; exact h6⟩
    intro d hd
    rw [c4] at hd
    rcases h4 d hd with h | h
    · left; rw [c1]; exact h
    · simp [hs] at h
  | some w =>
    obtain ⟨_, b2, b3⟩ := b w hs
    refine ⟨by rw [c1, c2]; exact h1, by rw [b2, b3, h2, hs], by rw [c3, c1]; exact h3, ?_, by rw [c5, c1]; exact h5,
      by rw [c3]; exact h6⟩
    intro d hd
    rw [c4] at hd
    rw [b2, c1, ← hs]; exact h4 d hd

theorem throughRuntime_some (slot : State) (flt : Option FSpec) (e : GEvt) (d : Delivery)
    (h : throughRuntime slot flt e = some d) :
    slot.slot = some d.cfg ∧ d.evt = e ∧ d.amb = some d.cfg ∧ d.clocked = true ∧ ∃ f, flt = some f ∧ f.accepts e = true := by
  unfold throughRuntime at h
  cases hs : slot.slot <;> cases hf : flt <;> simp [hs, hf] at h
  obtain ⟨ha, rfl⟩ := h
  exact ⟨rfl, rfl, rfl, rfl, _, rfl, ha⟩

theorem step_emit_slot (s : State) (e : Nat) : (step s (.emit e)).1.slot = s.slot := by
  cases h : s.slot <;> simp [step, h]

/-- The invariant is preserved by every step of every thread. -/
theorem ginv_step (s : GState) (l : GLabel) (h : GInv s) : GInv (gstep s l).1 := by
  cases l with
  | init i f => exact ginv_initShared s i f h
  | tryInit i f => exact ginv_initShared s i f h
  | initGuard i f t =>
    have hi := ginv_initShared s i f h
    simp only [gstep]
    split
    · rename_i hok
      obtain ⟨a, b, _, _, c3, _, _⟩ := initShared_spec s i f
      cases hs : s.shared.slot with
      | some w => simp [(b w hs).1] at hok
      | none =>
        obtain ⟨_, a2, _⟩ := a hs
        have hg : s.guards = [] := by
          cases hgs : s.guards with
          | nil => rfl
          | cons g gs => have := h.guards_winner g (by simp [hgs]); simp [hs] at this
        exact ⟨hi.1, hi.2, by simp [c3, hg, a2], hi.4, hi.5, by simp [c3, hg]⟩
    · exact hi
  | dropGuard =>
    obtain ⟨h1, h2, h3, h4, h5, h6⟩ := h
    refine ⟨h1, h2, by simp [gstep], h4, ?_, by simp [gstep]⟩
    intro p hp
    simp only [gstep, List.mem_append] at hp
    rcases hp with hp | hp
    · exact h3 p hp
    · exact h5 p hp
  | initInternal i f => exact ginv_initInternal s i f h
  | tryInitInternal i f => exact ginv_initInternal s i f h
  | emit e =>
    obtain ⟨h1, h2, h3, h4, h5, h6⟩ := h
    simp only [gstep]
    cases ht : throughRuntime s.shared s.sharedF e with
    | none => exact ⟨h1, h2, h3, h4, h5, h6⟩
    | some d =>
      obtain ⟨hw, _, _, _, _⟩ := throughRuntime_some _ _ _ _ ht
      refine ⟨by simpa [step_emit_slot] using h1, h2, by simpa [step_emit_slot] using h3, ?_,
        by simpa [step_emit_slot] using h5, h6⟩
      intro d' hd'
      simp only [List.mem_cons] at hd'
      rcases hd' with rfl | hd'
      · left; simpa [step_emit_slot] using hw
      · simpa [step_emit_slot] using h4 d' hd'
  | span e =>
    obtain ⟨h1, h2, h3, h4, h5, h6⟩ := h
    simp only [gstep]
    cases ht : throughRuntime s.shared s.sharedF e with
    | none => exact ⟨h1, h2, h3, h4, h5, h6⟩
    | some d =>
      obtain ⟨hw, _, _, _, _⟩ := throughRuntime_some _ _ _ _ ht
      refine ⟨by simpa [step_emit_slot] using h1, h2, by simpa [step_emit_slot] using h3, ?_,
        by simpa [step_emit_slot] using h5, h6⟩
      intro d' hd'
      simp only [List.mem_cons] at hd'
      rcases hd' with rfl | hd'
      · left; simpa [step_emit_slot] using hw
      · simpa [step_emit_slot] using h4 d' hd'
  | direct e =>
    obtain ⟨h1, h2, h3, h4, h5, h6⟩ := h
    simp only [gstep]
    cases hs : s.shared.slot with
    | none => exact ⟨h1, h2, h3, h4, h5, h6⟩
    | some w =>
      refine ⟨by simpa [step_emit_slot] using h1, h2, by simpa [step_emit_slot] using h3, ?_,
        by simpa [step_emit_slot] using h5, h6⟩
      intro d' hd'
      simp only [List.mem_cons] at hd'
      rcases hd' with rfl | hd'
      · left; simpa [step_emit_slot] using hs
      · simpa [step_emit_slot] using h4 d' hd'
  | emitInternal e =>
    obtain ⟨h1, h2, h3, h4, h5, h6⟩ := h
    simp only [gstep]
    cases ht : throughRuntime s.internal s.internalF e with
    | none => exact ⟨h1, h2, h3, h4, h5, h6⟩
    | some d =>
      obtain ⟨hw, _, _, _, _⟩ := throughRuntime_some _ _ _ _ ht
      refine ⟨h1, by simpa [step_emit_slot] using h2, h3, ?_, h5, h6⟩
      intro d' hd'
      simp only [List.mem_cons] at hd'
      rcases hd' with rfl | hd'
      · right; simpa [step_emit_slot] using hw
      · simpa [step_emit_slot] using h4 d' hd'
  | flush t =>
    obtain ⟨h1, h2, h3, h4, h5, h6⟩ := h
    simp only [gstep]
    cases hs : s.shared.slot with
    | none => exact ⟨h1, h2, h3, h4, h5, h6⟩
    | some w =>
      refine ⟨h1, h2, h3, h4, ?_, h6⟩
      intro p hp
      simp only [List.mem_cons] at hp
      rcases hp with rfl | hp
      · exact hs
      · exact h5 p hp
  | observe => exact h

theorem ginv_run (s : GState) (ls : List GLabel) (h : GInv s) : GInv (grun s ls).1 := by
  induction ls generalizing s with
  | nil => exact h
  | cons l rest ih => simp only [grun]; exact ih _ (ginv_step s l h)

/-- **Initialisation outcomes, decided outright.** On either global slot the panicking form returns a handle iff
    the slot was empty and panics otherwise; the try form reports exactly that as a Boolean; `flush_on_drop`
    yields a guard only when `init()` returned. -/
theorem global_init_outcome (s : GState) (i : Nat) (f : FSpec) (t : Nat) :
    (gstep s (.init i f)).2 = .inited s.shared.slot.isSome ∧
    (gstep s (.tryInit i f)).2 = .tried s.shared.slot.isNone ∧
    (gstep s (.initGuard i f t)).2 = .inited s.shared.slot.isSome ∧
    (gstep s (.initGuard i f t)).1.guards = (if s.shared.slot.isNone then (i, t) :: s.guards else s.guards) ∧
    (gstep s (.initInternal i f)).2 = .inited s.internal.slot.isSome ∧
    (gstep s (.tryInitInternal i f)).2 = .tried s.internal.slot.isNone := by
  cases hs : s.shared.slot <;> cases hi : s.internal.slot <;>
    simp [gstep, GState.initShared, GState.initInternal, step, hs, hi]

theorem gstep_keeps_winner (s : GState) (l : GLabel) :
    (∀ w, s.shared.slot = some w → (gstep s l).1.shared.slot = some w ∧ (gstep s l).1.sharedF = s.sharedF) ∧
    (∀ w, s.internal.slot = some w → (gstep s l).1.internal.slot = some w ∧ (gstep s l).1.internalF = s.internalF) := by
  have hsh : ∀ i f, (∀ w, s.shared.slot = some w → (s.initShared i f).1.shared.slot = some w ∧
        (s.initShared i f).1.sharedF = s.sharedF) ∧
      (∀ w, s.internal.slot = some w → (s.initShared i f).1.internal.slot = some w ∧
        (s.initShared i f).1.internalF = s.internalF) := by
    intro i f
    obtain ⟨_, b, c1, c2, _⟩ := initShared_spec s i f
    exact ⟨fun w hw => ⟨(b w hw).2.1, (b w hw).2.2⟩, fun w hw => ⟨by rw [c1]; exact hw, c2⟩⟩
  have hin : ∀ i f, (∀ w, s.shared.slot = some w → (s.initInternal i f).1.shared.slot = some w ∧
        (s.initInternal i f).1.sharedF = s.sharedF) ∧
      (∀ w, s.internal.slot = some w → (s.initInternal i f).1.internal.slot = some w ∧
        (s.initInternal i f).1.internalF = s.internalF) := by
    intro i f
    obtain ⟨_, b, c1, c2, _⟩ := initInternal_spec s i f
    exact ⟨fun w hw => ⟨by rw [c1]; exact hw, c2⟩, fun w hw => ⟨(b w hw).2.1, (b w hw).2.2⟩⟩
  cases l with
  | init i f => exact hsh i f
  | tryInit i f => exact hsh i f
  | initGuard i f t =>
    simp only [gstep]
    split
    · exact hsh i f
    · exact hsh i f
  | dropGuard => exact ⟨fun w hw => ⟨hw, rfl⟩, fun w hw => ⟨hw, rfl⟩⟩
  | initInternal i f => exact hin i f
  | tryInitInternal i f => exact hin i f
  | emit e =>
    simp only [gstep]
    cases throughRuntime s.shared s.sharedF e with
    | none => exact ⟨fun w hw => ⟨hw, rfl⟩, fun w hw => ⟨hw, rfl⟩⟩
    | some d => exact ⟨fun w hw => ⟨by simpa [step_emit_slot] using hw, rfl⟩, fun w hw => ⟨hw, rfl⟩⟩
  | span e =>
    simp only [gstep]
    cases throughRuntime s.shared s.sharedF e with
    | none => exact ⟨fun w hw => ⟨hw, rfl⟩, fun w hw => ⟨hw, rfl⟩⟩
    | some d => exact ⟨fun w hw => ⟨by simpa [step_emit_slot] using hw, rfl⟩, fun w hw => ⟨hw, rfl⟩⟩
  | direct e =>
    simp only [gstep]
    cases hs : s.shared.slot with
    | none => exact ⟨fun w hw => by simp at hw, fun w hw => ⟨hw, rfl⟩⟩
    | some v => exact ⟨fun w hw => ⟨by simpa [step_emit_slot, hs] using hw, rfl⟩, fun w hw => ⟨hw, rfl⟩⟩
  | emitInternal e =>
    simp only [gstep]
    cases throughRuntime s.internal s.internalF e with
    | none => exact ⟨fun w hw => ⟨hw, rfl⟩, fun w hw => ⟨hw, rfl⟩⟩
    | some d => exact ⟨fun w hw => ⟨hw, rfl⟩, fun w hw => ⟨by simpa [step_emit_slot] using hw, rfl⟩⟩
  | flush t =>
    simp only [gstep]
    cases hs : s.shared.slot with
    | none => exact ⟨fun w hw => by simp at hw, fun w hw => ⟨hw, rfl⟩⟩
    | some v => exact ⟨fun w hw => ⟨by simpa [hs] using hw, rfl⟩, fun w hw => ⟨hw, rfl⟩⟩
  | observe => exact ⟨fun w hw => ⟨hw, rfl⟩, fun w hw => ⟨hw, rfl⟩⟩

/-- **The first winner stays, with the filter it was configured with**, on both slots, whatever any thread does
    afterwards (further `init()` calls included: they panic and change nothing). -/
theorem global_winner_stable (s : GState) (ls : List GLabel) :
    (∀ w, s.shared.slot = some w → (grun s ls).1.shared.slot = some w ∧ (grun s ls).1.sharedF = s.sharedF) ∧
    (∀ w, s.internal.slot = some w → (grun s ls).1.internal.slot = some w ∧ (grun s ls).1.internalF = s.internalF) := by
  induction ls generalizing s with
  | nil => exact ⟨fun w h => ⟨h, rfl⟩, fun w h => ⟨h, rfl⟩⟩
  | cons l rest ih =>
    simp only [grun]
    have key := gstep_keeps_winner s l
    constructor
    · intro w hw
      obtain ⟨k1, k2⟩ := key.1 w hw
      obtain ⟨a, b⟩ := (ih (gstep s l).1).1 w k1
      exact ⟨a, b.trans k2⟩
    · intro w hw
      obtain ⟨k1, k2⟩ := key.2 w hw
      obtain ⟨a, b⟩ := (ih (gstep s l).1).2 w k1
      exact ⟨a, b.trans k2⟩

/-- **A second `init()` panics and its components are never used.** Once a slot has a winner `w`, after any
    further steps of any threads every `init()` / `init_internal()` on it panics, `try_init` fails, no guard is
    produced — and every delivery and every flush that ever happened went to a slot's winner, never to a
    configuration whose initialisation failed. -/
theorem global_second_init_panics (ls : List GLabel) (i : Nat) (f : FSpec) (t : Nat) :
    let s := gfinal ls
    (∀ w, s.shared.slot = some w →
      (gstep s (.init i f)).2 = .inited true ∧ (gstep s (.tryInit i f)).2 = .tried false ∧
      (gstep s (.initGuard i f t)).2 = .inited true ∧ (gstep s (.initGuard i f t)).1.guards = s.guards ∧
      (gstep s (.init i f)).1.shared.slot = some w) ∧
    (∀ w, s.internal.slot = some w →
      (gstep s (.initInternal i f)).2 = .inited true ∧ (gstep s (.tryInitInternal i f)).2 = .tried false ∧
      (gstep s (.initInternal i f)).1.internal.slot = some w) ∧
    (∀ d ∈ s.delivered, s.shared.slot = some d.cfg ∨ s.internal.slot = some d.cfg) ∧
    (∀ p ∈ s.flushes, s.shared.slot = some p.1) := by
  intro s
  have hinv : GInv s := ginv_run g0 ls ginv_init
  obtain ⟨o1, o2, o3, o4, o5, o6⟩ := global_init_outcome s i f t
  refine ⟨?_, ?_, hinv.delivered_winner, hinv.flushes_winner⟩
  · intro w hw
    refine ⟨by rw [o1, hw]; rfl, by rw [o2, hw]; rfl, by rw [o3, hw]; rfl, by rw [o4, hw]; rfl, ?_⟩
    exact ((gstep_keeps_winner s (.init i f)).1 w hw).1
  · intro w hw
    exact ⟨by rw [o5, hw]; rfl, by rw [o6, hw]; rfl, ((gstep_keeps_winner s (.initInternal i f)).2 w hw).1⟩

/-- **Inert before initialisation, through every front door.** While nobody has initialised either global slot:
    the macros without `rt:` (events and spans), `runtime::shared().emit`, `emit::emitter().emit`,
    `runtime::internal().emit` deliver nothing; `emit::blocking_flush` returns true and flushes nobody; the five
    accessors show the empty runtime; dropping (no) guards does nothing. -/
theorem global_inert_before (ls : List GLabel)
    (h : ∀ l ∈ ls, l.initsShared = false ∧ l.initsInternal = false) :
    (gfinal ls).shared.slot = none ∧ (gfinal ls).internal.slot = none ∧
    (gfinal ls).delivered = [] ∧ (gfinal ls).flushes = [] ∧
    ∀ o ∈ (grun g0 ls).2, o = .sent none ∨ o = .flushed true ∨ o = .comps none ∨ o = .dropped := by
  suffices ∀ s : GState, s.shared.slot = none → s.internal.slot = none → s.guards = [] → s.delivered = [] →
      s.flushes = [] →
      (grun s ls).1.shared.slot = none ∧ (grun s ls).1.internal.slot = none ∧
      (grun s ls).1.delivered = [] ∧ (grun s ls).1.flushes = [] ∧
      ∀ o ∈ (grun s ls).2, o = .sent none ∨ o = .flushed true ∨ o = .comps none ∨ o = .dropped from
    this g0 rfl rfl rfl rfl rfl
  induction ls with
  | nil => intro s h1 h2 h3 h4 h5; simp [grun, h1, h2, h4, h5]
  | cons l rest ih =>
    intro s h1 h2 h3 h4 h5
    have hl := h l (by simp)
    have hrest : ∀ l' ∈ rest, l'.initsShared = false ∧ l'.initsInternal = false := fun l' hl' => h l' (by simp [hl'])
    simp only [grun]
    -- a non-initialising step changes nothing and answers inertly
    have key : (gstep s l).1 = s ∧
        ((gstep s l).2 = .sent none ∨ (gstep s l).2 = .flushed true ∨ (gstep s l).2 = .comps none ∨
          (gstep s l).2 = .dropped) := by
      cases s with
      | mk sh shF int intF gs dl fl =>
        simp only at h1 h2 h3 h4 h5
        subst h3 h5
        cases l <;> simp [GLabel.initsShared, GLabel.initsInternal] at hl <;>
          simp [gstep, throughRuntime, h1, h2]
    obtain ⟨a, b, c, d, e⟩ := ih hrest (gstep s l).1 (by rw [key.1]; exact h1) (by rw [key.1]; exact h2)
      (by rw [key.1]; exact h3) (by rw [key.1]; exact h4) (by rw [key.1]; exact h5)
    refine ⟨a, b, c, d, ?_⟩
    intro o ho
    simp only [List.mem_cons] at ho
    rcases ho with rfl | ho
    · exact key.2
    · exact e o ho

/-- **Through the runtime the configured filter decides; `emit::emitter()` bypasses it.** With `w` in the shared
    slot, set up with filter `f`: an event sent by a macro without `rt:` / `runtime::shared().emit` (and a span,
    on its start event) reaches `w` — with the ambient `cfg = w` — iff `f` accepts it, and nobody otherwise;
    an event sent through `emit::emitter()` ALWAYS reaches `w`, and arrives WITHOUT ambient properties and WITHOUT
    a clock-assigned extent. -/
theorem global_emit_iff_direct_bypasses (s : GState) (w : Nat) (f : FSpec) (hw : s.shared.slot = some w)
    (hf : s.sharedF = some f) (e : GEvt) :
    (gstep s (.emit e)).2 = .sent (if f.accepts e then some w else none) ∧
    (gstep s (.emit e)).1.delivered = (if f.accepts e then ⟨w, e, some w, true⟩ :: s.delivered else s.delivered) ∧
    (gstep s (.span e)).2 = .sent (if f.accepts e then some w else none) ∧
    (gstep s (.span e)).1.delivered = (if f.accepts e then ⟨w, e, some w, true⟩ :: s.delivered else s.delivered) ∧
    (gstep s (.direct e)).2 = .sent (some w) ∧
    (gstep s (.direct e)).1.delivered = ⟨w, e, none, false⟩ :: s.delivered := by
  cases ha : f.accepts e <;> simp [gstep, throughRuntime, hw, hf, ha]

/-- **The internal runtime applies the filter it was configured with.** If `init_internal()` /
    `try_init_internal()` of configuration `i` with filter `f` finds the internal slot empty, then after any
    further steps of any threads an event sent through `runtime::internal()` reaches `i` iff `f` accepts it —
    not "always", and not by any later configuration's filter. -/
theorem internal_uses_configured_filter (s : GState) (hs : s.internal.slot = none) (i : Nat) (f : FSpec)
    (ls : List GLabel) (e : GEvt) :
    let s' := (grun (gstep s (.initInternal i f)).1 ls).1
    (gstep s' (.emitInternal e)).2 = .sent (if f.accepts e then some i else none) ∧
    (gstep s' (.emitInternal e)).1.delivered =
      (if f.accepts e then ⟨i, e, some i, true⟩ :: s'.delivered else s'.delivered) := by
  intro s'
  obtain ⟨a, _⟩ := initInternal_spec s i f
  obtain ⟨_, a2, a3⟩ := a hs
  have h0 : (gstep s (.initInternal i f)).1 = (s.initInternal i f).1 := rfl
  obtain ⟨k1, k2⟩ := (global_winner_stable (gstep s (.initInternal i f)).1 ls).2 i (by rw [h0]; exact a2)
  have k2' : s'.internalF = some f := by rw [← a3, ← h0]; exact k2
  have k1' : s'.internal.slot = some i := k1
  cases ha : f.accepts e <;> simp [gstep, throughRuntime, k1', k2', ha]

/-- … and the same for `Setup::init()` on the shared slot. -/
theorem shared_uses_configured_filter (s : GState) (hs : s.shared.slot = none) (i : Nat) (f : FSpec)
    (ls : List GLabel) (e : GEvt) :
    let s' := (grun (gstep s (.init i f)).1 ls).1
    (gstep s' (.emit e)).2 = .sent (if f.accepts e then some i else none) ∧
    (gstep s' (.direct e)).2 = .sent (some i) := by
  intro s'
  obtain ⟨a, _⟩ := initShared_spec s i f
  obtain ⟨_, a2, a3⟩ := a hs
  have h0 : (gstep s (.init i f)).1 = (s.initShared i f).1 := rfl
  obtain ⟨k1, k2⟩ := (global_winner_stable (gstep s (.init i f)).1 ls).1 i (by rw [h0]; exact a2)
  have k2' : s'.sharedF = some f := by rw [← a3, ← h0]; exact k2
  exact ⟨(global_emit_iff_direct_bypasses s' i f k1 k2' e).1, (global_emit_iff_direct_bypasses s' i f k1 k2' e).2.2.2.2.1⟩

/-- **`flush_on_drop`.** Dropping the guard flushes the guard's own emitter exactly once with the guard's
    timeout; there is at most one guard (only a successful `init()` yields one), it belongs to the winner, and a
    second drop flushes nothing. `emit::blocking_flush(t)` flushes the winner with `t` and reports its answer. -/
theorem guard_flushes_on_drop (ls : List GLabel) :
    let s := gfinal ls
    (gstep s .dropGuard).1.flushes = s.guards ++ s.flushes ∧ (gstep s .dropGuard).1.guards = [] ∧
    (gstep (gstep s .dropGuard).1 .dropGuard).1.flushes = (gstep s .dropGuard).1.flushes ∧
    s.guards.length ≤ 1 ∧ (∀ g ∈ s.guards, s.shared.slot = some g.1) ∧
    (∀ w t, s.shared.slot = some w →
      (gstep s (.flush t)).2 = .flushed (decide (flushNeeds ≤ t)) ∧ (gstep s (.flush t)).1.flushes = (w, t) :: s.flushes) := by
  intro s
  have hinv : GInv s := ginv_run g0 ls ginv_init
  refine ⟨rfl, rfl, by simp [gstep], hinv.guards_le_one, hinv.guards_winner, ?_⟩
  intro w t hw
  simp [gstep, hw]

/-! ### Non-vacuity -/
example : (grun g0 [.emit ⟨1, some 3⟩, .direct ⟨2, none⟩, .flush 0, .observe, .span ⟨3, some 2⟩, .emitInternal ⟨4, none⟩]).2 =
    [.sent none, .sent none, .flushed true, .comps none, .sent none, .sent none] := by decide
example : (grun g0 [.init 1 .none, .emit ⟨1, some 3⟩, .direct ⟨2, some 3⟩, .init 2 .all, .emit ⟨3, none⟩]).2 =
    [.inited false, .sent none, .sent (some 1), .inited true, .sent none] := by decide
example : (gfinal [.initGuard 1 (.minLvl 2) 499, .emit ⟨1, some 1⟩, .emit ⟨2, some 2⟩, .dropGuard, .dropGuard]).flushes = [(1, 499)] ∧
    (gfinal [.initGuard 1 (.minLvl 2) 499, .emit ⟨1, some 1⟩, .emit ⟨2, some 2⟩]).delivered = [⟨1, ⟨2, some 2⟩, some 1, true⟩] := by decide
example : (grun g0 [.initInternal 1 (.minLvl 2), .initInternal 2 .all, .emitInternal ⟨1, some 1⟩, .emitInternal ⟨2, some 3⟩]).2 =
    [.inited false, .inited true, .sent none, .sent (some 1)] := by decide

end EmitModel.C20
