/-
  Thm/C03.lean — property C03: ambient context is a per-thread stack; frames leave no trace once exited.
  Property theorems only; the ghost bookkeeping `G`, the discipline `wstep`/`run`, the invariant `Inv` and the
  bridge `compile_balanced` live in Lemmas/Ctxt.lean.

  Reading guide. `run s g evs = some (s', g')` says: the event list `evs` is WELL-NESTED from `(s, g)` — every
  `exit` closes the innermost entered frame of its (thread, context), a frame is entered at most once at a time
  (Rust's `&mut`), a handle is opened once — and executing it (`exec`, the function the driver runs) ends in `s'`
  with bookkeeping `g'` (`g'.stack t c` = entered frames of (t,c), innermost first; `g'.view f` = what frame `f`
  shows, fixed when it was opened). Events of all threads and contexts are interleaved arbitrarily in `evs`.

  OBLIGATIONS (audited by `check` with `#print axioms`):
    view_is_innermost, view_fixed_at_open, view_push, view_root, view_disabled, lastOf_eq_lookup,
    exit_restores, frame_block_restores, moved_frame_carries_view, isolation_step, isolation, interleave_polls,
    erased_storage_identity, erased_roundtrip, wrappers_transparent, existing_wrappers_transparent,
    default_open_push_not_transparent, trait_default_is_viaDefault, view_push_default,
    default_push_agrees_off_collisions, option_some_transparent, option_none_inert, parts_is_identity,
    traceparent_ctxt_transparent, program_balanced, program_view_is_innermost, tasks_balanced, no_trace
-/
import EmitModel.Lemmas.Ctxt
import EmitModel.Model.Traceparent
namespace EmitModel.C03
open EmitModel.Ctxt
variable {V : Type}

/-- The ghost bookkeeping of the pristine state: nothing opened, nothing entered. -/
def G0 (V : Type) : G V := ⟨fun _ _ => [], fun _ => none, fun _ => none, fun _ => none, fun _ _ => none⟩

theorem inv_init (inl : Bool) : Inv (St.init V inl) (G0 V) := by
  constructor <;> simp [St.init, G0, topOf]

/-- **view_is_innermost.** At every point of every well-nested execution (any interleaving of threads and
    contexts, from any consistent start), what a thread sees in a context is exactly what the innermost frame
    entered on that (thread, context) shows — or what was there at the start when no frame is entered — and
    that is what `with_current` observes. -/
theorem view_is_innermost (s : St V) (g : G V) (hi : Inv s g) (evs : List (Ev V)) (s' : St V) (g' : G V)
    (hr : run s g evs = some (s', g')) (t c : Nat) :
    s' = exec s evs ∧
    s'.active t c = (match g'.stack t c with
                     | [] => g.base t c
                     | f :: _ => g'.view f) ∧
    output s' (.observe t c) = some ((match g'.stack t c with
                     | [] => g.base t c
                     | f :: _ => g'.view f).getD []) := by
  have h' := inv_run hi evs s' g' hr
  have hb := (ext_run evs s' g' hr).base
  have ha := h'.act t c
  refine ⟨run_fst evs s' g' hr, ?_, ?_⟩
  · rw [ha]; cases g'.stack t c <;> simp [topOf, hb]
  · simp only [output]; rw [ha]; cases g'.stack t c <;> simp [topOf, hb]

/-- What a frame shows is fixed when it is opened: `openFrame kind` applied to what the opening thread saw in
    that context at that moment (by `view_is_innermost`: the innermost entered frame's view there) — not to
    what is ambient when or where it is entered later. -/
theorem view_fixed_at_open (s : St V) (g : G V) (pre post : List (Ev V)) (t c f : Nat) (kind : Kind)
    (ps : List (String × V)) (s' : St V) (g' : G V)
    (hr : run s g (pre ++ .open t c f kind ps :: post) = some (s', g')) :
    g'.view f = openFrame kind ((exec s pre).active t c) ps := by
  rw [run_append] at hr
  cases h1 : run s g pre with
  | none => simp [h1] at hr
  | some p1 =>
    obtain ⟨s1, g1⟩ := p1
    simp only [h1, Option.bind, run] at hr
    split at hr
    · rename_i g2 hw
      have e1 := run_fst pre s1 g1 h1
      have hx := ext_run _ _ _ hr
      simp only [wstep] at hw
      split at hw <;> simp at hw
      subst hw
      rw [hx.view f c (by simp [setSlot])]
      simp [setSlot, e1]
    · simp at hr

/-- With distinct keys the last pair with key `k` is the only one. -/
theorem lastOf_eq_lookup (ps : List (String × V)) (hd : (ps.map Prod.fst).Nodup) (k : String) :
    lastOf ps k = ps.lookup k := by
  induction ps with
  | nil => rfl
  | cons a ps ih =>
    obtain ⟨k', v⟩ := a
    simp only [List.map_cons, List.nodup_cons] at hd
    simp only [lastOf, ih hd.2, List.lookup]
    by_cases e : k = k'
    · subst e
      have : ps.lookup k = none := by
        rw [List.lookup_eq_none_iff]
        intro p hp
        simp only [bne_iff_ne, ne_eq]
        intro hk
        exact hd.1 (hk ▸ List.mem_map_of_mem hp)
      simp [this]
    · have : (k == k') = false := by simp [e]
      simp only [this]
      cases ps.lookup k with
      | none => simp; intro h; exact e h.symm
      | some _ => rfl

/-- pushed frame: own properties (the last pair per key; with distinct keys the only one, `lastOf_eq_lookup`)
    overlaid on what was ambient at creation -/
theorem view_push (cur : Option (List (String × V))) (ps : List (String × V)) (k : String) :
    ((openFrame .push cur ps).map (get · k)) = some ((lastOf ps k).or (get (cur.getD []) k)) := by
  simp [openFrame, get_insertAll]

/-- root frame: only its own properties -/
theorem view_root (cur : Option (List (String × V))) (ps : List (String × V)) (k : String) :
    ((openFrame .root cur ps).map (get · k)) = some (lastOf ps k) := by
  simp [openFrame, get_insertAll, Ctxt.get]

/-- disabled frame (its props are ignored) and `Frame::current`: exactly what was ambient at creation -/
theorem view_disabled (cur : Option (List (String × V))) (ps : List (String × V)) :
    openFrame .disabled cur ps = some (cur.getD []) ∧ openFrame .current cur ps = some (cur.getD []) := by
  simp [openFrame, insertAll]

/-- **exit_restores.** After ANY balanced block (well-nested, every stack as before — whatever happened inside,
    on whichever threads): every thread sees in every context exactly what it saw before; the frames entered
    before are still entered; every frame known before shows what it showed before; and every frame that is
    not entered holds its own view in its slot again (so entering it again, on any thread, shows that view). -/
theorem exit_restores (s : St V) (g : G V) (hi : Inv s g) (blk : List (Ev V)) (s' : St V) (g' : G V)
    (hr : run s g blk = some (s', g')) (hst : g'.stack = g.stack) :
    (∀ t c, s'.active t c = s.active t c) ∧
    (∀ f, g'.loc f = g.loc f) ∧
    (∀ f c, g.ctxtOf f = some c → g'.ctxtOf f = some c ∧ g'.view f = g.view f) ∧
    (∀ f c, g'.ctxtOf f = some c → g'.loc f = none → (s'.slot f).get = g'.view f) := by
  have h' := inv_run hi blk s' g' hr
  have hx := ext_run blk s' g' hr
  refine ⟨?_, ?_, fun f c h => ⟨hx.ctxtOf f c h, hx.view f c h⟩, h'.idle⟩
  · intro t c
    rw [h'.act, hi.act, hst]
    cases hs : g.stack t c with
    | nil => simp [topOf, hx.base]
    | cons f r =>
      simp only [topOf]
      obtain ⟨c', hc'⟩ := hi.opened f _ ((hi.locs t c f).1 (by rw [hs]; exact List.mem_cons_self))
      exact hx.view f c' hc'
  · intro f
    cases hl : g.loc f with
    | some p =>
      obtain ⟨t, c⟩ := p
      have := (hi.locs t c f).2 hl
      rw [← hst] at this
      exact (h'.locs t c f).1 this
    | none =>
      cases hl' : g'.loc f with
      | none => rfl
      | some p =>
        obtain ⟨t, c⟩ := p
        have := (h'.locs t c f).2 hl'
        rw [hst] at this
        rw [(hi.locs t c f).1 this] at hl; cases hl

/-- A frame that is not entered can be entered on ANY thread `t` and shows its own view there: moving a frame
    (or a `FrameFuture`, or an `in_fn` closure) to another thread or task carries its properties with it. -/
theorem moved_frame_carries_view (s : St V) (g : G V) (hi : Inv s g) (f c : Nat)
    (hc : g.ctxtOf f = some c) (hl : g.loc f = none) (t : Nat) :
    (step s (.enter t c f)).active t c = g.view f ∧
    output (step s (.enter t c f)) (.observe t c) = some ((g.view f).getD []) := by
  have := hi.idle f c hc hl
  simp [step, swap, setActive, output, this]

/-- One use of a frame — guard scope, `with`/`call` closure, one `poll`, or unwinding through any of them:
    `enter f`, a balanced body, `exit f` is again a balanced block; afterwards everything is as before and the
    frame holds its own view again (it can be re-entered). -/
theorem frame_block_restores (s : St V) (g : G V) (hi : Inv s g) (f c t : Nat)
    (hc : g.ctxtOf f = some c) (hl : g.loc f = none) (body : List (Ev V)) (g1 : G V)
    (hw : wstep s g (.enter t c f) = some g1) (s2 : St V) (g2 : G V)
    (hb : run (step s (.enter t c f)) g1 body = some (s2, g2)) (hst : g2.stack = g1.stack) :
    ∃ s3 g3, run s g (.enter t c f :: body ++ [.exit t c f]) = some (s3, g3) ∧
      g3.stack = g.stack ∧ (∀ t' c', s3.active t' c' = s.active t' c') ∧
      (s3.slot f).get = g.view f ∧ g3.loc f = none := by
  have hi1 := inv_step hi _ _ hw
  have hi2 := inv_run hi1 _ _ _ hb
  have hg1 : g1 = { g with stack := setStack g.stack t c (f :: g.stack t c), loc := setSlot g.loc f (some (t, c)) } := by
    simp [wstep, hc, hl] at hw; exact hw.symm
  have hstk : g2.stack t c = f :: g.stack t c := by rw [hst, hg1]; simp [setStack]
  let g3 : G V := { g2 with stack := setStack g2.stack t c (g.stack t c), loc := setSlot g2.loc f none }
  have hw3 : wstep s2 g2 (.exit t c f) = some g3 := by simp [wstep, hstk, g3]
  have hrun : run s g (.enter t c f :: body ++ [.exit t c f]) = some (step s2 (.exit t c f), g3) := by
    simp only [List.cons_append, run, hw, run_append, hb, Option.bind, hw3]
  have hst3 : g3.stack = g.stack := by simp only [g3, hst, hg1]; exact setStack_restore _ _ _ _
  obtain ⟨ha, _, hv, hidle⟩ := exit_restores s g hi _ _ _ hrun hst3
  have hl3 : g3.loc f = none := by simp [g3, setSlot]
  refine ⟨_, g3, hrun, hst3, ha, ?_, hl3⟩
  rw [hidle f c (hv f c hc).1 hl3, (hv f c hc).2]

/-- the (thread, context) an event acts on, if it touches the thread-local state at all -/
def site : Ev V → Option (Nat × Nat)
  | .enter t c _ => some (t, c)
  | .exit t c _ => some (t, c)
  | _ => none

/-- **isolation**, one step: an event changes the thread-local entry of its own (thread, context) only
    (no hypothesis of well-nestedness needed). -/
theorem isolation_step (s : St V) (e : Ev V) (t' c' : Nat) (h : site e ≠ some (t', c')) :
    (step s e).active t' c' = s.active t' c' := by
  cases e <;> simp [step, swap, setActive, site] at * <;> intro h1 h2 <;> exact absurd h2.symm (h h1.symm)


/-- **isolation**: whatever other threads and other context instances do, what `(t', c')` sees is unchanged. -/
theorem isolation (s : St V) (evs : List (Ev V)) (t' c' : Nat) (h : ∀ e ∈ evs, site e ≠ some (t', c')) :
    (exec s evs).active t' c' = s.active t' c' := by
  induction evs generalizing s with
  | nil => rfl
  | cons e es ih =>
    simp only [exec]
    rw [ih (step s e) (fun e' he' => h e' (List.mem_cons_of_mem _ he')),
      isolation_step s e t' c' (h e List.mem_cons_self)]

/-- One poll of a frame-wrapped future (`FrameFuture::poll`, frame.rs:221-234): thread, context, frame, and
    the events of the inner future's poll. -/
structure Poll (V : Type) where
  t : Nat
  c : Nat
  f : Nat
  body : List (Ev V)

def Poll.block (p : Poll V) : List (Ev V) := .enter p.t p.c p.f :: p.body ++ [.exit p.t p.c p.f]

/-- What each poll's body sees on its (thread, context) when it starts. -/
def viewsSeen (s : St V) : List (Poll V) → List (Option (List (String × V)))
  | [] => []
  | p :: r => (step s (.enter p.t p.c p.f)).active p.t p.c :: viewsSeen (exec s p.block) r

/-- The hypotheses on a poll sequence, in ANY order (any interleaving of the tasks, any thread per poll): the
    frame was opened before the sequence started (`g0`) and is not entered; the inner poll is a balanced block. -/
def PollsOK (g0 : G V) : St V → G V → List (Poll V) → Prop
  | _, _, [] => True
  | s, g, p :: rest =>
    g0.ctxtOf p.f = some p.c ∧ g.loc p.f = none ∧
    ∃ g1 s2 g2, wstep s g (.enter p.t p.c p.f) = some g1 ∧
      run (step s (.enter p.t p.c p.f)) g1 p.body = some (s2, g2) ∧ g2.stack = g1.stack ∧
      ∀ s3 g3, run s g p.block = some (s3, g3) → PollsOK g0 s3 g3 rest

theorem interleave_polls_aux (g0 : G V) (polls : List (Poll V)) (s : St V) (g : G V) (hi : Inv s g) (hx : Ext g0 g)
    (ok : PollsOK g0 s g polls) :
    viewsSeen s polls = polls.map (fun p => g0.view p.f) ∧
    ∃ g', run s g (polls.flatMap Poll.block) = some (exec s (polls.flatMap Poll.block), g') ∧
      g'.stack = g.stack ∧ ∀ t c, (exec s (polls.flatMap Poll.block)).active t c = s.active t c := by
  induction polls generalizing s g with
  | nil => exact ⟨rfl, g, by simp [run, exec], rfl, fun _ _ => rfl⟩
  | cons p rest ih =>
    obtain ⟨hc0, hl, g1, s2, g2, hw, hb, hst, hrest⟩ := ok
    have hc := hx.ctxtOf _ _ hc0
    obtain ⟨s3, g3, hr3, hst3, ha3, _, _⟩ := frame_block_restores s g hi p.f p.c p.t hc hl p.body g1 hw s2 g2 hb hst
    have e3 : s3 = exec s p.block := run_fst _ _ _ hr3
    have hi3 := inv_run hi _ _ _ hr3
    have hx3 := hx.trans (ext_run _ _ _ hr3)
    obtain ⟨hv, g', hr', hst', ha'⟩ := ih s3 g3 hi3 hx3 (hrest s3 g3 hr3)
    have hexec : exec s (p.block ++ rest.flatMap Poll.block) = exec s3 (rest.flatMap Poll.block) := by
      have : ∀ (a b : List (Ev V)) (s : St V), exec s (a ++ b) = exec (exec s a) b := by
        intro a b; induction a with
        | nil => intro s; rfl
        | cons e es ih => intro s; exact ih (step s e)
      rw [this, e3]
    refine ⟨?_, g', ?_, hst'.trans hst3, ?_⟩
    · simp only [viewsSeen, List.map_cons]
      rw [← e3, hv, (moved_frame_carries_view s g hi p.f p.c hc hl p.t).1, hx.view _ _ hc0]
    · simp only [List.flatMap_cons, run_append]
      have : run s g p.block = some (s3, g3) := hr3
      rw [this, hexec]; exact hr'
    · intro t c
      simp only [List.flatMap_cons]
      rw [hexec, ha', ha3]

/-- **interleave_polls.** For every sequence of polls of frame-wrapped futures — any interleaving of any number
    of tasks, each poll on any thread — every poll's body starts out seeing exactly its own frame's view (as
    fixed when the frame was opened), and after the sequence every thread sees what it saw before. -/
theorem interleave_polls (polls : List (Poll V)) (s : St V) (g0 : G V) (hi : Inv s g0) (ok : PollsOK g0 s g0 polls) :
    viewsSeen s polls = polls.map (fun p => g0.view p.f) ∧
    ∀ t c, (exec s (polls.flatMap Poll.block)).active t c = s.active t c := by
  obtain ⟨h1, _, _, _, h2⟩ := interleave_polls_aux g0 polls s g0 hi (Ext.refl g0) ok
  exact ⟨h1, h2⟩

/-- Erased frames: the storage class never matters. Two runs that differ only in it stay in lock step. -/
theorem erased_storage_identity (evs : List (Ev V)) :
    observations (St.init V true) evs = observations (St.init V false) evs := by
  have key : ∀ (evs : List (Ev V)) (s1 s2 : St V), s1.active = s2.active → (∀ f, (s1.slot f).get = (s2.slot f).get) →
      observations s1 evs = observations s2 evs := by
    intro evs
    induction evs with
    | nil => intros; rfl
    | cons e es ih =>
      intro s1 s2 ha hs
      have hstep : (step s1 e).active = (step s2 e).active ∧ ∀ f, ((step s1 e).slot f).get = ((step s2 e).slot f).get := by
        cases e with
        | «open» t c f kind ps =>
          refine ⟨ha, fun f' => ?_⟩
          simp only [step, setSlot]; split
          · simp [ha]
          · exact hs f'
        | enter t c f =>
          refine ⟨?_, fun f' => ?_⟩
          · simp [step, swap, ha, hs]
          · simp only [step, swap, setSlot]; split
            · simp [ha]
            · exact hs f'
        | exit t c f =>
          refine ⟨?_, fun f' => ?_⟩
          · simp [step, swap, ha, hs]
          · simp only [step, swap, setSlot]; split
            · simp [ha]
            · exact hs f'
        | observe t c => exact ⟨ha, hs⟩
      have ho : output s1 e = output s2 e := by cases e <;> simp [output, ha]
      simp only [observations, ho]
      rw [ih _ _ hstep.1 hstep.2]
  exact key evs _ _ rfl (fun f => by simp [St.init])

theorem erased_roundtrip {α : Type} (b : Bool) (a a' : α) :
    (Erased.new b a).get = a ∧ ((Erased.new b a).set a').get = a' := by simp

/-- **wrappers_transparent.** A wrapper that forwards `open_push` to the inner ctxt opens exactly the frames the
    inner ctxt opens, for all four kinds — whether it forwards `open_disabled` too (`&C`, `Box`, `Arc`, `Option`,
    `dyn ErasedCtxt`, the ambient slot) or leaves it to the trait default (`AssertInternal`). `enter`, `exit`,
    `with_current` and `open_root` have no default, so the whole machine (`step`) is the same. -/
theorem wrappers_transparent (w : Wrapper) (hw : w.push = .forward) (kind : Kind)
    (cur : Option (List (String × V))) (ps : List (String × V)) :
    openVia w kind cur ps = openFrame kind cur ps := by
  cases kind <;> simp only [openVia, pushVia, hw]
  · cases w.disabled <;> simp [openFrame]
  · simp [openFrame]

theorem existing_wrappers_transparent (kind : Kind) (cur : Option (List (String × V))) (ps : List (String × V)) :
    openVia Wrapper.forwarding kind cur ps = openFrame kind cur ps ∧
    openVia Wrapper.assertInternal kind cur ps = openFrame kind cur ps :=
  ⟨wrappers_transparent _ rfl kind cur ps, wrappers_transparent _ rfl kind cur ps⟩

/-- Why the forwarder matters: the trait default `open_push` re-roots `props ++ current`, and over
    `ThreadLocalCtxt::open_root` (`HashMap::insert`: the last pair wins) the AMBIENT value then overwrites the
    pushed one. A wrapper without the `open_push` forwarder is not transparent. -/
theorem default_open_push_not_transparent :
    openVia (⟨.traitDefault, .forward⟩ : Wrapper) .push (some [("a", 1)]) [("a", 2)] = some [("a", 1)] ∧
    openFrame .push (some [("a", 1)]) [("a", 2)] = some [("a", 2)] := by decide

/-- **trait_default_is_viaDefault** (G9a). A `Ctxt` that implements only the required methods — `open_push` and
    `open_disabled` left to the trait defaults — opens, for every `Frame` constructor, exactly the frame the
    machine opens for the kind and props `viaDefault` names. The driver runs the `defpush` variants through
    `viaDefault`; every machine-level theorem of this file is stated for all kinds, so it covers them. -/
theorem trait_default_is_viaDefault (kind : Kind) (cur : Option (List (String × V))) (ps : List (String × V)) :
    openVia (⟨.traitDefault, .traitDefault⟩ : Wrapper) kind cur ps =
      openFrame (viaDefault kind ps).1 cur (viaDefault kind ps).2 := by
  cases kind <;> simp [openVia, pushVia, viaDefault, openFrame]

/-- What the default `open_push` shows: `props.and_props(current)` enumerates the own pairs first and the ambient
    ones after them, and `ThreadLocalCtxt::open_root` keeps the LAST pair per key — so on a key that is both
    pushed and ambient the AMBIENT value is seen (the override `ThreadLocalCtxt::open_push` shows the pushed one,
    `view_push`). -/
theorem view_push_default (cur : Option (List (String × V))) (ps : List (String × V)) (k : String) :
    ((openFrame .pushDefault cur ps).map (get · k)) = some ((lastOf (cur.getD []) k).or (lastOf ps k)) := by
  have : ∀ (a b : List (String × V)), lastOf (a ++ b) k = (lastOf b k).or (lastOf a k) := by
    intro a b
    induction a with
    | nil => simp [lastOf]
    | cons x a ih =>
      obtain ⟨k', v⟩ := x
      simp only [List.cons_append, lastOf, ih]
      cases lastOf b k <;> simp
  simp [openFrame, get_insertAll, this, Ctxt.get]

/-- On every key that is not BOTH pushed and ambient the default push and the override agree (for ambient maps
    with one pair per key, which is what the machine holds: `hc`). -/
theorem default_push_agrees_off_collisions (cur : Option (List (String × V))) (ps : List (String × V)) (k : String)
    (hc : lastOf (cur.getD []) k = get (cur.getD []) k)
    (h : lastOf ps k = none ∨ get (cur.getD []) k = none) :
    (openFrame .pushDefault cur ps).map (get · k) = (openFrame .push cur ps).map (get · k) := by
  rw [view_push_default, view_push, hc]
  rcases h with h | h <;> simp [h]

/-- **option_ctxt** (G19). `Some(c)` is transparent: the same observations as `c` itself. -/
theorem option_some_transparent (s : St V) (evs : List (Ev V)) :
    observationsOpt true s evs = observations s evs := by
  induction evs generalizing s with
  | nil => rfl
  | cons e es ih => simp only [observationsOpt, observations, outputOpt, stepOpt, if_true, ih]

/-- `None`: whatever the program does — any events, in any order, well-nested or not — the state never changes
    and every `with_current` sees no properties at all. -/
theorem option_none_inert (s : St V) (evs : List (Ev V)) :
    observationsOpt false s evs =
      (evs.filter fun | .observe _ _ => true | _ => false).map (fun _ => []) := by
  induction evs generalizing s with
  | nil => rfl
  | cons e es ih =>
    cases e <;> simp [observationsOpt, outputOpt, stepOpt, ih]

/-- `Frame::into_parts` + `Frame::from_parts` (+ `inner`, `inner_mut`) on a frame that is not entered: no event,
    no change of scoping state — the rebuilt frame is the frame. -/
theorem parts_is_identity (t f c : Nat) (σ : List (Nat × FSt)) (h : lookupF σ f = some (.idle c)) :
    compile (V := V) t σ (.parts f) = some ([], σ) := by
  simp [compile, h]

/-- **traceparent_ctxt_transparent** — `TraceparentCtxt<C>` for frames whose props carry no `span_id`:
    `incoming_traceparent` yields no slot, whatever the sampler, mask, and active traceparent; with nothing
    active, `open_push` then carries nothing (`slot.or_else(get_active_traceparent)` = `None`), the frame is
    inactive, `enter`/`exit` leave the thread's active traceparent alone, and `with_current` synthesises no
    ids — all that is left is the wrapped context's own behaviour (the C03 machine). -/
theorem traceparent_ctxt_transparent (c : Traceparent.Cfg) (useSampler : Bool) (st : Option Traceparent.Active)
    (traceId : Option Traceparent.Id) (mask : Traceparent.Mask) (calls : Nat) :
    Traceparent.incoming c useSampler st traceId none mask calls = (none, calls, []) ∧
    (Traceparent.Frm.swap ⟨false, none⟩ st = (⟨false, none⟩, st)) ∧
    Traceparent.ambientIds none = Traceparent.Ids.empty := by
  simp [Traceparent.incoming, Traceparent.Frm.swap, Traceparent.ambientIds]

/-- **program_balanced.** Every well-scoped program (`compileL … = some`; frames used via guard, `with`, `call`,
    `in_fn` on another thread, `in_future` polled in any scripted interleaving on any threads, panics unwinding
    to the nearest `catch_unwind`, thread hand-offs) executes as a balanced block from any consistent state:
    well-nested, every stack restored, every thread sees what it saw before, and every frame that still exists
    holds its own view (re-entrant). -/
theorem program_balanced (ps : List (Prog V)) (t : Nat) (σ σ' : List (Nat × FSt)) (evs : List (Ev V))
    (hc : compileL t σ (desugarL ps) = some (evs, σ')) (s : St V) (g : G V) (ha : Agree σ g) (hi : Inv s g) :
    ∃ g', run s g evs = some (exec s evs, g') ∧ g'.stack = g.stack ∧ Agree σ' g' ∧
      (∀ t c, (exec s evs).active t c = s.active t c) ∧
      (∀ f c, g'.ctxtOf f = some c → g'.loc f = none → ((exec s evs).slot f).get = g'.view f) := by
  obtain ⟨s', g', hr, hst, ha'⟩ := compileL_balanced (desugarL ps) t σ evs σ' hc s g ha hi
  have e := run_fst _ _ _ hr
  subst e
  obtain ⟨h1, _, _, h4⟩ := exit_restores s g hi evs _ g' hr hst
  exact ⟨g', hr, hst, ha', h1, h4⟩

/-- At every point of every program run from the pristine state, every thread sees in every context the view
    of the innermost frame entered there, and nothing when there is none. -/
theorem program_view_is_innermost (inl : Bool) (ps : List (Prog V)) (pre post : List (Ev V)) (σ' : List (Nat × FSt))
    (hc : compileL 0 [] (desugarL ps) = some (pre ++ post, σ')) :
    ∃ g1, run (St.init V inl) (G0 V) pre = some (exec (St.init V inl) pre, g1) ∧
      ∀ t c, (exec (St.init V inl) pre).active t c = (match g1.stack t c with
                                                      | [] => none
                                                      | f :: _ => g1.view f) := by
  have ha : Agree ([] : List (Nat × FSt)) (G0 V) := ⟨fun _ _ => rfl, fun f c h => by simp [lookupF] at h⟩
  obtain ⟨g', hr, _⟩ := program_balanced ps 0 [] σ' _ hc (St.init V inl) (G0 V) ha (inv_init inl)
  rw [run_append] at hr
  cases h1 : run (St.init V inl) (G0 V) pre with
  | none => simp [h1] at hr
  | some p1 =>
    obtain ⟨s1, g1⟩ := p1
    have e1 := run_fst _ _ _ h1
    subst e1
    refine ⟨g1, rfl, fun t c => ?_⟩
    exact (view_is_innermost _ _ (inv_init inl) pre _ g1 h1 t c).2.1

/-- The `tasks` construct alone: for every set of async bodies and EVERY schedule (interleaving, threads), the
    polls form a balanced block. -/
theorem tasks_balanced (ts : List (List (AProg V))) (sched : List (Nat × Nat)) (t : Nat) (σ σ' : List (Nat × FSt))
    (evs : List (Ev V)) (hc : compileL t σ (desugar (.tasks ts sched)) = some (evs, σ')) (s : St V) (g : G V)
    (ha : Agree σ g) (hi : Inv s g) :
    ∃ g', run s g evs = some (exec s evs, g') ∧ g'.stack = g.stack ∧
      (∀ t c, (exec s evs).active t c = s.active t c) := by
  have : desugarL [Prog.tasks ts sched] = desugar (.tasks ts sched) := by simp [desugarL]
  obtain ⟨g', h1, h2, _, h3, _⟩ := program_balanced [.tasks ts sched] t σ σ' evs (by rw [this]; exact hc) s g ha hi
  exact ⟨g', h1, h2, h3⟩

/-- **no_trace.** A whole program from the pristine state: nothing is left on any thread in any context. -/
theorem no_trace (inl : Bool) (ps : List (Prog V)) (evs : List (Ev V)) (σ' : List (Nat × FSt))
    (hc : compileL 0 [] (desugarL ps) = some (evs, σ')) (t c : Nat) :
    (exec (St.init V inl) evs).active t c = none := by
  have ha : Agree ([] : List (Nat × FSt)) (G0 V) := ⟨fun _ _ => rfl, fun f c h => by simp [lookupF] at h⟩
  obtain ⟨_, _, _, _, h, _⟩ := program_balanced ps 0 [] σ' evs hc (St.init V inl) (G0 V) ha (inv_init inl)
  rw [h]; rfl

/-! ### Non-vacuity -/

/-- two tasks on context 1 interleaved on thread 0 inside an outer frame, one of them panicking in its second
    poll, a frame moved to thread 1 by `in_fn`: the program is well-scoped, so every theorem above applies -/
def demo : List (Prog Nat) :=
  [.new 1 1 .push [("a", 1)],
   .use 1 .enter
     [.new 2 1 .push [("b", 2)], .new 3 1 .root [("c", 3)],
      .tasks [[.ause 2 [.sync [.obs 1], .yield, .sync [.obs 1, .panic]]],
              [.ause 3 [.sync [.obs 1], .yield, .sync [.obs 1]]]]
             [(0, 0), (1, 0), (1, 0), (0, 0)],
      .obs 1,
      .new 4 1 .push [("a", 4)],
      .use 4 (.inFn 1) [.obs 1]],
   .obs 1]

example : runProg true demo =
    some [[("a", 1), ("b", 2)], [("c", 3)], [("c", 3)], [("a", 1), ("b", 2)], [("a", 1)], [("a", 4)], []] := by
  decide

example : (compileL 0 [] (desugarL demo)).isSome = true := by decide


/-- a consistent non-pristine start: two frames opened on context 0 (hypotheses `Inv`, `PollsOK`) -/
def opens : List (Ev Nat) := [.open 0 0 1 .push [("a", 1)], .open 0 0 2 .root [("b", 2)]]
def s0 : St Nat := exec (St.init Nat true) opens
def g0 : G Nat :=
  { G0 Nat with ctxtOf := setSlot (setSlot (fun _ => none) 1 (some 0)) 2 (some 0)
                view := setSlot (setSlot (fun _ => none) 1 (some [("a", 1)])) 2 (some [("b", 2)]) }

theorem run_opens : run (St.init Nat true) (G0 Nat) opens = some (s0, g0) := by
  simp [run, opens, wstep, G0, s0, g0, exec, step, St.init, openFrame, insertAll, EmitModel.Ctxt.insert, setSlot]

example : Inv s0 g0 := inv_run (inv_init true) _ _ _ run_opens

/-- frame 1 polled on thread 0, frame 2 on thread 1 (its body observes), frame 1 again on thread 2 -/
example : PollsOK g0 s0 g0 [⟨0, 0, 1, []⟩, ⟨1, 0, 2, [.observe 1 0]⟩, ⟨2, 0, 1, []⟩] := by
  simp [PollsOK, g0, G0, setSlot, wstep, run, Poll.block, setStack]
  exact ⟨_, _, ⟨rfl, rfl⟩, rfl, _, _, ⟨rfl, rfl⟩, rfl, _, _, ⟨rfl, rfl⟩, rfl⟩


end EmitModel.C03
