/-
  Thm/C06.lean — property C06: the batching channel neither loses, duplicates nor reorders accepted items.
  Property theorems only; the inductive invariants live in Lemmas/Batcher.lean.

  All theorems quantify over every configuration `cfg` (capacity, retry budget, delays) and every state reachable
  by ANY list of labels of Model/Batcher.lean — i.e. every interleaving of any number of sender operations with the
  receiver's steps, every processor outcome (any remainder), drops of either half at any enabled point.

  OBLIGATIONS (audited by `check` with `#print axioms`):
    partition_fifo, partition_fifo_at_await, exactly_once, retry_is_remainder, truncation_counted,
    teardown_only_loss, no_delivery_after_teardown, take_hands_over, watcher_runs_outside_lock,
    watcher_reentry_keeps_batch, closed_after_receiver_drop
-/
import EmitModel.Lemmas.Batcher
import EmitModel.Lemmas.BatcherExt

namespace EmitModel.C06
open EmitModel.Batcher EmitModel.Sched

/-- **A dropped receiver closes the channel.** Whatever the shared state was when the receiver was torn down (a sender
    in the middle of its own critical section has simply finished it — the drop takes the lock), afterwards the
    channel is closed: `try_send` answers `closed` and accepts nothing, so no item can be accepted that nobody will
    ever process. -/
theorem closed_after_receiver_drop (cfg : Cfg) (s s' : St) (x : Nat) (h : dropReceiver s = some s') :
    s'.isOpen = false ∧ (trySend cfg s' x).2 = .closed ∧ (trySend cfg s' x).1 = s' := by
  have ho : s'.isOpen = false := by
    unfold dropReceiver at h
    split at h <;> simp at h <;> subst h <;> rfl
  refine ⟨ho, ?_, ?_⟩ <;> simp [trySend, ho]

/-- non-vacuity: the initial state with one pending item can lose its receiver -/
example : ∃ s', dropReceiver (send ⟨8, 10, 1, 10, 1, 10⟩ init 1) = some s' := ⟨_, rfl⟩

/-- **Partition / FIFO / exactly once.** In every reachable state the accepted items that were not cleared by a
    truncation are, in acceptance order, exactly: the concatenation of the first-attempt batches handed to the
    processor so far, then the batch swapped out under the lock but not yet handed over (non-empty only between
    the unlock and the call of `on_batch`), then the pending queue. So every kept item reaches the processor
    exactly once, in order, in batches that partition the sequence. Holds with the receiver alive or gone. -/
theorem partition_fifo (cfg : Cfg) (s : St) (h : Reachable cfg s) :
    s.acceptedKept = s.firstAttempts.flatten ++ s.rx.takenBatch ++ s.pending :=
  (invPart_reachable cfg s h).part

/-- At every await point of the receiver (and at its loop head) nothing is in between: kept = delivered ++ pending. -/
theorem partition_fifo_at_await (cfg : Cfg) (s : St) (h : Reachable cfg s)
    (hr : ∀ b tw fw o, s.rx ≠ .taken b tw fw o) :
    s.acceptedKept = s.firstAttempts.flatten ++ s.pending := by
  have := partition_fifo cfg s h
  cases hrx : s.rx
  case taken b tw fw o => exact absurd hrx (hr b tw fw o)
  all_goals simp_all

/-- With distinct items (the harness uses unique ids) positions are identities: no item is handed over twice as a
    first attempt, none is both delivered and still pending, none is both delivered/pending and truncated. -/
theorem exactly_once (cfg : Cfg) (s : St) (h : Reachable cfg s) (hd : s.accepted.Nodup) :
    (s.firstAttempts.flatten ++ s.rx.takenBatch ++ s.pending ++ s.truncations.flatten).Nodup := by
  have hp := (invPart_reachable cfg s h).perm
  rw [partition_fifo cfg s h] at hp
  exact hp.nodup_iff.mp hd

/-- **Retries.** Every `on_batch` call is either a first attempt or a retry; the argument of every retry call is
    exactly the remainder returned by the outcome before it (`retryCalls` pairs the remainder recorded at the
    `failRetry` outcome with the argument actually passed), and while the receiver waits to retry, the remainder
    it holds is the one that was returned. Nothing else of that batch is ever re-delivered (by `partition_fifo`
    every later first attempt is a later segment of the accepted sequence). -/
theorem retry_is_remainder (cfg : Cfg) (s : St) (h : Reachable cfg s) :
    (∀ p ∈ s.retryCalls, p.1 = p.2) ∧
    s.calls.length = s.firstAttempts.length + s.retryCalls.length ∧
    (∀ o r w, s.rx = .retryWait o r w → s.lastReturned = r) :=
  let i := invRetry_reachable cfg s h
  ⟨i.retryOk, i.callsLen, i.retryRem⟩

/-- **Truncations are counted and are the only way an accepted item leaves the kept sequence**: the counter
    `queue_full_truncated` equals the number of truncations, and the accepted items are, as a multiset, the kept
    ones plus the truncated segments. -/
theorem truncation_counted (cfg : Cfg) (s : St) (h : Reachable cfg s) :
    s.truncations.length = s.mTruncated ∧
    s.accepted.Perm (s.acceptedKept ++ s.truncations.flatten) :=
  let i := invPart_reachable cfg s h
  ⟨i.truncCount, i.perm⟩

/-- **Teardown.** After the receiver was torn down, the only kept items that were never handed to the processor
    are those pending at that moment (they stay pending, or a later overflowing `send` clears and counts them). -/
theorem teardown_only_loss (cfg : Cfg) (s : St) (h : Reachable cfg s) (ht : s.tornDown = true) :
    s.rx = .done ∧
    s.acceptedKept = s.firstAttempts.flatten ++ s.pending ∧
    (s.pending = s.pendingAtTeardown ∨ s.pending = []) ∧
    (∀ x ∈ s.acceptedKept, x ∈ s.firstAttempts.flatten ∨ x ∈ s.pendingAtTeardown) := by
  have it := invTear_reachable cfg s h
  have hdone := it.done ht
  have hk : s.acceptedKept = s.firstAttempts.flatten ++ s.pending :=
    partition_fifo_at_await cfg s h (by simp [hdone])
  refine ⟨hdone, hk, it.pend ht, ?_⟩
  intro x hx
  rw [hk, List.mem_append] at hx
  rcases hx with hx | hx
  · exact Or.inl hx
  · rcases it.pend ht with e | e
    · exact Or.inr (e ▸ hx)
    · simp [e] at hx

/-- Once the receiver is gone (returned or torn down) no label delivers anything any more. -/
theorem no_delivery_after_teardown (cfg : Cfg) (s s' : St) (l : Label) (hd : s.rx = .done)
    (hs : step cfg s l = some s') :
    s'.rx = .done ∧ s'.calls = s.calls ∧ s'.firstAttempts = s.firstAttempts := by
  cases l
  case send x => step_elim hs; obtain ⟨e1, _, _, e4, e5⟩ := send_rx cfg s x; simp [e1, e4, e5, hd]
  case trySend x => step_elim hs; obtain ⟨e1, _, _, e4, e5⟩ := trySend_rx cfg s x; simp [e1, e4, e5, hd]
  all_goals
    step_elim hs
    all_goals simp_all

/-! ### Watchers (`when_empty` / `when_flushed` callbacks) that re-enter the channel -/

/-- **The swap-out.** The one critical section of the receiver loop (lib.rs:369-400) takes the whole pending batch
    together with every watcher registered on it and leaves the shared state EMPTY — this is the point
    `Sender::when_empty` promises ("a point where the current batch is empty") — and it runs no callback: the
    callbacks are separate, later labels (`rxFireTake`, `rxFireFlush`). -/
theorem take_hands_over (s s' : St) (h : rxTake s = some s') :
    s'.pending = [] ∧ s'.pendTakeW = [] ∧ s'.pendFlushW = [] ∧
    s'.rx.takenBatch = s.pending ∧ s'.rx.takeWs = s.pendTakeW ∧ s'.rx.ws = s.pendFlushW ∧
    s'.firedTake = s.firedTake ∧ s'.fired = s.fired := by
  unfold rxTake at h
  split at h
  · split at h <;> simp at h <;> subst h <;> simp_all
  · simp at h

/-- **A callback runs outside the lock.** The label that runs one watcher callback (`notify_on_take` /
    `notify_on_flush`, lib.rs:403, 461, 466) records that it ran — exactly that watcher, exactly once — and touches
    nothing behind the mutex and nothing of the batch the receiver holds; and in the state it runs in, EVERY sender
    operation is enabled (the `Sender` still in hand): a callback that re-enters the channel with `send`,
    `try_send`, `when_flushed`, `when_empty` (or a blocking send, or metrics sampling — a read) performs an ordinary
    sender step; the receiver never makes it wait. -/
theorem watcher_runs_outside_lock (cfg : Cfg) (s s' : St) (l : Label) (hl : l = .rxFireTake ∨ l = .rxFireFlush)
    (h : step cfg s l = some s') :
    s'.pending = s.pending ∧ s'.pendTakeW = s.pendTakeW ∧ s'.pendFlushW = s.pendFlushW ∧
    s'.isOpen = s.isOpen ∧ s'.inBatch = s.inBatch ∧ s'.senderAlive = s.senderAlive ∧
    s'.rx.takenBatch = s.rx.takenBatch ∧ s'.calls = s.calls ∧
    (∃ w, (l = .rxFireTake ∧ s'.firedTake = s.firedTake ++ [w] ∧ s'.fired = s.fired ∧ s.rx.takeWs = w :: s'.rx.takeWs) ∨
          (l = .rxFireFlush ∧ s'.fired = s.fired ++ [w] ∧ s'.firedTake = s.firedTake ∧ s.rx.ws = w :: s'.rx.ws)) ∧
    (s.senderAlive = true → ∀ m : Label, m.isSender = true → (step cfg s' m).isSome = true) := by
  have hen : s'.senderAlive = s.senderAlive →
      (s.senderAlive = true → ∀ m : Label, m.isSender = true → (step cfg s' m).isSome = true) :=
    fun e ha m hm => sender_enabled cfg s' m hm (e ▸ ha)
  rcases hl with rfl | rfl
  · step_elim h
    all_goals simp_all
  · step_elim h
    all_goals simp_all

/-- **A re-entrant watcher cannot disturb the batch in hand.** Whatever sender operations are performed — from
    inside a callback or from any other thread — between the swap-out of a batch and its hand-over (or at any other
    time), the receiver's control point with the batch and the watchers it holds is untouched and nothing is handed
    to the processor by them; whatever they get accepted lands in the pending queue, after the batch in hand
    (`partition_fifo` holds in the resulting state: it is reachable). -/
theorem watcher_reentry_keeps_batch (cfg : Cfg) (s s' : St) (h : Reachable cfg s) (ls : List Label)
    (hl : ∀ l ∈ ls, l.isSender = true) (hrun : run (step cfg) s ls = some s') :
    s'.rx = s.rx ∧ s'.calls = s.calls ∧ s'.firstAttempts = s.firstAttempts ∧
    s'.acceptedKept = s'.firstAttempts.flatten ++ s.rx.takenBatch ++ s'.pending := by
  obtain ⟨e1, e2, e3⟩ := sender_run_rx cfg ls s s' hl hrun
  refine ⟨e1, e2, e3, ?_⟩
  have := partition_fifo cfg s' (Sched.Reachable.run h hrun)
  rw [e1] at this
  exact this

/-! ### Non-vacuity: concrete reachable states in which the clauses above are not trivially true -/

/-- capacity 2: three sends overflow once; the receiver takes `[3]`, the processor returns remainder `[3]`,
    the retry happens; meanwhile 4 and 5 are accepted. -/
def demo : List Label :=
  [.send 1, .send 2, .send 3, .rxTake, .rxBegin, .send 4, .rxOutcome (.failRetry [3]), .trySend 5,
   .rxRetryWaited, .rxOutcome .ok, .rxTake]

example : ∃ s, Reachable (Cfg.real 2) s ∧ s.firstAttempts = [[3]] ∧ s.rx.takenBatch = [4, 5] ∧ s.pending = [] ∧
    s.truncations = [[1, 2]] ∧ s.retryCalls = [([3], [3])] ∧ s.accepted = [1, 2, 3, 4, 5] ∧ s.accepted.Nodup :=
  ⟨_, ⟨demo, rfl⟩, by decide⟩

example : ∃ s, Reachable (Cfg.real 2) s ∧ s.tornDown = true ∧ s.pendingAtTeardown = [2] ∧ s.firstAttempts = [[1]] :=
  ⟨_, ⟨[.send 1, .rxTake, .rxBegin, .send 2, .dropReceiver], rfl⟩, by decide⟩

/-- the demo of seeded change C06-r3m2: [0] is being processed, [1] is pending with a `when_empty` watcher; the
    batch completes, the receiver swaps [1] out, the watcher runs and `try_send`s 2 from inside the callback — an
    ordinary sender step: 2 is accepted behind the batch in hand, and both are handed over, in order -/
example : ∃ s, Reachable (Cfg.real 16) s ∧ s.rx = .taken [1] [] [] true ∧ s.pending = [2] ∧ s.firedTake = [7] ∧
    ∃ s', run (step (Cfg.real 16)) s [.rxBegin, .rxOutcome .ok, .rxTake, .rxBegin] = some s' ∧
      s'.firstAttempts = [[0], [1], [2]] ∧ s'.acceptedKept = [0, 1, 2] :=
  ⟨_, ⟨[.send 0, .rxTake, .rxBegin, .send 1, .whenEmpty 7, .rxOutcome .ok, .rxTake, .rxFireTake, .trySend 2], rfl⟩,
   by decide, by decide, by decide, _, rfl, by decide, by decide⟩


/-- **Every way of building an outcome means the same.** "Retry exactly `rem`" reached directly, by attaching a
    remainder to a non-retryable error, by replacing the remainder of a retryable error, or by taking an error apart
    and rebuilding it is one and the same value, so the retry clause (`retry_is_remainder`) does not depend on how
    the processor built its error; likewise for "failed, nothing to retry". -/
theorem outcome_forms_agree {T : Type} (rem other : T) :
    (BErr.noRetry : BErr T).mapRetryable (fun _ => some rem) = BErr.retry rem ∧
    (BErr.retry other).mapRetryable (fun r => r.map fun _ => rem) = BErr.retry rem ∧
    (match (BErr.retry rem).tryIntoRetryable with | .ok r => BErr.retry r | .error e => e) = BErr.retry rem ∧
    (BErr.retry other).mapRetryable (fun _ => (none : Option T)) = BErr.noRetry ∧
    (match (BErr.noRetry : BErr T).tryIntoRetryable with | .ok r => BErr.retry r | .error e => e) = BErr.noRetry := by
  refine ⟨rfl, rfl, rfl, rfl, rfl⟩

end EmitModel.C06
