/-
  Thm/C17.lean — property C17: level filtering follows the most specific module rule.
  Property theorems only; helper lemmas live in Lemmas/Level.lean.

  OBLIGATIONS (audited by `check` with `#print axioms`):
    trie_refines_spec, spec_some_iff, spec_none_iff, trie_sorted, min_level_spec, path_map_spec,
    reregistration_last_wins, order_irrelevant, parseTail_spec, level_roundtrip, default_is_info,
    bare_level_spec, min_generic_spec, min_level_is_generic, generic_path_map_spec, path_map_is_generic,
    macro_level_table, level_macro_passes_min_iff, level_macro_passes_path_map_iff, level_span_enabled_iff
-/
import EmitModel.Lemmas.Level
import EmitModel.Lemmas.Pipeline

namespace EmitModel.C17
open EmitModel.Level Std

/-- **Specification.** The registrations as (segments, filter) pairs; the default minimum is the registration
    of the empty path. The applicable filter is the last registration of the longest registered prefix
    (at segment boundaries) of the event's module. -/
def regPairs (regs : List Reg) : List (List String × MinF) := regs.map fun r => (r.segs, r.f)

def specLookup (regs : List Reg) (m : List String) : Option MinF := longest (lastReg (regPairs regs)) m

theorem build_eq (regs : List Reg) :
    build regs = (regPairs regs).foldl (fun n r => Node.insert compare n r.1 r.2) Node.empty := by
  simp [build, regPairs, List.foldl_map]

/-- Refinement: the trie built by any sequence of `default_min_level` / `min_level` calls, walked as
    `MinLevelPathMap::matches` walks it, returns what the specification says — for every registration list
    (any order, repeats, shared textual prefixes) and every module. -/
theorem trie_refines_spec (regs : List Reg) (m : List String) :
    Node.lookup compare (build regs) m = specLookup regs m := by
  unfold Node.lookup specLookup longest
  rw [Node.walk_eq, ← Node.get_nil compare (build regs)]
  have e : ∀ q, Node.get compare (build regs) q = lastReg (regPairs regs) q := by
    intro q
    rw [build_eq, get_foldl_insert, Node.get_empty]; simp
  rw [longestBelow_congr m e, e]

/-- What the specification means, spelled out: `f` applies iff it is the last registration of some prefix
    of the module (k segments) and no longer prefix is registered at all. -/
theorem spec_some_iff (regs : List Reg) (m : List String) (f : MinF) :
    specLookup regs m = some f ↔
      ∃ k, k ≤ m.length ∧ lastReg (regPairs regs) (m.take k) = some f ∧
        ∀ j, k < j → j ≤ m.length → lastReg (regPairs regs) (m.take j) = none :=
  longest_eq_some_iff _ _ _

/-- No filter applies (the event is accepted) iff no prefix of the module, including the empty one
    (= the default), is registered. -/
theorem spec_none_iff (regs : List Reg) (m : List String) :
    specLookup regs m = none ↔ ∀ j, j ≤ m.length → lastReg (regPairs regs) (m.take j) = none :=
  longest_eq_none_iff _ _

/-- The children of every node stay strictly sorted, so the precondition of `binary_search_by_key`
    (which the model replaces by its sorted-scan meaning) holds in every reachable trie. -/
theorem trie_sorted (regs : List Reg) : Node.Sorted compare (build regs) := by
  rw [build_eq]; exact sorted_foldl_insert compare _ _ (Node.empty_sorted compare)

/-- `MinLevelFilter::matches`: accepted iff the effective level (pulled leniently from the first `lvl`
    property, else the configured default, else Info) is at least the minimum. -/
theorem min_level_spec (f : MinF) (props : List (String × LvlVal)) :
    f.matches props = (effectiveLevel f.dflt props).ge f.min := rfl

theorem default_is_info (props : List (String × LvlVal))
    (h : (lookupFirst "lvl" props).bind LvlVal.cast = none) : effectiveLevel none props = .info := by
  simp [effectiveLevel, h]

/-- `MinLevelPathMap::matches` = apply the filter the specification selects; accept when there is none. -/
theorem path_map_spec (regs : List Reg) (mdl : String) (props : List (String × LvlVal)) :
    pathMapMatches regs mdl props =
      match specLookup regs (segments mdl) with
      | none => true
      | some f => (effectiveLevel f.dflt props).ge f.min := by
  unfold pathMapMatches
  rw [trie_refines_spec]
  rfl

/-- Re-registering a path: the last registration wins. -/
theorem reregistration_last_wins (regs : List Reg) (r : Reg) :
    lastReg (regPairs (regs ++ [r])) r.segs = some r.f := by
  have : ∀ (l : List (List String × MinF)) (p : List String) (f : MinF), lastReg (l ++ [(p, f)]) p = some f := by
    intro l p f
    induction l with
    | nil => simp [lastReg]
    | cons a l ih => obtain ⟨p', f'⟩ := a; simp [lastReg, ih]
  simpa [regPairs] using this _ _ _

/-- With pairwise distinct registered paths the registration order is irrelevant. -/
theorem order_irrelevant (regs regs' : List Reg) (hp : regs.Perm regs')
    (hd : (regs.map Reg.segs).Nodup) (m : List String) :
    Node.lookup compare (build regs) m = Node.lookup compare (build regs') m := by
  rw [trie_refines_spec, trie_refines_spec]
  unfold specLookup
  have key : ∀ (l l' : List (List String × MinF)), l.Perm l' → (l.map Prod.fst).Nodup →
      ∀ p, lastReg l p = lastReg l' p := by
    intro l l' h
    induction h with
    | nil => intros; rfl
    | cons a _ ih =>
      intro hn p; obtain ⟨p', f⟩ := a
      simp only [List.map_cons, List.nodup_cons] at hn
      simp [lastReg, ih hn.2 p]
    | swap a b l =>
      intro hn p; obtain ⟨pa, fa⟩ := a; obtain ⟨pb, fb⟩ := b
      simp only [List.map_cons, List.nodup_cons, List.mem_cons, not_or] at hn
      simp only [lastReg]
      by_cases h1 : pa = p <;> by_cases h2 : pb = p
      · exact absurd (h2.trans h1.symm) hn.1.1
      · simp [h1, h2]
      · simp [h1, h2]
      · simp [h1, h2]
    | trans h1 h2 ih1 ih2 =>
      intro hn p
      rw [ih1 hn p, ih2 ((h1.map Prod.fst).nodup_iff.mp hn) p]
  have hn : ((regPairs regs).map Prod.fst).Nodup := by simpa [regPairs, Function.comp_def] using hd
  have hp' : (regPairs regs).Perm (regPairs regs') := hp.map (fun r : Reg => (r.segs, r.f))
  have e := key (regPairs regs) (regPairs regs') hp' hn
  unfold longest
  rw [longestBelow_congr m e, e]

/-- The lenient tail matcher, spelled out: the input is some ASCII letters that (upper-cased) spell a prefix
    of the expected word, followed by nothing or by a printable non-letter ASCII character and anything. -/
theorem parseTail_spec (input expected : List Char) :
    parseTail input expected = true ↔
      ∃ letters tail, input = letters ++ tail ∧ (∀ c ∈ letters, isAsciiAlpha c = true) ∧
        (letters.map asciiUpper).isPrefixOf expected = true ∧
        (tail = [] ∨ ∃ c t, tail = c :: t ∧ isAsciiAlpha c = false ∧ isAsciiNonControl c = true) := by
  induction input generalizing expected with
  | nil => simp only [parseTail, true_iff]; exact ⟨[], [], rfl, by simp, by simp, Or.inl rfl⟩
  | cons c rest ih =>
    simp only [parseTail]
    by_cases ha : isAsciiAlpha c = true
    · simp only [ha, if_true]
      cases expected with
      | nil =>
        simp only [Bool.false_eq_true, false_iff, not_exists, not_and]
        intro letters tail h1 h2 h3
        cases letters with
        | nil =>
          simp at h1; subst h1
          rintro (h | ⟨c', t, h, h4, _⟩)
          · simp at h
          · simp at h; rw [← h.1] at h4; simp [ha] at h4
        | cons l ls => simp [List.isPrefixOf] at h3
      | cons e es =>
        by_cases he : asciiUpper c = e
        · simp only [he, beq_self_eq_true, if_true, ih]
          constructor
          · rintro ⟨letters, tail, rfl, h2, h3, h4⟩
            exact ⟨c :: letters, tail, rfl, by simpa [ha] using h2, by simpa [List.isPrefixOf, he] using h3, h4⟩
          · rintro ⟨letters, tail, h1, h2, h3, h4⟩
            cases letters with
            | nil =>
              simp at h1; subst h1
              rcases h4 with h | ⟨c', t, h, h4, _⟩
              · simp at h
              · simp at h; rw [← h.1] at h4; simp [ha] at h4
            | cons l ls =>
              simp at h1; obtain ⟨rfl, rfl⟩ := h1
              exact ⟨ls, tail, rfl, fun c hc => h2 c (by simp [hc]), by simpa [List.isPrefixOf, he] using h3, h4⟩
        · have : (asciiUpper c == e) = false := by simpa using he
          simp only [this, Bool.false_eq_true, if_false, false_iff, not_exists, not_and]
          intro letters tail h1 h2 h3
          cases letters with
          | nil =>
            simp at h1; subst h1
            rintro (h | ⟨c', t, h, h4, _⟩)
            · simp at h
            · simp at h; rw [← h.1] at h4; simp [ha] at h4
          | cons l ls =>
            simp at h1; obtain ⟨rfl, rfl⟩ := h1
            simp [List.isPrefixOf, he] at h3
    · have ha' : isAsciiAlpha c = false := by simpa using ha
      simp only [ha', Bool.false_eq_true, if_false]
      by_cases hn : isAsciiNonControl c = true
      · simp only [hn, if_true, true_iff]
        exact ⟨[], c :: rest, rfl, by simp, by simp [List.isPrefixOf], Or.inr ⟨c, rest, rfl, ha', hn⟩⟩
      · simp only [hn, Bool.false_eq_true, if_false, false_iff, not_exists, not_and]
        intro letters tail h1 h2 h3
        cases letters with
        | nil =>
          simp at h1; subst h1
          rintro (h | ⟨c', t, h, _, h5⟩)
          · simp at h
          · simp at h; rw [← h.1] at h5; exact hn h5
        | cons l ls =>
          simp at h1; obtain ⟨rfl, rfl⟩ := h1
          have := h2 c (by simp); simp [ha'] at this

/-- A typed level survives buffering: after `to_owned()` it is read back through its Display text. -/
theorem owned_typed_level_kept (l : Level) : LvlVal.cast (.ownedTyped l) = LvlVal.cast (.typed l) := by
  cases l <;> decide

/-- Display then parse is the identity on levels. -/
theorem level_roundtrip (l : Level) : parseLevel l.display = some l := by
  cases l <;> decide

/-! ### Non-vacuity: concrete instances of the hypotheses / interesting cases -/

private def fE : MinF := ⟨.error, none⟩
private def fW : MinF := ⟨.warn, none⟩

/-- sibling sharing a textual prefix: `aa` is not governed by the registration of `a` -/
example : specLookup [.path "a" fE] (segments "aa::b") = none := by decide
example : specLookup [.path "a" fE] (segments "a::b") = some fE := by decide
/-- deepest wins regardless of order -/
example : specLookup [.path "a::b::c" fW, .path "a" fE] (segments "a::b::c::d") = some fW := by decide
example : specLookup [.path "a" fE, .path "a::b::c" fW] (segments "a::b") = some fE := by decide
example : ([Reg.path "a" fE, .path "a::b" fW].map Reg.segs).Nodup := by decide


/-- `Path::segments` inverts joining: the `::`-join of colon-free segments splits back into them. -/
theorem segments_of_join (segs : List (List Char)) (hne : segs ≠ []) (h : ∀ s ∈ segs, ColonFree s) :
    splitColons (joinSegs segs) [] = segs := splitColons_join segs hne h

/-- **"An ancestor of it at `::` boundaries".** The segment-prefix relation the trie and the specification use
    is exactly `Path::is_child_of` on the path texts: a registered path governs a module iff the module's text
    is the path's text followed by nothing or by `::…` (so `aa::b` is not governed by `a`). -/
theorem prefix_iff_is_child_of (ps ms : List (List Char)) (hp : ps ≠ []) (hm : ms ≠ [])
    (hps : ∀ s ∈ ps, ColonFree s) (hms : ∀ s ∈ ms, ColonFree s) :
    isChildOf (joinSegs ms) (joinSegs ps) = true ↔ ps <+: ms :=
  (isChildOf_iff _ _).trans (prefix_iff_child ps ms hp hm hps hms)

example : isChildOf "aa::b".toList "a".toList = false := by decide
example : isChildOf "a::b".toList "a".toList = true := by decide


/-! ## `From<Level>`, user level types -/

/-- A bare `Level` (`From<Level> for MinLevelFilter`) is the filter with that minimum and no unleveled default:
    it accepts iff the event's level — or Info for an event without one — is at least the level. -/
theorem bare_level_spec (l : Level) (props : List (String × LvlVal)) :
    (MinF.ofLevel l).matches props = (effectiveLevel none props).ge l := rfl

/-- `MinLevelFilter<L>` for ANY level type: accepted iff the level read by `L`'s own `FromValue` from the first
    `lvl` property, else the configured default, else `L::default()`, is `>=` the minimum in `L`'s own order. -/
theorem min_generic_spec {L : Type} (T : LevelType L) (f : MinG L) (props : List (String × LvlVal)) :
    f.matches T props =
      T.ge (match (lookupFirst "lvl" props).bind T.cast with
        | some l => l
        | none => f.dflt.getD T.default) f.min := by
  unfold MinG.matches
  cases (lookupFirst "lvl" props).bind T.cast <;> rfl

/-- `emit::Level` is one instance of the generic filter. -/
theorem min_level_is_generic (f : MinF) (props : List (String × LvlVal)) :
    f.matches props = (⟨f.min, f.dflt⟩ : MinG Level).matches emitLevel props := rfl

/-- **`MinLevelPathMap<L>` for any payload.** The generic trie walk selects the last registration of the
    longest registered prefix of the module and accepts when there is none — for every registration list,
    every module and every filter type; which level type the selected filter compares is irrelevant to the
    selection. -/
theorem generic_path_map_spec {β : Type} (accept : β → Bool) (regs : List (List String × β)) (mdl : String) :
    pathMapMatchesG accept regs mdl =
      match longest (lastReg regs) (segments mdl) with
      | none => true
      | some f => accept f := by
  have key : Node.lookup compare (buildG regs) (segments mdl) = longest (lastReg regs) (segments mdl) := by
    unfold Node.lookup longest
    rw [Node.walk_eq, ← Node.get_nil compare (buildG regs)]
    have e : ∀ q, Node.get compare (buildG regs) q = lastReg regs q := by
      intro q
      unfold buildG
      rw [get_foldl_insert, Node.get_empty]; simp
    rw [longestBelow_congr (segments mdl) e, e]
  unfold pathMapMatchesG
  rw [key]
  cases longest (lastReg regs) (segments mdl) <;> rfl

/-- The `emit::Level` map is the generic one. -/
theorem path_map_is_generic (regs : List Reg) (mdl : String) (props : List (String × LvlVal)) :
    pathMapMatches regs mdl props = pathMapMatchesG (fun f => f.matches props) (regPairs regs) mdl := by
  unfold pathMapMatches pathMapMatchesG buildG
  rw [build_eq]
  cases Node.lookup compare (List.foldl (fun n r => Node.insert compare n r.fst r.snd) Node.empty (regPairs regs))
    (segments mdl) <;> rfl

/-- The user level type of the harness orders severities the other way round: a minimum of 3 accepts 0-3. -/
example : (⟨3, none⟩ : MinG Nat).matches sevType [("lvl", .int 2)] = true ∧
    (⟨3, none⟩ : MinG Nat).matches sevType [("lvl", .int 4)] = false ∧
    (⟨3, none⟩ : MinG Nat).matches sevType [("lvl", .text "2")] = false ∧   -- unreadable → default 6
    (⟨7, some 7⟩ : MinG Nat).matches sevType [] = true := by decide

/-! ## The level macros against level filters -/

open EmitModel.Pipeline

/-- The level each macro family attaches (the whole table): `emit!`/`evt!`/`#[span]`/`new_span!` none,
    the `debug`/`info`/`warn`/`error` forms their own. -/
theorem macro_level_table :
    [LevelMacro.plain, .debug, .info, .warn, .error].map LevelMacro.level =
      [none, some .debug, some .info, some .warn, some .error] := by decide

/-- **An event emitted by `emit::debug!/info!/warn!/error!` passes `min_filter(min)` iff the macro's level is at
    least `min`** — whatever the other call-site properties (none of which can be `lvl`: the macro rejects a
    duplicate key), the `props:` base, the ambient properties and the filter's unleveled default are. The
    macro's level is found first because call-site properties precede base and ambient ones. -/
theorem level_macro_passes_min_iff (m : LevelMacro) (l : Level) (hm : m.level = some l) (f : MinF)
    (mdl tpl : String) (extent : Option Extent) (props base amb : List (String × Val))
    (h : NoKey "lvl" props) :
    minLevelLeaf f ⟨mdl, tpl, extent, macroProps m props ++ base ++ amb⟩ = l.ge f.min := by
  simp only [minLevelLeaf, MinF.matches, macroProps, hm, lvl_lookupFirst, List.append_assoc,
    lookupFirst_insertProp_append "lvl" (.lvl l) props (base ++ amb) h]
  rfl

/-- The same through a per-module map: the minimum registered for the longest registered prefix of the event's
    module decides; an unregistered module passes. -/
theorem level_macro_passes_path_map_iff (m : LevelMacro) (l : Level) (hm : m.level = some l) (regs : List Reg)
    (mdl tpl : String) (extent : Option Extent) (props base amb : List (String × Val))
    (h : NoKey "lvl" props) :
    pathMapLeaf regs ⟨mdl, tpl, extent, macroProps m props ++ base ++ amb⟩ =
      match specLookup regs (segments mdl) with
      | none => true
      | some f => l.ge f.min := by
  unfold pathMapLeaf
  rw [path_map_spec]
  cases hs : specLookup regs (segments mdl) with
  | none => rfl
  | some f =>
    have := level_macro_passes_min_iff m l hm f mdl tpl extent props base amb h
    simpa [minLevelLeaf, min_level_spec] using this

/-- **A span of level `l` is enabled by `min_filter(min)` iff `l >= min`** (and a plain `#[span]` iff the
    filter's unleveled default, else Info, is) — provided nothing in front of the macro's level (the call-site
    properties, the ids, the ambient context) already carries a `lvl`: the begin-span filter puts the macro's
    level LAST, so an ambient `lvl` would be read instead. -/
theorem level_span_enabled_iff (m : LevelMacro) (f : MinF) (mdl name : String)
    (ctxtProps ids amb : List (String × Val)) (h : NoKey "lvl" (ctxtProps ++ ids ++ amb)) :
    minLevelLeaf f (spanStartEvt m mdl name ctxtProps ids amb) =
      ((m.level.or f.dflt).getD .info).ge f.min := by
  have hk : NoKey "lvl" ([("evt_kind", Val.kind .span), ("span_name", .str name)] ++ ctxtProps ++ ids ++ amb) := by
    intro p hp
    simp only [List.append_assoc, List.mem_append, List.mem_cons, List.not_mem_nil, or_false] at hp
    rcases hp with (rfl | rfl) | hp
    · decide
    · show "span_name" ≠ "lvl"; decide
    · exact h p (by simpa [List.append_assoc] using hp)
  simp only [minLevelLeaf, MinF.matches, spanStartEvt, lvl_lookupFirst,
    lookupFirst_append_of_noKey "lvl" _ (lvlProp m) hk]
  cases m <;> simp [lvlProp, LevelMacro.level, Pipeline.lookupFirst, Val.toLvlVal, LvlVal.cast]

/-- … and the counterpart: an ambient `lvl` in front shadows the macro's level (the code as it is). -/
example : minLevelLeaf ⟨.warn, none⟩ (spanStartEvt .error "m" "sp" [] [] [("lvl", .str "debug")]) = false := by decide
example : minLevelLeaf ⟨.warn, none⟩ (spanStartEvt .error "m" "sp" [] [] []) = true := by decide
example : NoKey "lvl" ([("n", Val.int 7)] ++ [("trace_id", .disp "2a")] ++ [("amb", .int 1)]) := by
  intro p hp; simp at hp; rcases hp with rfl | rfl | rfl <;> decide
example : minLevelLeaf ⟨.warn, some .error⟩ ⟨"m", "t", none, macroProps .info [("a", .int 1), ("z", .int 2)] ++ [] ++ []⟩ = false := by
  decide

end EmitModel.C17
