/-
  Thm/C17.lean — property C17: level filtering follows the most specific module rule.
  Property theorems only; helper lemmas live in Lemmas/Level.lean.

  OBLIGATIONS (audited by `check` with `#print axioms`):
    trie_refines_spec, spec_some_iff, spec_none_iff, trie_sorted, min_level_spec, path_map_spec,
    reregistration_last_wins, order_irrelevant, parseTail_spec, level_roundtrip, default_is_info
-/
import EmitModel.Lemmas.Level

namespace EmitModel.C17
open EmitModel.Level Std

/-- **Specification.** The registrations as (segments, filter) pairs; the default minimum is the registration
    of the empty path. The applicable filter is the last registration of the longest registered prefix
    (at segment boundaries) of the event's module. -/
def regPairs (regs : List Reg) : List (List String × MinF) := regs.map fun r => (r.segs, r.f)

def specLookup (regs : List Reg) (m : List String) : Option MinF := longest (lastReg (regPairs regs)) m

theorem build_eq (regs : List Reg) :
    build regs = (regPairs regs).foldl (fun n r => Node.insert compare n r.1 r.2) Node.empty := by
  simp [build, regPairs, List.foldl_map]

/-- Refinement: the trie built by any sequence of `default_min_level` / `min_level` calls, walked as
    `MinLevelPathMap::matches` walks it, returns what the specification says — for every registration list
    (any order, repeats, shared textual prefixes) and every module. -/
theorem trie_refines_spec (regs : List Reg) (m : List String) :
    Node.lookup compare (build regs) m = specLookup regs m := by
  unfold Node.lookup specLookup longest
  rw [Node.walk_eq, ← Node.get_nil compare (build regs)]
  have e : ∀ q, Node.get compare (build regs) q = lastReg (regPairs regs) q := by
    intro q
    rw [build_eq, get_foldl_insert, Node.get_empty]; simp
  rw [longestBelow_congr m e, e]

/-- What the specification means, spelled out: `f` applies iff it is the last registration of some prefix
    of the module (k segments) and no longer prefix is registered at all. -/
theorem spec_some_iff (regs : List Reg) (m : List String) (f : MinF) :
    specLookup regs m = some f ↔
      ∃ k, k ≤ m.length ∧ lastReg (regPairs regs) (m.take k) = some f ∧
        ∀ j, k < j → j ≤ m.length → lastReg (regPairs regs) (m.take j) = none :=
  longest_eq_some_iff _ _ _

/-- No filter applies (the event is accepted) iff no prefix of the module, including the empty one
    (= the default), is registered. -/
theorem spec_none_iff (regs : List Reg) (m : List String) :
    specLookup regs m = none ↔ ∀ j, j ≤ m.length → lastReg (regPairs regs) (m.take j) = none :=
  longest_eq_none_iff _ _

/-- The children of every node stay strictly sorted, so the precondition of `binary_search_by_key`
    (which the model replaces by its sorted-scan meaning) holds in every reachable trie. -/
theorem trie_sorted (regs : List Reg) : Node.Sorted compare (build regs) := by
  rw [build_eq]; exact sorted_foldl_insert compare _ _ (Node.empty_sorted compare)

/-- `MinLevelFilter::matches`: accepted iff the effective level (pulled leniently from the first `lvl`
    property, else the configured default, else Info) is at least the minimum. -/
theorem min_level_spec (f : MinF) (props : List (String × LvlVal)) :
    f.matches props = (effectiveLevel f.dflt props).ge f.min := rfl

theorem default_is_info (props : List (String × LvlVal))
    (h : (lookupFirst "lvl" props).bind LvlVal.cast = none) : effectiveLevel none props = .info := by
  simp [effectiveLevel, h]

/-- `MinLevelPathMap::matches` = apply the filter the specification selects; accept when there is none. -/
theorem path_map_spec (regs : List Reg) (mdl : String) (props : List (String × LvlVal)) :
    pathMapMatches regs mdl props =
      match specLookup regs (segments mdl) with
      | none => true
      | some f => (effectiveLevel f.dflt props).ge f.min := by
  unfold pathMapMatches
  rw [trie_refines_spec]
  rfl

/-- Re-registering a path: the last registration wins. -/
theorem reregistration_last_wins (regs : List Reg) (r : Reg) :
    lastReg (regPairs (regs ++ [r])) r.segs = some r.f := by
  have : ∀ (l : List (List String × MinF)) (p : List String) (f : MinF), lastReg (l ++ [(p, f)]) p = some f := by
    intro l p f
    induction l with
    | nil => simp [lastReg]
    | cons a l ih => obtain ⟨p', f'⟩ := a; simp [lastReg, ih]
  simpa [regPairs] using this _ _ _

/-- With pairwise distinct registered paths the registration order is irrelevant. -/
theorem order_irrelevant (regs regs' : List Reg) (hp : regs.Perm regs')
    (hd : (regs.map Reg.segs).Nodup) (m : List String) :
    Node.lookup compare (build regs) m = Node.lookup compare (build regs') m := by
  rw [trie_refines_spec, trie_refines_spec]
  unfold specLookup
  have key : ∀ (l l' : List (List String × MinF)), l.Perm l' → (l.map Prod.fst).Nodup →
      ∀ p, lastReg l p = lastReg l' p := by
    intro l l' h
    induction h with
    | nil => intros; rfl
    | cons a _ ih =>
      intro hn p; obtain ⟨p', f⟩ := a
      simp only [List.map_cons, List.nodup_cons] at hn
      simp [lastReg, ih hn.2 p]
    | swap a b l =>
      intro hn p; obtain ⟨pa, fa⟩ := a; obtain ⟨pb, fb⟩ := b
      simp only [List.map_cons, List.nodup_cons, List.mem_cons, not_or] at hn
      simp only [lastReg]
      by_cases h1 : pa = p <;> by_cases h2 : pb = p
      · exact absurd (h2.trans h1.symm) hn.1.1
      · simp [h1, h2]
      · simp [h1, h2]
      · simp [h1, h2]
    | trans h1 h2 ih1 ih2 =>
      intro hn p
      rw [ih1 hn p, ih2 ((h1.map Prod.fst).nodup_iff.mp hn) p]
  have hn : ((regPairs regs).map Prod.fst).Nodup := by simpa [regPairs, Function.comp_def] using hd
  have hp' : (regPairs regs).Perm (regPairs regs') := hp.map (fun r : Reg => (r.segs, r.f))
  have e := key (regPairs regs) (regPairs regs') hp' hn
  unfold longest
  rw [longestBelow_congr m e, e]

/-- The lenient tail matcher, spelled out: the input is some ASCII letters that (upper-cased) spell a prefix
    of the expected word, followed by nothing or by a printable non-letter ASCII character and anything. -/
theorem parseTail_spec (input expected : List Char) :
    parseTail input expected = true ↔
      ∃ letters tail, input = letters ++ tail ∧ (∀ c ∈ letters, isAsciiAlpha c = true) ∧
        (letters.map asciiUpper).isPrefixOf expected = true ∧
        (tail = [] ∨ ∃ c t, tail = c :: t ∧ isAsciiAlpha c = false ∧ isAsciiNonControl c = true) := by
  induction input generalizing expected with
  | nil => simp only [parseTail, true_iff]; exact ⟨[], [], rfl, by simp, by simp, Or.inl rfl⟩
  | cons c rest ih =>
    simp only [parseTail]
    by_cases ha : isAsciiAlpha c = true
    · simp only [ha, if_true]
      cases expected with
      | nil =>
        simp only [Bool.false_eq_true, false_iff, not_exists, not_and]
        intro letters tail h1 h2 h3
        cases letters with
        | nil =>
          simp at h1; subst h1
          rintro (h | ⟨c', t, h, h4, _⟩)
          · simp at h
          · simp at h; rw [← h.1] at h4; simp [ha] at h4
        | cons l ls => simp [List.isPrefixOf] at h3
      | cons e es =>
        by_cases he : asciiUpper c = e
        · simp only [he, beq_self_eq_true, if_true, ih]
          constructor
          · rintro ⟨letters, tail, rfl, h2, h3, h4⟩
            exact ⟨c :: letters, tail, rfl, by simpa [ha] using h2, by simpa [List.isPrefixOf, he] using h3, h4⟩
          · rintro ⟨letters, tail, h1, h2, h3, h4⟩
            cases letters with
            | nil =>
              simp at h1; subst h1
              rcases h4 with h | ⟨c', t, h, h4, _⟩
              · simp at h
              · simp at h; rw [← h.1] at h4; simp [ha] at h4
            | cons l ls =>
              simp at h1; obtain ⟨rfl, rfl⟩ := h1
              exact ⟨ls, tail, rfl, fun c hc => h2 c (by simp [hc]), by simpa [List.isPrefixOf, he] using h3, h4⟩
        · have : (asciiUpper c == e) = false := by simpa using he
          simp only [this, Bool.false_eq_true, if_false, false_iff, not_exists, not_and]
          intro letters tail h1 h2 h3
          cases letters with
          | nil =>
            simp at h1; subst h1
            rintro (h | ⟨c', t, h, h4, _⟩)
            · simp at h
            · simp at h; rw [← h.1] at h4; simp [ha] at h4
          | cons l ls =>
            simp at h1; obtain ⟨rfl, rfl⟩ := h1
            simp [List.isPrefixOf, he] at h3
    · have ha' : isAsciiAlpha c = false := by simpa using ha
      simp only [ha', Bool.false_eq_true, if_false]
      by_cases hn : isAsciiNonControl c = true
      · simp only [hn, if_true, true_iff]
        exact ⟨[], c :: rest, rfl, by simp, by simp [List.isPrefixOf], Or.inr ⟨c, rest, rfl, ha', hn⟩⟩
      · simp only [hn, Bool.false_eq_true, if_false, false_iff, not_exists, not_and]
        intro letters tail h1 h2 h3
        cases letters with
        | nil =>
          simp at h1; subst h1
          rintro (h | ⟨c', t, h, _, h5⟩)
          · simp at h
          · simp at h; rw [← h.1] at h5; exact hn h5
        | cons l ls =>
          simp at h1; obtain ⟨rfl, rfl⟩ := h1
          have := h2 c (by simp); simp [ha'] at this

/-- A typed level survives buffering: after `to_owned()` it is read back through its Display text. -/
theorem owned_typed_level_kept (l : Level) : LvlVal.cast (.ownedTyped l) = LvlVal.cast (.typed l) := by
  cases l <;> decide

/-- Display then parse is the identity on levels. -/
theorem level_roundtrip (l : Level) : parseLevel l.display = some l := by
  cases l <;> decide

/-! ### Non-vacuity: concrete instances of the hypotheses / interesting cases -/

private def fE : MinF := ⟨.error, none⟩
private def fW : MinF := ⟨.warn, none⟩

/-- sibling sharing a textual prefix: `aa` is not governed by the registration of `a` -/
example : specLookup [.path "a" fE] (segments "aa::b") = none := by decide
example : specLookup [.path "a" fE] (segments "a::b") = some fE := by decide
/-- deepest wins regardless of order -/
example : specLookup [.path "a::b::c" fW, .path "a" fE] (segments "a::b::c::d") = some fW := by decide
example : specLookup [.path "a" fE, .path "a::b::c" fW] (segments "a::b") = some fE := by decide
example : ([Reg.path "a" fE, .path "a::b" fW].map Reg.segs).Nodup := by decide


/-- `Path::segments` inverts joining: the `::`-join of colon-free segments splits back into them. -/
theorem segments_of_join (segs : List (List Char)) (hne : segs ≠ []) (h : ∀ s ∈ segs, ColonFree s) :
    splitColons (joinSegs segs) [] = segs := splitColons_join segs hne h

/-- **"An ancestor of it at `::` boundaries".** The segment-prefix relation the trie and the specification use
    is exactly `Path::is_child_of` on the path texts: a registered path governs a module iff the module's text
    is the path's text followed by nothing or by `::…` (so `aa::b` is not governed by `a`). -/
theorem prefix_iff_is_child_of (ps ms : List (List Char)) (hp : ps ≠ []) (hm : ms ≠ [])
    (hps : ∀ s ∈ ps, ColonFree s) (hms : ∀ s ∈ ms, ColonFree s) :
    isChildOf (joinSegs ms) (joinSegs ps) = true ↔ ps <+: ms :=
  (isChildOf_iff _ _).trans (prefix_iff_child ps ms hp hm hps hms)

example : isChildOf "aa::b".toList "a".toList = false := by decide
example : isChildOf "a::b".toList "a".toList = true := by decide

end EmitModel.C17
