/-
  Thm/C08Pipes.lean — C08 for the emitters built on the channel (property theorems only).

  The C08 theorems are about the channel with an ADVERSARIAL processor (any outcome sequence). The composite models
  Model/FilePipe.lean and Model/OtlpPipe.lean replace the adversary by the real processors' models; since every
  composite execution is a channel execution with the same receiver steps (`run_proj`), the bounded-liveness clause
  carries over verbatim: the processors are total functions of the model, so they cannot wedge the receiver.
-/
import EmitModel.Thm.C08
import EmitModel.Lemmas.FilePipe
import EmitModel.Lemmas.OtlpPipe

namespace EmitModel.C08
open EmitModel.Batcher EmitModel.Sched

/-- **The file emitter's flush callbacks fire within a bounded number of receiver steps.** From any reachable state
    of the rolling-file emitter as a whole in which flush watcher `w` is waiting, every execution containing more than
    `K = 4·retryMax + 5` receiver steps (hand-offs, conclusions of `Worker::on_batch` under ANY fault plan, retry and
    idle waits; any sender steps interleaved) has run its callback — unless the receiver was torn down or a filesystem
    call crashed the process. The worker cannot hold a flush up for good: a failing filesystem costs retries, the
    retries are bounded, then the batch is given up and the callback fires. -/
theorem file_callbacks_fire_bounded (cfg : FilePipe.Cfg) (fs0 : FileSet.St) (s : FilePipe.St)
    (h : FilePipe.Reachable cfg fs0 s) (w : Nat) (hw : w ∈ s.ch.pendFlushW ∨ w ∈ s.ch.rx.ws)
    (ls : List FilePipe.Label) (s' : FilePipe.St) (hrun : run (FilePipe.step cfg) s ls = some s')
    (hk : 4 * cfg.ch.retryMax + 5 < countSel FilePipe.Label.isRx ls) :
    w ∈ s'.ch.fired ∨ s'.ch.tornDown = true ∨ s'.crashed = true := by
  obtain ⟨bls, hb, hc⟩ := FilePipe.run_proj cfg ls s s' hrun
  cases hcr : s'.crashed with
  | true => exact .inr (.inr rfl)
  | false =>
    rcases callbacks_fire_bounded cfg.ch s.ch (FilePipe.reachable_proj cfg fs0 s h) w hw bls s'.ch hb
      (by rw [hc hcr]; exact hk) with h1 | h1
    · exact .inl h1
    · exact .inr (.inl h1)

/-- **… and so do an OTLP signal's**, against any collector script. -/
theorem otlp_callbacks_fire_bounded (cfg : OtlpPipe.Cfg) (net0 : Otlp.Net) (s : OtlpPipe.St)
    (h : OtlpPipe.Reachable cfg net0 s) (w : Nat) (hw : w ∈ s.ch.pendFlushW ∨ w ∈ s.ch.rx.ws)
    (ls : List OtlpPipe.Label) (s' : OtlpPipe.St) (hrun : run (OtlpPipe.step cfg) s ls = some s')
    (hk : 4 * cfg.ch.retryMax + 5 < countSel OtlpPipe.Label.isRx ls) :
    w ∈ s'.ch.fired ∨ s'.ch.tornDown = true := by
  obtain ⟨bls, hb, hc⟩ := OtlpPipe.run_proj cfg ls s s' hrun
  exact callbacks_fire_bounded cfg.ch s.ch (OtlpPipe.reachable_proj cfg net0 s h) w hw bls s'.ch hb (by rw [hc]; exact hk)

-- the hypotheses are satisfiable: a reachable state of the file emitter in which flush watcher 7 is waiting
private def lcfg : FilePipe.Cfg :=
  { ch := Batcher.Cfg.real 10,
    file := { pfx := [97], ext := [108], rollBy := .minute, reuse := false, maxFiles := 3, maxSize := 100, sep := [10] },
    ev := fun x => [97 + x, 10], plan := fun _ => .err }
example : ∃ s, FilePipe.Reachable lcfg FileSet.emptyState s ∧ 7 ∈ s.ch.pendFlushW :=
  ⟨_, ⟨[.chan (.send 0), .chan (.whenFlushed 7)], rfl⟩, by decide⟩

end EmitModel.C08
