/-
  Thm/C11.lean — property C11: rolling files roll, retain and name as configured and stay inside their own set.
  Property theorems only; the machinery is in Lemmas/FileSet*.lean. Same model as C10 (Model/FileSet.lean).

  The statements about naming, membership, the choice of file and staying inside the own set hold for EVERY fault
  plan; the statements that count files (`retention*`) are for the fault-free filesystem `okPlan`, which is what
  C11 quantifies over (a failed listing or delete is C10 territory: the worker then skips retention for that roll).
  `Inv cfg (fun _ => True) c s` below is the worker invariant with an unconstrained event set: names unique and
  the file the worker holds exists, is a member, has a durable entry and the recorded size is the real one
  (it holds for the empty directory and for any directory of distinct names with no active file).

  OBLIGATIONS (audited by `check` with `#print axioms`):
    name_shape, created_names, member_iff_shape, roll_iff, no_active_opens_or_creates, reuse_iff, fits_real_size,
    batch_bytes, name_order_partial, same_ms_ordered_by_id, newest_first, retention_on_create, retention_partial,
    reuse_keeps_oversized_set, retention_deletes_smallest, own_set_only, one_file_at_a_time, template_split
-/
import EmitModel.Lemmas.FileSetRun

namespace EmitModel.C11
open EmitModel.FileSet

/-- The always-true event set: for C11 nothing is assumed about the bytes of events or the separator. -/
def anyEvent : List Nat → Prop := fun _ => True

theorem sepOk_any (cfg : Config) (c : Nat) : SepOk cfg anyEvent c := .inr fun _ => trivial

/-- Any directory of distinct names, with no file held, satisfies the invariant. -/
theorem inv_of_nodup (cfg : Config) (c : Nat) (fs : List (List Nat × File)) (h : (names fs).Nodup) :
    Inv cfg anyEvent c { fs := fs, op := 0, active := none, log := [], faulted := false } :=
  ⟨h, fun _ _ _ _ => (clean_of_all (fun _ => trivial) _ _).good, fun a ha => by simp at ha⟩

/-! ### naming -/

/-- **Name shape.** A created file is `prefix.period.counter.id.ext`: `period` is the period text of the clock
    reading of that `on_batch` call (which is also what the worker records as the file's period and what the
    membership parse returns), `counter` the 8-digit milliseconds into the period — below 10^8 for all three
    `RollBy` — and `id` 8 lower-case hex digits; the file is new, empty, and its directory entry durable. -/
theorem name_shape (cfg : Config) (plan : Nat → Fault) (now : Parts) (id : Nat) (set : List (List Nat))
    (s s' : St) (a : Active) (hv : now.Valid) (h : createFile cfg plan now id set s = .ok a s') :
    a.name = cfg.pfx ++ [dot] ++ fileTs cfg.rollBy now ++ [dot] ++
        (fixedBase 10 8 (rollingMillis cfg.rollBy now) ++ [dot] ++ fixedBase 16 8 id) ++ [dot] ++ cfg.ext ∧
      a.ts = fileTs cfg.rollBy now ∧ memberTs? cfg.pfx cfg.ext a.name = some (fileTs cfg.rollBy now) ∧
      rollingMillis cfg.rollBy now < 10 ^ 8 ∧ isFileTs (fileTs cfg.rollBy now) = true ∧
      isDigits 8 (fixedBase 10 8 (rollingMillis cfg.rollBy now)) = true ∧ isHexDigits 8 (fixedBase 16 8 id) = true ∧
      fsGet s'.fs a.name = some { synced := [], unsynced := [], durable := true } := by
  obtain ⟨ha, hget⟩ := createFile_ok h
  refine ⟨by subst ha; rfl, by subst ha; rfl, by subst ha; exact memberTs?_nameFor _ _ _ _ _,
    rollingMillis_lt _ hv, isFileTs_fileTs _ _, isDigits_fixedBase _ _, isHexDigits_fixedBase _ _, hget⟩

/-- **Every file a batch creates carries that batch's name** (any fault plan): each `created` entry `on_batch`
    adds to the log is the name computed from this call's clock reading and id. -/
theorem created_names (cfg : Config) (c : Nat) (plan : Nat → Fault) (now : Parts) (id : Nat) (b : Batch) (s : St)
    (hinv : Inv cfg anyEvent c s) :
    ∃ extra, (onBatch cfg plan now id b s).2.log = s.log ++ extra ∧
      ∀ n, Ev.created n ∈ extra → n = nameFor cfg.pfx cfg.ext cfg.rollBy now id := by
  have h := (onBatch_spec (N := fun n => n = nameFor cfg.pfx cfg.ext cfg.rollBy now id) (sepOk_any cfg c) plan now
    id b s rfl (fun _ _ => trivial) hinv).1.rel hinv.nodup
  obtain ⟨⟨extra, hlog, _, hc, _⟩, _⟩ := h
  exact ⟨extra, hlog, hc⟩

/-- **Membership is exactly the shape.** A name is a member of the set (and `ts` its period) iff it is
    `prefix.ts.ms.id.ext` with `ts` of the form `dddd-dd-dd[-dd[-dd]]`, `ms` 8 digits and `id` 8 lower-case hex
    digits — the names this template generates under any `RollBy`, and nothing else (no bare `starts_with` /
    `ends_with`: a sibling set `app2.….log` or `app.web.….log` is not a member, dotted prefixes are fine). -/
theorem member_iff_shape (pfx ext name ts : List Nat) :
    memberTs? pfx ext name = some ts ↔
      ∃ ms hx, isFileTs ts = true ∧ isDigits 8 ms = true ∧ isHexDigits 8 hx = true ∧
        name = fileName pfx ext ts (ms ++ [dot] ++ hx) := by
  constructor
  · exact memberTs?_eq_some
  · rintro ⟨ms, hx, h1, h2, h3, rfl⟩
    exact memberTs?_fileName pfx ext ts ms hx h1 h2 h3

/-! ### which file a batch goes to -/

/-- **Roll iff** (with a file in hand, any fault plan): the active file is kept — no filesystem call at all —
    exactly when the recorded size plus the batch's bytes is within the limit and the file's period is the
    period of the clock reading; otherwise the listing is read and a new file is created (`createFile`: retention,
    then the new name). -/
theorem roll_iff (cfg : Config) (plan : Nat → Fault) (now : Parts) (id : Nat) (b : Batch) (s : St) (a : Active)
    (hs : s.active = some a) :
    acquire cfg plan now id b s =
      if a.size + b.remaining ≤ cfg.maxSize ∧ a.ts = fileTs cfg.rollBy now then .ok a { s with active := none }
      else
        match readSet cfg plan { s with active := none } with
        | .err s => .err s
        | .crash s => .crash s
        | .ok set s => createFile cfg plan now id set s := by
  unfold acquire
  simp only [hs, fits]
  by_cases h1 : a.size + b.remaining ≤ cfg.maxSize <;> by_cases h2 : a.ts = fileTs cfg.rollBy now <;>
    simp only [h1, h2, decide_true, decide_false, Bool.and_self, Bool.and_false, Bool.false_and, if_true,
      Bool.false_eq_true, if_false, and_self, and_false, false_and] <;>
    cases readSet cfg plan { s with active := none } <;> rfl

/-- Without a file in hand (first batch, after a restart, after any failure — failures always drop the file, see
    C10 `failed_batch_rewritten`): the directory is created, the set listed, then `openOrCreate`. -/
theorem no_active_opens_or_creates (cfg : Config) (plan : Nat → Fault) (now : Parts) (id : Nat) (b : Batch) (s : St)
    (hs : s.active = none) :
    acquire cfg plan now id b s =
      match createDirAll plan { s with active := none } with
      | .err s => .err s
      | .crash s => .crash s
      | .ok () s =>
        match readSet cfg plan s with
        | .err s => .err s
        | .crash s => .crash s
        | .ok set s => openOrCreate cfg plan now id b set s := by
  unfold acquire
  simp only [hs]
  cases createDirAll plan { s with active := none } with
  | err s1 => rfl
  | crash s1 => rfl
  | ok u s1 => cases readSet cfg plan s1 <;> rfl

/-- **Reuse iff**: the newest listed member is reused exactly when reuse is enabled, the set is non-empty, the
    file opens, and the batch fits it in the current period; in every other case a new file is created. -/
theorem reuse_iff (cfg : Config) (plan : Nat → Fault) (now : Parts) (id : Nat) (b : Batch) (set : List (List Nat))
    (s : St) :
    openOrCreate cfg plan now id b set s =
      if cfg.reuse = false then createFile cfg plan now id set s
      else match set with
        | [] => createFile cfg plan now id set s
        | n :: _ =>
          match tryOpenReuse cfg plan n s with
          | .crash s => .crash s
          | .err s => createFile cfg plan now id set s
          | .ok a s =>
            if a.size + b.remaining ≤ cfg.maxSize ∧ a.ts = fileTs cfg.rollBy now then .ok a s
            else createFile cfg plan now id set s := by
  unfold openOrCreate
  cases hr : cfg.reuse with
  | false => simp
  | true =>
    cases set with
    | nil => simp
    | cons n rest =>
      simp only [if_true, List.head?_cons, Bool.true_eq_false, if_false]
      cases tryOpenReuse cfg plan n s with
      | crash s1 => rfl
      | err s1 => rfl
      | ok a s1 =>
        simp only [fits]
        by_cases h1 : a.size + b.remaining ≤ cfg.maxSize <;> by_cases h2 : a.ts = fileTs cfg.rollBy now <;>
          simp [h1, h2]

/-- The size the fit test uses is the real size of the file: in every state reachable under any fault plan the
    file the worker holds exists, is a member of the set, and its recorded size is its content length. -/
theorem fits_real_size (cfg : Config) (c : Nat) (plan : Nat → Fault) (ops : List Op) (s0 : St)
    (h0 : Inv cfg anyEvent c s0) (a : Active) (ha : (run cfg plan s0 ops).active = some a) :
    isMember cfg.pfx cfg.ext a.name = true ∧
      ∃ f, fsGet (run cfg plan s0 ops).fs a.name = some f ∧ a.size = f.content.length := by
  have hinv := run_inv (sepOk_any cfg c) plan ops s0 h0 (fun _ _ _ _ => trivial)
  obtain ⟨hm, ⟨f, hget, _, hsz⟩, _⟩ := hinv.active a ha
  exact ⟨hm, f, hget, hsz⟩

/-- The byte count the fit test uses is the real size of the batch: it is maintained by `push`, by `clear`
    (the D9 fix: counter and cursor are reset with the buffers) and by `advance`. -/
theorem batch_bytes :
    Batch.empty.Wf ∧ (∀ b e, Batch.Wf b → (b.push e).Wf) ∧ (∀ b : Batch, b.clear.Wf) ∧
      (∀ b e r, Batch.Wf b → b.rest = e :: r → (b.advance e).Wf) ∧
      (∀ evs, (Batch.ofEvents evs).Wf ∧ (Batch.ofEvents evs).rest = evs) :=
  ⟨Batch.wf_empty, fun _ e h => Batch.wf_push h e, Batch.wf_clear, fun _ _ _ h hr => Batch.wf_advance h hr,
    fun evs => ⟨Batch.wf_foldl_push evs Batch.wf_empty, by
      have := Batch.rest_foldl_push evs (b := Batch.empty) (by simp [Batch.empty])
      simpa [Batch.ofEvents, Batch.rest, Batch.empty] using this⟩⟩

/-! ### order of names -/

/-- **Name order** (partial). Full statement: for readings `a ≤ b` (clock not going backwards) a file created at
    `b` after one created at `a` has the larger name. That is false when both fall in the same millisecond of one
    period (`same_ms_ordered_by_id`, finding F1); proved here under the hypothesis that excludes it:
    for clock readings `a` before `b` (calendar-valid parts, different milliseconds) the name created at `a` is
    lexicographically smaller than the one created at `b`, whatever the ids. -/
theorem name_order_partial (pfx ext : List Nat) (rb : RollBy) (a b : Parts) (ida idb : Nat) (ha : a.Valid)
    (hb : b.Valid) (h : a.before b) : lexLt (nameFor pfx ext rb a ida) (nameFor pfx ext rb b idb) = true :=
  nameFor_lexLt pfx ext rb ida idb ha hb h

/-- **Finding F1** (counterexample to the full statement): within one millisecond the order of names is the order
    of the random ids — a file created second with the smaller id sorts below the one created first. -/
theorem same_ms_ordered_by_id :
    lexLt (nameFor [97] [108] .minute ⟨2024, 1, 1, 0, 0, 0, 0⟩ 9) (nameFor [97] [108] .minute ⟨2024, 1, 1, 0, 0, 0, 0⟩ 5)
        = false ∧
      lexLt (nameFor [97] [108] .minute ⟨2024, 1, 1, 0, 0, 0, 0⟩ 5) (nameFor [97] [108] .minute ⟨2024, 1, 1, 0, 0, 0, 0⟩ 9)
        = true := by decide

/-- **Newest first.** The descending sort the worker applies to the listing puts the largest name first — by
    `name_order_partial` the most recently created file while the clock has not gone backwards. -/
theorem newest_first (l : List (List Nat)) (n : List Nat) (hn : n ∈ l) (hmax : ∀ m ∈ l, m ≠ n → lexLt m n = true) :
    (sortDesc l).head? = some n :=
  head_sortDesc_of_max hn hmax

/-! ### retention -/

/-- **Retention on every roll** (fault-free filesystem, distinct names): after a successful create from the
    fresh listing the set holds at most `max_files` files, for every `max_files ≥ 1` (the model, like the fixed
    code, has no panic outcome: the D4 `pop().unwrap()` is gone). -/
theorem retention_on_create (cfg : Config) (hmax : 1 ≤ cfg.maxFiles) (now : Parts) (id : Nat) (s s' : St) (a : Active)
    (hnd : (names s.fs).Nodup) (h : createFile cfg okPlan now id (memberSet cfg s.fs) s = .ok a s') :
    memberCount cfg s'.fs ≤ cfg.maxFiles :=
  memberCount_after_create hmax hnd h

/-- **Retention along histories** (partial; fault-free filesystem). Full statement: after every batch the set holds
    at most `max_files` files whatever the directory held before. That is false for a directory that starts above
    the limit while its newest file is reused (`reuse_keeps_oversized_set`, finding reuse-oversize); proved here:
    from any state satisfying the invariant, after every batch / restart of any history the number of member
    files is at most `max (max_files, the initial number)` — so at most `max_files` whenever the directory started
    within the limit, for every `max_files ≥ 1`. -/
theorem retention_partial (cfg : Config) (c : Nat) (hmax : 1 ≤ cfg.maxFiles) (ops : List Op) :
    ∀ (s0 : St), Inv cfg anyEvent c s0 →
      memberCount cfg (run cfg okPlan s0 ops).fs ≤ max cfg.maxFiles (memberCount cfg s0.fs) := by
  induction ops with
  | nil => intro s0 _; simp only [run, List.foldl_nil]; omega
  | cons op ops ih =>
    intro s0 h0
    have h1 : Inv cfg anyEvent c (runOp cfg okPlan s0 op) :=
      runOp_inv (sepOk_any cfg c) okPlan op (fun _ _ => trivial) h0
    have h2 : memberCount cfg (runOp cfg okPlan s0 op).fs ≤ max cfg.maxFiles (memberCount cfg s0.fs) := by
      cases op with
      | batch now id b => exact memberCount_onBatch hmax now id b h0.nodup
      | restart => simp only [runOp, restart]; omega
    have := ih _ h1
    simp only [run, List.foldl_cons] at this ⊢
    omega

/-- **Finding reuse-oversize** (counterexample to the full statement): three members, `max_files = 2`, reuse on,
    a batch in the period of the newest file — it is reused, nothing is created, nothing is pruned. -/
theorem reuse_keeps_oversized_set :
    let cfg : Config := { pfx := [97], ext := [108], rollBy := .minute, reuse := true, maxFiles := 2, maxSize := 100,
                          sep := [10] }
    let file : File := { synced := [120, 10], unsynced := [], durable := true }
    let s0 : St := { fs := [(nameFor [97] [108] .minute ⟨2024, 1, 1, 0, 1, 0, 0⟩ 1, file),
                            (nameFor [97] [108] .minute ⟨2024, 1, 1, 0, 2, 0, 0⟩ 2, file),
                            (nameFor [97] [108] .minute ⟨2024, 1, 1, 0, 3, 0, 0⟩ 3, file)],
                     op := 0, active := none, log := [], faulted := false }
    (onBatch cfg okPlan ⟨2024, 1, 1, 0, 3, 10, 0⟩ 9 (Batch.ofEvents [[97, 10]]) s0).1 = .ok ∧
      memberCount cfg (onBatch cfg okPlan ⟨2024, 1, 1, 0, 3, 10, 0⟩ 9 (Batch.ofEvents [[97, 10]]) s0).2.fs = 3 := by
  decide

/-- **Oldest deleted first.** What a create deletes are the smallest names: every deleted name is one of the
    victims (the tail of the descending listing beyond `max_files - 1`), and no kept member is smaller than a
    victim. -/
theorem retention_deletes_smallest (cfg : Config) (now : Parts) (id : Nat) (s s' : St) (a : Active)
    (h : createFile cfg okPlan now id (memberSet cfg s.fs) s = .ok a s') :
    ∃ dl : List (List Nat), s'.log = s.log ++ dl.map Ev.deleted ++ [.created a.name] ∧
      (∀ d ∈ dl, d ∈ victims (cfg.maxFiles - 1) (memberSet cfg s.fs)) ∧
      ∀ k ∈ (memberSet cfg s.fs).take (cfg.maxFiles - 1),
        ∀ v ∈ victims (cfg.maxFiles - 1) (memberSet cfg s.fs), lexLt k v = false := by
  obtain ⟨h1, h2⟩ := createFile_okPlan cfg now id (memberSet cfg s.fs) s
  by_cases hnone : fsGet ((victims (cfg.maxFiles - 1) (memberSet cfg s.fs)).foldl fsErase s.fs)
      (nameFor cfg.pfx cfg.ext cfg.rollBy now id) = none
  · obtain ⟨s2, he, _, dl, hlog, hdl⟩ := h1 hnone
    rw [he] at h; cases h
    refine ⟨dl, hlog, hdl, ?_⟩
    intro k hk v hv
    have hd : Desc (memberSet cfg s.fs) := desc_sortDesc _
    exact desc_take_drop hd _ k hk v (by simpa [victims] using hv)
  · obtain ⟨s2, he, _⟩ := h2 hnone
    rw [he] at h; cases h

/-! ### staying inside the own set -/

/-- **Own set only** (any fault plan, any separator, any events, any history, whatever else is in the directory):
    every file the worker creates, opens for append or deletes is a member of its set (the log records exactly
    these calls); a file that is not a member is never created, never deleted, and never gains a byte — it can
    only be affected by a crash of the machine (loses unsynced bytes; vanishes only if its directory entry was
    never durable). -/
theorem own_set_only (cfg : Config) (c : Nat) (plan : Nat → Fault) (ops : List Op) (s0 : St)
    (h0 : Inv cfg anyEvent c s0) :
    (∃ extra, (run cfg plan s0 ops).log = s0.log ++ extra ∧
      ∀ ev ∈ extra, isMember cfg.pfx cfg.ext ev.name = true) ∧
    ∀ n, isMember cfg.pfx cfg.ext n = false →
      match fsGet s0.fs n, fsGet (run cfg plan s0 ops).fs n with
      | none, none => True
      | none, some _ => False
      | some f, none => f.durable = false
      | some f, some f' => f.synced <+: f'.synced ∧ f'.content <+: f.content ∧ (f.durable = true → f'.durable = true) := by
  have hrel : ∀ (ops : List Op) (s : St), Inv cfg anyEvent c s → Rel cfg (fun _ => True) s (run cfg plan s ops) := by
    intro ops
    induction ops with
    | nil => intro s _; exact Rel.refl cfg _ s
    | cons op ops ih =>
      intro s h
      have h1 : Rel cfg (fun _ => True) s (runOp cfg plan s op) := by
        cases op with
        | batch now id b =>
          exact (onBatch_spec (N := fun _ => True) (sepOk_any cfg c) plan now id b s trivial (fun _ _ => trivial)
            h).1.rel h.nodup
        | restart => exact Rel.of_same_fs [] (by simp [runOp, restart]) (by simp) (by simp) rfl
      exact h1.trans (ih _ (runOp_inv (sepOk_any cfg c) plan op (fun _ _ => trivial) h))
  obtain ⟨⟨extra, hlog, hm, _, _⟩, hf⟩ := hrel ops s0 h0
  refine ⟨⟨extra, hlog, hm⟩, ?_⟩
  intro n hn
  have := hf n (by simp [Mem, hn])
  cases h1 : fsGet s0.fs n <;> cases h2 : fsGet (run cfg plan s0 ops).fs n <;> simp only [h1, h2, ForeignRel] at this ⊢ <;>
    exact this

/-- **One file at a time.** Once `on_batch` has chosen its file, a successful batch changes that file only:
    every other name looks up exactly as it did when the file was chosen (and by C10 `acked_durable` all events
    of the batch are in the chosen file). -/
theorem one_file_at_a_time (cfg : Config) (plan : Nat → Fault) (now : Parts) (id : Nat) (b : Batch) (s s' : St)
    (h : onBatch cfg plan now id b s = (.ok, s')) :
    ∃ a s1, acquire cfg plan now id b s = .ok a s1 ∧ (∃ a', s'.active = some a' ∧ a'.name = a.name) ∧
      ∀ m, m ≠ a.name → fsGet s'.fs m = fsGet s1.fs m := by
  unfold onBatch at h
  cases hacq : acquire cfg plan now id b s with
  | err s1 => simp only [hacq] at h; cases h
  | crash s1 => simp only [hacq] at h; cases h
  | ok a s1 =>
    simp only [hacq] at h
    refine ⟨a, s1, rfl, ?_⟩
    generalize hw : writeEvents cfg plan a b s1 b.rest = w at h
    obtain ⟨res, oa, s2⟩ := w
    cases res with
    | retry b' => cases oa <;> simp only at h <;> exact absurd h (syncWritten_ne_ok plan a.name b b' s2 s')
    | noRetry => cases oa <;> simp only at h <;> cases h
    | crashed => cases oa <;> simp only at h <;> cases h
    | ok =>
      obtain ⟨a', rfl⟩ := writeEvents_res_ok b.rest hw
      simp only at h
      obtain ⟨_, w2, _, _, w5, _⟩ := writeEvents_ok b.rest hw
      cases hf : flushFile plan s2 with
      | err s3 => simp only [hf] at h; cases h
      | crash s3 => simp only [hf] at h; cases h
      | ok u s3 =>
        simp only [hf] at h
        obtain ⟨g1, _, _⟩ := flushFile_ok hf
        cases hy : syncAll plan a'.name s3 with
        | err s4 => simp only [hy] at h; cases h
        | crash s4 => simp only [hy] at h; cases h
        | ok u s4 =>
          simp only [hy] at h
          cases h
          refine ⟨⟨a', rfl, w5⟩, ?_⟩
          intro m hm
          obtain ⟨_, _, z3⟩ := syncAll_ok hy
          have hm' : m ≠ a'.name := by rw [w5]; exact hm
          rcases z3 with ⟨f, _, hfs⟩ | ⟨_, hfs⟩
          · show fsGet s4.fs m = fsGet s1.fs m
            rw [hfs, fsGet_fsSet_ne _ _ hm', g1, w2, fsGet_appendBytes_ne _ _ hm]
          · show fsGet s4.fs m = fsGet s1.fs m
            rw [hfs, g1, w2, fsGet_appendBytes_ne _ _ hm]

/-- **Template split** (`dir_prefix_ext` on simple Unix paths): the file name of the template is everything after
    the last slash; the prefix and extension are that name split at its last interior dot (`my.app.log` gives
    `my.app` / `log`), and a name without an interior dot is the prefix whole with the default extension `log`.
    So every created name `prefix.….ext` starts with the template's stem and ends with its extension. -/
theorem template_split (path d p e : List Nat) (h : dirPrefixExt path = some (d, p, e)) :
    ∃ name, name ≠ [] ∧ slash ∉ name ∧
      ((path = name ∧ d = [dot]) ∨ ∃ d', path = d' ++ slash :: name ∧ d = if d' = [] then [slash] else d') ∧
      ((name = p ++ dot :: e ∧ dot ∉ e ∧ p ≠ []) ∨ (name = p ∧ e = [108, 111, 103])) := by
  unfold dirPrefixExt at h
  -- the directory part
  cases hsl : splitLast slash path with
  | none =>
    simp only [hsl] at h
    refine ⟨path, ?_, splitLast_eq_none hsl, ?_, ?_⟩
    · intro hp; simp [hp] at h
    · split at h
      · cases h
      · cases hd : splitLast dot path with
        | none => simp only [hd] at h; cases h; exact .inl ⟨rfl, rfl⟩
        | some ba =>
          obtain ⟨b, a⟩ := ba
          simp only [hd] at h
          split at h <;> cases h <;> exact .inl ⟨rfl, rfl⟩
    · split at h
      · cases h
      · cases hd : splitLast dot path with
        | none => simp only [hd] at h; cases h; exact .inr ⟨rfl, rfl⟩
        | some ba =>
          obtain ⟨b, a⟩ := ba
          simp only [hd] at h
          obtain ⟨e1, e2⟩ := splitLast_eq_some hd
          split at h
          · cases h; exact .inr ⟨rfl, rfl⟩
          · rename_i hb; cases h; exact .inl ⟨e1, e2, hb⟩
  | some dn =>
    obtain ⟨d', name⟩ := dn
    simp only [hsl] at h
    obtain ⟨e1, e2⟩ := splitLast_eq_some hsl
    refine ⟨name, ?_, e2, ?_, ?_⟩
    · intro hp; simp [hp] at h
    · split at h
      · cases h
      · cases hd : splitLast dot name with
        | none => simp only [hd] at h; cases h; exact .inr ⟨d', e1, rfl⟩
        | some ba =>
          obtain ⟨b, a⟩ := ba
          simp only [hd] at h
          split at h <;> cases h <;> exact .inr ⟨d', e1, rfl⟩
    · split at h
      · cases h
      · cases hd : splitLast dot name with
        | none => simp only [hd] at h; cases h; exact .inr ⟨rfl, rfl⟩
        | some ba =>
          obtain ⟨b, a⟩ := ba
          simp only [hd] at h
          obtain ⟨f1, f2⟩ := splitLast_eq_some hd
          split at h
          · cases h; exact .inr ⟨rfl, rfl⟩
          · rename_i hb; cases h; exact .inl ⟨f1, f2, hb⟩

/-! ### the hypotheses are satisfiable -/

example (cfg : Config) : Inv cfg anyEvent 10 emptyState := inv_emptyState _ _ _

example : ({ years := 2024, months := 2, days := 29, hours := 23, minutes := 59, seconds := 59, nanos := 999000000 } :
    Parts).Valid := by constructor <;> decide

/-- 23:59:59.999 on Feb 29 is before 00:00:00.000 on Mar 1, and the names order accordingly. -/
example :
    lexLt (nameFor [97] [108] .minute ⟨2024, 2, 29, 23, 59, 59, 999000000⟩ 4294967295)
      (nameFor [97] [108] .minute ⟨2024, 3, 1, 0, 0, 0, 0⟩ 0) = true := by decide

/-- A sibling set is not a member: `app2.….log` against prefix `app`. -/
example : isMember [97, 112, 112] [108, 111, 103]
    (nameFor [97, 112, 112, 50] [108, 111, 103] .day ⟨2024, 1, 1, 0, 0, 0, 0⟩ 1) = false := by decide

/-- `max_files = 1`: two fault-free batches in different minutes leave one file. -/
example :
    let cfg : Config := { pfx := [97], ext := [108], rollBy := .minute, reuse := false, maxFiles := 1, maxSize := 100,
                          sep := [10] }
    memberCount cfg (run cfg okPlan emptyState
      [.batch ⟨2024, 1, 1, 0, 0, 0, 0⟩ 1 (Batch.ofEvents [[97, 10]]),
       .batch ⟨2024, 1, 1, 0, 1, 0, 0⟩ 2 (Batch.ofEvents [[98, 10]])]).fs = 1 := by decide


/-- **The directory is never the empty string** (defect D18, repaired: `app.log` used to split into the directory
    `""`, which the operating system can neither list nor open to sync — every batch failed after creating an empty
    file, nothing was written and retention never ran). For every path the split accepts. -/
theorem dir_never_empty (path d p e : List Nat) (h : dirPrefixExt path = some (d, p, e)) : d ≠ [] := by
  obtain ⟨name, _, _, hd, _⟩ := template_split path d p e h
  rcases hd with ⟨_, rfl⟩ | ⟨d', _, rfl⟩
  · simp
  · split <;> simp_all

example : dirPrefixExt [97, 112, 112, dot, 108, 111, 103] = some ([dot], [97, 112, 112], [108, 111, 103]) := by decide

end EmitModel.C11
