/-
  Thm/C14All.lean — C14 for the emitter as a whole (property theorems only): the routing decision of `OtlpInner::emit`
  in front of the three signals' channels (Model/OtlpAll.lean).
-/
import EmitModel.Thm.C14
import EmitModel.Lemmas.OtlpAll

namespace EmitModel.C14
open EmitModel.Otlp

/-- **Every emitted event is accounted for, on exactly the signal the routing names.** In every execution of the
    whole OTLP emitter (events of any shape in any order, the three signals running interleaved in any way): an event
    the routing cannot place is in the discard count and in no channel; every other event was handed to the channel of
    THE signal `route` names (C14 `route_exactly_one`: there is only one) — it is in that channel's accepted history, or
    that channel was already closed because its receiver is gone; no channel ever accepts an event routed elsewhere;
    and the discard counter equals the number of emitted events no signal could take. -/
theorem emitter_accounts_for_every_event (cfg : OtlpAll.Cfg) (net0 : Signal → Net) (s : OtlpAll.St)
    (h : OtlpAll.Reachable cfg net0 s) :
    (∀ x ∈ s.emitted,
      (route cfg.logs cfg.traces cfg.metrics (cfg.shape x) = .discard ∧ x ∈ s.discarded) ∨
      ∃ g, route cfg.logs cfg.traces cfg.metrics (cfg.shape x) = .signal g ∧
        (x ∈ (s.get g).ch.accepted ∨ x ∈ s.closedDrop)) ∧
    (∀ g, ∀ x ∈ (s.get g).ch.accepted, route cfg.logs cfg.traces cfg.metrics (cfg.shape x) = .signal g) ∧
    s.discarded.length = (s.emitted.filter fun x =>
      decide (route cfg.logs cfg.traces cfg.metrics (cfg.shape x) = .discard)).length :=
  let a := OtlpAll.acct_reachable cfg net0 s h
  ⟨a.all, fun g => (OtlpAll.reachable_sig cfg net0 s h g).2, a.count⟩

end EmitModel.C14
