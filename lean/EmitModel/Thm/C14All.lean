/-
  Thm/C14All.lean — C14 for the emitter as a whole (property theorems only): the routing decision of `OtlpInner::emit`
  in front of the three signals' channels (Model/OtlpAll.lean).
-/
import EmitModel.Thm.C14
import EmitModel.Lemmas.OtlpAll

namespace EmitModel.C14
open EmitModel.Otlp

/-- **Every emitted event is accounted for, on exactly the signal the routing names.** In every execution of the
    whole OTLP emitter (events of any shape in any order, the three signals running interleaved in any way): an event
    the routing cannot place is in the discard count and in no channel; every other event was handed to the channel of
    THE signal `route` names (C14 `route_exactly_one`: there is only one) — it is in that channel's accepted history, or
    that channel was already closed because its receiver is gone; no channel ever accepts an event routed elsewhere;
    and the discard counter equals the number of emitted events no signal could take. -/
theorem emitter_accounts_for_every_event (cfg : OtlpAll.Cfg) (net0 : Signal → Net) (s : OtlpAll.St)
    (h : OtlpAll.Reachable cfg net0 s) :
    (∀ x ∈ s.emitted,
      (route cfg.logs cfg.traces cfg.metrics (cfg.shape x) = .discard ∧ x ∈ s.discarded) ∨
      ∃ g, route cfg.logs cfg.traces cfg.metrics (cfg.shape x) = .signal g ∧
        (x ∈ (s.get g).ch.accepted ∨ x ∈ s.closedDrop)) ∧
    (∀ g, ∀ x ∈ (s.get g).ch.accepted, route cfg.logs cfg.traces cfg.metrics (cfg.shape x) = .signal g) ∧
    s.discarded.length = (s.emitted.filter fun x =>
      decide (route cfg.logs cfg.traces cfg.metrics (cfg.shape x) = .discard)).length :=
  let a := OtlpAll.acct_reachable cfg net0 s h
  ⟨a.all, fun g => (OtlpAll.reachable_sig cfg net0 s h g).2, a.count⟩

/-- non-vacuity: traces only; a span (event 1) is accepted by the traces channel, two log-shaped events are discarded and
    counted -/
private def spanShape : Shape := { kind := .span, extent := .range, hasName := false, value := .missing, agg := .missing }
private def logShape : Shape := { kind := .none, extent := .point, hasName := false, value := .missing, agg := .missing }
private def acfg : OtlpAll.Cfg :=
  { logs := false, traces := true, metrics := false,
    pipe := fun _ => { ch := Batcher.Cfg.real 10, tr := .http, limit := 100, size := fun _ => 1 },
    shape := fun x => if x = 1 then spanShape else logShape }
private def anet : Signal → Net := fun _ => { dead := false, script := [], slot := false, conns := 0, log := [] }

example : ((Sched.run (OtlpAll.step acfg) (OtlpAll.init anet) [.emit 0, .emit 1, .emit 2]).map fun s =>
    (s.emitted, s.discarded, s.closedDrop, s.traces.ch.accepted, s.logs.ch.accepted)) =
    some ([0, 1, 2], [0, 2], [], [1], []) := by rfl

end EmitModel.C14
