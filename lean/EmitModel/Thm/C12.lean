/-
  Thm/C12.lean — property C12: OTLP export delivers every accepted event however batches are split.
  Property theorems only; helper lemmas live in Lemmas/Otlp.lean.

  OBLIGATIONS (audited by `check` with `#print axioms`):
    grouping_partitions, send_ok_all_acked, send_err_remaining, send_dead_nothing_sent, status_table,
    failures_of_the_property_fail, success_iff_acknowledged, conn_replaced, stale_sender_costs_one_attempt,
    signals_independent, outage_does_not_stop_others, every_event_delivered, exactly_once_without_failures,
    dead_endpoint_drops, retries_exhausted_drops, broken_bodies_exhaust_retries

  The model is sequential per signal (one receiver task per signal, one request in flight at a time —
  client.rs:247-294, 552-576); hyper/tokio/TCP and the wall-clock back-off are runtime and appear only as the
  collector script (which response each request meets) — see props/C12.json `level_note` (*partial*).
-/
import EmitModel.Lemmas.Otlp

namespace EmitModel.C12
open EmitModel.Otlp

/-! ### Request grouping (`Channel::push`) -/

/-- However the size limit splits a batch: the requests, oldest first, concatenate to exactly the events that
    were pushed, in order (so the multisets agree and nothing is duplicated); `len` counts them all; no request
    is empty; every request that was closed had reached the limit and no request kept growing after reaching it
    (every proper non-empty prefix of a request is below the limit) — i.e. a new request starts exactly when the
    code's rule `current_request_size_bytes >= max_request_size_bytes` says; and `cur` is the size of the
    request being filled. All limits (0 included), all sizes, all event lists. -/
theorem grouping_partitions (limit : Nat) (evs : List Ev) :
    let c := Chan.ofEvents limit evs
    c.requests.reverse.flatten = evs ∧ c.len = evs.length ∧
    (∀ r ∈ c.requests, r ≠ []) ∧
    (∀ r ∈ c.requests.tail, limit ≤ reqSize r) ∧
    (∀ r ∈ c.requests, ∀ k, 0 < k → k < r.length → reqSize (r.take k) < limit) ∧
    c.cur = reqSize (c.requests.headD []) := by
  have h := Chan.inv_foldl limit evs Chan.empty [] (Chan.inv_empty limit)
  simp only [List.nil_append] at h
  exact ⟨h.flat, h.total, h.nonempty, h.closed, h.open_, h.cur⟩

/-! ### The send loop -/

/-- `send = ok` ⇒ every request of the batch reached the endpoint exactly once, in order (`es`, newest first,
    are the only new log entries and correspond one-to-one to the requests), and each was acknowledged. -/
theorem send_ok_all_acked (tr : Transport) (reqs : List Request) (net net' : Net)
    (h : send tr reqs net = (.ok, net')) :
    ∃ es : List Entry, net'.log = es ++ net.log ∧
      es.reverse.map (·.ids) = reqs.map (fun r => some (reqIds r)) ∧
      (∀ e ∈ es, ackedBy tr e = true) := by
  obtain ⟨es, h1, h2, h3, _⟩ := send_ok tr reqs net net' h
  exact ⟨es, h1, h2, h3⟩

/-- On failure the remainder handed back for the retry is exactly the not-yet-acknowledged requests: the batch
    splits as `done ++ rem`, each request of `done` was transmitted once and acknowledged, and nothing of
    `rem`'s tail was transmitted. The failed attempt on the first request of `rem` is the newest log entry (its
    ids, or unread when the connection was reset before the body) — or left no entry at all: the slot held a
    stale sender (the peer had dropped the connection after the head of an earlier, acknowledged response — or
    before this `send`), `send_request` failed on it and nothing reached the endpoint; the slot is then empty. -/
theorem send_err_remaining (tr : Transport) (reqs rem : List Request) (net net' : Net) (hd : net.dead = false)
    (h : send tr reqs net = (.retry rem, net')) :
    ∃ (done : List Request) (es fs : List Entry) (r : Request) (rest : List Request),
      reqs = done ++ rem ∧ rem = r :: rest ∧
      net'.log = fs ++ (es ++ net.log) ∧
      es.reverse.map (·.ids) = done.map (fun r => some (reqIds r)) ∧
      (∀ e ∈ es, ackedBy tr e = true) ∧
      ((∃ f, fs = [f] ∧ ackedBy tr f = false ∧ (f.ids = some (reqIds r) ∨ (f.ids = none ∧ f.resp = .rstB))) ∨
       (fs = [] ∧ net'.slot = false ∧
          ((es = [] ∧ net.staleNow = true) ∨ (∃ e es', es = e :: es' ∧ e.resp.leavesStale = true)))) := by
  obtain ⟨done, es, fs, r, rest, h1, h2, h3, h4, h5, _, h7⟩ := send_retry tr reqs rem net net' hd h
  refine ⟨done, es, fs, r, rest, h1, h2, h3, h4, h5, ?_⟩
  rcases h7 with ⟨f, hf1, hf2, hf3, _⟩ | h7
  · exact Or.inl ⟨f, hf1, hf2, hf3⟩
  · exact Or.inr h7

/-- Connection refused: nothing is transmitted and the whole batch is handed back. -/
theorem send_dead_nothing_sent (tr : Transport) (r : Request) (rs : List Request) (net : Net)
    (h : net.dead = true) :
    send tr (r :: rs) net = (.retry (r :: rs), { net with slot := false }) :=
  send_dead tr r rs net h

/-! ### Status interpretation -/

/-- HTTP: success iff the status is 2xx (the body is never read). gRPC: success iff the HTTP status is 2xx, the
    response body and trailers arrive to their END — not a stall, not a stream reset, not a dropped connection —
    (inside the request timeout) and the `grpc-status` (from the trailers, or from the headers of a
    Trailers-Only response) is absent or 0. -/
theorem status_table (r : Resp) :
    (interpret .http r = true ↔ (200 ≤ r.httpStatus ∧ r.httpStatus < 300)) ∧
    (interpret .grpc r = true ↔
      (200 ≤ r.httpStatus ∧ r.httpStatus < 300 ∧ r.bodyEnds = true ∧
        (r.grpcStatus = none ∨ r.grpcStatus = some 0))) ∧
    (r.bodyEnds = true ↔ (r ≠ .stallH ∧ r ≠ .rstH ∧ r ≠ .drpH)) := by
  refine ⟨?_, ?_, ?_⟩
  · simp [interpret]
  · cases h : r.grpcStatus <;> simp [interpret, h, and_assoc]
  · cases r <;> simp [Resp.bodyEnds]

/-- Everything the property lists as a failure is a failure for the client (and so is retried): a timeout
    (no answer at all, or — gRPC — headers and then silence), a connection dropped before or after the body was
    read, a gRPC response that breaks after its `:status 200` headers and before any trailers (stream reset or
    connection dropped), a non-2xx status on either transport, a non-zero gRPC status in trailers or in a
    Trailers-Only response. -/
theorem failures_of_the_property_fail (tr : Transport) (n : Nat) :
    okResp tr .stall = false ∧ okResp .grpc .stallH = false ∧ okResp tr .rstB = false ∧ okResp tr .rstA = false ∧
    okResp .grpc .rstH = false ∧ okResp .grpc .drpH = false ∧
    ((n < 200 ∨ 300 ≤ n) → okResp tr (.status n) = false) ∧
    (n ≠ 0 → okResp .grpc (.grpc n) = false ∧ okResp .grpc (.grpcH n) = false) ∧
    okResp tr .ack = true ∧ okResp tr .ackBody = true ∧ okResp .grpc (.grpc 0) = true := by
  refine ⟨by cases tr <;> decide, by decide, by cases tr <;> decide, by cases tr <;> decide, by decide, by decide,
    ?_, ?_, by cases tr <;> decide, by cases tr <;> decide, by decide⟩
  · intro h
    cases hb : okResp tr (.status n) with
    | false => rfl
    | true =>
      have hi : interpret tr (.status n) = true := by
        simp only [okResp, Bool.and_eq_true] at hb; exact hb.2
      have hs : (Resp.status n).httpStatus = n := rfl
      cases tr with
      | http => have := (status_table (.status n)).1.1 hi; rw [hs] at this; omega
      | grpc => have := (status_table (.status n)).2.1.1 hi; rw [hs] at this; omega
  · intro h
    simp [okResp, interpret, Resp.httpStatus, Resp.headArrives, Resp.grpcStatus, h]

/-- **No false success, no needless resend.** The client counts a request as delivered exactly when the
    collector acknowledged it (`Resp.isAck`: a 2xx status line on OTLP/HTTP — whatever becomes of the body —,
    `grpc-status: 0` or a complete 2xx response without any grpc-status on gRPC): for every response kind, both
    transports. In particular a gRPC response whose body stalls or breaks before the trailers is never read as
    `grpc-status: 0`. -/
theorem success_iff_acknowledged (tr : Transport) (r : Resp) : okResp tr r = Resp.isAck tr r := by
  cases tr <;> cases r <;> first
    | rfl
    | (simp [okResp, interpret, Resp.isAck, Resp.headArrives, Resp.httpStatus, Resp.bodyEnds, Resp.grpcStatus] <;> rfl)

/-! ### The connection slot -/

/-- After a request on a live endpoint (no stale sender pooled) the slot holds a connection iff a response head
    arrived (a failing *status* keeps the connection, a broken exchange does not); unless that connection was
    dropped behind the response head (`leavesStale`), the next request then arrives on a fresh connection — and
    one more connection is established — iff the slot was left empty. -/
theorem conn_replaced (tr : Transport) (net : Net) (r1 r2 : Request) (hd : net.dead = false)
    (hs : net.staleNow = false) (hl : net.nextResp.leavesStale = false) :
    let n1 := (attempt tr net r1).2
    let n2 := (attempt tr n1 r2).2
    n1.slot = net.nextResp.headArrives ∧
    (∃ e, n2.log = e :: n1.log ∧ e.fresh = !net.nextResp.headArrives) ∧
    n2.conns = n1.conns + (if net.nextResp.headArrives then 0 else 1) := by
  simp only [attempt_live tr net r1 hd hs]
  have hd1 : (net.record r1).dead = false := by simpa using hd
  have hs1 : (net.record r1).staleNow = false := by simp [Net.staleNow, hl]
  simp only [attempt_live tr _ r2 hd1 hs1]
  refine ⟨rfl, ⟨_, rfl, rfl⟩, rfl⟩

/-- A connection dropped behind a response head costs exactly one attempt: the sender was already put back, the
    next attempt takes it, fails on it **without transmitting anything** (no log entry, the script is not
    consumed) and empties the slot; the attempt after that connects afresh and is transmitted. -/
theorem stale_sender_costs_one_attempt (tr : Transport) (net : Net) (r1 r2 r3 : Request) (hd : net.dead = false)
    (hs : net.staleNow = false) (hl : net.nextResp.leavesStale = true) (hh : net.nextResp.headArrives = true) :
    let n1 := (attempt tr net r1).2
    let a2 := attempt tr n1 r2
    let a3 := attempt tr a2.2 r3
    n1.staleNow = true ∧ a2.1 = false ∧ a2.2.log = n1.log ∧ a2.2.script = n1.script ∧ a2.2.slot = false ∧
    (∃ e, a3.2.log = e :: n1.log ∧ e.fresh = true ∧ e.resp = n1.nextResp) := by
  intro n1 a2 a3
  have e1 : n1 = net.record r1 := by simp [n1, attempt_live tr net r1 hd hs]
  have hd1 : n1.dead = false := by rw [e1]; simpa using hd
  have hs1 : n1.staleNow = true := by rw [e1]; simp [Net.staleNow, hl, hh]
  have e2 : a2 = (false, { n1 with slot := false, stale := false }) := attempt_stale tr n1 r2 hd1 hs1
  have e3 : a3 = (okResp tr a2.2.nextResp, a2.2.record r3) :=
    attempt_live tr a2.2 r3 (by rw [e2]; exact hd1) (by rw [e2]; simp [Net.staleNow])
  refine ⟨hs1, by rw [e2], by rw [e2], by rw [e2], by rw [e2], ?_⟩
  rw [e3, e2]
  exact ⟨_, rfl, rfl, rfl⟩

/-! ### Independence of the signals -/

/-- The three signals' transports side by side. -/
abbrev World := Signal → Net

/-- One request transmitted by the worker of signal `op.1`. -/
def World.step (tr : Transport) (w : World) (op : Signal × Request) : World :=
  fun s => if s = op.1 then (attempt tr (w s) op.2).2 else w s

/-- For every interleaving of the three workers' transmissions, what a signal's endpoint sees and the state of
    its connection are determined by that signal's own transmissions alone. -/
theorem signals_independent (tr : Transport) (ops : List (Signal × Request)) (w : World) (s : Signal) :
    (ops.foldl (World.step tr) w) s =
      ((ops.filter (fun op => op.1 = s)).map (·.2)).foldl (fun n r => (attempt tr n r).2) (w s) := by
  induction ops generalizing w with
  | nil => rfl
  | cons op ops ih =>
    simp only [List.foldl_cons]
    rw [ih]
    by_cases h : op.1 = s
    · simp [h, World.step]
    · have h' : ¬ s = op.1 := fun e => h e.symm
      simp [h, h', World.step]

/-- An outage (or any other difference) at one signal's endpoint does not change what any other signal
    delivers, under every interleaving. -/
theorem outage_does_not_stop_others (tr : Transport) (ops : List (Signal × Request)) (w w' : World)
    (s s' : Signal) (hs : s' ≠ s) (hw : ∀ x, x ≠ s → w' x = w x) :
    (ops.foldl (World.step tr) w') s' = (ops.foldl (World.step tr) w) s' := by
  rw [signals_independent, signals_independent, hw s' hs]

/-! ### Delivery -/

/-- **Every accepted event is delivered.** On a live endpoint whose failures still to come (`Net.pending`: the
    responses the client counts as failures, plus one wasted attempt per connection dropped behind a response
    head) fit in the retry budget (10 retries), whatever the limit, sizes, transport and failure kinds: the
    receiver ends with success and every event emitted for the signal is contained in at least one request that
    was acknowledged (`es` are the log entries added by this batch). -/
theorem every_event_delivered (tr : Transport) (limit : Nat) (evs : List Ev) (net : Net)
    (hd : net.dead = false) (hf : net.pending tr ≤ maxRetries) :
    ∃ (net' : Net) (es : List Entry), runSignal tr limit evs net = (true, net') ∧ net'.log = es ++ net.log ∧
      ∀ ev ∈ evs, ∃ e ∈ es, ackedBy tr e = true ∧ ∃ ids, e.ids = some ids ∧ ev.id ∈ ids := by
  have hg := grouping_partitions limit evs
  simp only at hg
  obtain ⟨hflat, hlen, _⟩ := hg
  unfold runSignal
  by_cases h0 : (Chan.ofEvents limit evs).len = 0
  · have : evs = [] := by
      rw [hlen] at h0
      exact List.eq_nil_of_length_eq_zero h0
    subst this
    exact ⟨net, [], by simp [h0], by simp, by simp⟩
  · simp only [h0, ↓reduceIte]
    have ht : 0 < (Chan.ofEvents limit evs).total := by
      simp only [Chan.len] at h0; omega
    obtain ⟨net', es, hex, hlog, _, hall⟩ :=
      exec_delivers tr _ ht maxRetries (Chan.ofEvents limit evs).requests net hd hf
    refine ⟨net', es, hex, hlog, ?_⟩
    intro ev hev
    rw [← hflat] at hev
    obtain ⟨r, hr, hin⟩ := List.mem_flatten.1 hev
    obtain ⟨e, he, hack, hid⟩ := hall r (List.mem_reverse.1 hr)
    exact ⟨e, he, hack, reqIds r, hid, List.mem_map_of_mem (f := (·.id)) hin⟩

/-- **Exactly once when nothing fails.** If no response the endpoint will give counts as a failure, the
    entries added by the batch are all acknowledged and their ids, oldest request first, are exactly the ids
    of the emitted events in emission order — every event in exactly one acknowledged request, none twice. -/
theorem exactly_once_without_failures (tr : Transport) (limit : Nat) (evs : List Ev) (net : Net)
    (hd : net.dead = false) (hf : net.pending tr = 0) :
    ∃ (net' : Net) (es : List Entry), runSignal tr limit evs net = (true, net') ∧ net'.log = es ++ net.log ∧
      (∀ e ∈ es, ackedBy tr e = true) ∧
      (es.filterMap (·.ids)).flatten = evs.map (·.id) := by
  have hg := grouping_partitions limit evs
  simp only at hg
  obtain ⟨hflat, hlen, _⟩ := hg
  unfold runSignal
  by_cases h0 : (Chan.ofEvents limit evs).len = 0
  · have : evs = [] := by
      rw [hlen] at h0
      exact List.eq_nil_of_length_eq_zero h0
    subst this
    exact ⟨net, [], by simp [h0], by simp, by simp, by simp⟩
  · simp only [h0, ↓reduceIte]
    obtain ⟨net', es, hex, hlog, hids, hack⟩ :=
      exec_no_failure tr (Chan.ofEvents limit evs).total maxRetries (Chan.ofEvents limit evs).requests net hd hf
    refine ⟨net', es, hex, hlog, hack, ?_⟩
    have h1 : es.map (·.ids) = (Chan.ofEvents limit evs).requests.reverse.map (fun r => some (reqIds r)) := by
      have := congrArg List.reverse hids
      simpa [List.map_reverse] using this
    have h2 : es.filterMap (·.ids) = (Chan.ofEvents limit evs).requests.reverse.map reqIds := by
      have : es.filterMap (·.ids) = (es.map (·.ids)).filterMap id := by
        rw [List.filterMap_map]; rfl
      rw [this, h1, List.filterMap_map]
      exact congrFun (List.filterMap_eq_map (f := reqIds)) _
    rw [h2]
    have h3 : ((Chan.ofEvents limit evs).requests.reverse.map reqIds).flatten =
        ((Chan.ofEvents limit evs).requests.reverse.flatten).map (·.id) := by
      rw [List.map_flatten]; rfl
    rw [h3, hflat]

/-- A dead endpoint delivers nothing: the batch is dropped once the retry budget is used up, nothing was ever
    transmitted. (By `outage_does_not_stop_others` this does not affect the other signals.) -/
theorem dead_endpoint_drops (tr : Transport) (limit : Nat) (ev : Ev) (evs : List Ev) (net : Net)
    (hd : net.dead = true) :
    runSignal tr limit (ev :: evs) net = (false, { net with slot := false }) := by
  have hg := grouping_partitions limit (ev :: evs)
  simp only at hg
  obtain ⟨hflat, hlen, _⟩ := hg
  unfold runSignal
  have h0 : ¬ (Chan.ofEvents limit (ev :: evs)).len = 0 := by rw [hlen]; simp
  simp only [h0, ↓reduceIte]
  cases hr : (Chan.ofEvents limit (ev :: evs)).requests with
  | nil => rw [hr] at hflat; simp at hflat
  | cons r rs => exact exec_dead tr _ _ r rs net hd

/-- The retry budget is real: eleven failing responses in a row and the batch is dropped — the receiver reports
    failure, the event was transmitted eleven times and never acknowledged. (`blocking_flush` still returns
    `true` afterwards: the batcher notifies flush watchers once a batch is *processed*, delivered or not — that
    is property C07's reading of flush, and why `every_event_delivered` carries the budget hypothesis.) -/
theorem retries_exhausted_drops :
    let net : Net := ⟨false, List.replicate 11 (.status 503), true, 1, [], false⟩
    let out := runSignal .http 1 [⟨1, 60⟩] net
    out.1 = false ∧ out.2.log.length = 11 ∧ out.2.log.all (fun e => !ackedBy .http e) = true := by
  decide

/-- Wasted attempts count against the same budget. (1) OTLP/HTTP, a collector that answers `200` and breaks
    every response body with the connection: every request is acknowledged, but each one after the first costs
    a failed attempt on the stale pooled sender — of 12 single-event requests 11 are transmitted (and
    acknowledged), then the budget is spent and the 12th event is dropped. (2) gRPC, six responses in a row whose
    connection drops between the headers and the trailers: 6 failed transmissions + 5 failed attempts on a stale
    sender = 11 failures, the event is dropped; with five such responses it is delivered. -/
theorem broken_bodies_exhaust_retries :
    (let net : Net := ⟨false, List.replicate 12 .drpH, true, 1, [], false⟩
     let out := runSignal .http 1 ((List.range 12).map fun i => ⟨Int.ofNat i + 1, 60⟩) net
     out.1 = false ∧ out.2.log.length = 11 ∧ out.2.log.all (fun e => ackedBy .http e) = true) ∧
    (let net : Net := ⟨false, List.replicate 6 .drpH, true, 1, [], false⟩
     let out := runSignal .grpc 1 [⟨1, 60⟩] net
     out.1 = false ∧ out.2.log.length = 6 ∧ out.2.log.all (fun e => !ackedBy .grpc e) = true) ∧
    (let net : Net := ⟨false, List.replicate 5 .drpH, true, 1, [], false⟩
     (runSignal .grpc 1 [⟨1, 60⟩] net).1 = true ∧ net.pending .grpc = 10) := by
  decide

/-! ### Non-vacuity -/

example : ∃ net : Net, net.dead = false ∧ net.pending .grpc ≤ maxRetries ∧ net.pending .grpc = 6 :=
  ⟨⟨false, [.grpcH 14, .ack, .stall, .rstH, .status 503, .drpH], true, 1, [], false⟩, rfl, by decide, by decide⟩
example : ∃ net : Net, net.dead = false ∧ net.pending .http = 0 ∧ net.script ≠ [] :=
  ⟨⟨false, [.ackBody, .status 204, .grpc 3], true, 1, [], false⟩, rfl, by decide, by decide⟩
example : ∃ net : Net, net.dead = false ∧ net.staleNow = false ∧ net.nextResp.leavesStale = true ∧
    net.nextResp.headArrives = true := ⟨⟨false, [.drpH], true, 1, [], false⟩, rfl, rfl, rfl, rfl⟩
example : (Chan.ofEvents 100 [⟨1, 60⟩, ⟨2, 60⟩, ⟨3, 10⟩, ⟨4, 200⟩, ⟨5, 1⟩]).requests =
    [[⟨5, 1⟩], [⟨3, 10⟩, ⟨4, 200⟩], [⟨1, 60⟩, ⟨2, 60⟩]] := by decide
example : ∃ (reqs rem : List Request) (net net' : Net), net.dead = false ∧ send .http reqs net = (.retry rem, net') :=
  ⟨[[⟨1, 1⟩], [⟨2, 1⟩]], [[⟨2, 1⟩]], ⟨false, [.ack, .rstA], true, 1, [], false⟩,
   (send .http [[⟨1, 1⟩], [⟨2, 1⟩]] ⟨false, [.ack, .rstA], true, 1, [], false⟩).2, rfl, by decide⟩
example : ∃ (reqs : List Request) (net net' : Net), reqs.length = 2 ∧ send .grpc reqs net = (.ok, net') :=
  ⟨[[⟨1, 1⟩], [⟨2, 1⟩]], ⟨false, [.ack, .grpc 0], true, 1, [], false⟩,
   (send .grpc [[⟨1, 1⟩], [⟨2, 1⟩]] ⟨false, [.ack, .grpc 0], true, 1, [], false⟩).2, rfl, by decide⟩

end EmitModel.C12
