/-
  Thm/C12.lean — property C12 (work in progress: skeleton)
-/
import EmitModel.Lemmas.Otlp

namespace EmitModel.C12
open EmitModel.Otlp

theorem status_table_http (r : Resp) :
    interpret .http r = true ↔ (200 ≤ r.httpStatus ∧ r.httpStatus < 300) := by
  simp [interpret]

end EmitModel.C12
