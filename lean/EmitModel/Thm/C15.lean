/-
  Thm/C15.lean — property theorems for C15 "text forms round-trip and every parser is total".
  Property theorems only (plus specification vocabulary and non-vacuity `example`s); helper lemmas live in
  Lemmas/{HexId, TraceparentText, Calendar, TimestampText, TimestampOrder, PathValid, KindText}.lean.

  OBLIGATIONS (audited by `check` with `#print axioms`, listed in props/C15.json):
    hex_roundtrip, trace_id_roundtrip, span_id_roundtrip, hex_strict, hex_value, hex_entry_points_agree,
    flags_roundtrip, flags_strict, traceparent_roundtrip, traceparent_strict,
    calendar_roundtrip, ts_roundtrip, ts_roundtrip_exact, ts_parse_total, ts_strict, ts_accepts_calendar_valid,
    fmt_order, fmt_order_full, path_spec, is_child_of_spec, kind_roundtrip, kind_strict,
    level_roundtrip, level_lenient_spec

  Totality: every model parser is a total Lean function into `Option`/`Outcome`; wherever the Rust code can panic
  the model returns `Outcome.panic` explicitly, and the theorems below that state `= .ok _` / `≠ .panic` are the
  "never panics" clauses. The correspondence streams compare `ok(v) | err | panic` with the real code.
-/
import EmitModel.Model.Text
import EmitModel.Lemmas.HexId
import EmitModel.Lemmas.TraceparentText
import EmitModel.Lemmas.TimestampText
import EmitModel.Lemmas.TimestampOrder
import EmitModel.Lemmas.PathValid
import EmitModel.Lemmas.KindText
import EmitModel.Thm.C17

namespace EmitModel.C15
open EmitModel.Text

/-- ASCII text as bytes (for the `example`s; kernel-reducible, unlike `String.toUTF8`). -/
def ascii (s : String) : List UInt8 := s.toList.map fun c => UInt8.ofNat c.toNat

/-! ## Hex ids: `TraceId` (n = 16 bytes, 32 chars) and `SpanId` (n = 8 bytes, 16 chars) -/
section HexIds
open EmitModel.HexId

/-- Formatting then parsing returns the id, for every non-zero id of `n` bytes; the text has exactly `2n`
    lower-case hex digits. -/
theorem hex_roundtrip (n v : Nat) (h0 : v ≠ 0) (hlt : v < 256 ^ n) :
    fromStr n (toHex n v) = some v ∧ (toHex n v).length = 2 * n ∧
    ∀ c ∈ toHex n v, isHexDigit c = true ∧ asciiLower c = c := by
  exact ⟨tryFromHexSlice_toHex n v h0 hlt, toHex_length n v, encodeBytes_shape _⟩

theorem trace_id_roundtrip (v : Nat) (h0 : v ≠ 0) (hlt : v < 2 ^ 128) : fromStr 16 (toHex 16 v) = some v :=
  (hex_roundtrip 16 v h0 (by simpa using hlt)).1

theorem span_id_roundtrip (v : Nat) (h0 : v ≠ 0) (hlt : v < 2 ^ 64) : fromStr 8 (toHex 8 v) = some v :=
  (hex_roundtrip 8 v h0 (by simpa using hlt)).1

/-- Strictness: a text is accepted iff it is exactly `2n` characters of `[0-9a-fA-F]` (either case) that are not
    all `'0'`. Any other text — wrong length, any other byte, multi-byte characters — is an error. -/
theorem hex_strict (n : Nat) (bs : List UInt8) :
    (fromStr n bs).isSome = true ↔
      bs.length = 2 * n ∧ (∀ b ∈ bs, isHexDigit b = true) ∧ ¬ (∀ b ∈ bs, b = 48) := by
  unfold fromStr
  constructor
  · intro h
    obtain ⟨v, hv⟩ := Option.isSome_iff_exists.1 h
    have ⟨l, d, e, nz⟩ := (tryFromHexSlice_eq_some n bs v).1 hv
    refine ⟨l, d, ?_⟩
    intro hall
    exact nz (e ▸ (hexValue_zero bs d).2 hall)
  · rintro ⟨l, d, nz⟩
    have : tryFromHexSlice n bs = some (hexValue bs) :=
      (tryFromHexSlice_eq_some n bs _).2 ⟨l, d, rfl, fun hz => nz ((hexValue_zero bs d).1 hz)⟩
    simp [this]

/-- What an accepted text means: its numeric value, which is a legal id and re-formats to the lower-cased text
    (so parsing is injective up to letter case). -/
theorem hex_value (n : Nat) (bs : List UInt8) (v : Nat) (h : fromStr n bs = some v) :
    v = hexValue bs ∧ v ≠ 0 ∧ v < 256 ^ n ∧ toHex n v = bs.map asciiLower := by
  unfold fromStr at h
  have ⟨_, _, e, nz⟩ := (tryFromHexSlice_eq_some n bs v).1 h
  obtain ⟨dst, hd, hl, hv⟩ := tryFromHexSlice_some_dst n bs v h
  have ⟨_, _, _, enc⟩ := decodePairs_some bs dst hd
  refine ⟨e.symm, nz, ?_, ?_⟩
  · rw [← hv, ← hl]; exact fromBeBytes_lt dst
  · rw [toHex, ← hv, toBeBytes_fromBeBytes n dst hl, enc]

/-- All entry points agree: `try_from_hex` (through the fixed-size buffer) and casting a text value are the
    `FromStr` parser; a typed value casts to itself. -/
theorem hex_entry_points_agree (n : Nat) (s : List UInt8) :
    tryFromHex n s = fromStr n s ∧ IdVal.cast n (.text s) = fromStr n s ∧
    ∀ v, IdVal.cast n (.typed v) = some v :=
  ⟨tryFromHex_eq n s, tryFromHex_eq n s, fun _ => rfl⟩

example : fromStr 8 (ascii "00f067aa0ba902b7") = some 0x00f067aa0ba902b7 := by decide +kernel
example : fromStr 8 (ascii "00F067AA0BA902B7") = some 0x00f067aa0ba902b7 := by decide +kernel
example : fromStr 8 (ascii "0000000000000000") = none := by decide +kernel
example : fromStr 8 (ascii "00f067aa0ba902b") = none := by decide +kernel
example : fromStr 8 (ascii "00f067aa0ba902bg") = none := by decide +kernel

end HexIds

/-! ## Trace flags and the traceparent header -/
section TraceparentHeader
open EmitModel.HexId EmitModel.TraceparentText

/-- All 256 flag bytes round-trip. -/
theorem flags_roundtrip (f : UInt8) : flagsParse (flagsToHex f) = some f := by
  have h := byte_roundtrip f
  simp [flagsParse, flagsToHex, h.1, h.2]

/-- Flags are accepted iff they are exactly two hex digits. -/
theorem flags_strict (bs : List UInt8) :
    (flagsParse bs).isSome = true ↔ bs.length = 2 ∧ ∀ b ∈ bs, isHexDigit b = true := by
  unfold flagsParse
  split
  · rename_i a b
    simp only [pair_ok]
    cases ha : isHexDigit a <;> cases hb : isHexDigit b <;> simp [ha, hb]
  · rename_i hne
    constructor
    · intro h; cases h
    · rintro ⟨hl, _⟩
      match bs, hl with
      | [a, b], _ => exact absurd rfl (hne a b)

/-- Ids carried by a `Traceparent` are `None` or legal (non-zero, in range) — guaranteed by the Rust types. -/
def TraceparentWF (tp : Traceparent) : Prop :=
  (∀ t, tp.traceId = some t → t ≠ 0 ∧ t < 2 ^ 128) ∧ (∀ s, tp.spanId = some s → s ≠ 0 ∧ s < 2 ^ 64)

/-- Formatting then parsing returns the header, for every combination of present/absent ids and all flags;
    the text is 55 bytes. -/
theorem traceparent_roundtrip (tp : Traceparent) (h : TraceparentWF tp) :
    parseTraceparent (fmtTraceparent tp) = some tp ∧ (fmtTraceparent tp).length = 55 := by
  obtain ⟨tid, sid, fl⟩ := tp
  have hfl := flags_roundtrip fl
  have key : ∀ t s, t.length = 32 → s.length = 16 → tidOf t = some tid → sidOf s = some sid →
      parseTraceparent (frame t s (flagsToHex fl)) = some ⟨tid, sid, fl⟩ ∧
      (frame t s (flagsToHex fl)).length = 55 := by
    intro t s ht hs et es
    have := parse_frame t s (flagsToHex fl) ht hs (by simp [flagsToHex])
    rw [this, et, es, hfl]
    exact ⟨rfl, (sub_frame t s _ ht hs (by simp [flagsToHex])).1⟩
  have tidSome : ∀ t, t ≠ 0 → t < 2 ^ 128 → tidOf (toHex 16 t) = some (some t) := by
    intro t h0 hlt
    have hlt' : t < 256 ^ 16 := by simpa using hlt
    simp [tidOf, toHex_ne_zeros 16 t h0 hlt']
    exact (tryFromHexSlice_toHex 16 t h0 hlt')
  have sidSome : ∀ s, s ≠ 0 → s < 2 ^ 64 → sidOf (toHex 8 s) = some (some s) := by
    intro s h0 hlt
    have hlt' : s < 256 ^ 8 := by simpa using hlt
    simp [sidOf, toHex_ne_zeros 8 s h0 hlt']
    exact (tryFromHexSlice_toHex 8 s h0 hlt')
  cases tid with
  | none =>
    cases sid with
    | none =>
      have := key (zeros 32) (zeros 16) (by simp [zeros]) (by simp [zeros]) (by simp [tidOf]) (by simp [sidOf])
      simpa [fmtTraceparent, frame, dash] using this
    | some s =>
      have ⟨h0, hlt⟩ := h.2 s rfl
      have := key (zeros 32) (toHex 8 s) (by simp [zeros]) (toHex_length 8 s) (by simp [tidOf]) (sidSome s h0 hlt)
      simpa [fmtTraceparent, frame, dash] using this
  | some t =>
    have ⟨t0, tlt⟩ := h.1 t rfl
    cases sid with
    | none =>
      have := key (toHex 16 t) (zeros 16) (toHex_length 16 t) (by simp [zeros]) (tidSome t t0 tlt) (by simp [sidOf])
      simpa [fmtTraceparent, frame, dash] using this
    | some s =>
      have ⟨h0, hlt⟩ := h.2 s rfl
      have := key (toHex 16 t) (toHex 8 s) (toHex_length 16 t) (toHex_length 8 s) (tidSome t t0 tlt) (sidSome s h0 hlt)
      simpa [fmtTraceparent, frame, dash] using this

/-- Strictness: a header is accepted iff it is `00-` T `-` S `-` F with T, S, F of 32, 16 and 2 hex digits
    (55 bytes in all). Wrong length, wrong or missing separator, another version, a non-hex character anywhere
    (including multi-byte characters) are errors. All-zero T / S mean "absent". -/
theorem traceparent_strict (bs : List UInt8) :
    (parseTraceparent bs).isSome = true ↔
      ∃ t s f, bs = [48, 48, 45] ++ t ++ [45] ++ s ++ [45] ++ f ∧
        t.length = 32 ∧ s.length = 16 ∧ f.length = 2 ∧
        (∀ b ∈ t, isHexDigit b = true) ∧ (∀ b ∈ s, isHexDigit b = true) ∧ (∀ b ∈ f, isHexDigit b = true) := by
  have fieldOk : ∀ (n : Nat) (x : List UInt8), x.length = 2 * n →
      ((if x = zeros (2 * n) then some none else (tryFromHexSlice n x).map some).isSome = true ↔
        ∀ b ∈ x, isHexDigit b = true) := by
    intro n x hl
    by_cases hz : x = zeros (2 * n)
    · simp only [hz, ↓reduceIte, Option.isSome_some, true_iff]
      intro b hb
      have : b = 48 := by simpa [zeros] using (List.mem_replicate.1 hb).2
      subst this; decide
    · simp only [hz, ↓reduceIte, Option.isSome_map]
      have := hex_strict n x
      unfold fromStr at this
      rw [this]
      constructor
      · intro h; exact h.2.1
      · intro h
        refine ⟨hl, h, ?_⟩
        intro hall
        apply hz
        apply List.ext_getElem (by simp [zeros, hl])
        intro i h1 h2
        simp [zeros, hall _ (List.getElem_mem h1)]
  constructor
  · intro h
    obtain ⟨tp, htp⟩ := Option.isSome_iff_exists.1 h
    obtain ⟨t, s, f, e, lt, ls, lf⟩ := parse_some_shape bs tp htp
    refine ⟨t, s, f, e, lt, ls, lf, ?_⟩
    rw [e, parse_frame t s f lt ls lf] at htp
    cases ht : tidOf t with
    | none => simp [ht] at htp
    | some tid =>
      cases hs : sidOf s with
      | none => simp [ht, hs] at htp
      | some sid =>
        cases hf : flagsParse f with
        | none => simp [ht, hs, hf] at htp
        | some fl =>
          refine ⟨(fieldOk 16 t lt).1 (by simp [tidOf] at ht; simp [ht]),
                  (fieldOk 8 s ls).1 (by simp [sidOf] at hs; simp [hs]),
                  ((flags_strict f).1 (by simp [hf])).2⟩
  · rintro ⟨t, s, f, e, lt, ls, lf, dt, ds, df⟩
    have e' : bs = frame t s f := e
    rw [e', parse_frame t s f lt ls lf]
    have h1 := (fieldOk 16 t lt).2 dt
    have h2 := (fieldOk 8 s ls).2 ds
    have h3 := (flags_strict f).2 ⟨lf, df⟩
    obtain ⟨tid, ht⟩ := Option.isSome_iff_exists.1 h1
    obtain ⟨sid, hs⟩ := Option.isSome_iff_exists.1 h2
    obtain ⟨fl, hf⟩ := Option.isSome_iff_exists.1 h3
    simp only [tidOf, sidOf] at *
    simp [ht, hs, hf]

example : (parseTraceparent (ascii "00-4bf92f3577b34da6a3ce929d0e0e4736-00f067aa0ba902b7-01")).isSome = true := by
  decide +kernel
example : parseTraceparent (ascii "00-00000000000000000000000000000000-00f067aa0ba902b7-01")
    = some ⟨none, some 0x00f067aa0ba902b7, 1⟩ := by decide +kernel
example : parseTraceparent (ascii "01-4bf92f3577b34da6a3ce929d0e0e4736-00f067aa0ba902b7-01") = none := by
  decide +kernel
example : TraceparentWF ⟨some 5, none, 255⟩ := by
  constructor <;> intro x h <;> simp at h <;> subst h <;> decide

end TraceparentHeader

/-! ## Timestamps: calendar conversion, RFC 3339 formatter and (post-D10-fix) strict parser -/
section Timestamps
open EmitModel.Timestamp

/-- Calendar parts convert both ways for every instant from 1970-01-01T00:00:00Z to
    9999-12-31T23:59:59.999999999Z (`t` in nanoseconds): `to_parts` does not panic (its month loop stays inside the
    table), lands in range (month 1–12, day 1–31, hour ≤ 23, minute/second ≤ 59, year 1970–9999) and `from_parts`
    returns exactly the instant. -/
theorem calendar_roundtrip (t : Nat) (ht : t ≤ MAX_NS) :
    ∃ p, toPartsO t = .ok p ∧ toParts t = p ∧ InRange p ∧ fromParts p = .ok (some t) := by
  obtain ⟨p, h1, h2, _, h4⟩ := calendar_roundtrip_lemma t ht
  exact ⟨p, h1, toParts_eq t p h1, h2, h4⟩

/-- Formatting then parsing returns the instant truncated to the `k` printed sub-second digits, for every
    instant in range and every precision `k ∈ 0..9` (`{:.k}`); the formatter does not panic. -/
theorem ts_roundtrip (t k : Nat) (ht : t ≤ MAX_NS) (hk : k ≤ 9) :
    fmtRfc3339O (some k) t = .ok (fmtRfc3339 (some k) t) ∧
    parseRfc3339 (fmtRfc3339 (some k) t) = .ok (t - t % 10 ^ (9 - k)) :=
  ts_roundtrip_lemma t k ht hk

/-- In particular the default `Display` (no precision = 9 digits) and any precision ≥ 9 round-trip exactly, and so
    does every precision at which the instant is representable. -/
theorem ts_roundtrip_exact (t : Nat) (ht : t ≤ MAX_NS) :
    parseRfc3339 (fmtRfc3339 none t) = .ok t ∧
    (∀ k, 9 ≤ k → parseRfc3339 (fmtRfc3339 (some k) t) = .ok t) ∧
    (∀ k, k ≤ 9 → t % 10 ^ (9 - k) = 0 → parseRfc3339 (fmtRfc3339 (some k) t) = .ok t) := by
  have h9 := (ts_roundtrip t 9 ht (Nat.le_refl 9)).2
  simp only [Nat.sub_self, Nat.pow_zero, Nat.mod_one, Nat.sub_zero] at h9
  refine ⟨?_, ?_, ?_⟩
  · have : fmtRfc3339 none t = fmtRfc3339 (some 9) t := by simp [fmtRfc3339, fmtParts]
    rw [this, h9]
  · intro k hk
    have : fmtRfc3339 (some k) t = fmtRfc3339 (some 9) t := by
      cases k with
      | zero => omega
      | succ k =>
        have : min 9 (k + 1) = 9 := by omega
        simp [fmtRfc3339, fmtParts, this]
    rw [this, h9]
  · intro k hk hz
    have := (ts_roundtrip t k ht hk).2
    rwa [hz, Nat.sub_zero] at this

/-- The parser is total: it never panics, on any byte string whatsoever (any length, multi-byte characters,
    signs, separators) — and neither does the `Display`-buffering entry point, which is the same function. -/
theorem ts_parse_total (s : List UInt8) :
    parseRfc3339 s ≠ .panic ∧ parseDisplay s = parseRfc3339 s :=
  ⟨parse_total_lemma s, parseDisplay_eq s⟩

/-- Strictness, as an exact characterisation of the accepted language: a text parses to `t` iff it is
    `YYYY-MM-DDThh:mm:ss[.F]Z` — four/two-digit zero-padded decimal fields, the separators `-`, `-`, `T`, `:`, `:`,
    an optional `.` followed by 1–9 digits `F`, the zone `Z` — with month and day at least 1, and `from_parts` of
    the seven numbers is `t` (fields beyond their calendar range wrap as `from_parts` documents; the result
    must lie in 1970..=9999). Every other text — wrong length, wrong or missing separator or zone, a sign, a
    non-digit or multi-byte character where a digit belongs, an empty fraction — is an error. -/
theorem ts_strict (s : List UInt8) (t : Nat) :
    parseRfc3339 s = .ok t ↔
      ∃ Y Mo D H Mi S F, Y < 10000 ∧ Mo < 100 ∧ D < 100 ∧ H < 100 ∧ Mi < 100 ∧ S < 100 ∧
        F.length ≤ 9 ∧ F.all isDigit = true ∧ s = rfc3339Text Y Mo D H Mi S F ∧
        1 ≤ Mo ∧ 1 ≤ D ∧ fromParts ⟨Y, Mo, D, H, Mi, S, fracNanos F⟩ = .ok (some t) :=
  ts_strict_lemma s t

/-- Conversely every calendar-valid text of the grammar is accepted: the text of the parts of any instant in
    range, with any 0–9 sub-second digits, parses to that instant's second plus the fraction. -/
theorem ts_accepts_calendar_valid (t : Nat) (ht : t ≤ MAX_NS) (F : List UInt8) (hF : F.length ≤ 9)
    (hFd : F.all isDigit = true) :
    let p := toParts t
    parseRfc3339 (rfc3339Text p.years p.months p.days p.hours p.minutes p.seconds F) =
      .ok (t / NANOS * NANOS + fracNanos F) := by
  exact accepts_lemma t ht F hF hFd

/-- Formatted timestamps order lexicographically (byte-wise, which is `str`'s `Ord`) exactly as the instants do, at
    any equal precision `k ∈ 0..9` — "exactly" meaning: as the instants truncated to the `k` printed sub-second
    digits; two instants in the same 10^(9-k) ns bucket print the same text. -/
theorem fmt_order (a b k : Nat) (ha : a ≤ MAX_NS) (hb : b ≤ MAX_NS) (hk : k ≤ 9) :
    bytesLt (fmtRfc3339 (some k) a) (fmtRfc3339 (some k) b) = true ↔
      a - a % 10 ^ (9 - k) < b - b % 10 ^ (9 - k) :=
  fmt_order_lemma a b k ha hb hk

/-- At full precision (`{:.9}`, which is also the default `Display`): `fmt a < fmt b ↔ a < b`. -/
theorem fmt_order_full (a b : Nat) (ha : a ≤ MAX_NS) (hb : b ≤ MAX_NS) :
    (bytesLt (fmtRfc3339 (some 9) a) (fmtRfc3339 (some 9) b) = true ↔ a < b) ∧
    (bytesLt (fmtRfc3339 none a) (fmtRfc3339 none b) = true ↔ a < b) := by
  have h := fmt_order a b 9 ha hb (Nat.le_refl 9)
  simp only [Nat.sub_self, Nat.pow_zero, Nat.mod_one, Nat.sub_zero] at h
  have e : ∀ t, fmtRfc3339 none t = fmtRfc3339 (some 9) t := by intro t; simp [fmtRfc3339, fmtParts]
  exact ⟨h, by rw [e, e]; exact h⟩

example : fmtRfc3339 (some 0) 0 = ascii "1970-01-01T00:00:00Z" := by decide +kernel
example : parseRfc3339 (ascii "1970-01-01T00:00:00Z") = .ok 0 := by decide +kernel
example : fmtRfc3339 none 1691961703000017532 = ascii "2023-08-13T21:21:43.000017532Z" := by decide +kernel

end Timestamps

/-! ## Paths: `is_valid_path` (after the D11 fix) and `is_child_of` -/
section Paths
open EmitModel.PathValid

/-- `is_valid_path` accepts exactly: a non-empty first segment of identifier characters (`XID_Start` or
    `XID_Continue` — the code is lenient about the first character of the *first* segment only), followed by any
    number of `::`-prefixed segments, each starting with an `XID_Start` character and continuing with identifier
    characters. Stated for any classification of characters that keeps `':'` out of both classes (true of
    `unicode_ident`). In particular: no empty segment, no single `:`, no `:::`, no leading or trailing separator,
    no other character. -/
theorem path_spec (xs xc : Char → Bool) (hcolon : xs ':' = false ∧ xc ':' = false) (path : List Char) :
    isValidPath xs xc path = true ↔
      ∃ first rest, path = first ++ joinSegs rest ∧ first ≠ [] ∧ (∀ c ∈ first, ident xs xc c = true) ∧
        ∀ seg ∈ rest, Seg xs xc seg := by
  constructor
  · intro h
    unfold isValidPath at h
    split at h
    · cases h
    · rename_i hne
      split at h
      · cases h
      · rename_i hhead
        cases hr : run xs xc 0 path with
        | none => simp [hr] at h
        | some sep =>
          simp only [hr, beq_iff_eq] at h
          subst h
          obtain ⟨first, rest, rfl, hf, hrs⟩ := grammar_of_run xs xc hcolon _ path (Nat.le_refl _) hr
          refine ⟨first, rest, rfl, ?_, hf, hrs⟩
          intro h0
          subst h0
          cases rest with
          | nil => simp [joinSegs] at hne
          | cons seg rest => simp [joinSegs] at hhead
  · rintro ⟨first, rest, rfl, hne, hf, hrs⟩
    unfold isValidPath
    cases first with
    | nil => exact absurd rfl hne
    | cons c first =>
      have hc : c ≠ ':' := ident_ne_colon xs xc hcolon c (hf c (by simp))
      have hr := run_grammar xs xc hcolon (c :: first) rest hf hrs
      rw [List.cons_append] at hr
      simp [hc, hr]

/-- `is_child_of` never panics and is the segment-prefix relation on the raw bytes: the child is the parent
    itself, or the parent followed by `::` and anything. (Cutting the child inside a multi-byte character gives
    `false`, never a panic.) -/
theorem is_child_of_spec (child parent : List UInt8) :
    isChildOf child parent = true ↔ child = parent ∨ ∃ rest, child = parent ++ [58, 58] ++ rest := by
  unfold isChildOf
  constructor
  · intro h
    split at h
    · simp only [Bool.and_eq_true, beq_iff_eq, Bool.or_eq_true, List.isEmpty_iff] at h
      obtain ⟨hp, hs⟩ := h
      have hsplit := List.take_append_drop parent.length child
      rcases hs with hs | hs
      · left; rw [← hsplit, hp, hs, List.append_nil]
      · right
        obtain ⟨r, hr⟩ := (startsWith_iff _ _).1 hs
        exact ⟨r, by rw [← hsplit, hp, hr, List.append_assoc]⟩
    · cases h
  · rintro (rfl | ⟨rest, rfl⟩)
    · simp [isCharBoundary]
    · have hb : isCharBoundary (parent ++ [58, 58] ++ rest) parent.length = true := by
        unfold isCharBoundary
        by_cases h0 : parent.length = 0
        · simp [h0]
        · simp [h0, isCont]
      rw [List.append_assoc] at hb
      simp only [hb, ↓reduceIte, List.append_assoc, List.take_left', List.drop_left', beq_self_eq_true,
        Bool.true_and]
      have : startsWith (58 :: 58 :: rest) [58, 58] = true := (startsWith_iff _ _).2 ⟨rest, rfl⟩
      simp [this]

/-! D11: what the unfixed machine accepted (its "middle of an identifier" arm ignored the separator state). -/
def asciiStart (c : Char) : Bool := c.isAlpha
def asciiCont (c : Char) : Bool := c.isAlphanum || c == '_'

example : isValidPathLegacy asciiStart asciiCont "a:b:c".toList = true := by decide
example : isValidPathLegacy asciiStart asciiCont "a::1b".toList = true := by decide
example : isValidPath asciiStart asciiCont "a:b:c".toList = false := by decide
example : isValidPath asciiStart asciiCont "a::1b".toList = false := by decide
example : isValidPath asciiStart asciiCont "a::b1::c_d".toList = true := by decide
example : isValidPath asciiStart asciiCont "1a::b".toList = true := by decide
example : asciiStart ':' = false ∧ asciiCont ':' = false := by decide

end Paths

/-! ## Level and Kind -/
section LevelKind
open EmitModel.KindText

/-- Display then parse is the identity on kinds; a typed value casts to itself. -/
theorem kind_roundtrip (k : Kind) :
    parseKind k.display = some k ∧ KindVal.cast (.text k.display) = some k ∧ KindVal.cast (.typed k) = some k := by
  cases k <;> decide

/-- The kind parser, spelled out: a text is a kind iff, after trimming Unicode whitespace, it is the kind's
    name up to ASCII letter case. Anything else is an error; the parser is total. -/
theorem kind_strict (s : String) (k : Kind) :
    parseKind s = some k ↔ (Level.trim s.toList).map asciiLower = k.display.toList := by
  unfold parseKind parseKindChars
  simp only [eqIgnoreAsciiCase_iff]
  have e1 : "span".toList.map asciiLower = "span".toList := by decide
  have e2 : "metric".toList.map asciiLower = "metric".toList := by decide
  have ne : "span".toList ≠ "metric".toList := by decide
  rw [e1, e2]
  generalize List.map asciiLower (Level.trim s.toList) = w
  cases k with
  | span =>
    show _ ↔ w = "span".toList
    by_cases h : w = "span".toList
    · rw [if_pos h]; exact ⟨fun _ => h, fun _ => rfl⟩
    · rw [if_neg h]
      by_cases h' : w = "metric".toList
      · rw [if_pos h']; exact ⟨(fun e => by cases e), fun e => absurd e h⟩
      · rw [if_neg h']; exact ⟨(fun e => by cases e), fun e => absurd e h⟩
  | metric =>
    show _ ↔ w = "metric".toList
    by_cases h : w = "span".toList
    · rw [if_pos h]; exact ⟨(fun e => by cases e), fun e => absurd (h.symm.trans e) ne⟩
    · rw [if_neg h]
      by_cases h' : w = "metric".toList
      · rw [if_pos h']; exact ⟨fun _ => h', fun _ => rfl⟩
      · rw [if_neg h']; exact ⟨(fun e => by cases e), fun e => absurd e h'⟩

/-- Levels: Display then parse is the identity (proved for C17 about the same model function that the stream
    `c17_parse` ties to `Level::from_str` / `try_from_str` / `Value::cast`). -/
theorem level_roundtrip (l : EmitModel.Level.Level) : EmitModel.Level.parseLevel l.display = some l :=
  EmitModel.C17.level_roundtrip l

/-- The lenient level parser's tail matcher, spelled out (from C17): ASCII letters spelling (case-insensitively)
    a prefix of the expected word, then nothing or a printable non-letter ASCII character and anything. -/
theorem level_lenient_spec (input expected : List Char) :
    EmitModel.Level.parseTail input expected = true ↔
      ∃ letters tail, input = letters ++ tail ∧ (∀ c ∈ letters, EmitModel.Level.isAsciiAlpha c = true) ∧
        (letters.map EmitModel.Level.asciiUpper).isPrefixOf expected = true ∧
        (tail = [] ∨ ∃ c t, tail = c :: t ∧ EmitModel.Level.isAsciiAlpha c = false ∧
          EmitModel.Level.isAsciiNonControl c = true) :=
  EmitModel.C17.parseTail_spec input expected

example : parseKind "  SpAn\t" = some .span := by decide
example : parseKind "spans" = none := by decide
example : parseKind "" = none := by decide

end LevelKind

end EmitModel.C15
