/-
  Thm/C01.lean — property C01: an event is emitted iff the effective filter accepts the fully built event.
  Property theorems only; helper lemmas live in Lemmas/Pipeline.lean. All statements quantify over every
  leaf-filter behaviour `ρ`, every wrapping function `μ`, every leaf flush behaviour `φ`, every filter /
  destination tree (any depth, any placement of the transparent layers), every event, every ambient
  property list and every clock reading.

  OBLIGATIONS (audited by `check` with `#print axioms`):
    built_event, emit_iff, emit_log, emit_exactly_once, hook_emit_iff, hook_emit_event_iff,
    deliver_exactly_once, deliver_at_most_once, deliver_all, path_maps_only,
    eval_and, eval_or, eval_opt, eval_empty, eval_always, calls_and, calls_or, calls_same_event,
    eval_layers, run_layers, flush_layers, evalTrace_strip, run_strip, flush_strip,
    call_site_overrides, no_call_site_uses_runtime_filter, runtime_emit_is_emitter_impl,
    direct_bypass, direct_is_unfiltered_emit, flush_and, flush_defers, flush_spec,
    macro_emit_iff, macro_emit_evt_iff, span_filter_sees_level, span_macro_completes_iff, span_done_is_span,
    kind_leaf_spec
-/
import EmitModel.Lemmas.Pipeline

namespace EmitModel.C01
open EmitModel.Pipeline

variable (ρ : Nat → Evt → Bool) (μ : Nat → Evt → Evt) (φ : Nat → Nat → Bool)

/-! ## The fully built event -/

/-- The event destinations (and the filter) see: module and template untouched, own properties followed by
    the ambient ones, own extent if there is one and otherwise the clock's reading as a point. -/
theorem built_event (amb : List (String × Val)) (clk : Option Nat) (x : Evt) :
    (build amb clk x).props = x.props ++ amb ∧
    (build amb clk x).extent = (x.extent <|> clk.map Extent.point) ∧
    (∀ e, x.extent = some e → (build amb clk x).extent = some e) ∧
    (x.extent = none → (build amb clk x).extent = clk.map Extent.point) ∧
    (build amb clk x).mdl = x.mdl ∧ (build amb clk x).tpl = x.tpl := by
  cases hx : x.extent <;> simp [build, hx]

/-! ## Emitted iff the effective filter accepts the built event -/

/-- The effective filter: the call-site filter when one is given, otherwise the runtime's. -/
def effective (callSite : Option Flt) (rtf : Flt) : Flt := callSite.getD rtf

theorem firstDefined_eq (cs : Option Flt) (rtf : Flt) :
    firstDefined ρ cs rtf = (effective cs rtf).evalTrace ρ := by
  cases cs <;> rfl

/-- The complete effect log of an emission: the leaf calls of the effective filter on the built event,
    followed — iff it accepted — by whatever the emitter does with the built event. -/
theorem emit_log (rt : Rt) (cs : Option Flt) (x : Evt) :
    emit ρ μ rt cs x =
      (effective cs rt.filter).calls ρ (build rt.amb rt.clk x) ++
        (if (effective cs rt.filter).eval ρ (build rt.amb rt.clk x)
          then rt.emitter.run ρ μ (build rt.amb rt.clk x) else []) := by
  simp only [emit, emitCore, firstDefined_eq]; rfl

/-- **C01, main clause.** What the destinations receive when an event is emitted through a runtime is
    exactly what the emitter delivers for the *built* event if the effective filter accepts the built event,
    and nothing otherwise. -/
theorem emit_iff (rt : Rt) (cs : Option Flt) (x : Evt) :
    (emit ρ μ rt cs x).filterMap Obs.dlv? =
      if (effective cs rt.filter).eval ρ (build rt.amb rt.clk x)
        then rt.emitter.deliver ρ μ (build rt.amb rt.clk x) else [] := by
  simp only [emit, firstDefined_eq, emitCore_dlv]; rfl

/-- `__private_emit` (what `emit::emit!` expands to): the event is the control parameters with the call-site
    properties in front of the `props:` base properties; then as `emit_iff`. -/
theorem hook_emit_iff (rt : Rt) (cs : Option Flt) (mdl tpl : String) (extent : Option Extent)
    (base props : List (String × Val)) :
    let built : Evt := ⟨mdl, tpl, extent <|> rt.clk.map Extent.point, props ++ base ++ rt.amb⟩
    (hookEmit ρ μ rt cs mdl tpl extent base props).filterMap Obs.dlv? =
      if (effective cs rt.filter).eval ρ built then rt.emitter.deliver ρ μ built else [] := by
  have hb : build rt.amb rt.clk ⟨mdl, tpl, extent, props ++ base⟩ =
      ⟨mdl, tpl, extent <|> rt.clk.map Extent.point, props ++ base ++ rt.amb⟩ := by
    cases extent <;> simp [build]
  simp only [hookEmit, emit_iff, hb]

/-- `__private_emit_event` (`emit::emit!(evt: …)`): optional template override, call-site properties in front
    of the event's own; then as `emit_iff`. -/
theorem hook_emit_event_iff (rt : Rt) (cs : Option Flt) (x : Evt) (tpl : Option String)
    (props : List (String × Val)) :
    let built : Evt :=
      ⟨x.mdl, tpl.getD x.tpl, x.extent <|> rt.clk.map Extent.point, props ++ x.props ++ rt.amb⟩
    (hookEmitEvent ρ μ rt cs x tpl props).filterMap Obs.dlv? =
      if (effective cs rt.filter).eval ρ built then rt.emitter.deliver ρ μ built else [] := by
  have hb : build rt.amb rt.clk
      { x with tpl := tpl.getD x.tpl, props := props ++ x.props } =
      ⟨x.mdl, tpl.getD x.tpl, x.extent <|> rt.clk.map Extent.point, props ++ x.props ++ rt.amb⟩ := by
    cases tpl <;> cases hx : x.extent <;> simp [build]
  intro built
  simp only [hookEmitEvent, emit_iff]
  rw [hb]

/-! ## Destination trees deliver exactly once per reachable leaf -/

/-- What lies between the root of a destination tree and one of its leaves, as far as it can change or stop
    the event: an enclosing filter wrapping, an enclosing mapping, an enclosing nested runtime. -/
inductive Step where
  | wrapF (f : Flt)
  | wrapM (g : Nat)
  | rt (f : Flt) (amb : List (String × Val)) (clk : Option Nat)

/-- The leaf occurrences of a tree, left to right, each with the steps enclosing it (outermost first).
    A `None` option contributes no occurrence; the transparent layers contribute no step. -/
def occs : Emt → List (List Step × Nat)
  | .leaf i => [([], i)]
  | .fnLeaf i => [([], i)]
  | .empty => []
  | .and a b => occs a ++ occs b
  | .opt none => []
  | .opt (some e) => occs e
  | .wrapFilter f e => (occs e).map fun o => (Step.wrapF f :: o.1, o.2)
  | .wrapMap g e => (occs e).map fun o => (Step.wrapM g :: o.1, o.2)
  | .ref e => occs e
  | .boxed e => occs e
  | .shared e => occs e
  | .erased e => occs e
  | .internal e => occs e
  | .runtime f amb clk e => (occs e).map fun o => (Step.rt f amb clk :: o.1, o.2)

/-- One step: a filter wrapping lets the event through unchanged iff its filter accepts it, a mapping
    replaces it by its image, a nested runtime builds it and lets it through iff its own filter accepts. -/
def Step.apply : Step → Evt → Option Evt
  | .wrapF f, x => if f.eval ρ x then some x else none
  | .wrapM g, x => some (μ g x)
  | .rt f amb clk, x => if f.eval ρ (build amb clk x) then some (build amb clk x) else none

/-- The event that arrives at the end of a path, if every condition on the way holds. -/
def pathEvent : List Step → Evt → Option Evt
  | [], x => some x
  | s :: p, x => (s.apply ρ μ x).bind (pathEvent p)

/-- What one leaf occurrence receives. -/
def received (x : Evt) (o : List Step × Nat) : Option (Nat × Evt) :=
  (pathEvent ρ μ o.1 x).map fun y => (o.2, y)

theorem received_push (s : Step) (x : Evt) (l : List (List Step × Nat)) :
    (l.map fun o => (s :: o.1, o.2)).filterMap (received ρ μ x) =
      match s.apply ρ μ x with
      | some y => l.filterMap (received ρ μ y)
      | none => [] := by
  rw [List.filterMap_map]
  cases h : s.apply ρ μ x with
  | none =>
    have : (received ρ μ x ∘ fun o : List Step × Nat => (s :: o.1, o.2)) = fun _ => none := by
      funext o; simp [received, pathEvent, h]
    rw [this, filterMap_none]
  | some y =>
    have : (received ρ μ x ∘ fun o : List Step × Nat => (s :: o.1, o.2)) = received ρ μ y := by
      funext o; simp [received, pathEvent, h]
    rw [this]

/-- **C01, exactly-once clause.** For every destination tree and every event, the deliveries are — in
    order — one per leaf occurrence whose path conditions hold (every enclosing filter wrapping accepts,
    every enclosing nested runtime's filter accepts, every enclosing option is `Some`), none for the others,
    and the event a leaf receives is the input transformed by its enclosing steps only. -/
theorem deliver_exactly_once (e : Emt) (x : Evt) :
    e.deliver ρ μ x = (occs e).filterMap (received ρ μ x) := by
  induction e using Emt.induct generalizing x with
  | leaf i => simp [occs, received, pathEvent]
  | fnLeaf i => simp [occs, received, pathEvent]
  | empty => simp [occs]
  | and a b iha ihb => simp [occs, iha, ihb]
  | optNone => simp [occs]
  | optSome e ih => simp [occs, ih]
  | wrapFilter f e ih =>
    rw [deliver_wrapFilter, occs, received_push]
    cases h : f.eval ρ x <;> simp [Step.apply, h, ih]
  | wrapMap g e ih => rw [deliver_wrapMap, occs, received_push]; simp [Step.apply, ih]
  | ref e ih => simp [occs, ih]
  | boxed e ih => simp [occs, ih]
  | shared e ih => simp [occs, ih]
  | erased e ih => simp [occs, ih]
  | internal e ih => simp [occs, ih]
  | runtime f amb clk e ih =>
    rw [deliver_runtime, occs, received_push]
    cases h : f.eval ρ (build amb clk x) <;> simp [Step.apply, h, ih]

/-- No leaf occurrence ever receives an event twice: the receiving leaves are a sublist of the occurrences. -/
theorem deliver_at_most_once (e : Emt) (x : Evt) :
    ((e.deliver ρ μ x).map Prod.fst).Sublist ((occs e).map Prod.snd) := by
  rw [deliver_exactly_once]
  apply filterMap_fst_sublist
  intro o r h
  simp only [received, Option.map_eq_some_iff] at h
  obtain ⟨y, _, rfl⟩ := h
  rfl

/-- When every path condition holds, every leaf occurrence receives exactly once, in order. -/
theorem deliver_all (e : Emt) (x : Evt) (h : ∀ o ∈ occs e, (pathEvent ρ μ o.1 x).isSome) :
    (e.deliver ρ μ x).map Prod.fst = (occs e).map Prod.snd := by
  rw [deliver_exactly_once]
  generalize occs e = l at h
  induction l with
  | nil => rfl
  | cons o l ih =>
    have ho := h o (by simp)
    obtain ⟨y, hy⟩ := Option.isSome_iff_exists.mp ho
    simp only [List.filterMap_cons, received, hy, Option.map_some, List.map_cons]
    rw [← ih (fun o' ho' => h o' (by simp [ho']))]

/-- The mappings on a path, outermost first. -/
def Step.map? : Step → Option Nat
  | .wrapM g => some g
  | .wrapF _ => none
  | .rt _ _ _ => none

def Step.isRt : Step → Bool
  | .rt _ _ _ => true
  | .wrapF _ => false
  | .wrapM _ => false

/-- Below no nested runtime, the event a leaf receives is the input transformed by the enclosing mappings
    (outermost first) and by nothing else. -/
theorem path_maps_only (p : List Step) (x y : Evt) (hp : ∀ s ∈ p, s.isRt = false)
    (h : pathEvent ρ μ p x = some y) : y = (p.filterMap Step.map?).foldl (fun acc g => μ g acc) x := by
  induction p generalizing x with
  | nil => simpa [pathEvent] using h.symm
  | cons s p ih =>
    have hp' : ∀ s' ∈ p, s'.isRt = false := fun s' hs' => hp s' (by simp [hs'])
    cases s with
    | wrapF f =>
      rw [List.filterMap_cons_none rfl]
      simp only [pathEvent, Step.apply] at h
      split at h
      · exact ih x hp' (by simpa using h)
      · simp at h
    | wrapM g =>
      rw [List.filterMap_cons_some (f := Step.map?) (b := g) rfl, List.foldl_cons]
      simp only [pathEvent, Step.apply, Option.bind_some] at h
      exact ih (μ g x) hp' h
    | rt f amb clk => simpa [Step.isRt] using hp (.rt f amb clk) (by simp)

/-- The headline form: through a runtime, each leaf occurrence of the emitter receives the built event
    (transformed by its enclosing steps) exactly once iff the effective filter accepts the built event and the
    occurrence's own path conditions hold; if the effective filter rejects, nobody receives anything. -/
theorem emit_exactly_once (rt : Rt) (cs : Option Flt) (x : Evt) :
    (emit ρ μ rt cs x).filterMap Obs.dlv? =
      if (effective cs rt.filter).eval ρ (build rt.amb rt.clk x)
        then (occs rt.emitter).filterMap (received ρ μ (build rt.amb rt.clk x)) else [] := by
  rw [emit_iff, deliver_exactly_once]

/-! ## Composite filters mean what their logical definition says -/

theorem eval_and (a b : Flt) (x : Evt) : (Flt.and a b).eval ρ x = (a.eval ρ x && b.eval ρ x) := by
  simp only [Flt.eval, Flt.evalTrace]; split <;> simp_all

theorem eval_or (a b : Flt) (x : Evt) : (Flt.or a b).eval ρ x = (a.eval ρ x || b.eval ρ x) := by
  simp only [Flt.eval, Flt.evalTrace]; split <;> simp_all

theorem eval_opt (o : Option Flt) (x : Evt) : (Flt.opt o).eval ρ x = (o.map fun f => f.eval ρ x).getD true := by
  cases o <;> rfl

theorem eval_empty (x : Evt) : Flt.empty.eval ρ x = true := rfl

theorem eval_always (x : Evt) : Flt.always.eval ρ x = true := rfl

/-- `And` asks the left side first and the right side only if the left accepted. -/
theorem calls_and (a b : Flt) (x : Evt) :
    (Flt.and a b).calls ρ x = a.calls ρ x ++ (if a.eval ρ x then b.calls ρ x else []) := by
  simp only [Flt.calls, Flt.eval, Flt.evalTrace]; split <;> simp_all

/-- `Or` asks the left side first and the right side only if the left rejected. -/
theorem calls_or (a b : Flt) (x : Evt) :
    (Flt.or a b).calls ρ x = a.calls ρ x ++ (if a.eval ρ x then [] else b.calls ρ x) := by
  simp only [Flt.calls, Flt.eval, Flt.evalTrace]; split <;> simp_all

/-- Every leaf of a filter tree is asked about exactly the event the tree was asked about — so, by `emit_log`,
    every leaf of the effective filter sees the fully built event (own then ambient properties, own-or-clock
    extent), never the caller's. -/
theorem calls_same_event (f : Flt) (x : Evt) : ∀ o ∈ f.calls ρ x, ∃ i, o = Obs.flt i x := by
  induction f using Flt.induct with
  | leaf i => intro o ho; exact ⟨i, by simpa [Flt.calls, Flt.evalTrace] using ho⟩
  | and a b iha ihb =>
    intro o ho
    rw [calls_and] at ho
    rcases List.mem_append.mp ho with h | h
    · exact iha o h
    · split at h
      · exact ihb o h
      · simp at h
  | or a b iha ihb =>
    intro o ho
    rw [calls_or] at ho
    rcases List.mem_append.mp ho with h | h
    · exact iha o h
    · split at h
      · simp at h
      · exact ihb o h
  | always => intro o ho; simp [Flt.calls, Flt.evalTrace] at ho
  | empty => intro o ho; simp [Flt.calls, Flt.evalTrace] at ho
  | optNone => intro o ho; simp [Flt.calls, Flt.evalTrace] at ho
  | optSome f ih => exact ih
  | ref f ih => exact ih
  | boxed f ih => exact ih
  | shared f ih => exact ih
  | erased f ih => exact ih
  | internal f ih => exact ih

/-! ## The transparent layers (`&T`, `Box<T>`, `Arc<T>`, `dyn Erased…`, `AssertInternal<T>`) -/

/-- One layer around a filter changes neither the verdict nor the leaf calls. -/
theorem eval_layers (f : Flt) (x : Evt) :
    (Flt.ref f).evalTrace ρ x = f.evalTrace ρ x ∧ (Flt.boxed f).evalTrace ρ x = f.evalTrace ρ x ∧
    (Flt.shared f).evalTrace ρ x = f.evalTrace ρ x ∧ (Flt.erased f).evalTrace ρ x = f.evalTrace ρ x ∧
    (Flt.internal f).evalTrace ρ x = f.evalTrace ρ x :=
  ⟨rfl, rfl, rfl, rfl, rfl⟩

/-- One layer around an emitter changes nothing it does with an event. -/
theorem run_layers (e : Emt) (x : Evt) :
    (Emt.ref e).run ρ μ x = e.run ρ μ x ∧ (Emt.boxed e).run ρ μ x = e.run ρ μ x ∧
    (Emt.shared e).run ρ μ x = e.run ρ μ x ∧ (Emt.erased e).run ρ μ x = e.run ρ μ x ∧
    (Emt.internal e).run ρ μ x = e.run ρ μ x :=
  ⟨rfl, rfl, rfl, rfl, rfl⟩

/-- One layer around an emitter changes neither the flush result nor the timeouts the leaves see. -/
theorem flush_layers (e : Emt) (t : Nat) :
    (Emt.ref e).flush φ t = e.flush φ t ∧ (Emt.boxed e).flush φ t = e.flush φ t ∧
    (Emt.shared e).flush φ t = e.flush φ t ∧ (Emt.erased e).flush φ t = e.flush φ t ∧
    (Emt.internal e).flush φ t = e.flush φ t :=
  ⟨rfl, rfl, rfl, rfl, rfl⟩

/-- Remove every transparent layer, at every depth. -/
def stripF : Flt → Flt
  | .leaf i => .leaf i
  | .always => .always
  | .empty => .empty
  | .and a b => .and (stripF a) (stripF b)
  | .or a b => .or (stripF a) (stripF b)
  | .opt none => .opt none
  | .opt (some f) => .opt (some (stripF f))
  | .ref f => stripF f
  | .boxed f => stripF f
  | .shared f => stripF f
  | .erased f => stripF f
  | .internal f => stripF f

def stripE : Emt → Emt
  | .leaf i => .leaf i
  | .fnLeaf i => .fnLeaf i
  | .empty => .empty
  | .and a b => .and (stripE a) (stripE b)
  | .opt none => .opt none
  | .opt (some e) => .opt (some (stripE e))
  | .wrapFilter f e => .wrapFilter (stripF f) (stripE e)
  | .wrapMap g e => .wrapMap g (stripE e)
  | .ref e => stripE e
  | .boxed e => stripE e
  | .shared e => stripE e
  | .erased e => stripE e
  | .internal e => stripE e
  | .runtime f amb clk e => .runtime (stripF f) amb clk (stripE e)

/-- **Erased and generic paths are observationally identical (filters).** A filter tree and the same tree
    with all layers removed give the same verdict and make the same leaf calls, on every event. -/
theorem evalTrace_strip (f : Flt) (x : Evt) : (stripF f).evalTrace ρ x = f.evalTrace ρ x := by
  induction f using Flt.induct <;> simp_all [stripF, Flt.evalTrace]

/-- **… (emitters, emitting).** -/
theorem run_strip (e : Emt) (x : Evt) : (stripE e).run ρ μ x = e.run ρ μ x := by
  induction e using Emt.induct generalizing x <;> simp_all [stripE, Emt.run, evalTrace_strip, emitCore]

/-- **… (emitters, flushing).** -/
theorem flush_strip (e : Emt) (t : Nat) : (stripE e).flush φ t = e.flush φ t := by
  induction e using Emt.induct generalizing t <;> simp_all [stripE, Emt.flush]

/-! ## Call-site filter, runtime filter, bypass -/

/-- With a call-site filter the runtime's own filter is never consulted: the complete effect log does not
    depend on it. -/
theorem call_site_overrides (f₁ f₂ : Flt) (e : Emt) (amb : List (String × Val)) (clk : Option Nat)
    (w : Flt) (x : Evt) :
    emit ρ μ ⟨f₁, e, amb, clk⟩ (some w) x = emit ρ μ ⟨f₂, e, amb, clk⟩ (some w) x := rfl

/-- Without one, the runtime's filter decides. -/
theorem no_call_site_uses_runtime_filter (rt : Rt) (x : Evt) :
    (emit ρ μ rt none x).filterMap Obs.dlv? =
      if rt.filter.eval ρ (build rt.amb rt.clk x) then rt.emitter.deliver ρ μ (build rt.amb rt.clk x) else [] :=
  emit_iff ρ μ rt none x

/-- `Runtime::emit`, `emit_core::emit` on the runtime's parts, and the runtime used as an `Emitter`
    are the same function. -/
theorem runtime_emit_is_emitter_impl (rt : Rt) (x : Evt) :
    emit ρ μ rt none x = (Emt.runtime rt.filter rt.amb rt.clk rt.emitter).run ρ μ x := rfl

/-- Emitting straight to the emitter involves neither the filter, nor the clock, nor the ambient context. -/
theorem direct_bypass (f₁ f₂ : Flt) (e : Emt) (amb₁ amb₂ : List (String × Val)) (clk₁ clk₂ : Option Nat)
    (x : Evt) :
    direct ρ μ ⟨f₁, e, amb₁, clk₁⟩ x = direct ρ μ ⟨f₂, e, amb₂, clk₂⟩ x ∧
    direct ρ μ ⟨f₁, e, amb₁, clk₁⟩ x = e.run ρ μ x :=
  ⟨rfl, rfl⟩

/-- … it is what emitting would do with an accept-all filter, no clock and no ambient properties. -/
theorem direct_is_unfiltered_emit (rt : Rt) (x : Evt) :
    direct ρ μ rt x = emit ρ μ ⟨.always, rt.emitter, [], none⟩ none x := by
  have hb : build [] none x = x := by cases x with | mk m t ex ps => cases ex <;> simp [build]
  simp [direct, emit, emitCore, firstDefined, Flt.evalTrace, hb]

/-! ## Flushing -/

/-- `And` flushes both sides, each with half the timeout, and succeeds iff both do. -/
theorem flush_and (a b : Emt) (t : Nat) :
    (Emt.and a b).flush φ t =
      (((a.flush φ (t / 2)).1 && (b.flush φ (t / 2)).1), (a.flush φ (t / 2)).2 ++ (b.flush φ (t / 2)).2) := rfl

/-- Wrappings, nested runtimes and `Some` defer to the wrapped emitter; `None`, `Empty` and function
    emitters have nothing to flush. -/
theorem flush_defers (f : Flt) (g : Nat) (amb : List (String × Val)) (clk : Option Nat) (e : Emt) (i t : Nat) :
    (Emt.wrapFilter f e).flush φ t = e.flush φ t ∧ (Emt.wrapMap g e).flush φ t = e.flush φ t ∧
    (Emt.runtime f amb clk e).flush φ t = e.flush φ t ∧ (Emt.opt (some e)).flush φ t = e.flush φ t ∧
    (Emt.opt none).flush φ t = (true, []) ∧ Emt.empty.flush φ t = (true, []) ∧
    (Emt.fnLeaf i).flush φ t = (true, []) ∧ (Emt.leaf i).flush φ t = (φ i t, [(i, t)]) :=
  ⟨rfl, rfl, rfl, rfl, rfl, rfl, rfl, rfl⟩

/-- The flushable leaves of a tree, each with the number of `And`s enclosing it. -/
def flushOccs : Emt → List (Nat × Nat)
  | .leaf i => [(0, i)]
  | .fnLeaf _ => []
  | .empty => []
  | .and a b => (flushOccs a ++ flushOccs b).map fun o => (o.1 + 1, o.2)
  | .opt none => []
  | .opt (some e) => flushOccs e
  | .wrapFilter _ e => flushOccs e
  | .wrapMap _ e => flushOccs e
  | .ref e => flushOccs e
  | .boxed e => flushOccs e
  | .shared e => flushOccs e
  | .erased e => flushOccs e
  | .internal e => flushOccs e
  | .runtime _ _ _ e => flushOccs e

/-- Flushing a tree flushes every flushable leaf exactly once, with the timeout halved once per enclosing
    `And`, and succeeds iff every one of them does. -/
theorem flush_spec (e : Emt) (t : Nat) :
    e.flush φ t =
      ((flushOccs e).all (fun o => φ o.2 (t / 2 ^ o.1)), (flushOccs e).map fun o => (o.2, t / 2 ^ o.1)) := by
  induction e using Emt.induct generalizing t with
  | and a b iha ihb =>
    simp only [Emt.flush, iha, ihb, flushOccs, List.all_append, List.all_map, List.map_append, List.map_map,
      Function.comp_def, div_two_div_pow]
  | _ => simp_all [Emt.flush, flushOccs]

/-! ## Non-vacuity: the hypotheses above are met by concrete, non-trivial states -/

/-- `deliver_all`: a tree with a mapping, an accepting filter wrapping and an erased layer. -/
example : ∀ o ∈ occs (.and (.wrapMap 0 (.leaf 1)) (.erased (.wrapFilter .always (.opt (some (.fnLeaf 2)))))),
    (pathEvent (fun _ _ => true) (fun _ x => x) o.1 ⟨"m", "t", none, []⟩).isSome := by decide

/-- `path_maps_only`: a path through a filter wrapping and two mappings, no nested runtime. -/
example : (∀ s ∈ [Step.wrapM 0, Step.wrapF .always, Step.wrapM 1], s.isRt = false) ∧
    pathEvent (fun _ _ => true) (fun g x => { x with tpl := x.tpl ++ toString g })
      [Step.wrapM 0, Step.wrapF .always, Step.wrapM 1] ⟨"m", "t", none, []⟩ = some ⟨"m", "t01", none, []⟩ := by
  decide

/-- The filter can reject because of an *ambient* property and a *clock-assigned* extent: the built event,
    not the caller's, is what is tested (a runtime whose leaf filter 0 demands both). -/
example :
    let ρ : Nat → Evt → Bool := fun _ x => x.props.any (·.1 == "amb") && x.extent.isSome
    let rt : Rt := ⟨.leaf 0, .leaf 7, [("amb", .int 1)], some 5⟩
    (emit ρ (fun _ x => x) rt none ⟨"m", "t", none, [("own", .int 0)]⟩).filterMap Obs.dlv? =
      [(7, ⟨"m", "t", some (.point 5), [("own", .int 0), ("amb", .int 1)]⟩)] ∧
    (emit ρ (fun _ x => x) { rt with amb := [] } none ⟨"m", "t", none, [("own", .int 0)]⟩).filterMap Obs.dlv? = [] := by
  decide

section macros
open EmitModel.KindText (Kind)

/-! ## The level macros and the span macros -/

/-- `emit::debug!/info!/warn!/error!` (and `emit::emit!`): the event is the control parameters, the call-site
    properties with the macro's level at its sorted position in front of the `props:` base; then as `emit_iff`,
    with the call-site `when` (if any) as the effective filter. -/
theorem macro_emit_iff (rt : Rt) (cs : Option Flt) (m : LevelMacro) (mdl tpl : String) (extent : Option Extent)
    (base props : List (String × Val)) :
    let built : Evt := ⟨mdl, tpl, extent <|> rt.clk.map Extent.point, macroProps m props ++ base ++ rt.amb⟩
    (macroEmit ρ μ rt cs m mdl tpl extent base props).filterMap Obs.dlv? =
      if (effective cs rt.filter).eval ρ built then rt.emitter.deliver ρ μ built else [] :=
  hook_emit_iff ρ μ rt cs mdl tpl extent base (macroProps m props)

/-- `emit::<o>!(rt, [when,] evt: emit::<m>_evt!(mdl, extent, props: base, "tpl", …) [, "tpl'", …])`: the inner
    macro's level sits among the event's own properties, the outer macro's level and properties go in front. -/
theorem macro_emit_evt_iff (rt : Rt) (cs : Option Flt) (m o : LevelMacro) (mdl tpl : String)
    (extent : Option Extent) (base props : List (String × Val)) (tpl' : Option String)
    (props' : List (String × Val)) :
    let built : Evt := ⟨mdl, tpl'.getD tpl, extent <|> rt.clk.map Extent.point,
      macroProps o props' ++ (macroProps m props ++ base) ++ rt.amb⟩
    (macroEmitEvt ρ μ rt cs o (macroEvt m mdl tpl extent base props) tpl' props').filterMap Obs.dlv? =
      if (effective cs rt.filter).eval ρ built then rt.emitter.deliver ρ μ built else [] :=
  hook_emit_event_iff ρ μ rt cs (macroEvt m mdl tpl extent base props) tpl' (macroProps o props')

/-- **The filter that enables a span sees the macro's level.** The verdict is the effective filter's (the
    call-site `when` if given, else the runtime's) on the start event, whose properties END with `lvl` = the
    level of the macro — and carry no `lvl` from the macro at all for plain `#[span]` / `new_span!`. -/
theorem span_filter_sees_level (rt : Rt) (cs : Option Flt) (m : LevelMacro) (mdl name : String)
    (ctxtProps ids : List (String × Val)) :
    (spanEnabled ρ rt cs m mdl name ctxtProps ids).1 =
      (effective cs rt.filter).eval ρ (spanStartEvt m mdl name ctxtProps ids rt.amb) ∧
    (spanStartEvt m mdl name ctxtProps ids rt.amb).props =
      [("evt_kind", .kind .span), ("span_name", .str name)] ++ ctxtProps ++ ids ++ rt.amb ++
        (match m.level with | some l => [("lvl", .lvl l)] | none => []) ∧
    (spanStartEvt m mdl name ctxtProps ids rt.amb).mdl = mdl ∧
    (spanStartEvt m mdl name ctxtProps ids rt.amb).extent = none := by
  refine ⟨?_, ?_, rfl, rfl⟩
  · simp only [spanEnabled, firstDefined_eq]; rfl
  · cases m <;> rfl

/-- **A span completes iff that filter accepted it.** Everything the destinations receive from a
    macro-instrumented span: the body's own emission, then — iff the effective filter accepted the start event —
    exactly the deliveries of ONE completion event, which carries the macro's level first and the frame's
    ambient properties last. A rejected span delivers nothing of its own and pushes nothing onto the context. -/
theorem span_macro_completes_iff (rt : Rt) (cs : Option Flt) (m : LevelMacro) (mdl name : String)
    (ctxtProps ids : List (String × Val)) (body : Evt) :
    let enabled := (effective cs rt.filter).eval ρ (spanStartEvt m mdl name ctxtProps ids rt.amb)
    let inner := if enabled then ctxtProps ++ ids ++ rt.amb else rt.amb
    (spanMacro ρ μ rt cs m mdl name ctxtProps ids body).filterMap Obs.dlv? =
      rt.emitter.deliver ρ μ { body with props := body.props ++ inner } ++
        (if enabled then rt.emitter.deliver ρ μ (spanDoneEvt m mdl name rt.clk inner) else []) := by
  have hf : ∀ l : List Obs, (∀ o ∈ l, ∃ i x, o = Obs.flt i x) → l.filterMap Obs.dlv? = [] := by
    intro l hl
    induction l with
    | nil => rfl
    | cons o l ih =>
      obtain ⟨i, x, rfl⟩ := hl o (by simp)
      simpa [Obs.dlv?] using ih (fun o ho => hl o (by simp [ho]))
  have hcalls : (spanEnabled ρ rt cs m mdl name ctxtProps ids).2.filterMap Obs.dlv? = [] := by
    apply hf
    intro o ho
    have : o ∈ (effective cs rt.filter).calls ρ (spanStartEvt m mdl name ctxtProps ids rt.amb) := by
      simpa [spanEnabled, firstDefined_eq, Flt.calls] using ho
    obtain ⟨i, hi⟩ := calls_same_event ρ _ _ o this
    exact ⟨i, _, hi⟩
  have he : (spanEnabled ρ rt cs m mdl name ctxtProps ids).1 =
      (effective cs rt.filter).eval ρ (spanStartEvt m mdl name ctxtProps ids rt.amb) := by
    simp only [spanEnabled, firstDefined_eq]; rfl
  simp only [spanMacro, List.filterMap_append, hcalls, List.nil_append, he, spanInner, Emt.deliver]
  cases (effective cs rt.filter).eval ρ (spanStartEvt m mdl name ctxtProps ids rt.amb) <;> simp

/-- The completion event of an accepted span is a span for `is_span_filter()` and not a metric for
    `is_metric_filter()`, whatever level the macro put in front of `evt_kind`. -/
theorem span_done_is_span (m : LevelMacro) (mdl name : String) (clk : Option Nat) (inner : List (String × Val)) :
    kindLeaf .span (spanDoneEvt m mdl name clk inner) = true ∧
    kindLeaf .metric (spanDoneEvt m mdl name clk inner) = false := by
  cases m <;> simp [kindLeaf, spanDoneEvt, lvlProp, LevelMacro.level, lookupFirst, Val.toKind]

/-- `KindFilter` accepts exactly the events whose FIRST `evt_kind` property reads as the wanted kind (typed, or a
    text that parses to it); an event without one is rejected. -/
theorem kind_leaf_spec (k : Kind) (x : Evt) :
    kindLeaf k x = true ↔ ∃ v, lookupFirst "evt_kind" x.props = some v ∧ v.toKind = some k := by
  unfold kindLeaf
  cases h : lookupFirst "evt_kind" x.props with
  | none => simp
  | some v => simp

example : kindLeaf .metric ⟨"m", "t", none, [("a", .int 1), ("evt_kind", .str " METRIC "), ("evt_kind", .kind .span)]⟩ = true := by
  decide
example : kindLeaf .span ⟨"m", "t", none, [("a", .int 1)]⟩ = false := by decide

/-- Non-vacuity of `span_macro_completes_iff`, both ways: a `warn` span under a leaf that demands at least
    `error` (leaf 0 = `min_filter(Error)`) is rejected — the body sees only the outer ambient properties and
    nothing completes; an `error` span is accepted, its body sees the pushed properties and it completes once. -/
example :
    let ρ : Nat → Evt → Bool := fun _ x => minLevelLeaf ⟨.error, none⟩ x
    let rt : Rt := ⟨.leaf 0, .leaf 9, [("amb", .int 1)], some 5⟩
    let body : Evt := ⟨"m", "body", none, []⟩
    (spanMacro ρ (fun _ x => x) rt none .warn "m" "sp" [("n", .int 7)] [] body).filterMap Obs.dlv? =
      [(9, ⟨"m", "body", none, [("amb", .int 1)]⟩)] ∧
    (spanMacro ρ (fun _ x => x) rt none .error "m" "sp" [("n", .int 7)] [] body).filterMap Obs.dlv? =
      [(9, ⟨"m", "body", none, [("n", .int 7), ("amb", .int 1)]⟩),
       (9, ⟨"m", "sp", some (.range 5 5),
          [("lvl", .lvl .error), ("evt_kind", .kind .span), ("span_name", .str "sp"), ("n", .int 7), ("amb", .int 1)]⟩)] := by
  decide

end macros

end EmitModel.C01
