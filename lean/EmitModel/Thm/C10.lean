/-
  Thm/C10.lean — property C10: rolling files — acknowledged events are durable and no record is ever mangled.
  Property theorems only; the machinery is in Lemmas/FileSet*.lean.

  Setting (Model/FileSet.lean): the worker `onBatch` runs over a filesystem whose every call takes its outcome from
  an arbitrary fault plan `Nat → Fault` (ok / error / short write then error / crash losing any suffix of the
  unsynced bytes of every file and any never-synced directory entry). Histories are arbitrary lists of batches
  (any clock readings, ids, batches — a retried remainder is just another batch) and restarts.
  Hypotheses stated where used: the separator is one byte `c` (`cfg.sep = [c]`), and every submitted event ends
  with it and contains it nowhere else (`WfEvents E c`, what `FileSetInner::emit` + the JSON writer guarantee and
  the harness asserts). `E` is the set of event buffers submitted so far (any superset works).

  OBLIGATIONS (audited by `check` with `#print axioms`):
    chunk_invariant, records_wellformed, torn_only_after_fault, calm_plan_no_torn, acked_durable, acked_never_lost,
    failed_batch_rewritten, reuse_recovers, recovery_separator_first, emit_appends_separator,
    failed_format_contributes_nothing
-/
import EmitModel.Lemmas.FileSetCalm
import EmitModel.Lemmas.FileSetKept
import EmitModel.Model.FileSetLegacy

namespace EmitModel.C10
open EmitModel.FileSet

/-- **Chunk invariant** (DESIGN A.3). For every configuration with a one-byte separator, every fault plan and
    every history from a state satisfying the invariant (e.g. the empty directory): names stay unique, every
    file of the set holds content of the form `(event | sep | torn·sep)* (torn)?`, and the file the worker
    holds is a member of the set, exists with a durable directory entry and — unless flagged for recovery — ends
    on a record boundary. -/
theorem chunk_invariant {cfg : Config} {E : List Nat → Prop} {c : Nat} (hsep : cfg.sep = [c])
    (plan : Nat → Fault) (ops : List Op) :
    ∀ (s : St), Inv cfg E c s → (∀ op ∈ ops, ∀ e ∈ op.events, E e) → Inv cfg E c (run cfg plan s ops) :=
  run_inv (.inl hsep) plan ops

/-- **No record is ever mangled.** In every state reachable under any fault plan, every separator-delimited
    record of every file of the set is empty, a complete submitted event, or a non-empty strict prefix of one
    submitted event — never bytes of two events. -/
theorem records_wellformed {cfg : Config} {E : List Nat → Prop} {c : Nat} (hsep : cfg.sep = [c])
    (hwf : WfEvents E c) (plan : Nat → Fault) (ops : List Op) (s0 : St) (h0 : Inv cfg E c s0)
    (hE : ∀ op ∈ ops, ∀ e ∈ op.events, E e) (n : List Nat) (f : File)
    (hget : fsGet (run cfg plan s0 ops).fs n = some f) (hmem : isMember cfg.pfx cfg.ext n = true) :
    ∀ r ∈ splitOn c f.content,
      r = [] ∨ E (r ++ [c]) ∨ (r ≠ [] ∧ ∃ e, E e ∧ r <+: e ∧ r.length < e.length) := by
  have hinv := chunk_invariant hsep plan ops s0 h0 hE
  intro r hr
  rcases (hinv.good n f hget hmem).records hwf r hr with h | h | ⟨_, h⟩
  · exact .inl h
  · exact .inr (.inl h)
  · exact .inr (.inr h)

/-- **Torn records sit exactly where a fault interrupted a write**: as long as no short write has put bytes and
    no crash has happened (`faulted = false`, a flag only those two outcomes set), every record is empty or a
    complete event. (That a torn piece is the *last* thing in its file or is followed by the separator is the
    shape `Good`/`Clean` in `chunk_invariant`.) -/
theorem torn_only_after_fault {cfg : Config} {E : List Nat → Prop} {c : Nat} (hsep : cfg.sep = [c])
    (hwf : WfEvents E c) (plan : Nat → Fault) (ops : List Op) (s0 : St) (h0 : Inv cfg E c s0)
    (hE : ∀ op ∈ ops, ∀ e ∈ op.events, E e) (hcalm : (run cfg plan s0 ops).faulted = false)
    (n : List Nat) (f : File) (hget : fsGet (run cfg plan s0 ops).fs n = some f)
    (hmem : isMember cfg.pfx cfg.ext n = true) :
    ∀ r ∈ splitOn c f.content, r = [] ∨ E (r ++ [c]) := by
  have hinv := chunk_invariant hsep plan ops s0 h0 hE
  intro r hr
  rcases (hinv.good n f hget hmem).records hwf r hr with h | h | ⟨ht, _⟩
  · exact .inl h
  · exact .inr h
  · rw [hcalm] at ht; cases ht

/-- The flag means what it says: under any fault plan that only makes calls fail (errors at any calls, but no
    short write and no crash), from a state without torn records, every record of every file of the set in every
    reachable state is empty or a complete event — plain IO errors never tear or mangle anything. -/
theorem calm_plan_no_torn {cfg : Config} {E : List Nat → Prop} {c : Nat} (hsep : cfg.sep = [c])
    (hwf : WfEvents E c) (plan : Nat → Fault) (hplan : ∀ i, plan i = .ok ∨ plan i = .err) (ops : List Op) (s0 : St)
    (h0 : Inv cfg E c s0) (hf0 : s0.faulted = false) (hE : ∀ op ∈ ops, ∀ e ∈ op.events, E e)
    (n : List Nat) (f : File) (hget : fsGet (run cfg plan s0 ops).fs n = some f)
    (hmem : isMember cfg.pfx cfg.ext n = true) :
    ∀ r ∈ splitOn c f.content, r = [] ∨ E (r ++ [c]) :=
  torn_only_after_fault hsep hwf plan ops s0 h0 hE ((run_calm cfg hplan ops s0).trans hf0) n f hget hmem

/-- **Acknowledged events are durable.** If `on_batch` returns Ok (under any fault plan, from any state satisfying
    the invariant) then all events of the batch went to ONE file of the set — the one the worker now holds — whose
    directory entry is durable, which has no unsynced bytes left, and in whose synced content every event of the
    batch occurs complete, starting on a record boundary. -/
theorem acked_durable {cfg : Config} {E : List Nat → Prop} {c : Nat} (hsep : cfg.sep = [c]) (hwf : WfEvents E c)
    (plan : Nat → Fault) (now : Parts) (id : Nat) (b : Batch) (s s' : St) (hinv : Inv cfg E c s)
    (hE : ∀ e ∈ b.rest, E e) (h : onBatch cfg plan now id b s = (.ok, s')) :
    ∃ a f, s'.active = some a ∧ isMember cfg.pfx cfg.ext a.name = true ∧ fsGet s'.fs a.name = some f ∧
      f.durable = true ∧ f.unsynced = [] ∧ ∀ e ∈ b.rest, Occurs c e f.synced := by
  obtain ⟨a1, _, a3⟩ := acquire_spec (cfg := cfg) (E := E) (c := c) (N := fun _ => True) plan now id b s trivial hinv.active
  unfold onBatch at h
  cases hacq : acquire cfg plan now id b s with
  | err s1 => simp only [hacq] at h; cases h
  | crash s1 => simp only [hacq] at h; cases h
  | ok a s1 =>
    simp only [hacq, R.st] at h a1
    obtain ⟨hm, ⟨f1, hget1, hd1, _⟩, hclean1⟩ := a3 a s1 hacq
    have hgood1 := a1.goodInv hinv.nodup hinv.good
    generalize hw : writeEvents cfg plan a b s1 b.rest = w at h
    obtain ⟨res, oa, s2⟩ := w
    cases res with
    | retry b' => simp only at h; exact absurd h (syncWritten_ne_ok plan a.name b b' s2 s')
    | noRetry => simp only at h; cases h
    | crashed => simp only at h; cases h
    | ok =>
      obtain ⟨a', rfl⟩ := writeEvents_res_ok b.rest hw
      simp only at h
      obtain ⟨_, w2, _, _, w5, _⟩ := writeEvents_ok b.rest hw
      cases hf : flushFile plan s2 with
      | err s3 => simp only [hf] at h; cases h
      | crash s3 => simp only [hf] at h; cases h
      | ok u s3 =>
        simp only [hf] at h
        obtain ⟨g1, _, _⟩ := flushFile_ok hf
        cases hy : syncAll plan a'.name s3 with
        | err s4 => simp only [hy] at h; cases h
        | crash s4 => simp only [hy] at h; cases h
        | ok u s4 =>
          simp only [hy] at h
          cases h
          obtain ⟨_, _, z3⟩ := syncAll_ok hy
          have hget3 : fsGet s3.fs a'.name =
              some { f1 with unsynced := f1.unsynced ++ laid cfg.sep a.needsRecovery b.rest } := by
            rw [g1, w2, w5]; exact fsGet_appendBytes_same _ hget1
          rcases z3 with ⟨f, hget, hfs⟩ | ⟨hnone, _⟩
          · rw [hget3] at hget; cases hget
            refine ⟨a', File.syncedAll { f1 with unsynced := f1.unsynced ++ laid cfg.sep a.needsRecovery b.rest },
              rfl, by rw [w5]; exact hm, by simp only [hfs, fsGet_fsSet_same], hd1, rfl, ?_⟩
            have := occurs_laid hwf b.rest (hgood1 a.name f1 hget1 hm) (fun hnr => hclean1 hnr f1 hget1) hE
            simpa [File.syncedAll, File.content, hsep] using this
          · rw [hget3] at hnone; cases hnone

/-- The state after more history is related to the state before: durable files keep their synced bytes unless
    the worker's retention deleted them. -/
theorem run_rel {cfg : Config} {E : List Nat → Prop} {c : Nat} (hsep : cfg.sep = [c]) (plan : Nat → Fault)
    (ops : List Op) : ∀ (s : St), Inv cfg E c s → (∀ op ∈ ops, ∀ e ∈ op.events, E e) →
      Rel cfg (fun _ => True) s (run cfg plan s ops) := by
  induction ops with
  | nil => intro s _ _; exact Rel.refl cfg _ s
  | cons op ops ih =>
    intro s h hE
    have h1 : Rel cfg (fun _ => True) s (runOp cfg plan s op) := by
      cases op with
      | batch now id b =>
        exact (onBatch_spec (N := fun _ => True) (.inl hsep) plan now id b s trivial (hE (.batch now id b) (by simp)) h).1.rel h.nodup
      | restart => exact Rel.of_same_fs [] (by simp [runOp, restart]) (by simp) (by simp) rfl
    exact h1.trans (ih _ (runOp_inv (.inl hsep) plan op (hE op (by simp)) h) (fun o ho => hE o (by simp [ho])))

/-- **No later step loses an acknowledged event.** After an Ok batch, whatever happens next (more batches,
    restarts, failures, crashes — any fault plan), every event of the batch still occurs complete in the synced
    content of the same file, with a durable directory entry — unless the worker itself deleted that file
    (a `deleted` entry in the log, i.e. retention, which C11 bounds). -/
theorem acked_never_lost {cfg : Config} {E : List Nat → Prop} {c : Nat} (hsep : cfg.sep = [c]) (hwf : WfEvents E c)
    (plan : Nat → Fault) (now : Parts) (id : Nat) (b : Batch) (s s' : St) (hinv : Inv cfg E c s)
    (hE : ∀ e ∈ b.rest, E e) (h : onBatch cfg plan now id b s = (.ok, s')) (ops : List Op)
    (hE' : ∀ op ∈ ops, ∀ e ∈ op.events, E e) :
    ∃ a, s'.active = some a ∧
      (Ev.deleted a.name ∈ (run cfg plan s' ops).log.drop s'.log.length ∨
        ∃ f', fsGet (run cfg plan s' ops).fs a.name = some f' ∧ f'.durable = true ∧
          ∀ e ∈ b.rest, Occurs c e f'.synced) := by
  obtain ⟨a, f, ha, _, hget, hd, _, hocc⟩ := acked_durable hsep hwf plan now id b s s' hinv hE h
  have hinv' : Inv cfg E c s' := by
    have := onBatch_inv (.inl hsep) plan now id b s hE hinv
    rw [h] at this; exact this
  obtain ⟨⟨extra, hlog, _, _, hdur⟩, _⟩ := run_rel hsep plan ops s' hinv' hE'
  refine ⟨a, ha, ?_⟩
  rcases hdur a.name f hget hd with hdel | ⟨f', hget', hd', hpre⟩
  · left; rw [hlog]; simpa using hdel
  · right
    refine ⟨f', hget', hd', fun e he => ?_⟩
    obtain ⟨t, ht⟩ := hpre
    rw [← ht]; exact (hocc e he).append t

/-- **A failed batch is handed back from the event whose write failed.** If `on_batch` asks for a retry then the
    worker has let go of its file (so the next attempt starts a new file or reopens one with the recovery flag),
    and either nothing of the batch was touched (`b' = b`: the file could not be obtained), or the events before
    the cursor of `b'` were each written in full, the write of the event under the cursor failed, and `b'` is `b`
    advanced over exactly the written ones — its remainder starts with the failed event; the state handed back is
    the one after the written prefix (if any) was flushed and synced (`syncWritten`, see `retried_prefix_durable`). -/
theorem failed_batch_rewritten {cfg : Config} {E : List Nat → Prop} {c : Nat} (hsep : cfg.sep = [c])
    (plan : Nat → Fault) (now : Parts) (id : Nat) (b b' : Batch) (s s' : St) (hinv : Inv cfg E c s)
    (hE : ∀ e ∈ b.rest, E e) (h : onBatch cfg plan now id b s = (.retry b', s')) :
    s'.active = none ∧
      (b' = b ∨ ∃ pre e post a0 s0 a1 s1, acquire cfg plan now id b s = .ok a0 s0 ∧
        b.rest = pre ++ e :: post ∧ b'.rest = e :: post ∧ b' = pre.foldl Batch.advance b ∧
        writeEvents cfg plan a0 b s0 pre = (.ok, some a1, s1) ∧ ∃ s2, writeEvent cfg plan a1 e s1 = .err s2 ∧
          syncWritten plan a0.name b b' s2 = (.retry b', s')) := by
  constructor
  · have := (onBatch_spec (N := fun _ => True) (.inl hsep) plan now id b s trivial hE hinv).2
    rw [h] at this
    cases hs : s'.active with
    | none => rfl
    | some a =>
      -- an active file is only ever installed on the Ok path
      exfalso
      unfold onBatch at h
      obtain ⟨_, a2, _⟩ := acquire_spec (cfg := cfg) (E := E) (c := c) (N := fun _ => True) plan now id b s trivial hinv.active
      cases hacq : acquire cfg plan now id b s with
      | err s1 => simp only [hacq, R.st] at h a2; cases h; rw [a2] at hs; cases hs
      | crash s1 => simp only [hacq] at h; cases h
      | ok a0 s1 =>
        simp only [hacq, R.st] at h a2
        obtain ⟨a1, _, _⟩ := acquire_spec (cfg := cfg) (E := E) (c := c) (N := fun _ => True) plan now id b s trivial hinv.active
        simp only [hacq, R.st] at a1
        have hok := (acquire_spec (cfg := cfg) (E := E) (c := c) (N := fun _ => True) plan now id b s trivial hinv.active).2.2 a0 s1 hacq
        obtain ⟨_, w2, _⟩ := writeEvents_spec (N := fun _ => True) (.inl hsep) plan b.rest a0 b s1 hE (a1.nodup hinv.nodup)
          (a1.goodInv hinv.nodup hinv.good) hok
        have w2' := w2 a2
        generalize hw : writeEvents cfg plan a0 b s1 b.rest = w at h w2'
        obtain ⟨res, oa, s2⟩ := w
        cases res with
        | retry b'' =>
          simp only at h w2'
          have := syncWritten_active plan a0.name b b'' w2'
          rw [h] at this
          rw [this] at hs; cases hs
        | noRetry => simp only at h; cases h
        | crashed => simp only at h; cases h
        | ok =>
          obtain ⟨a', rfl⟩ := writeEvents_res_ok b.rest hw
          simp only at h
          cases hf : flushFile plan s2 with
          | err s3 => simp only [hf] at h; cases h
          | crash s3 => simp only [hf] at h; cases h
          | ok u s3 =>
            simp only [hf] at h
            cases hy : syncAll plan a'.name s3 <;> simp only [hy] at h <;> cases h
  · unfold onBatch at h
    cases hacq : acquire cfg plan now id b s with
    | err s1 => simp only [hacq] at h; cases h; exact .inl rfl
    | crash s1 => simp only [hacq] at h; cases h
    | ok a0 s0 =>
      simp only [hacq] at h
      generalize hw : writeEvents cfg plan a0 b s0 b.rest = w at h
      obtain ⟨res, oa, s2⟩ := w
      cases res with
      | retry b'' =>
        have h' : syncWritten plan a0.name b b'' s2 = (.retry b', s') := by
          cases oa <;> simpa using h
        obtain ⟨rfl, _⟩ := syncWritten_retry h'
        obtain ⟨pre, e, post, a1, s1, k1, k2, k3, k4⟩ := writeEvents_retry b.rest hw
        exact .inr ⟨pre, e, post, a0, s0, a1, s1, rfl, k1, by rw [k2]; exact Batch.rest_foldl_advance pre k1, k2, k3, s2, k4, h'⟩
      | noRetry => cases oa <;> simp only at h <;> cases h
      | crashed => cases oa <;> simp only at h <;> cases h
      | ok =>
        obtain ⟨a', rfl⟩ := writeEvents_res_ok b.rest hw
        simp only at h
        cases hf : flushFile plan s2 with
        | err s3 => simp only [hf] at h; cases h
        | crash s3 => simp only [hf] at h; cases h
        | ok u s3 =>
          simp only [hf] at h
          cases hy : syncAll plan a'.name s3 <;> simp only [hy] at h <;> cases h

/-- **What a failed attempt wrote is durable before the rest is retried** (defect D19, fixed). If `on_batch` asks for
    a retry, then either the batch comes back untouched, or the events before the cursor of the batch handed back
    — written in full by this attempt and NOT part of the retry — are complete, on a record boundary, in the
    synced content of the file the attempt wrote to, whose directory entry is durable and which has no unsynced
    bytes left. (`hcnt`: the byte counter covers the events, as `EventBatch::push` maintains it.) -/
theorem retried_prefix_durable {cfg : Config} {E : List Nat → Prop} {c : Nat} (hsep : cfg.sep = [c])
    (hwf : WfEvents E c) (plan : Nat → Fault) (now : Parts) (id : Nat) (b b' : Batch) (s s' : St)
    (hinv : Inv cfg E c s) (hE : ∀ e ∈ b.rest, E e) (hcnt : (b.rest.map List.length).sum ≤ b.remaining)
    (h : onBatch cfg plan now id b s = (.retry b', s')) :
    b' = b ∨ ∃ pre a0 s0 f, acquire cfg plan now id b s = .ok a0 s0 ∧ b.rest = pre ++ b'.rest ∧ pre ≠ [] ∧
      isMember cfg.pfx cfg.ext a0.name = true ∧ fsGet s'.fs a0.name = some f ∧ f.durable = true ∧
      f.unsynced = [] ∧ ∀ e ∈ pre, Occurs c e f.synced := by
  rcases (failed_batch_rewritten hsep plan now id b b' s s' hinv hE h).2 with
    hb | ⟨pre, e, post, a0, s0, a1, s1, hacq, hrest, hrest', hb', hpre, s2, hfail, hsync⟩
  · exact .inl hb
  · obtain ⟨_, hcase⟩ := syncWritten_retry hsync
    cases pre with
    | nil => left; simpa using hb'
    | cons p0 pre0 =>
      right
      -- the counter moved: every written event is non-empty and the counter covers the batch
      have hp0 : E p0 := hE p0 (by rw [hrest]; simp)
      obtain ⟨body, hbody, _⟩ := hwf p0 hp0
      have hlen : 0 < p0.length := by rw [hbody]; simp
      have hrem : b'.remaining ≠ b.remaining := by
        rw [hb', Batch.remaining_foldl_advance]
        rw [hrest] at hcnt
        simp only [List.map_append, List.map_cons, List.sum_append, List.sum_cons] at hcnt ⊢
        omega
      rcases hcase with ⟨heq, _⟩ | ⟨_, s3, hf, hy⟩
      · exact absurd heq hrem
      · obtain ⟨a1', _, a3⟩ := acquire_spec (cfg := cfg) (E := E) (c := c) (N := fun _ => True) plan now id b s trivial hinv.active
        simp only [hacq, R.st] at a1'
        obtain ⟨hm, ⟨f1, hget1, hd1, _⟩, hclean1⟩ := a3 a0 s0 hacq
        have hgood1 := a1'.goodInv hinv.nodup hinv.good
        obtain ⟨_, w2, _, _, w5, _⟩ := writeEvents_ok (p0 :: pre0) hpre
        obtain ⟨t, ht⟩ := writeEvent_err hfail
        obtain ⟨g1, _, _⟩ := flushFile_ok hf
        obtain ⟨_, _, z3⟩ := syncAll_ok hy
        have hget3 : fsGet s3.fs a0.name =
            some { f1 with unsynced := f1.unsynced ++ (laid cfg.sep a0.needsRecovery (p0 :: pre0) ++ t) } := by
          rw [g1, ht, w2, w5, appendBytes_appendBytes]; exact fsGet_appendBytes_same _ hget1
        rcases z3 with ⟨f, hget, hfs⟩ | ⟨hnone, _⟩
        · rw [hget3] at hget; cases hget
          refine ⟨p0 :: pre0, a0, s0,
            File.syncedAll { f1 with unsynced := f1.unsynced ++ (laid cfg.sep a0.needsRecovery (p0 :: pre0) ++ t) },
            hacq, by rw [hrest, hrest'], by simp, hm,
            by simp only [hfs, fsGet_fsSet_same], hd1, rfl, ?_⟩
          have hEpre : ∀ x ∈ p0 :: pre0, E x := fun x hx => hE x (by rw [hrest]; exact List.mem_append_left _ hx)
          have := occurs_laid hwf (p0 :: pre0) (hgood1 a0.name f1 hget1 hm) (fun hnr => hclean1 hnr f1 hget1) hEpre
          intro x hx
          have hx' := (this x hx).append t
          simpa [File.syncedAll, File.content, hsep, List.append_assoc] using hx'
        · rw [hget3] at hnone; cases hnone

/-- **A finished batch is durable as a whole, however many attempts it took.** Run `on_batch` under the batcher's
    retry loop (`processBatch`: any number of attempts, each with its own clock and id reading, each handed the
    remainder the previous one gave back), under any fault plan, from any state satisfying the invariant. If the
    loop ends with Ok — the moment the batch counts as processed and its flush callbacks fire (C07) — then EVERY
    event of the original batch, not only the remainder of the last attempt, is kept: complete, on a record
    boundary, in synced content of a durable file of the set, unless the worker's own retention deleted that file
    since the batch began. -/
theorem batch_done_all_durable {cfg : Config} {E : List Nat → Prop} {c : Nat} (hsep : cfg.sep = [c])
    (hwf : WfEvents E c) (plan : Nat → Fault) :
    ∀ (atts : List (Parts × Nat)) (b : Batch) (s s' : St), Inv cfg E c s → (∀ e ∈ b.rest, E e) →
      (b.rest.map List.length).sum ≤ b.remaining → processBatch cfg plan atts b s = (.ok, s') →
      Rel cfg (fun _ => True) s s' ∧ ∀ e ∈ b.rest, Kept cfg c s.log.length e s' := by
  intro atts
  induction atts with
  | nil => intro b s s' _ _ _ h; simp [processBatch] at h
  | cons att rest ih =>
    intro b s s' hinv hE hcnt h
    obtain ⟨now, id⟩ := att
    have hrel1 : Rel cfg (fun _ => True) s (onBatch cfg plan now id b s).2 :=
      (onBatch_spec (N := fun _ => True) (.inl hsep) plan now id b s trivial hE hinv).1.rel hinv.nodup
    have hinv1 := onBatch_inv (.inl hsep) plan now id b s hE hinv
    cases hob : onBatch cfg plan now id b s with
    | mk r s1 =>
      rw [hob] at hrel1 hinv1
      simp only at hrel1 hinv1
      cases r with
      | ok =>
        simp only [processBatch, hob] at h
        cases h
        refine ⟨hrel1, fun e he => ?_⟩
        obtain ⟨a, f, _, hm, hget, hd, _, hocc⟩ := acked_durable hsep hwf plan now id b s s' hinv hE hob
        exact ⟨a.name, hm, .inr ⟨f, hget, hd, hocc e he⟩⟩
      | noRetry => simp [processBatch, hob] at h
      | crashed => simp [processBatch, hob] at h
      | retry b' =>
        simp only [processBatch, hob] at h
        have hlen : s.log.length ≤ s1.log.length := by
          obtain ⟨⟨extra, hlog, _⟩, _⟩ := hrel1
          rw [hlog]; simp
        rcases retried_prefix_durable hsep hwf plan now id b b' s s1 hinv hE hcnt hob with
          rfl | ⟨pre, a0, s0, f, _, hrest, _, hm, hget, hd, _, hocc⟩
        · obtain ⟨r1, r2⟩ := ih b' s1 s' hinv1 hE hcnt h
          exact ⟨hrel1.trans r1, fun e he => (r2 e he).weakenL hlen⟩
        · have hE' : ∀ e ∈ b'.rest, E e := fun e he => hE e (by rw [hrest]; exact List.mem_append_right _ he)
          have hb' := (failed_batch_rewritten hsep plan now id b b' s s1 hinv hE hob).2
          have hcnt' : (b'.rest.map List.length).sum ≤ b'.remaining := by
            rcases hb' with rfl | ⟨pre', e, post, _, _, _, _, _, k1, k2, k3, _⟩
            · exact hcnt
            · rw [k2]
              have hr : b'.remaining = b.remaining - (pre'.map List.length).sum := by
                rw [k3, Batch.remaining_foldl_advance]
              rw [hr]
              rw [k1] at hcnt
              simp only [List.map_append, List.map_cons, List.sum_append, List.sum_cons] at hcnt ⊢
              omega
          obtain ⟨r1, r2⟩ := ih b' s1 s' hinv1 hE' hcnt' h
          refine ⟨hrel1.trans r1, fun e he => ?_⟩
          rw [hrest] at he
          rcases List.mem_append.mp he with hp | hr
          · have hk : Kept cfg c s.log.length e s1 := ⟨a0.name, hm, .inr ⟨f, hget, hd, hocc e hp⟩⟩
            exact hk.mono hlen r1
          · exact (r2 e hr).weakenL hlen

/-- **Reuse recovers** (1): a file reopened for reuse is always flagged for recovery (and is a member of the set
    with a durable directory entry). -/
theorem reuse_recovers (cfg : Config) (plan : Nat → Fault) (n : List Nat) (s s' : St) (a : Active)
    (h : tryOpenReuse cfg plan n s = .ok a s') :
    a.needsRecovery = true ∧ a.name = n ∧ isMember cfg.pfx cfg.ext n = true ∧
      ∃ f, fsGet s'.fs n = some f ∧ f.durable = true := by
  obtain ⟨h1, h2, h3, _, f, h5, h6, _⟩ := tryOpenReuse_ok h
  exact ⟨h3, h1, h2, f, h5, h6⟩

/-- **Reuse recovers** (2): a successful `write_event` on a file flagged for recovery appends the separator and
    then the event; on an unflagged file just the event; afterwards the flag is clear. -/
theorem recovery_separator_first (cfg : Config) (plan : Nat → Fault) (a a' : Active) (e : List Nat) (s s' : St)
    (h : writeEvent cfg plan a e s = .ok a' s') :
    s'.fs = appendBytes s.fs a.name ((if a.needsRecovery then cfg.sep else []) ++ e) ∧ a'.needsRecovery = false ∧
      a'.name = a.name := by
  obtain ⟨h1, _, _, h4, h5, _, _⟩ := writeEvent_ok h
  exact ⟨h1, h5, h4⟩

/-- **`emit` hands the worker well-formed events** (`FileSetInner::emit`): whatever the writer produced, the
    buffer sent to the worker ends with the separator; and for a one-byte separator `c` and a writer output `p`
    that does not contain `c` (the JSON writer escapes control characters), with or without a trailing `c` of its
    own, the buffer is `p ++ [c]` — an event in the sense of `WfEvents`. -/
theorem emit_appends_separator (sep buf : List Nat) :
    sep <:+ finishEvent sep buf ∧
      ∀ c p, sep = [c] → c ∉ p → (buf = p ∨ buf = p ++ [c]) → finishEvent sep buf = p ++ [c] := by
  constructor
  · unfold finishEvent
    split
    · rename_i h; exact List.isSuffixOf_iff_suffix.mp h
    · exact List.suffix_append _ _
  · rintro c p rfl hc (rfl | rfl)
    · unfold finishEvent
      have : ([c].isSuffixOf buf) = false := by
        cases h : [c].isSuffixOf buf with
        | false => rfl
        | true =>
          have := List.isSuffixOf_iff_suffix.mp h
          exact absurd (this.subset (by simp)) hc
      simp [this]
    · unfold finishEvent
      have : ([c].isSuffixOf (p ++ [c])) = true := List.isSuffixOf_iff_suffix.mpr (List.suffix_append _ _)
      simp [this]

/-- **A failed format contributes nothing** (`FileSetInner::emit`, error arm): the buffers handed to the worker for a
    sequence of events are exactly the finished buffers of the events whose writer returned Ok, in order — an event
    whose writer failed is dropped whole (counted in `event_format_failed`), whatever partial bytes it had written,
    and the events after it are unaffected; every buffer sent ends with the separator. -/
theorem failed_format_contributes_nothing (sep : List Nat) (ws : List Formatted) :
    (emitAll sep ws).1 =
        (ws.filterMap fun w => match w with | .ok p => some p | .fail _ => none).map (finishEvent sep) ∧
      (∀ b ∈ (emitAll sep ws).1, sep <:+ b) ∧
      (emitAll sep ws).2 + (emitAll sep ws).1.length = ws.length := by
  refine ⟨?_, ?_, ?_⟩
  · induction ws with
    | nil => rfl
    | cons w ws ih =>
      simp only [emitAll] at ih ⊢
      cases w with
      | ok p => simp only [List.filterMap_cons, emitBuf, List.map_cons, ih]
      | fail q => simp only [List.filterMap_cons, emitBuf, ih]
  · intro b hb
    simp only [emitAll, List.mem_filterMap] at hb
    obtain ⟨w, _, hw⟩ := hb
    cases w with
    | ok p => simp only [emitBuf, Option.some.injEq] at hw; rw [← hw]; exact (emit_appends_separator sep p).1
    | fail q => simp [emitBuf] at hw
  · induction ws with
    | nil => rfl
    | cons w ws ih =>
      simp only [emitAll] at ih ⊢
      cases w with
      | ok p => simp only [List.filterMap_cons, emitBuf, List.filter_cons, List.length_cons]; simp; omega
      | fail q => simp only [List.filterMap_cons, emitBuf, List.filter_cons, List.length_cons]; simp; omega

/-! ### the hypotheses are satisfiable -/

/-- The default separator, and the events `a\n`, `bc\n`. -/
example : WfEvents (fun e => e = [97, 10] ∨ e = [98, 99, 10]) 10 := by
  intro e he
  rcases he with rfl | rfl
  · exact ⟨[97], rfl, by decide⟩
  · exact ⟨[98, 99], rfl, by decide⟩

example (cfg : Config) : Inv cfg (fun e => e = [97, 10]) 10 emptyState := inv_emptyState _ _ _

/-- A concrete acknowledged batch: minute rolling, no faults, one event `a\n` into the empty directory. -/
example :
    let cfg : Config := { pfx := [97], ext := [108], rollBy := .minute, reuse := false, maxFiles := 2, maxSize := 100,
                          sep := [10] }
    let now : Parts := { years := 2024, months := 1, days := 1, hours := 0, minutes := 0, seconds := 0, nanos := 0 }
    (onBatch cfg (fun _ => .ok) now 7 (Batch.ofEvents [[97, 10]]) emptyState).1 = .ok := by
  decide

/-! ### Defect D19 and its repair, on one concrete history

Two events `a\n`, `b\n` in one batch, files not reused, the write of the second event fails once (operation 5);
the retry goes to a new file and succeeds. -/

private def cfgD19 : Config :=
  { pfx := [97], ext := [108], rollBy := .minute, reuse := false, maxFiles := 3, maxSize := 100, sep := [10] }
private def nowD19 : Parts :=
  { years := 2024, months := 1, days := 1, hours := 0, minutes := 0, seconds := 0, nanos := 0 }
private def planD19 : Nat → Fault := fun i => if i = 5 then .err else .ok
private def batchD19 : Batch := Batch.ofEvents [[97, 10], [98, 10]]

/-- **Defect D19 (before the fix).** The batch ends Ok after one retry, yet the first event sits in a file whose
    synced content is empty: it was written by the failed attempt, was not part of the retry and was never synced. -/
theorem legacy_retry_leaves_prefix_unsynced :
    (processBatchLegacy cfgD19 planD19 [(nowD19, 7), (nowD19, 8)] batchD19 emptyState).1 = .ok ∧
    (processBatchLegacy cfgD19 planD19 [(nowD19, 7), (nowD19, 8)] batchD19 emptyState).2.fs.any
      (fun nf => nf.2.synced == [] && nf.2.unsynced == [97, 10]) = true := by
  decide

-- the hypotheses of `retried_prefix_durable` / `batch_done_all_durable` are met by that history on the fixed model:
-- the first attempt hands back a proper remainder, the loop ends Ok, and both events are in synced content
example : (batchD19.rest.map List.length).sum ≤ batchD19.remaining := by decide
example : ∃ b' s', onBatch cfgD19 planD19 nowD19 7 batchD19 emptyState = (.retry b', s') ∧ b' ≠ batchD19 ∧
    b'.rest = [[98, 10]] := ⟨_, _, rfl, by decide, by decide⟩
example : (processBatch cfgD19 planD19 [(nowD19, 7), (nowD19, 8)] batchD19 emptyState).1 = .ok ∧
    (processBatch cfgD19 planD19 [(nowD19, 7), (nowD19, 8)] batchD19 emptyState).2.fs.all
      (fun nf => nf.2.unsynced == [] && (nf.2.synced == [97, 10] || nf.2.synced == [98, 10])) = true := by
  decide

end EmitModel.C10
