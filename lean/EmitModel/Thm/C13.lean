/-
  Thm/C13.lean — PROPERTY C13: every sink encodes every event faithfully and never panics the caller.

  The theorems are about the executable models of Model/{Json,Value,FileRecord,AnyValue,OtlpRecords}.lean — the
  very functions Driver/C13.lean runs against the real emitters on every check.

  `_partial` theorems carry a hypothesis that excludes a region where the property is FALSE on the code (each
  with the counterexample proved next to it) or where the model is known not to describe a third-party
  component; DESIGN §8 / known_findings.txt list them.
-/
import EmitModel.Lemmas.EncodeFile
import EmitModel.Lemmas.EncodeOtlp

namespace EmitModel.C13
open EmitModel.Encode EmitModel.Json EmitModel.Level

/-! ## Rolling file: one JSON object per line -/

/-- map keys that are labelled tags (`Some(k)`, unit variants): sval_json 2.22 leaves the object unbalanced
    when such a key is followed by a tagged value (third-party defect, known finding `c13-svaljson-tagged-key`);
    the model describes the intended rendering there, so the region is excluded explicitly. -/
def taggedKey : V → Bool
  | .some _ => true
  | .uvar _ => true
  | _ => false

mutual
def NoTaggedKeys : V → Prop
  | .seq xs => NoTaggedKeysList xs
  | .tuple xs => NoTaggedKeysList xs
  | .tvar _ xs => NoTaggedKeysList xs
  | .map kvs => NoTaggedKeysEntries kvs
  | .record fs => NoTaggedKeysFields fs
  | .svar _ fs => NoTaggedKeysFields fs
  | .some v => NoTaggedKeys v
  | .nvar _ v => NoTaggedKeys v
  | _ => True
def NoTaggedKeysList : List V → Prop
  | [] => True
  | x :: xs => NoTaggedKeys x ∧ NoTaggedKeysList xs
def NoTaggedKeysEntries : List (V × V) → Prop
  | [] => True
  | (k, v) :: rest => taggedKey k = false ∧ NoTaggedKeys k ∧ NoTaggedKeys v ∧ NoTaggedKeysEntries rest
def NoTaggedKeysFields : List (String × V) → Prop
  | [] => True
  | (_, v) :: rest => NoTaggedKeys v ∧ NoTaggedKeysFields rest
end

/-- FULL STATEMENT (not claimed): for every event whose float tokens are JSON numbers, what the file emitter
    appends is `render j ++ "\n"` with `IsJson (render j)` and no other newline.
    PROVED: the same, for events without tagged map keys (where the model is tied to sval_json). -/
theorem file_line_is_json_partial (e : Event) (line : List Char)
    (_hsafe : ∀ p ∈ e.props, NoTaggedKeys p.2.image)
    (htok : PropsToksOk e.deduped)
    (h : fileLine e = some line) :
    ∃ j, fileRecord e = some j ∧ line = render j ++ ['\n'] ∧ IsJson (render j) ∧ '\n' ∉ render j := by
  unfold fileLine at h
  cases hr : fileRecord e with
  | none => simp [hr] at h
  | some j =>
    simp only [hr, Option.map_some, Option.some.injEq] at h
    refine ⟨j, rfl, h.symm, ?_, ?_⟩
    all_goals
      unfold fileRecord at hr
      cases hp : propFields e.deduped with
      | none => simp [hp] at hr
      | some ps =>
        simp only [hp, Option.map_some, Option.some.injEq] at hr
        subst hr
        have hok : Json.NumsOk (.obj (fixedFields e ++ ps)) := by
          simp only [Json.NumsOk]
          exact numsOkMembers_append _ _ (fixedFields_numsOk e) (propFields_numsOk _ htok ps hp)
        first
          | exact render_isJson _ hok
          | exact render_no_newline _ hok

/-- The record starts with the fixed fields: `ts_start` (ranges only), `ts` (the end of the extent), then the
    module, the rendered message and the template — present for every event that is written. -/
theorem file_fixed_fields (e : Event) (j : Json) (h : fileRecord e = some j) :
    ∃ ps, propFields e.deduped = some ps ∧ j = .obj (fixedFields e ++ ps) ∧
      (("mdl", Json.str e.mdl) ∈ fixedFields e ∧ ("msg", Json.str e.msg) ∈ fixedFields e ∧
       ("tpl", Json.str e.tplText) ∈ fixedFields e) ∧
      (∀ t, e.extent.point? = some t → ("ts", Json.str t.text) ∈ fixedFields e) ∧
      (∀ a b, e.extent = .range a b → ("ts_start", Json.str a.text) ∈ fixedFields e) := by
  unfold fileRecord at h
  cases hp : propFields e.deduped with
  | none => simp [hp] at h
  | some ps =>
    simp only [hp, Option.map_some, Option.some.injEq] at h
    refine ⟨ps, rfl, h.symm, ?_, ?_, ?_⟩
    · unfold fixedFields; simp
    · intro t ht
      unfold fixedFields
      cases hx : e.extent with
      | none => simp [hx, Extent.point?] at ht
      | point t' => simp [hx, Extent.point?] at ht; subst ht; simp
      | range a b => simp [hx, Extent.point?] at ht; subst ht; simp
    · intro a b hx
      unfold fixedFields
      simp [hx]

def fixedNames : List String := ["ts_start", "ts", "mdl", "msg", "tpl"]

theorem reservedKey_iff (k : String) : reservedKey k = true ↔ k ∈ fixedNames := by
  unfold reservedKey fixedNames
  simp [Bool.or_eq_true]
  constructor
  · rintro ((((h | h) | h) | h) | h) <;> simp [h]
  · rintro (h | h | h | h | h) <;> simp [h]

theorem fixedFields_keys (e : Event) : ∀ k ∈ keys (fixedFields e), k ∈ fixedNames := by
  unfold fixedFields fixedNames
  cases e.extent <;> simp [keys]

theorem fixedFields_nodup (e : Event) : (keys (fixedFields e)).Nodup := by
  unfold fixedFields
  cases e.extent <;> simp [keys]

/-- The member names of a record are pairwise distinct — for every event, including those with duplicate
    property keys and with properties named like a built-in field (F2, repaired: such a property is skipped). -/
theorem file_members_unique (e : Event) (ms : List (String × Json))
    (hu : UniqueOk e.unique e.props)
    (h : fileRecord e = some (.obj ms)) : (keys ms).Nodup := by
  obtain ⟨ps, hp, hj, _⟩ := file_fixed_fields e _ h
  cases hj
  have hk := propFields_keys _ _ hp
  simp only [keys, List.map_append]
  refine List.nodup_append.mpr ⟨fixedFields_nodup e, ?_, ?_⟩
  · have := dedup_nodup e.unique e.props hu
    simp only [keys] at hk this
    rw [hk]; exact this.filter _
  · intro a ha b hb hab
    subst hab
    have h1 := (reservedKey_iff a).mpr (fixedFields_keys e a ha)
    have : a ∈ keys ps := hb
    rw [hk, List.mem_filter] at this
    simp [h1] at this

/-- the built-in member wins over a property of the same (reserved) name: it is the only member of that name -/
theorem file_reserved_key_not_written (e : Event) (ms ps : List (String × Json))
    (hp : propFields e.deduped = some ps) (_h : fileRecord e = some (.obj ms)) :
    ∀ k ∈ fixedNames, k ∉ keys ps := by
  intro k hk hin
  rw [propFields_keys _ _ hp, List.mem_filter] at hin
  simp [(reservedKey_iff k).mpr hk] at hin

/-- Every property whose key is not reserved appears in the record under its key with its FIRST value,
    structure rendered by `toJson` (with `file_members_unique`: exactly once). -/
theorem file_prop_first_value (e : Event) (ms : List (String × Json)) (k : String) (v : PV)
    (h : fileRecord e = some (.obj ms)) (hv : lookupFirst k e.props = some v) (hk : k ∉ fixedNames) :
    ∃ j, toJson v.image = some j ∧ (k, j) ∈ ms := by
  obtain ⟨ps, hp, hj, _⟩ := file_fixed_fields e _ h
  cases hj
  have hd : lookupFirst k e.deduped = some v := by
    unfold Event.deduped; rw [dedup_lookup]; exact hv
  have hr : reservedKey k = false := by
    cases hrk : reservedKey k with
    | false => rfl
    | true => exact absurd ((reservedKey_iff k).mp hrk) hk
  obtain ⟨j, h1, h2⟩ := propFields_mem _ _ hp k v (mem_of_lookupFirst _ _ _ hd) hr
  exact ⟨j, h1, List.mem_append_right _ h2⟩

/-- An event is discarded (nothing is written, the failure is counted) exactly when one of its written
    property values cannot be expressed as JSON — i.e. contains a map keyed by a sequence, map, byte string,
    tuple, record or data-carrying variant (`keyText = none`). Nothing else is ever lost by the file writer. -/
theorem file_discard_iff (e : Event) :
    fileLine e = none ↔ ∃ p ∈ e.deduped, reservedKey p.1 = false ∧ toJson p.2.image = none := by
  unfold fileLine fileRecord
  rw [← propFields_none_iff]
  cases propFields e.deduped <;> simp

/-! ## OTLP any-value bridge -/

/-- FULL STATEMENT (false on the code, see `any_value_nested_key_panics`): `anyValue v ≠ panic` for all `v`.
    PROVED, as an equivalence: the bridge panics exactly on values containing a map key that is a byte string,
    sequence, map, record, tuple or struct/tuple variant. -/
theorem any_value_total_partial (v : V) : (∃ a, anyValue v = .ok a) ↔ v.KeysOk := by
  rw [← Enc.isOk_iff]; exact anyValue_isOk v

/-- D7 remainder: a map keyed by a sequence still reaches `todo!()` on the emitting thread. -/
theorem any_value_nested_key_panics :
    anyValue (.map [(.seq [.int 1], .int 2)]) = .panic := by rfl

/-- scalar keys (D7, repaired): booleans, integers of any width, floats and `null` are written as text -/
theorem any_value_scalar_keys :
    anyValue (.map [(.bool true, .int 1), (.int (-5), .int 2), (.int (2 ^ 100), .int 3), (.null, .int 4),
      (.f64 0x3FF8000000000000 "1.5" "1.5", .int 5)]) =
      .ok (.kv [("true", .int 1), ("-5", .int 2), ("1267650600228229401496703205376", .int 3), ("", .int 4),
        ("1.5", .int 5)]) := by rfl

/-- 128-bit integers outside the i64 range become decimal text (OTLP has no wider integer). -/
theorem any_value_wide_int (i : Int) (h : inI64 i = false) : anyValue (.int i) = .ok (.str (toString i)) := by
  simp [anyValue, h]

theorem any_value_i64 (i : Int) (h : inI64 i = true) : anyValue (.int i) = .ok (.int i) := by
  simp [anyValue, h]

/-! ## OTLP logs -/

/-- FULL STATEMENT (false on the code because of nested map keys): `logRecord e ≠ panic` for every event.
    PROVED for events none of whose values contains a nested map key. -/
theorem log_total_partial (e : Event) (h : PropsKeysOk e.deduped) : ∃ r, logRecord e = .ok r := by
  unfold logRecord
  obtain ⟨as, has⟩ := (Enc.isOk_iff _).mp (logAttrs_isOk e.deduped h)
  simp only [has, Enc.bind]
  exact ⟨_, rfl⟩

/-- the hypothesis of `log_total_partial` in terms of the properties as emitted -/
theorem propsKeysOk_of_props (e : Event) (h : PropsKeysOk e.props) : PropsKeysOk e.deduped := by
  intro p hp
  have hk : p.1 ∈ keys e.deduped := List.mem_map.mpr ⟨p, hp, rfl⟩
  -- a de-duplicated entry is an entry of the original list
  have : p ∈ e.props := by
    unfold Event.deduped dedup at hp
    split at hp
    · exact hp
    · have aux : ∀ (ps acc : List (String × PV)), (∀ q ∈ dedupSorted acc ps, q ∈ acc ∨ q ∈ ps) := by
        intro ps
        induction ps with
        | nil => intro acc q hq; simp [dedupSorted] at hq; exact Or.inl hq
        | cons x rest ih =>
          intro acc q hq
          obtain ⟨k, v⟩ := x
          simp only [dedupSorted] at hq
          rcases ih _ q hq with h1 | h1
          · rcases insertFirst_mem k v acc q h1 with h2 | h2
            · exact Or.inr (by simp [h2])
            · exact Or.inl h2
          · exact Or.inr (List.mem_cons_of_mem _ h1)
      rcases aux e.props [] p hp with h1 | h1
      · simp at h1
      · exact h1
  exact h p this

/-- FULL STATEMENT (false on the code, see `log_exception_key_duplicates`): attribute keys are unique.
    PROVED for events that do not carry a user property `exception.message` / `exception.stacktrace` next to
    `err` (F5). -/
theorem log_attr_keys_unique_partial (e : Event) (r : LogRecord)
    (hu : UniqueOk e.unique e.props) (hx : NoExceptionClash e.props)
    (h : logRecord e = .ok r) : (keys r.attributes).Nodup := by
  unfold logRecord at h
  obtain ⟨as, has, h⟩ := (Enc.bind_ok_iff _ _ _).mp h
  cases h
  refine logAttrs_nodup _ _ has (dedup_nodup _ _ hu) ?_
  intro he
  have he' : "err" ∈ keys e.props := (dedup_keys e.unique e.props _).mp he
  have := hx he'
  exact ⟨fun hc => this.1 ((dedup_keys e.unique e.props _).mp hc),
    fun hc => this.2 ((dedup_keys e.unique e.props _).mp hc)⟩

/-- F5: `err` synthesises `exception.message`; a user property of that name gives the key twice. -/
theorem log_exception_key_duplicates :
    (logRecord ⟨"m", [], .none, false,
        [("err", .simple (.str "boom")), ("exception.message", .simple (.str "mine"))]⟩) =
      .ok ⟨"m", 0, 0, 9, "info", "", none, none,
        [("exception.message", .str "boom"), ("exception.message", .str "mine")]⟩ := by
  rfl

/-- Every property that is not lifted appears among the attributes under its key with its FIRST value,
    converted by the any-value bridge. (With `log_attr_keys_unique_partial`: exactly once.) -/
theorem log_prop_once_first_value (e : Event) (r : LogRecord) (k : String) (v : PV)
    (h : logRecord e = .ok r) (hv : lookupFirst k e.props = some v)
    (hl : k ≠ "lvl" ∧ k ≠ "span_id" ∧ k ≠ "trace_id" ∧ k ≠ "err") :
    ∃ a, anyValue v.image = .ok a ∧ (k, a) ∈ r.attributes := by
  unfold logRecord at h
  obtain ⟨as, has, h⟩ := (Enc.bind_ok_iff _ _ _).mp h
  cases h
  have hd : lookupFirst k e.deduped = some v := by
    unfold Event.deduped; rw [dedup_lookup]; exact hv
  refine logAttrs_mem _ _ has k v (mem_of_lookupFirst _ _ _ hd) ?_ hl.2.2.2
  unfold logLifted
  simp [hl.1, hl.2.1, hl.2.2.1]

/-- Lifting: the severity comes from the first `lvl` (default info), the ids from the first `trace_id` /
    `span_id` (when they cast), the body is the rendered message, the scope is the module; and none of the
    lifted keys is ALSO an attribute. -/
theorem log_lifting (e : Event) (r : LogRecord) (hu : UniqueOk e.unique e.props) (h : logRecord e = .ok r) :
    let level := ((lookupFirst "lvl" e.props).bind PV.castLevel).getD .info
    r.severityNumber = severityNumber level ∧ r.severityText = level.display ∧
    r.traceId = (lookupFirst "trace_id" e.props).bind (PV.castId 128) ∧
    r.spanId = (lookupFirst "span_id" e.props).bind (PV.castId 64) ∧
    r.body = e.msg ∧ r.scope = e.mdl ∧
    (∀ k ∈ ["lvl", "trace_id", "span_id", "err"], k ∉ keys r.attributes) := by
  unfold logRecord at h
  obtain ⟨as, has, h⟩ := (Enc.bind_ok_iff _ _ _).mp h
  cases h
  have hnd := dedup_nodup e.unique e.props hu
  have hl : ∀ k, lookupLast k e.deduped = lookupFirst k e.props := by
    intro k
    unfold Event.deduped
    rw [lookupLast_eq_first _ hnd, dedup_lookup]
  simp only [hl, true_and]
  intro k hk hin
  rcases logAttrs_keys _ _ has k hin with ⟨_, hlift, herr⟩ | ⟨_, hq⟩
  · simp only [List.mem_cons, List.not_mem_nil, or_false] at hk
    unfold logLifted at hlift
    rcases hk with rfl | rfl | rfl | rfl
    · exact hlift (Or.inl rfl)
    · exact hlift (Or.inr (Or.inr rfl))
    · exact hlift (Or.inr (Or.inl rfl))
    · exact herr rfl
  · simp only [List.mem_cons, List.not_mem_nil, or_false] at hk
    rcases hk with rfl | rfl | rfl | rfl <;> rcases hq with hq | hq <;> exact absurd hq (by decide)

/-- FULL STATEMENT (false on the code for instants ≥ 2^64 ns, F6): the record's timestamps are the end of the
    extent in nanoseconds. PROVED for instants below 2^64 ns (before 2554-07-21T23:34:33.709551616Z). -/
theorem log_time_partial (e : Event) (r : LogRecord) (t : Ts) (h : logRecord e = .ok r)
    (ht : e.extent.point? = some t) (hfit : t.unixNanos < 2 ^ 64) :
    r.timeUnixNano = t.unixNanos ∧ r.observedTimeUnixNano = t.unixNanos := by
  unfold logRecord at h
  obtain ⟨as, _, h⟩ := (Enc.bind_ok_iff _ _ _).mp h
  cases h
  simp only [ht, Ts.otlpNanos, u64Wrap, Nat.mod_eq_of_lt hfit, and_self]

/-- F6: the year 9999 wraps. -/
theorem log_time_wraps :
    (match logRecord ⟨"m", [], .point ⟨253402300799, 999999999, "9999-12-31T23:59:59.999999999Z"⟩, false, []⟩ with
      | .ok r => r.timeUnixNano
      | .panic => 0) = 13594627841775828991 := by decide

/-- an event without extent has the zero timestamp -/
theorem log_time_none (e : Event) (r : LogRecord) (h : logRecord e = .ok r) (hx : e.extent = .none) :
    r.timeUnixNano = 0 := by
  unfold logRecord at h
  obtain ⟨as, _, h⟩ := (Enc.bind_ok_iff _ _ _).mp h
  cases h
  simp [hx, Extent.point?]

/-! ## non-vacuity of the hypotheses -/

def sampleEvent : Event :=
  ⟨"app::db", [.text "query ", .hole "sql", .text " took ", .hole "ms"], .range ⟨1, 0, "t0"⟩ ⟨2, 5, "t1"⟩, false,
    [("ms", .simple (.f64 0x3FF8000000000000 "1.5" "1.5")), ("sql", .simple (.str "select\n1")),
     ("ms", .simple (.int 7)), ("lvl", .simple (.str "warn")),
     ("err", .simple (.err "outer" ["mid", "root"])),
     ("m", .tree (.map [(.int 1, .seq [.null, .bytes [0, 255]]), (.text "k", .nvar "B" (.bool true))]) "{…}")]⟩

example : UniqueOk sampleEvent.unique sampleEvent.props := by simp [UniqueOk, sampleEvent]
example : NoExceptionClash sampleEvent.props := by
  intro _; simp [keys, sampleEvent]
example : PropsKeysOk sampleEvent.props := by
  intro p hp
  simp only [sampleEvent, List.mem_cons, List.not_mem_nil, or_false] at hp
  rcases hp with rfl | rfl | rfl | rfl | rfl | rfl <;>
    simp [PV.image, Simple.image, V.KeysOk, V.KeysOkEntries, V.KeysOkList, V.keyOk]
example : (fileLine sampleEvent).isSome = true := by decide
example : ∃ r, logRecord sampleEvent = .ok r ∧ r.severityNumber = 13 ∧ r.attributes.length = 5 := by
  refine ⟨_, rfl, ?_, ?_⟩ <;> decide

end EmitModel.C13
