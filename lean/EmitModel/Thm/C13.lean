/-
  Thm/C13.lean — PROPERTY C13: every sink encodes every event faithfully and never panics the caller.

  The theorems are about the executable models of Model/{Json,Value,FileRecord,AnyValue,OtlpRecords}.lean — the
  very functions Driver/C13.lean runs against the real emitters on every check.

  `_partial` theorems carry a hypothesis that excludes a region where the property is FALSE on the code (each
  with the counterexample proved next to it) or where the model is known not to describe a third-party
  component; DESIGN §8 / known_findings.txt list them.
-/
import EmitModel.Lemmas.EncodeFile
import EmitModel.Lemmas.EncodeOtlp
import EmitModel.Model.Term

namespace EmitModel.C13
open EmitModel.Encode EmitModel.Json EmitModel.Level

/-! ## Rolling file: one JSON object per line -/

/-- map keys that are labelled tags (`Some(k)`, unit variants): sval_json 2.22 leaves the object unbalanced
    when such a key is followed by a tagged value (third-party defect, known finding `c13-svaljson-tagged-key`);
    the model describes the intended rendering there, so the region is excluded explicitly. -/
def taggedKey : V → Bool
  | .some _ => true
  | .uvar _ => true
  | _ => false

mutual
def NoTaggedKeys : V → Prop
  | .seq xs => NoTaggedKeysList xs
  | .tuple xs => NoTaggedKeysList xs
  | .tvar _ xs => NoTaggedKeysList xs
  | .map kvs => NoTaggedKeysEntries kvs
  | .record fs => NoTaggedKeysFields fs
  | .svar _ fs => NoTaggedKeysFields fs
  | .some v => NoTaggedKeys v
  | .nvar _ v => NoTaggedKeys v
  | _ => True
def NoTaggedKeysList : List V → Prop
  | [] => True
  | x :: xs => NoTaggedKeys x ∧ NoTaggedKeysList xs
def NoTaggedKeysEntries : List (V × V) → Prop
  | [] => True
  | (k, v) :: rest => taggedKey k = false ∧ NoTaggedKeys k ∧ NoTaggedKeys v ∧ NoTaggedKeysEntries rest
def NoTaggedKeysFields : List (String × V) → Prop
  | [] => True
  | (_, v) :: rest => NoTaggedKeys v ∧ NoTaggedKeysFields rest
end

/-- FULL STATEMENT (not claimed): for every event whose float tokens are JSON numbers, what the file emitter
    appends is `render j ++ "\n"` with `IsJson (render j)` and no other newline.
    PROVED: the same, for events without tagged map keys (where the model is tied to sval_json). -/
theorem file_line_is_json_partial (e : Event) (line : List Char)
    (_hsafe : ∀ p ∈ e.props, NoTaggedKeys p.2.image)
    (htok : PropsToksOk e.deduped)
    (h : fileLine e = some line) :
    ∃ j, fileRecord e = some j ∧ line = render j ++ ['\n'] ∧ IsJson (render j) ∧ '\n' ∉ render j := by
  unfold fileLine at h
  cases hr : fileRecord e with
  | none => simp [hr] at h
  | some j =>
    simp only [hr, Option.map_some, Option.some.injEq] at h
    refine ⟨j, rfl, h.symm, ?_, ?_⟩
    all_goals
      unfold fileRecord at hr
      cases hp : propFields e.deduped with
      | none => simp [hp] at hr
      | some ps =>
        simp only [hp, Option.map_some, Option.some.injEq] at hr
        subst hr
        have hok : Json.NumsOk (.obj (fixedFields e ++ ps)) := by
          simp only [Json.NumsOk]
          exact numsOkMembers_append _ _ (fixedFields_numsOk e) (propFields_numsOk _ htok ps hp)
        first
          | exact render_isJson _ hok
          | exact render_no_newline _ hok

/-- The record starts with the fixed fields: `ts_start` (ranges only), `ts` (the end of the extent), then the
    module, the rendered message and the template — present for every event that is written. -/
theorem file_fixed_fields (e : Event) (j : Json) (h : fileRecord e = some j) :
    ∃ ps, propFields e.deduped = some ps ∧ j = .obj (fixedFields e ++ ps) ∧
      (("mdl", Json.str e.mdl) ∈ fixedFields e ∧ ("msg", Json.str e.msg) ∈ fixedFields e ∧
       ("tpl", Json.str e.tplText) ∈ fixedFields e) ∧
      (∀ t, e.extent.point? = some t → ("ts", Json.str t.text) ∈ fixedFields e) ∧
      (∀ a b, e.extent = .range a b → ("ts_start", Json.str a.text) ∈ fixedFields e) := by
  unfold fileRecord at h
  cases hp : propFields e.deduped with
  | none => simp [hp] at h
  | some ps =>
    simp only [hp, Option.map_some, Option.some.injEq] at h
    refine ⟨ps, rfl, h.symm, ?_, ?_, ?_⟩
    · unfold fixedFields; simp
    · intro t ht
      unfold fixedFields
      cases hx : e.extent with
      | none => simp [hx, Extent.point?] at ht
      | point t' => simp [hx, Extent.point?] at ht; subst ht; simp
      | range a b => simp [hx, Extent.point?] at ht; subst ht; simp
    · intro a b hx
      unfold fixedFields
      simp [hx]

/-- The member names of a record are pairwise distinct — for every event, including those with duplicate
    property keys and with properties named like a built-in field (F2, repaired: such a property is skipped). -/
theorem file_members_unique (e : Event) (ms : List (String × Json))
    (hu : UniqueOk e.unique e.props)
    (h : fileRecord e = some (.obj ms)) : (keys ms).Nodup := by
  obtain ⟨ps, hp, hj, _⟩ := file_fixed_fields e _ h
  cases hj
  have hk := propFields_keys _ _ hp
  simp only [keys, List.map_append]
  refine List.nodup_append.mpr ⟨fixedFields_nodup e, ?_, ?_⟩
  · have := dedup_nodup e.unique e.props hu
    simp only [keys] at hk this
    rw [hk]; exact this.filter _
  · intro a ha b hb hab
    subst hab
    have h1 := (reservedKey_iff a).mpr (fixedFields_keys e a ha)
    have : a ∈ keys ps := hb
    rw [hk, List.mem_filter] at this
    simp [h1] at this

/-- the built-in member wins over a property of the same (reserved) name: it is the only member of that name -/
theorem file_reserved_key_not_written (e : Event) (ms ps : List (String × Json))
    (hp : propFields e.deduped = some ps) (_h : fileRecord e = some (.obj ms)) :
    ∀ k ∈ fixedNames, k ∉ keys ps := by
  intro k hk hin
  rw [propFields_keys _ _ hp, List.mem_filter] at hin
  simp [(reservedKey_iff k).mpr hk] at hin

/-- Every property whose key is not reserved appears in the record under its key with its FIRST value,
    structure rendered by `toJson` (with `file_members_unique`: exactly once). -/
theorem file_prop_first_value (e : Event) (ms : List (String × Json)) (k : String) (v : PV)
    (h : fileRecord e = some (.obj ms)) (hv : lookupFirst k e.props = some v) (hk : k ∉ fixedNames) :
    ∃ j, toJson v.image = some j ∧ (k, j) ∈ ms := by
  obtain ⟨ps, hp, hj, _⟩ := file_fixed_fields e _ h
  cases hj
  have hd : lookupFirst k e.deduped = some v := by
    unfold Event.deduped; rw [dedup_lookup]; exact hv
  have hr : reservedKey k = false := by
    cases hrk : reservedKey k with
    | false => rfl
    | true => exact absurd ((reservedKey_iff k).mp hrk) hk
  obtain ⟨j, h1, h2⟩ := propFields_mem _ _ hp k v (mem_of_lookupFirst _ _ _ hd) hr
  exact ⟨j, h1, List.mem_append_right _ h2⟩

/-- An event is discarded (nothing is written, the failure is counted) exactly when one of its written
    property values cannot be expressed as JSON — i.e. contains a map keyed by a sequence, map, byte string,
    tuple, record or data-carrying variant (`keyText = none`). Nothing else is ever lost by the file writer. -/
theorem file_discard_iff (e : Event) :
    fileLine e = none ↔ ∃ p ∈ e.deduped, reservedKey p.1 = false ∧ toJson p.2.image = none := by
  unfold fileLine fileRecord
  rw [← propFields_none_iff]
  cases propFields e.deduped <;> simp

/-! ## OTLP any-value bridge -/

/-- FULL STATEMENT (false on the code, see `any_value_nested_key_panics`): `anyValue v ≠ panic` for all `v`.
    PROVED, as an equivalence: the bridge panics exactly on values containing a map key that is a byte string,
    sequence, map, record, tuple or struct/tuple variant. -/
theorem any_value_total_partial (v : V) : (∃ a, anyValue v = .ok a) ↔ v.KeysOk := by
  rw [← Enc.isOk_iff]; exact anyValue_isOk v

/-- D7 remainder: a map keyed by a sequence still reaches `todo!()` on the emitting thread. -/
theorem any_value_nested_key_panics :
    anyValue (.map [(.seq [.int 1], .int 2)]) = .panic := by rfl

/-- scalar keys (D7, repaired): booleans, integers of any width, floats and `null` are written as text -/
theorem any_value_scalar_keys :
    anyValue (.map [(.bool true, .int 1), (.int (-5), .int 2), (.int (2 ^ 100), .int 3), (.null, .int 4),
      (.f64 0x3FF8000000000000 "1.5" "1.5", .int 5)]) =
      .ok (.kv [("true", .int 1), ("-5", .int 2), ("1267650600228229401496703205376", .int 3), ("", .int 4),
        ("1.5", .int 5)]) := by rfl

/-- 128-bit integers outside the i64 range become decimal text (OTLP has no wider integer). -/
theorem any_value_wide_int (i : Int) (h : inI64 i = false) : anyValue (.int i) = .ok (.str (toString i)) := by
  simp [anyValue, h]

theorem any_value_i64 (i : Int) (h : inI64 i = true) : anyValue (.int i) = .ok (.int i) := by
  simp [anyValue, h]

/-- STRUCTURE PRESERVED: every value OTLP can express — null, strings, booleans, 64-bit integers, doubles (bit for
    bit), byte strings, arrays (element by element, `null` elements included) and string-keyed maps (entry by
    entry, in order), nested to any depth (`embed`, Lemmas/EncodeOtlp.lean) — goes through the any-value bridge
    unchanged. The documented losses are exactly the shapes outside this image: integers beyond 64 bits become
    decimal text (`any_value_wide_int`), records / variants become maps / their payload, non-text keys text. -/
theorem structure_preserved (a : AnyValue) (h : IntsFit a) : anyValue (embed a) = .ok a :=
  structure_preserved_value a h

/-! ## OTLP logs -/

/-- FULL STATEMENT (false on the code because of nested map keys): `logRecord e ≠ panic` for every event.
    PROVED for events none of whose values contains a nested map key. -/
theorem log_total_partial (e : Event) (h : PropsKeysOk e.deduped) : ∃ r, logRecord e = .ok r := by
  unfold logRecord
  obtain ⟨as, has⟩ := (Enc.isOk_iff _).mp (logAttrs_isOk e.deduped h)
  simp only [has, Enc.bind]
  exact ⟨_, rfl⟩

/-- FULL STATEMENT (false on the code, see `log_exception_key_duplicates`): attribute keys are unique.
    PROVED for events that do not carry a user property `exception.message` / `exception.stacktrace` next to
    `err` (F5). -/
theorem log_attr_keys_unique_partial (e : Event) (r : LogRecord)
    (hu : UniqueOk e.unique e.props) (hx : NoExceptionClash e.props)
    (h : logRecord e = .ok r) : (keys r.attributes).Nodup := by
  unfold logRecord at h
  obtain ⟨as, has, h⟩ := (Enc.bind_ok_iff _ _ _).mp h
  cases h
  refine logAttrs_nodup _ _ has (dedup_nodup _ _ hu) ?_
  intro he
  have he' : "err" ∈ keys e.props := (dedup_keys e.unique e.props _).mp he
  have := hx he'
  exact ⟨fun hc => this.1 ((dedup_keys e.unique e.props _).mp hc),
    fun hc => this.2 ((dedup_keys e.unique e.props _).mp hc)⟩

/-- F5: `err` synthesises `exception.message`; a user property of that name gives the key twice. -/
theorem log_exception_key_duplicates :
    (logRecord ⟨"m", [], .none, false,
        [("err", .simple (.str "boom")), ("exception.message", .simple (.str "mine"))]⟩) =
      .ok ⟨"m", 0, 0, 9, "info", "", none, none,
        [("exception.message", .str "boom"), ("exception.message", .str "mine")]⟩ := by
  rfl

/-- Every property that is not lifted appears among the attributes under its key with its FIRST value,
    converted by the any-value bridge. (With `log_attr_keys_unique_partial`: exactly once.) -/
theorem log_prop_once_first_value (e : Event) (r : LogRecord) (k : String) (v : PV)
    (h : logRecord e = .ok r) (hv : lookupFirst k e.props = some v)
    (hl : k ≠ "lvl" ∧ k ≠ "span_id" ∧ k ≠ "trace_id" ∧ k ≠ "err") :
    ∃ a, anyValue v.image = .ok a ∧ (k, a) ∈ r.attributes := by
  unfold logRecord at h
  obtain ⟨as, has, h⟩ := (Enc.bind_ok_iff _ _ _).mp h
  cases h
  have hd : lookupFirst k e.deduped = some v := by
    unfold Event.deduped; rw [dedup_lookup]; exact hv
  refine logAttrs_mem _ _ has k v (mem_of_lookupFirst _ _ _ hd) ?_ hl.2.2.2
  unfold logLifted
  simp [hl.1, hl.2.1, hl.2.2.1]

/-- Lifting: the severity comes from the first `lvl` (default info), the ids from the first `trace_id` /
    `span_id` (when they cast), the body is the rendered message, the scope is the module; and none of the
    lifted keys is ALSO an attribute. -/
theorem log_lifting (e : Event) (r : LogRecord) (hu : UniqueOk e.unique e.props) (h : logRecord e = .ok r) :
    let level := ((lookupFirst "lvl" e.props).bind PV.castLevel).getD .info
    r.severityNumber = severityNumber level ∧ r.severityText = level.display ∧
    r.traceId = (lookupFirst "trace_id" e.props).bind (PV.castId 128) ∧
    r.spanId = (lookupFirst "span_id" e.props).bind (PV.castId 64) ∧
    r.body = e.msg ∧ r.scope = e.mdl ∧
    (∀ k ∈ ["lvl", "trace_id", "span_id", "err"], k ∉ keys r.attributes) := by
  unfold logRecord at h
  obtain ⟨as, has, h⟩ := (Enc.bind_ok_iff _ _ _).mp h
  cases h
  have hnd := dedup_nodup e.unique e.props hu
  have hl : ∀ k, lookupLast k e.deduped = lookupFirst k e.props := by
    intro k
    unfold Event.deduped
    rw [lookupLast_eq_first _ hnd, dedup_lookup]
  simp only [hl, true_and]
  intro k hk hin
  rcases logAttrs_keys _ _ has k hin with ⟨_, hlift, herr⟩ | ⟨_, hq⟩
  · simp only [List.mem_cons, List.not_mem_nil, or_false] at hk
    unfold logLifted at hlift
    rcases hk with rfl | rfl | rfl | rfl
    · exact hlift (Or.inl rfl)
    · exact hlift (Or.inr (Or.inr rfl))
    · exact hlift (Or.inr (Or.inl rfl))
    · exact herr rfl
  · simp only [List.mem_cons, List.not_mem_nil, or_false] at hk
    rcases hk with rfl | rfl | rfl | rfl <;> rcases hq with hq | hq <;> exact absurd hq (by decide)

/-- `err` lifting for logs: the FIRST `err` value becomes the attribute `exception.message` (through the any-value
    bridge: an error contributes its own message, any other value itself), and an error with a source chain also
    `exception.stacktrace` with one `caused by:` line per source. -/
theorem log_err_lifting (e : Event) (r : LogRecord) (v : PV)
    (h : logRecord e = .ok r) (hv : lookupFirst "err" e.props = some v) :
    ∃ a, anyValue v.image = .ok a ∧ ("exception.message", a) ∈ r.attributes ∧
      ∀ top c cs, v.error? = some (top, c :: cs) →
        ("exception.stacktrace", AnyValue.str (stacktraceText (c :: cs))) ∈ r.attributes := by
  unfold logRecord at h
  obtain ⟨as, has, h⟩ := (Enc.bind_ok_iff _ _ _).mp h
  cases h
  have hd : lookupFirst "err" e.deduped = some v := by
    unfold Event.deduped; rw [dedup_lookup]; exact hv
  exact logAttrs_err _ _ has v (mem_of_lookupFirst _ _ _ hd)

/-- FULL STATEMENT (false on the code for instants ≥ 2^64 ns, F6): the record's timestamps are the end of the
    extent in nanoseconds. PROVED for instants below 2^64 ns (before 2554-07-21T23:34:33.709551616Z). -/
theorem log_time_partial (e : Event) (r : LogRecord) (t : Ts) (h : logRecord e = .ok r)
    (ht : e.extent.point? = some t) (hfit : t.unixNanos < 2 ^ 64) :
    r.timeUnixNano = t.unixNanos ∧ r.observedTimeUnixNano = t.unixNanos := by
  unfold logRecord at h
  obtain ⟨as, _, h⟩ := (Enc.bind_ok_iff _ _ _).mp h
  cases h
  simp only [ht, Ts.otlpNanos, u64Wrap, Nat.mod_eq_of_lt hfit, and_self]

/-- F6: the year 9999 wraps. -/
theorem log_time_wraps :
    (match logRecord ⟨"m", [], .point ⟨253402300799, 999999999, "9999-12-31T23:59:59.999999999Z"⟩, false, []⟩ with
      | .ok r => r.timeUnixNano
      | .panic => 0) = 13594627841775828991 := by decide

/-- an event without extent has the zero timestamp -/
theorem log_time_none (e : Event) (r : LogRecord) (h : logRecord e = .ok r) (hx : e.extent = .none) :
    r.timeUnixNano = 0 := by
  unfold logRecord at h
  obtain ⟨as, _, h⟩ := (Enc.bind_ok_iff _ _ _).mp h
  cases h
  simp [hx, Extent.point?]

/-! ## OTLP traces -/

/-- a span is encoded exactly for span-kind events with a range extent (everything else is left to the logs
    signal — C14) -/
theorem span_encoded_iff (e : Event) :
    (spanRecord e).isSome = true ↔ e.isKind .span = true ∧ ∃ a b, e.extent = .range a b := by
  unfold spanRecord
  by_cases hk : e.isKind .span = true
  · simp only [hk, if_true, true_and]
    cases e.extent <;> simp
  · simp [hk]

/-- FULL STATEMENT (false on the code because of nested map keys): encoding a span never panics.
    PROVED for events none of whose values contains a nested map key. -/
theorem span_total_partial (e : Event) (h : PropsKeysOk e.props) (x : Enc SpanRecord)
    (hx : spanRecord e = some x) : ∃ r, x = .ok r := by
  unfold spanRecord at hx
  split at hx
  · split at hx
    · rename_i a b _
      cases hx
      unfold spanBody
      have hd := propsKeysOk_of_props e h
      obtain ⟨as, has⟩ := (Enc.isOk_iff _).mp
        (plainAttrs_isOk spanLifted e.deduped (fun p hp _ => hd p hp))
      simp only [spanAttrs, has, Enc.bind]
      unfold spanErrPart
      cases herr : (if (e.deduped.map Prod.fst).contains "err" then lookupFirst "err" e.props else none) with
      | none => exact ⟨_, rfl⟩
      | some err =>
        have herr' : lookupFirst "err" e.props = some err := by
          split at herr
          · exact herr
          · cases herr
        obtain ⟨a', ha'⟩ := (Enc.isOk_iff _).mp ((anyValue_isOk err.image).mpr (keysOk_of_lookup _ h _ _ herr'))
        simp only [exceptionEvent, ha', Enc.bind]
        exact ⟨_, rfl⟩
    · cases hx
  · cases hx

/-- Attribute keys of a span are unique — for every event (the `exception.*` attributes live in the exception
    EVENT, not among the span's attributes, so F5 does not arise here). -/
theorem span_attr_keys_unique (e : Event) (a b : Ts) (r : SpanRecord) (hu : UniqueOk e.unique e.props)
    (h : spanBody e a b = .ok r) : (keys r.attributes).Nodup := by
  unfold spanBody at h
  obtain ⟨as, has, h⟩ := (Enc.bind_ok_iff _ _ _).mp h
  obtain ⟨x, _, h⟩ := (Enc.bind_ok_iff _ _ _).mp h
  cases h
  exact plainAttrs_nodup spanLifted _ _ has (dedup_nodup _ _ hu)

/-- Every property that is not lifted appears among the span's attributes under its key with its FIRST value. -/
theorem span_prop_once_first_value (e : Event) (a b : Ts) (r : SpanRecord) (k : String) (v : PV)
    (h : spanBody e a b = .ok r) (hv : lookupFirst k e.props = some v) (hl : spanLifted k = false) :
    ∃ av, anyValue v.image = .ok av ∧ (k, av) ∈ r.attributes := by
  unfold spanBody at h
  obtain ⟨as, has, h⟩ := (Enc.bind_ok_iff _ _ _).mp h
  obtain ⟨x, _, h⟩ := (Enc.bind_ok_iff _ _ _).mp h
  cases h
  have hd : lookupFirst k e.deduped = some v := by
    unfold Event.deduped; rw [dedup_lookup]; exact hv
  exact plainAttrs_mem spanLifted _ _ has k v (mem_of_lookupFirst _ _ _ hd) hl

/-- Lifting for spans: ids (trace, span, parent) from the first property of that name, the name from `span_name`
    (else the message), the scope from the module, the kind unspecified; none of the lifted keys is ALSO an
    attribute; without `err` the status is the level (Ok for debug/info, Error for warn/error, message = level
    text) and there is no event. -/
theorem span_lifting (e : Event) (a b : Ts) (r : SpanRecord) (hu : UniqueOk e.unique e.props)
    (h : spanBody e a b = .ok r) :
    r.traceId = (lookupFirst "trace_id" e.props).bind (PV.castId 128) ∧
    r.spanId = (lookupFirst "span_id" e.props).bind (PV.castId 64) ∧
    r.parentSpanId = (lookupFirst "span_parent" e.props).bind (PV.castId 64) ∧
    r.name = nameOr "span_name" e ∧ r.scope = e.mdl ∧ r.kind = 0 ∧
    (∀ k ∈ keys r.attributes, spanLifted k = false) ∧
    (lookupFirst "err" e.props = none →
      let level := ((lookupFirst "lvl" e.props).bind PV.castLevel).getD .info
      r.events = [] ∧ r.statusMessage = level.display ∧ r.statusCode = levelStatusCode level) := by
  unfold spanBody at h
  obtain ⟨as, has, h⟩ := (Enc.bind_ok_iff _ _ _).mp h
  obtain ⟨x, hx, h⟩ := (Enc.bind_ok_iff _ _ _).mp h
  cases h
  have hnd := dedup_nodup e.unique e.props hu
  have hl : ∀ k, lookupLast k e.deduped = lookupFirst k e.props := by
    intro k
    unfold Event.deduped
    rw [lookupLast_eq_first _ hnd, dedup_lookup]
  simp only [hl, true_and]
  refine ⟨?_, ?_⟩
  · intro k hk
    rw [plainAttrs_keys spanLifted _ _ has, List.mem_filter] at hk
    simpa using hk.2
  · intro hnone
    unfold spanErrPart at hx
    simp only [hnone, ite_self, hl] at hx
    cases hx
    exact ⟨rfl, rfl, rfl⟩

/-- `err` lifting for spans: the FIRST `err` value gives one `exception` event stamped with the end of the span,
    carrying `exception.stacktrace` (one `caused by:` line per source, only when there are sources) and
    `exception.message` (the value through the any-value bridge), and the status Error with the error's Display
    text (`"{err} ({root cause})"`) as message. -/
theorem span_err_lifting (e : Event) (a b : Ts) (r : SpanRecord) (err : PV)
    (h : spanBody e a b = .ok r) (herr : lookupFirst "err" e.props = some err) :
    ∃ av, anyValue err.image = .ok av ∧ r.statusCode = 2 ∧ r.statusMessage = err.display ∧
      r.events = [⟨"exception", b.otlpNanos,
        (match err.error? with
          | some (_, c :: cs) => [("exception.stacktrace", AnyValue.str (stacktraceText (c :: cs)))]
          | _ => []) ++ [("exception.message", av)]⟩] := by
  unfold spanBody at h
  obtain ⟨as, _, h⟩ := (Enc.bind_ok_iff _ _ _).mp h
  obtain ⟨x, hx, h⟩ := (Enc.bind_ok_iff _ _ _).mp h
  cases h
  have hin : (e.deduped.map Prod.fst).contains "err" = true := by
    have : "err" ∈ keys e.props := by
      apply Classical.byContradiction
      intro hn
      have := (lookupFirst_none_iff e.props "err").mpr hn
      simp [herr] at this
    have := (dedup_keys e.unique e.props "err").mpr this
    simpa [keys, Event.deduped] using this
  unfold spanErrPart at hx
  simp only [hin, if_true, herr] at hx
  obtain ⟨ev, hev, hx⟩ := (Enc.bind_ok_iff _ _ _).mp hx
  cases hx
  unfold exceptionEvent at hev
  obtain ⟨av, hav, hev⟩ := (Enc.bind_ok_iff _ _ _).mp hev
  cases hev
  exact ⟨av, hav, rfl, rfl, rfl⟩

/-- FULL STATEMENT (false for instants ≥ 2^64 ns, F6): start and end are the extent in nanoseconds.
    PROVED for instants below 2^64 ns. -/
theorem span_times_partial (e : Event) (a b : Ts) (r : SpanRecord) (h : spanBody e a b = .ok r)
    (ha : a.unixNanos < 2 ^ 64) (hb : b.unixNanos < 2 ^ 64) :
    r.startTimeUnixNano = a.unixNanos ∧ r.endTimeUnixNano = b.unixNanos := by
  unfold spanBody at h
  obtain ⟨as, _, h⟩ := (Enc.bind_ok_iff _ _ _).mp h
  obtain ⟨x, _, h⟩ := (Enc.bind_ok_iff _ _ _).mp h
  cases h
  simp [Ts.otlpNanos, u64Wrap, Nat.mod_eq_of_lt ha, Nat.mod_eq_of_lt hb]

/-! ## OTLP metrics -/

/-- FULL STATEMENT (false on the code because of nested map keys): encoding a metric never panics.
    PROVED for events none of whose values contains a nested map key. -/
theorem metric_total_partial (e : Event) (h : PropsKeysOk e.props) (x : Enc MetricRecord)
    (hx : metricRecord e = some x) : ∃ r, x = .ok r := by
  unfold metricRecord at hx
  split at hx
  · cases hmv : lookupFirst "metric_value" e.props with
    | none => simp [hmv] at hx
    | some value =>
      simp only [hmv] at hx
      unfold metricBody at hx
      have hd := propsKeysOk_of_props e h
      obtain ⟨as, has⟩ := (Enc.isOk_iff _).mp
        (plainAttrs_isOk metricLifted e.deduped (fun p hp _ => hd p hp))
      simp only [metricAttrs, has] at hx
      cases hep : extractPts false value.image with
      | none => simp [hep] at hx
      | some pts =>
        simp only [hep] at hx
        split at hx
        · cases hx
        · cases hx; exact ⟨_, rfl⟩
  · cases hx

/-- Attribute keys of every data point are unique — for every event (D8, repaired: the attributes come from the
    de-duplicated properties). -/
theorem metric_attr_keys_unique (e : Event) (value : PV) (r : MetricRecord) (hu : UniqueOk e.unique e.props)
    (h : metricBody e value = some (.ok r)) : ∀ p ∈ r.points, (keys p.attributes).Nodup := by
  obtain ⟨attrs, pts, data, points, hattrs, _, hmp, rfl⟩ := metricBody_ok e value r h
  intro p hp
  rw [metricPoints_attrs _ _ _ _ _ _ _ _ hmp p hp]
  exact plainAttrs_nodup metricLifted _ _ hattrs (dedup_nodup _ _ hu)

/-- Every property that is not lifted appears on every data point under its key with its FIRST value. -/
theorem metric_prop_once_first_value (e : Event) (value : PV) (r : MetricRecord) (k : String) (v : PV)
    (h : metricBody e value = some (.ok r)) (hv : lookupFirst k e.props = some v) (hl : metricLifted k = false) :
    ∃ av, anyValue v.image = .ok av ∧ ∀ p ∈ r.points, (k, av) ∈ p.attributes := by
  obtain ⟨attrs, pts, data, points, hattrs, _, hmp, rfl⟩ := metricBody_ok e value r h
  have hd : lookupFirst k e.deduped = some v := by
    unfold Event.deduped; rw [dedup_lookup]; exact hv
  obtain ⟨av, hav, hin⟩ := plainAttrs_mem metricLifted _ _ hattrs k v (mem_of_lookupFirst _ _ _ hd) hl
  refine ⟨av, hav, ?_⟩
  intro p hp
  rw [metricPoints_attrs _ _ _ _ _ _ _ _ hmp p hp]
  exact hin

/-- Lifting for metrics: name from `metric_name` (else the message), unit from the FIRST `metric_unit`
    (D8, repaired), scope from the module; none of the lifted keys is an attribute; `sum` / `count` give one
    sum point (non-monotonic / monotonic) over the extent with the temporality of the extent, anything else a
    gauge with one point per sample, in order. -/
theorem metric_lifting (e : Event) (value : PV) (r : MetricRecord) (hu : UniqueOk e.unique e.props)
    (h : metricBody e value = some (.ok r)) :
    r.name = nameOr "metric_name" e ∧ r.scope = e.mdl ∧
    r.unit = (match lookupFirst "metric_unit" e.props with | some u => u.display | none => "") ∧
    (∀ p ∈ r.points, ∀ k ∈ keys p.attributes, metricLifted k = false) ∧
    ∃ pts, extractPts false value.image = some pts ∧
      let agg := (lookupFirst "metric_agg" e.props).bind PV.str?
      let t := metricTimes e.extent
      (agg = some "sum" → r.data = .sum t.2.2 false ∧
        ∃ attrs, r.points = [⟨t.1, t.2.1, sumPts pts, attrs⟩]) ∧
      (agg = some "count" → r.data = .sum t.2.2 true ∧
        ∃ attrs, r.points = [⟨t.1, t.2.1, sumPts pts, attrs⟩]) ∧
      (agg ≠ some "sum" → agg ≠ some "count" → r.data = .gauge ∧ r.points.map (·.value) = pts ∧ pts ≠ []) := by
  obtain ⟨attrs, pts, data, points, hattrs, hpts, hmp, rfl⟩ := metricBody_ok e value r h
  have hnd := dedup_nodup e.unique e.props hu
  have hl : ∀ k, lookupLast k e.deduped = lookupFirst k e.props := by
    intro k
    unfold Event.deduped
    rw [lookupLast_eq_first _ hnd, dedup_lookup]
  refine ⟨rfl, rfl, ?_, ?_, pts, hpts, ?_⟩
  · cases hmu : lookupFirst "metric_unit" e.props <;> simp [hl, hmu]
  · intro p hp k hk
    rw [metricPoints_attrs _ _ _ _ _ _ _ _ hmp p hp, plainAttrs_keys metricLifted _ _ hattrs,
      List.mem_filter] at hk
    simpa using hk.2
  · unfold metricPoints at hmp
    refine ⟨?_, ?_, ?_⟩
    · intro hs
      simp only [hs, if_true, Option.some.injEq, Prod.mk.injEq] at hmp
      exact ⟨hmp.1.symm, attrs, hmp.2.symm⟩
    · intro hc
      have hcs : ¬ ((some "count" : Option String) = some "sum") := by decide
      simp only [hc, hcs, if_false, if_true, Option.some.injEq, Prod.mk.injEq] at hmp
      exact ⟨hmp.1.symm, attrs, hmp.2.symm⟩
    · intro hns hnc
      simp only [hns, hnc, if_false, Option.map_eq_some_iff] at hmp
      obtain ⟨ps, hps, hp⟩ := hmp
      cases hp
      refine ⟨rfl, ?_⟩
      unfold gaugePoints at hps
      split at hps
      · cases hps
      · cases hps; simp
      · rename_i hne1 hne2
        cases hps
        refine ⟨?_, ?_⟩
        · exact zip_values attrs _ _ (by simp [spreadTimes])
        · intro hnil; subst hnil; exact hne1 rfl

/-- sums of integer samples are exact while they fit an i64 -/
theorem sumPts_ints (is : List Int) (acc : Int)
    (h : ∀ n, n ≤ is.length → inI64 (acc + (is.take n).sum) = true) :
    (is.map Pt.int).foldl sumStep (.int acc) = .int (acc + is.sum) := by
  induction is generalizing acc with
  | nil => simp
  | cons i rest ih =>
    have h1 : inI64 (acc + i) = true := by simpa using h 1 (by simp)
    simp only [List.map_cons, List.foldl_cons, sumStep, h1, if_true, List.sum_cons]
    rw [ih (acc + i)]
    · congr 1; omega
    · intro n hn
      have := h (n + 1) (by simp; omega)
      simpa [List.take_succ_cons, List.sum_cons, Int.add_assoc] using this

/-- an integer sum that leaves the i64 range becomes `+inf` (`checked_add` → `f64::INFINITY`) -/
theorem sumPts_overflow : sumPts [.int (2 ^ 63 - 1), .int 1] = .dbl 0x7FF0000000000000 := by
  rfl

/-- the points of a gauge partition the extent: consecutive, starting at the start, never past the end -/
theorem spreadTimes_spec (start time n : Nat) (hle : start ≤ time) :
    (spreadTimes start time n).length = n ∧
    (∀ i, (h : i < (spreadTimes start time n).length) →
      (spreadTimes start time n)[i].1 = start + i * ((time - start) / n) ∧
      (spreadTimes start time n)[i].2 = start + (i + 1) * ((time - start) / n) ∧
      (spreadTimes start time n)[i].2 ≤ time) := by
  refine ⟨by simp [spreadTimes], ?_⟩
  intro i h
  have hi : i < n := by simpa [spreadTimes] using h
  simp only [spreadTimes, List.getElem_map, List.getElem_range, true_and]
  have h1 : (i + 1) * ((time - start) / n) ≤ n * ((time - start) / n) := Nat.mul_le_mul_right _ (by omega)
  have h2 : n * ((time - start) / n) ≤ time - start := Nat.mul_div_le _ _
  omega

/-! ## Terminal writer -/

/-- the exact sparkline index is within the seven blocks: for samples `mn ≤ v ≤ mx` with `mn < mx`,
    `0 ≤ ⌈(v - mn) / (mx - mn) · 6⌉ ≤ 6`.
    (`_partial`: the code computes the same expression in IEEE double arithmetic — `blockIndex` — and that
    function, including its behaviour on NaN / infinite / equal samples, is only SAMPLED by stream c13_term.) -/
theorem spark_index_le_six_partial (mn mx v : Int) (h1 : mn ≤ v) (h2 : v ≤ mx) (h3 : mn < mx) :
    0 ≤ blockIndexExact mn mx v ∧ blockIndexExact mn mx v ≤ 6 := by
  unfold blockIndexExact
  have hd : 0 < mx - mn := by omega
  constructor
  · apply Int.ediv_nonneg <;> omega
  · have : (v - mn) * 6 + (mx - mn) - 1 < 7 * (mx - mn) := by
      have : (v - mn) * 6 ≤ (mx - mn) * 6 := Int.mul_le_mul_of_nonneg_right (by omega) (by omega)
      omega
    have := Int.ediv_lt_of_lt_mul hd this
    omega

/-- Without a sequence under `metric_value` the terminal writer never panics, and what it prints contains the
    line with the rendered message. -/
theorem term_total_no_sparkline (e : Event) (x : Enc String) (h : termOutput e = some x)
    (hm : ∀ mv, lookupFirst "metric_value" e.props = some mv → ∀ bs, seqView mv ≠ .seq bs) :
    ∃ pre post, x = .ok (pre ++ termMsg e.props e.tpl ++ "\n" ++ post) := by
  unfold termOutput at h
  simp only at h
  split at h
  · cases h; exact ⟨_, _, rfl⟩
  · rename_i mv hmv
    split at h
    · cases h
    · cases h; exact ⟨_, _, rfl⟩
    · cases h; exact ⟨_, _, rfl⟩
    · rename_i bs _ hsv
      exact absurd hsv (hm mv hmv _)

/-! ## Re-entrancy: a value whose formatting code emits through the same emitter

`emitRe enc outer inner k` is `Otlp::emit outer` during which the encoder formats, `k` times in all, values of
`outer` whose `Display` code emits `inner` through the same emitter on the same thread (Model/OtlpRecords.lean).
`enc` is any signal's encoder in any encoding (`logRecord`, `spanRecord`, `metricRecord` — protobuf and JSON
build the same structured record). -/

theorem emitNested_declined {ρ : Type} (enc : Event → Option (Enc ρ)) (inner : Event) (h : enc inner = none)
    (k : Nat) (q : List ρ) : emitNested enc inner k q = .ok q := by
  induction k with
  | zero => rfl
  | succ k ih => simp [emitNested, emitOne, h, Enc.bind, ih]

theorem emitNested_ok {ρ : Type} (enc : Event → Option (Enc ρ)) (inner : Event) (s : ρ)
    (h : enc inner = some (.ok s)) (k : Nat) (q : List ρ) :
    emitNested enc inner k q = .ok (q ++ List.replicate k s) := by
  induction k generalizing q with
  | zero => simp [emitNested]
  | succ k ih => simp [emitNested, emitOne, h, Enc.bind, ih, List.replicate_succ]

theorem emitNested_panic {ρ : Type} (enc : Event → Option (Enc ρ)) (inner : Event)
    (h : enc inner = some .panic) (k : Nat) (q : List ρ) : emitNested enc inner (k + 1) q = .panic := by
  simp [emitNested, emitOne, h, Enc.bind]

/-- **The nested emit is just another emit.** A re-entrant emit leaves the pipeline exactly as the plain emits
    `inner` (k times), then `outer`, one after the other, would: same records, same order, same panics. -/
theorem reentrant_emit_is_sequential {ρ : Type} (enc : Event → Option (Enc ρ)) (outer inner : Event)
    (k : Nat) (q : List ρ) :
    emitRe enc outer inner k q = emitAll enc (List.replicate k inner ++ [outer]) q := by
  unfold emitRe
  induction k generalizing q with
  | zero => cases h : emitOne enc outer q <;> simp [emitNested, emitAll, Enc.bind, h]
  | succ k ih =>
    simp only [emitNested, List.replicate_succ, List.cons_append, emitAll]
    cases h : emitOne enc inner q with
    | panic => simp [Enc.bind]
    | ok q' => simpa [Enc.bind] using ih q'

/-- **Both events are accepted.** When the encoder accepts `outer` (record `r`) and `inner` (record `s`) on
    their own, the re-entrant emit does not panic and queues every nested record and the outer record — the very
    `r` a plain emit of `outer` queues; nothing queued before is touched. -/
theorem reentrant_emit_accepts_both {ρ : Type} (enc : Event → Option (Enc ρ)) (outer inner : Event) (r s : ρ)
    (ho : enc outer = some (.ok r)) (hi : enc inner = some (.ok s)) (k : Nat) (q : List ρ) :
    emitRe enc outer inner k q = .ok (q ++ List.replicate k s ++ [r]) ∧
    emitOne enc outer q = .ok (q ++ [r]) := by
  simp [emitRe, emitNested_ok enc inner s hi, emitOne, ho, Enc.bind]

/-- **Re-entrancy adds no panic.** The emitting thread panics iff the encoder panics on `outer` alone, or a
    nested emit happens and the encoder panics on `inner` alone. -/
theorem reentrant_emit_panics_iff {ρ : Type} (enc : Event → Option (Enc ρ)) (outer inner : Event)
    (k : Nat) (q : List ρ) :
    emitRe enc outer inner k q = .panic ↔ ((0 < k ∧ enc inner = some .panic) ∨ enc outer = some .panic) := by
  have outerOnly : ∀ q' : List ρ, emitOne enc outer q' = .panic ↔ enc outer = some .panic := by
    intro q'
    unfold emitOne
    cases h : enc outer with
    | none => simp
    | some x => cases x <;> simp
  unfold emitRe
  cases hi : enc inner with
  | none => simp [emitNested_declined enc inner hi, Enc.bind, outerOnly]
  | some x =>
    cases x with
    | ok s => simp [emitNested_ok enc inner s hi, Enc.bind, outerOnly]
    | panic =>
      cases k with
      | zero => simp [emitNested, Enc.bind, outerOnly]
      | succ k => simp [emitNested_panic enc inner hi, Enc.bind]

/-- A declined nested event (e.g. a plain event on a traces-only emitter) changes nothing. -/
theorem reentrant_emit_inner_declined {ρ : Type} (enc : Event → Option (Enc ρ)) (outer inner : Event)
    (hi : enc inner = none) (k : Nat) (q : List ρ) : emitRe enc outer inner k q = emitOne enc outer q := by
  simp [emitRe, emitNested_declined enc inner hi, Enc.bind]

/-! ## non-vacuity of the hypotheses -/

def sampleEvent : Event :=
  ⟨"app::db", [.text "query ", .hole "sql", .text " took ", .hole "ms"], .range ⟨1, 0, "t0"⟩ ⟨2, 5, "t1"⟩, false,
    [("ms", .simple (.f64 0x3FF8000000000000 "1.5" "1.5")), ("sql", .simple (.str "select\n1")),
     ("ms", .simple (.int 7)), ("lvl", .simple (.str "warn")),
     ("err", .simple (.err "outer" ["mid", "root"])),
     ("m", .tree (.map [(.int 1, .seq [.null, .bytes [0, 255]]), (.text "k", .nvar "B" (.bool true))]) "{…}")]⟩

example : UniqueOk sampleEvent.unique sampleEvent.props := by simp [UniqueOk, sampleEvent]
example : NoExceptionClash sampleEvent.props := by
  intro _; simp [keys, sampleEvent]
example : PropsKeysOk sampleEvent.props := by
  intro p hp
  simp only [sampleEvent, List.mem_cons, List.not_mem_nil, or_false] at hp
  rcases hp with rfl | rfl | rfl | rfl | rfl | rfl <;>
    simp [PV.image, Simple.image, V.KeysOk, V.KeysOkEntries, V.KeysOkList, V.keyOk]
example : (fileLine sampleEvent).isSome = true := by decide
example : ∃ r, logRecord sampleEvent = .ok r ∧ r.severityNumber = 13 ∧ r.attributes.length = 5 := by
  refine ⟨_, rfl, ?_, ?_⟩ <;> decide

/-- the demo of seeded change C13-r3m1: a log event with a `Display` value (`v`) that logs when formatted; the
    formatter runs twice (message hole and attribute): two nested records, then the outer one -/
def reOuter : Event :=
  ⟨"outer", [.text "hello ", .hole "v"], .none, false,
    [("a", .simple (.int 1)), ("v", .simple (.disp "some text")), ("z", .simple (.bool true))]⟩
def reInner : Event := ⟨"inner", [.text "formatting a value"], .none, false, [("depth", .simple (.int 1))]⟩

example : ∃ r s, (fun e => some (logRecord e)) reOuter = some (.ok r) ∧
    (fun e => some (logRecord e)) reInner = some (.ok s) ∧ r.body = "hello some text" ∧ s.scope = "inner" :=
  ⟨_, _, rfl, rfl, by decide, by decide⟩
example : (match emitRe (fun e => some (logRecord e)) reOuter reInner 2 [] with
    | .ok q => q.map (·.scope)
    | .panic => []) = ["inner", "inner", "outer"] := by decide
example : formatsAttributes .logs reOuter = true ∧ formatsAttributes .traces reOuter = false := by decide

end EmitModel.C13
