/-
  Thm/C02.lean — property C02: property lookup always agrees with enumeration; the first value for a key wins.
  Property theorems only; helper lemmas live in Base/Assoc.lean and Lemmas/Props.lean.

  OBLIGATIONS (audited by `check` with `#print axioms`):
    for_each_eq_fold, enum_is_collected, get_eq_first, pull_get, unique_nodup, dedup_first, dedup_order,
    break_ignores_rest, break_stops, hash_order_irrelevant, wf_btree_fromInserts, wf_hash_fromInserts,
    wf_frame_pushInto, frame_lookup, frame_keys,
    macro_get_eq_first, expand_wf, expand_wf_of_distinct, expand_enum_perm, macro_site_coherent, render_hole,
    macro_rename_breaks_lookup
-/
import EmitModel.Lemmas.Props

namespace EmitModel.C02
open EmitModel.Props EmitModel.Assoc Std

/-- **Enumeration with a visitor.** For every collection (any nesting of the combinators, including `Dedup`, whose
    inner pass ignores breaks while its outer pass honours them), every visitor and every initial visitor state,
    `for_each` visits exactly the pairs of the enumeration, in order, and stops at the first pair for which the
    visitor returns `Break`; its result is `Break` iff the visitor broke. -/
theorem for_each_eq_fold {σ : Type} (p : P) (f : Visitor σ) (s : σ) :
    forEach p f s = foldUntil (fun s kv => f s kv.1 kv.2) s (enum p) :=
  forEach_eq p f s

/-- `enum` is what a collecting, never-breaking visitor sees (this is how the harness observes it). -/
theorem enum_is_collected (p : P) :
    forEach p (fun (acc : List (String × Val)) k v => (acc ++ [(k, v)], false)) [] = (enum p, false) := by
  rw [forEach_eq]
  show foldUntil (fun acc (kv : String × Val) => (acc ++ [(kv.1, kv.2)], false)) [] (enum p) = _
  rw [foldUntil_never]
  suffices ∀ (xs acc : List (String × Val)), xs.foldl (fun acc kv => acc ++ [(kv.1, kv.2)]) acc = acc ++ xs by
    simp [this]
  intro xs
  induction xs with
  | nil => simp
  | cons a xs ih => intro acc; simp [ih]

/-- **Lookup agrees with enumeration.** For every well-formed collection and every key, `get` returns exactly the
    first value the enumeration yields for that key, or nothing if the enumeration never yields it. -/
theorem get_eq_first : ∀ (p : P) (k : String), WF p → get p k = lookupFirst k (enum p)
  | .pair a v, k, _ => by simp only [Props.get]; exact scan_eq _ _
  | .slice ps, k, _ => by simp only [Props.get]; exact scan_eq _ _
  | .arr ps, k, _ => by simp only [Props.get]; exact scan_eq _ _
  | .btree es, k, h => by simp only [Props.get, enum]; exact btreeGet_eq (by simpa [WF] using h) k
  | .hash es, k, _ => by simp [Props.get, enum, hashGet]
  | .optNone, k, _ => by simp only [Props.get]; exact scan_eq _ _
  | .optSome p, k, _ => by simp only [Props.get]; exact scan_eq _ _
  | .and a b, k, h => by
    have h' : WF a ∧ WF b := by simpa [WF] using h
    simp only [Props.get, enum, lookupFirst_append, get_eq_first a k h'.1, get_eq_first b k h'.2]
    cases lookupFirst k (enum a) <;> simp
  | .ref p, k, h => by simp only [Props.get, enum]; exact get_eq_first p k (by simpa [WF] using h)
  | .boxed p, k, _ => by simp only [Props.get]; exact scan_eq _ _
  | .shared p, k, _ => by simp only [Props.get]; exact scan_eq _ _
  | .erased p, k, h => by simp only [Props.get, enum]; exact get_eq_first p k (by simpa [WF] using h)
  | .asMap p, k, h => by simp only [Props.get, enum]; exact get_eq_first p k (by simpa [WF] using h)
  | .dedup p, k, h => by
    rw [lookupFirst_enum_dedup]; simp only [Props.get]; exact get_eq_first p k (by simpa [WF] using h)
  | .empty, k, _ => by simp [Props.get, enum]
  | .macro es, k, _ => by simp only [Props.get, enum]; exact macroGet_eq es k
  | .extentPoint _, k, _ => by simp only [Props.get]; exact scan_eq _ _
  | .extentRange _ _, k, _ => by simp only [Props.get]; exact scan_eq _ _
  | .spanCtxt _ _ _, k, _ => by simp only [Props.get]; exact scan_eq _ _
  | .spanView _ _, k, _ => by simp only [Props.get]; exact scan_eq _ _
  | .metricView _ _ _ _, k, _ => by simp only [Props.get]; exact scan_eq _ _
  | .frame es, k, _ => by simp [Props.get, enum, hashGet]
  | .slot _, k, _ => by simp only [Props.get]; exact scan_eq _ _

/-- `pull` is `get` followed by the cast, also where `pull` is overridden (`&P`, `AsMap`). -/
theorem pull_get : ∀ (p : P) (k : String), pullInt p k = (get p k).bind Val.castInt
  | .ref p, k => by simp only [pullInt, Props.get]; exact pull_get p k
  | .asMap p, k => by simp only [pullInt, Props.get]; exact pull_get p k
  | .pair _ _, _ | .slice _, _ | .arr _, _ | .btree _, _ | .hash _, _ | .optNone, _ | .optSome _, _
  | .and _ _, _ | .boxed _, _ | .shared _, _ | .erased _, _ | .dedup _, _ | .empty, _ | .macro _, _
  | .extentPoint _, _ | .extentRange _ _, _ | .spanCtxt _ _ _, _ | .spanView _ _, _ | .metricView _ _ _ _, _
  | .frame _, _ | .slot _, _ => by
    simp [pullInt]

/-- **Uniqueness claims are honest.** A well-formed collection that claims `is_unique` never enumerates a key
    twice. -/
theorem unique_nodup : ∀ (p : P), WF p → isUnique p = true → (keys (enum p)).Nodup
  | .pair a v, _, _ => by simp [enum]
  | .slice ps, _, h => by simp [isUnique] at h
  | .arr ps, _, h => by simp [isUnique] at h
  | .btree es, h, _ => by
    have : Sorted compare es := by simpa [WF] using h
    simpa [enum] using this.nodup_keys
  | .hash es, h, _ => by simpa [WF, enum] using h
  | .optNone, _, h => by simp [isUnique] at h
  | .optSome p, _, h => by simp [isUnique] at h
  | .and a b, _, h => by simp [isUnique] at h
  | .ref p, h, hu => by simp only [enum]; exact unique_nodup p (by simpa [WF] using h) (by simpa [isUnique] using hu)
  | .boxed p, _, h => by simp [isUnique] at h
  | .shared p, _, h => by simp [isUnique] at h
  | .erased p, h, hu => by simp only [enum]; exact unique_nodup p (by simpa [WF] using h) (by simpa [isUnique] using hu)
  | .asMap p, h, hu => by simp only [enum]; exact unique_nodup p (by simpa [WF] using h) (by simpa [isUnique] using hu)
  | .dedup p, h, _ => by
    simp only [enum]
    split
    · next hu => exact unique_nodup p (by simpa [WF] using h) hu
    · exact (sorted_collectFirst (cmp := compare) (enum p)).nodup_keys
  | .empty, _, _ => by simp [enum]
  | .macro es, h, _ => by simpa [WF, enum] using h
  | .extentPoint _, _, h => by simp [isUnique] at h
  | .extentRange _ _, _, h => by simp [isUnique] at h
  | .spanCtxt _ _ _, _, h => by simp [isUnique] at h
  | .spanView _ _, _, h => by simp [isUnique] at h
  | .metricView _ _ _ _, _, h => by simp [isUnique] at h
  | .frame es, h, _ => by simpa [WF, enum] using h
  | .slot _, _, h => by simp [isUnique] at h

/-- **De-duplication keeps the first value.** For every well-formed collection `p`, the enumeration of `p.dedup()`
    yields every key at most once, yields exactly the keys `p` yields, maps each key to the first value `p`
    yields for it, and looking a key up in the de-duplicated view is looking it up in `p`. -/
theorem dedup_first (p : P) (h : WF p) :
    (keys (enum (.dedup p))).Nodup ∧
    (∀ k, k ∈ keys (enum (.dedup p)) ↔ k ∈ keys (enum p)) ∧
    (∀ k, lookupFirst k (enum (.dedup p)) = lookupFirst k (enum p)) ∧
    (∀ k, get (.dedup p) k = get p k) ∧
    isUnique (.dedup p) = true :=
  ⟨unique_nodup (.dedup p) (by simpa [WF] using h) rfl,
   mem_keys_iff_of_lookup_eq (lookupFirst_enum_dedup p),
   lookupFirst_enum_dedup p,
   fun _ => rfl,
   rfl⟩

/-- The order `Dedup` enumerates in: the inner order when the inner collection claims uniqueness, otherwise
    strictly increasing keys (the `BTreeMap` it collects into) — not the order of first occurrence. -/
theorem dedup_order (p : P) :
    (isUnique p = true → enum (.dedup p) = enum p) ∧
    (isUnique p = false → Sorted compare (enum (.dedup p))) := by
  constructor
  · intro h; simp [enum, h]
  · intro h; simp only [enum, h]; exact sorted_collectFirst _

/-- The same, spelled out: once the visitor has been handed the pairs `pre` without breaking and breaks on the next
    pair, `for_each` returns `Break` with the visitor's state at that point — whatever the rest of the enumeration
    is, it is never visited. -/
theorem break_ignores_rest {σ : Type} (p : P) (f : Visitor σ) (s s' s'' : σ)
    (pre post : List (String × Val)) (kv : String × Val) (he : enum p = pre ++ kv :: post)
    (hpre : foldUntil (fun s kv => f s kv.1 kv.2) s pre = (s', false)) (hkv : f s' kv.1 kv.2 = (s'', true)) :
    forEach p f s = (s'', true) := by
  rw [forEach_eq, he, foldUntil_append]
  show (match foldUntil (fun s kv => f s kv.1 kv.2) s pre with
    | (s', true) => (s', true)
    | (s', false) => foldUntil (unc f) s' (kv :: post)) = _
  rw [hpre]
  simp [foldUntil, hkv]

theorem foldUntil_breakAt (i : Nat) (xs : List (String × Val)) : ∀ c, c ≤ i →
    foldUntil (fun (s : Nat) (_ : String × Val) => (s + 1, decide (i ≤ s))) c xs
      = (min (i + 1) (c + xs.length), decide (i < c + xs.length)) := by
  induction xs with
  | nil => intro c hc; simp <;> omega
  | cons a xs ih =>
    intro c hc
    simp only [foldUntil]
    by_cases h : i ≤ c
    · have : c = i := by omega
      subst this
      simp <;> omega
    · simp only [h, decide_false]
      rw [ih (c + 1) (by omega)]
      have e : c + 1 + xs.length = c + (a :: xs).length := by simp only [List.length_cons]; omega
      rw [e]

/-- **Enumeration stops as soon as the visitor asks.** With the visitor that counts its calls and breaks at call
    index `i` (and would break again at any later call), every collection makes exactly `min (i+1) n` calls,
    `n` the length of the enumeration, and reports `Break` iff `i < n`. -/
theorem break_stops (p : P) (i : Nat) :
    visits p i = (min (i + 1) (enum p).length, decide (i < (enum p).length)) := by
  unfold visits
  rw [forEach_eq]
  show foldUntil (fun (s : Nat) (_ : String × Val) => (s + 1, decide (i ≤ s))) 0 (enum p) = _
  rw [foldUntil_breakAt i _ 0 (Nat.zero_le _)]
  simp

/-- The iteration order inside a hash map cannot be observed through `get`, `is_unique` or the de-duplicated
    lookups: two hash nodes with the same distinct-keyed entries in different orders answer every lookup alike. -/
theorem hash_order_irrelevant {es es' : List (String × Val)} (hp : es.Perm es') (hn : (keys es).Nodup) (k : String) :
    get (.hash es) k = get (.hash es') k := by
  simp only [Props.get, hashGet]; exact lookupFirst_perm hp hn k

/-- A `BTreeMap` built by any sequence of `insert`s is a well-formed `btree` node … -/
theorem wf_btree_fromInserts (xs : List (String × Val)) : WF (.btree (fromInserts compare xs)) := by
  simp only [WF]; exact sorted_fromInserts xs

/-- … and the same entry list is a well-formed `hash` node (the driver lists hash entries in key order; by
    `hash_order_irrelevant` and the canonicalisation of hash segments in the harness the choice is unobservable). -/
theorem wf_hash_fromInserts (xs : List (String × Val)) : WF (.hash (fromInserts compare xs)) := by
  simp only [WF]; exact (sorted_fromInserts (cmp := compare) xs).nodup_keys

/-! ### Ambient snapshots -/

theorem sorted_pushInto {cur : List (String × Val)} (h : Sorted compare cur) (pushed : List (String × Val)) :
    Sorted compare (pushInto cur pushed) := by
  unfold pushInto
  induction pushed generalizing cur with
  | nil => exact h
  | cons a xs ih => exact ih (sorted_insertOverwrite h a.1 a.2)

/-- A frame opened by `open_root`/`open_push` over a well-formed current frame is a well-formed `frame` node — so
    `get_eq_first`, `unique_nodup` and `dedup_first` apply to every ambient snapshot, whatever was pushed. -/
theorem wf_frame_pushInto {cur : List (String × Val)} (h : Sorted compare cur) (pushed : List (String × Val)) :
    Sorted compare (pushInto cur pushed) ∧ WF (.frame (pushInto cur pushed)) := by
  have hs := sorted_pushInto h pushed
  exact ⟨hs, by simpa [WF] using hs.nodup_keys⟩

/-- **A snapshot loses no key**, and what it keeps per key: the value of the LAST pair the pushed props enumerate for
    it (`HashMap::insert` overwrites — unlike every other collection, where the first wins), else the value the
    enclosing frame had. -/
theorem frame_lookup {cur : List (String × Val)} (h : Sorted compare cur) (pushed : List (String × Val)) (q : String) :
    lookupFirst q (pushInto cur pushed) = (lookupFirst q pushed.reverse).or (lookupFirst q cur) := by
  unfold pushInto
  induction pushed generalizing cur with
  | nil => simp
  | cons a xs ih =>
    obtain ⟨k, v⟩ := a
    rw [List.foldl_cons, ih (sorted_insertOverwrite h k v), lookupFirst_insertOverwrite h,
      List.reverse_cons, lookupFirst_append, lookupFirst_cons]
    cases lookupFirst q xs.reverse <;> by_cases e : k = q <;> simp [e]

theorem frame_keys {cur : List (String × Val)} (h : Sorted compare cur) (pushed : List (String × Val)) (q : String) :
    q ∈ keys (pushInto cur pushed) ↔ q ∈ keys pushed ∨ q ∈ keys cur := by
  rw [← lookupFirst_isSome_iff, frame_lookup h, ← lookupFirst_isSome_iff, ← lookupFirst_isSome_iff]
  have : (lookupFirst q pushed.reverse).isSome = (lookupFirst q pushed).isSome := by
    rw [Bool.eq_iff_iff, lookupFirst_isSome_iff, lookupFirst_isSome_iff]; simp [keys]
  cases h1 : lookupFirst q pushed.reverse <;> cases h2 : lookupFirst q pushed <;> simp_all

/-! ### The macro-built collection -/

/-- Lookup in a macro-built collection is the first-wins lookup of its enumeration — for every runtime array
    (any order, renamed keys, `None` values, elements removed by `#[cfg]`), with no sortedness assumption.
    (False before the D1 fix: see `macro_rename_breaks_lookup`.) -/
theorem macro_get_eq_first (es : List (String × Option Val)) (k : String) :
    get (.macro es) k = lookupFirst k (enum (.macro es)) := by
  simp only [Props.get, enum]; exact macroGet_eq es k

/-- The final names of the fields that reach the runtime array with a value. -/
def liveKeys (fields : List Field) : List String :=
  fields.filterMap fun f => if f.cfg then f.val.map (fun _ => f.key) else none

theorem insertField_perm : ∀ (m : List (String × Field)) (f : Field) (m' : List (String × Field)),
    insertField m f = some m' → (m'.map Prod.snd).Perm (f :: m.map Prod.snd)
  | [], f, m', h => by simp [insertField] at h; subst h; simp
  | (k, g) :: rest, f, m', h => by
    simp only [insertField] at h
    split at h
    · simp only [Option.map_eq_some_iff] at h
      obtain ⟨r, hr, e⟩ := h
      subst e
      have := insertField_perm rest f r hr
      simp only [List.map_cons]
      exact (List.Perm.cons g this).trans (List.Perm.swap f g _)
    · cases h
    · simp at h; subst h; simp

theorem insertFields_perm : ∀ (fs : List Field) (m m' : List (String × Field)),
    insertFields m fs = some m' → (m'.map Prod.snd).Perm (fs ++ m.map Prod.snd)
  | [], m, m', h => by simp [insertFields] at h; subst h; simp
  | f :: fs, m, m', h => by
    simp only [insertFields, Option.bind_eq_some_iff] at h
    obtain ⟨m1, h1, h2⟩ := h
    have p1 := insertField_perm m f m1 h1
    have p2 := insertFields_perm fs m1 m' h2
    refine p2.trans ?_
    refine (List.Perm.append_left fs p1).trans ?_
    simp only [List.cons_append]
    exact List.perm_middle

theorem keys_macroEnum_map (m : List (String × Field)) :
    keys (macroEnum ((m.filter (·.2.cfg)).map fun (x : String × Field) => (x.2.key, x.2.val)))
      = liveKeys (m.map Prod.snd) := by
  induction m with
  | nil => rfl
  | cons a m ih =>
    obtain ⟨k, f⟩ := a
    unfold liveKeys at ih ⊢
    by_cases hc : f.cfg
    · cases hv : f.val with
      | none => simp [hc, hv, macroEnum, ih]
      | some v => simp [hc, hv, macroEnum, ih]
    · simp [hc, ih]

/-- **Generated call sites.** Whenever the macro accepts a field list, the runtime array it builds is well formed
    as soon as the final names of the enabled, value-carrying fields are distinct — so `get_eq_first`,
    `unique_nodup` and `dedup_first` apply to every such call site. -/
theorem expand_wf (fields : List Field) (arr : List (String × Option Val)) (he : expand fields = some arr)
    (hd : (liveKeys fields).Nodup) : WF (.macro arr) := by
  simp only [expand, Option.map_eq_some_iff] at he
  obtain ⟨m, hm, e⟩ := he
  subst e
  simp only [WF]
  rw [keys_macroEnum_map]
  have hp := insertFields_perm fields [] m hm
  simp only [List.map_nil, List.append_nil] at hp
  unfold liveKeys at hd ⊢
  exact ((hp.filterMap _).nodup_iff).2 hd

theorem liveKeys_sublist (fields : List Field) : (liveKeys fields).Sublist (fields.map (·.key)) := by
  induction fields with
  | nil => simp [liveKeys]
  | cons f fs ih =>
    unfold liveKeys at ih ⊢
    simp only [List.filterMap_cons, List.map_cons]
    by_cases hc : f.cfg
    · cases hv : f.val with
      | none => simp only [hc, if_true, Option.map_none]; exact ih.cons _
      | some v => simp only [hc, if_true, Option.map_some]; exact ih.cons_cons _
    · simp only [hc, Bool.false_eq_true, if_false]; exact ih.cons _

/-- The property's own wording: all final names distinct. -/
theorem expand_wf_of_distinct (fields : List Field) (arr : List (String × Option Val))
    (he : expand fields = some arr) (hd : (fields.map (·.key)).Nodup) : WF (.macro arr) :=
  expand_wf fields arr he (hd.sublist (liveKeys_sublist fields))

/-- The `(final name, value)` pairs of the fields that reach the runtime array with a value. -/
def livePairs (fields : List Field) : List (String × Val) :=
  fields.filterMap fun f => if f.cfg then f.val.map (fun v => (f.key, v)) else none

theorem macroEnum_map (m : List (String × Field)) :
    macroEnum ((m.filter (·.2.cfg)).map fun (x : String × Field) => (x.2.key, x.2.val))
      = livePairs (m.map Prod.snd) := by
  induction m with
  | nil => rfl
  | cons a m ih =>
    obtain ⟨k, f⟩ := a
    unfold livePairs at ih ⊢
    by_cases hc : f.cfg
    · cases hv : f.val with
      | none => simp [hc, hv, macroEnum, ih]
      | some v => simp [hc, hv, macroEnum, ih]
    · simp [hc, ih]

/-- **Nothing lost, nothing invented.** The enumeration of a macro-built collection is a permutation (identifier
    order) of the `(final name, value)` pairs of the call site's enabled, value-carrying fields. -/
theorem expand_enum_perm (fields : List Field) (arr : List (String × Option Val)) (he : expand fields = some arr) :
    (enum (.macro arr)).Perm (livePairs fields) := by
  simp only [expand, Option.map_eq_some_iff] at he
  obtain ⟨m, hm, e⟩ := he
  subst e
  simp only [enum]
  rw [macroEnum_map]
  have hp := insertFields_perm fields [] m hm
  simp only [List.map_nil, List.append_nil] at hp
  unfold livePairs
  exact hp.filterMap _

/-- **Call sites, end to end.** For every field list the macro accepts whose final names are distinct: looking a
    name up in the collection the call site builds returns the value of the field carrying that final name (first-
    wins lookup in the call site's own field list, whatever order the macro sorted the array into), the collection's
    uniqueness claim is honest, and lookup agrees with its enumeration. -/
theorem macro_site_coherent (fields : List Field) (arr : List (String × Option Val)) (he : expand fields = some arr)
    (hd : (fields.map (·.key)).Nodup) (k : String) :
    get (.macro arr) k = lookupFirst k (livePairs fields) ∧
    get (.macro arr) k = lookupFirst k (enum (.macro arr)) ∧
    (keys (enum (.macro arr))).Nodup := by
  have hwf := expand_wf_of_distinct fields arr he hd
  have hn := unique_nodup (.macro arr) hwf rfl
  refine ⟨?_, macro_get_eq_first arr k, hn⟩
  rw [macro_get_eq_first]
  exact lookupFirst_perm (expand_enum_perm fields arr he) hn k

/-- **Interpolation.** A hole of a rendered template shows the first enumerated value of its key, and the
    `{label}` placeholder iff the enumeration never yields the key. -/
theorem render_hole (p : P) (h : WF p) (l : String) :
    render [.hole l] p = match lookupFirst l (enum p) with
      | some v => v.display
      | none => "{" ++ l ++ "}" := by
  simp only [render, List.map_cons, List.map_nil, get_eq_first p l h]
  cases lookupFirst l (enum p) <;> simp [String.join]

/-- **Defect D1 (pre-fix code).** `emit::props!{ #[emit::key("z")] a: 1, b: 2, c: 3 }` builds the array
    `[("z",1), ("b",2), ("c",3)]` (identifier order a, b, c). The binary search the unfixed `get` ran misses `"z"`
    although the enumeration yields it. -/
theorem macro_rename_breaks_lookup :
    let arr := [("z", some (Val.int 1)), ("b", some (Val.int 2)), ("c", some (Val.int 3))]
    expand [⟨"a", "z", true, some (.int 1)⟩, ⟨"b", "b", true, some (.int 2)⟩, ⟨"c", "c", true, some (.int 3)⟩] = some arr ∧
    macroGetBinarySearch arr "z" = none ∧
    lookupFirst "z" (enum (.macro arr)) = some (.int 1) ∧
    get (.macro arr) "z" = some (.int 1) := by
  decide

/-! ### Non-vacuity: the hypotheses are met by concrete, non-trivial collections -/

/-- a tree mixing maps, nesting, duplicates, a de-duplicated view and a macro array -/
def sample : P :=
  .and (.slice [.pair "a" (.int 1), .ref (.btree [("a", .int 2), ("b", .int 3)]), .optSome (.pair "" (.str "x"))])
       (.dedup (.arr [.hash [("é", .int 4), ("a", .int 5)], .erased (.macro [("z", some (.int 6)), ("b", none)])]))

example : WF sample := by
  simp [sample, WF, WFList, Sorted, macroEnum]; decide
example : get sample "a" = some (.int 1) ∧ get sample "b" = some (.int 3) ∧ get sample "z" = some (.int 6) := by decide
example : WF (.dedup sample) ∧ isUnique (.dedup sample) = true := by
  simp [sample, WF, WFList, Sorted, macroEnum, isUnique]; decide
def sampleSite : List Field :=
  [⟨"a", "z", true, some (.int 1)⟩, ⟨"b", "b", false, some (.int 2)⟩, ⟨"c", "c", true, none⟩]
example : (sampleSite.map (·.key)).Nodup ∧ expand sampleSite = some [("z", some (.int 1)), ("c", none)] := by
  decide
example : Sorted compare (pushInto [] [("b", Val.int 1), ("a", .int 2), ("b", .int 3)]) ∧
    pushInto [] [("b", Val.int 1), ("a", .int 2), ("b", .int 3)] = [("a", .int 2), ("b", .int 3)] := by
  refine ⟨sorted_pushInto sorted_nil _, by decide⟩
example : enum sample = [("a", .int 1), ("a", .int 2), ("b", .int 3), ("", .str "x"), ("a", .int 5), ("z", .int 6), ("é", .int 4)] := by
  decide
example : (liveKeys [⟨"a", "z", true, some (.int 1)⟩, ⟨"b", "b", false, some (.int 2)⟩, ⟨"c", "c", true, none⟩]).Nodup := by
  decide

end EmitModel.C02
