def hello := "world"
