/-
  Base/Sexp.lean — the line protocol shared by the Rust harness and the Lean driver.

  One case per line. A line is one S-expression:
      sexp ::= atom | '(' sexp* ')'
      atom ::= [^ ()\t\n]+          (no whitespace, no parentheses)
  Strings cross the boundary as atoms `x<hex of UTF-8 bytes>` (so the empty string is `x`),
  naturals/ints as decimal atoms. Import-free so that the driver links as a `lean_exe`.
-/
namespace EmitModel

inductive Sexp where
  | atom (s : String)
  | list (xs : List Sexp)
  deriving Repr, Inhabited, BEq

namespace Sexp

/-- Tokeniser: parentheses are their own tokens, whitespace separates atoms. -/
def tokens (s : String) : List String :=
  let rec go (cs : List Char) (cur : List Char) (acc : List String) : List String :=
    let flush (cur : List Char) (acc : List String) : List String :=
      if cur.isEmpty then acc else String.ofList cur.reverse :: acc
    match cs with
    | [] => (flush cur acc).reverse
    | c :: rest =>
      if c == '(' then go rest [] ("(" :: flush cur acc)
      else if c == ')' then go rest [] (")" :: flush cur acc)
      else if c == ' ' || c == '\t' || c == '\n' || c == '\r' then go rest [] (flush cur acc)
      else go rest (c :: cur) acc
  go s.toList [] []

/-- Parse a token list with an explicit stack of open lists (no fuel needed: one pass). -/
def parseTokens (ts : List String) : Option Sexp :=
  let rec go (ts : List String) (stack : List (List Sexp)) (done : Option Sexp) : Option Sexp :=
    match ts with
    | [] => match stack with
      | [] => done
      | _ => none
    | t :: rest =>
      match done with
      | some _ => none -- trailing tokens after a complete expression
      | none =>
        if t == "(" then go rest ([] :: stack) none
        else if t == ")" then
          match stack with
          | [] => none
          | top :: [] => go rest [] (some (.list top.reverse))
          | top :: parent :: more => go rest ((.list top.reverse :: parent) :: more) none
        else
          match stack with
          | [] => go rest [] (some (.atom t))
          | top :: more => go rest ((.atom t :: top) :: more) none
  go ts [] none

def parse (s : String) : Option Sexp := parseTokens (tokens s)

partial def toString : Sexp → String
  | .atom s => s
  | .list xs => "(" ++ " ".intercalate (xs.map toString) ++ ")"

instance : ToString Sexp := ⟨Sexp.toString⟩

def atom? : Sexp → Option String
  | .atom s => some s
  | _ => none

def list? : Sexp → Option (List Sexp)
  | .list xs => some xs
  | _ => none

def nat? : Sexp → Option Nat
  | .atom s => s.toNat?
  | _ => none

def int? : Sexp → Option Int
  | .atom s => s.toInt?
  | _ => none

def bool? : Sexp → Option Bool
  | .atom "true" => some true
  | .atom "false" => some false
  | _ => none

end Sexp

/-! ### Hex transport of byte strings -/

def hexDigitVal (c : Char) : Option Nat :=
  if '0' ≤ c ∧ c ≤ '9' then some (c.toNat - '0'.toNat)
  else if 'a' ≤ c ∧ c ≤ 'f' then some (c.toNat - 'a'.toNat + 10)
  else none

def hexDigitChar (n : Nat) : Char :=
  if n < 10 then Char.ofNat ('0'.toNat + n) else Char.ofNat ('a'.toNat + (n - 10))

def bytesOfHexChars : List Char → Option (List UInt8)
  | [] => some []
  | [_] => none
  | a :: b :: rest => do
    let x ← hexDigitVal a
    let y ← hexDigitVal b
    let tl ← bytesOfHexChars rest
    pure (UInt8.ofNat (x * 16 + y) :: tl)

/-- Decode an `x<hex>` atom into bytes. -/
def bytesOfAtom (s : String) : Option (List UInt8) :=
  match s.toList with
  | 'x' :: rest => bytesOfHexChars rest
  | _ => none

def hexOfBytes (bs : List UInt8) : String :=
  String.ofList (bs.flatMap fun b => [hexDigitChar (b.toNat / 16), hexDigitChar (b.toNat % 16)])

def atomOfBytes (bs : List UInt8) : String := "x" ++ hexOfBytes bs

def Sexp.bytes? : Sexp → Option (List UInt8)
  | .atom s => bytesOfAtom s
  | _ => none

/-- UTF-8 decoding of a byte list into a `String` (lossy is never needed: harness only ships valid UTF-8
    on `str?` positions; invalid input yields `none`). -/
def stringOfBytes? (bs : List UInt8) : Option String :=
  String.fromUTF8? (ByteArray.mk bs.toArray)

def Sexp.str? (s : Sexp) : Option String := do
  let bs ← s.bytes?
  stringOfBytes? bs

def atomOfString (s : String) : String := atomOfBytes s.toUTF8.toList

end EmitModel
