/-
  Base/Sched.lean — labelled transition systems and "all interleavings" as "all label lists".

  A concurrent component is modelled by `step : σ → λ → Option σ` whose labels are its *atomic* steps
  (critical sections under a lock, await points, environment actions). `none` = the label is not enabled.
  An execution is a list of labels; since the list is ARBITRARY, a statement over `Reachable` quantifies over
  every interleaving of every number of operations of every thread, every outcome and every fault the labels
  can carry. No scheduler, fairness or bound appears anywhere.

  * `run`, `Reachable`, `invariant_of_step`, `run_invariant` — safety by induction over the label list.
  * `progress_of_rank`, `progress_within` — bounded liveness by a ranking function: if the labels selected by
    `isRx` strictly decrease `rank` and all other labels do not increase it (both only while the goal is not
    yet reached), then every execution containing more than `rank s` selected labels ends in the goal.
    No fairness axiom: the bound counts the selected steps that actually occur in the execution.

  Import-free (the models that use it are linked into the driver executable).
-/
namespace EmitModel.Sched

universe u v
variable {σ : Type u} {lab : Type v}

/-- Execute a label list from `s`; `none` as soon as a label is not enabled. -/
def run (step : σ → lab → Option σ) : σ → List lab → Option σ
  | s, [] => some s
  | s, l :: ls => match step s l with
    | none => none
    | some s' => run step s' ls

@[simp] theorem run_nil (step : σ → lab → Option σ) (s : σ) : run step s [] = some s := rfl

theorem run_cons (step : σ → lab → Option σ) (s : σ) (l : lab) (ls : List lab) :
    run step s (l :: ls) = (step s l).bind fun s' => run step s' ls := by
  simp only [run]; cases step s l <;> rfl

theorem run_append (step : σ → lab → Option σ) (s : σ) (as bs : List lab) :
    run step s (as ++ bs) = (run step s as).bind fun s' => run step s' bs := by
  induction as generalizing s with
  | nil => simp
  | cons a as ih =>
    simp only [List.cons_append, run]
    cases step s a with
    | none => rfl
    | some s' => exact ih s'

/-- `s` is reachable from `init` by SOME label list — i.e. under some interleaving; a theorem
    `∀ s, Reachable step init s → P s` therefore covers every interleaving. -/
def Reachable (step : σ → lab → Option σ) (init : σ) (s : σ) : Prop :=
  ∃ ls : List lab, run step init ls = some s

theorem Reachable.init (step : σ → lab → Option σ) (init : σ) : Reachable step init init := ⟨[], rfl⟩

theorem Reachable.step {step : σ → lab → Option σ} {init s s' : σ} {l : lab}
    (h : Reachable step init s) (hs : step s l = some s') : Reachable step init s' := by
  obtain ⟨ls, hls⟩ := h
  refine ⟨ls ++ [l], ?_⟩
  rw [run_append, hls]; simp [run, hs]

theorem Reachable.run {step : σ → lab → Option σ} {init s s' : σ} {ls : List lab}
    (h : Reachable step init s) (hs : Sched.run step s ls = some s') : Reachable step init s' := by
  obtain ⟨ls0, hls0⟩ := h
  refine ⟨ls0 ++ ls, ?_⟩
  rw [run_append, hls0]; simpa using hs

/-- An invariant preserved by every enabled label holds along every execution. -/
theorem run_invariant {step : σ → lab → Option σ} {Inv : σ → Prop}
    (hstep : ∀ s l s', Inv s → step s l = some s' → Inv s') :
    ∀ (ls : List lab) (s s' : σ), Inv s → run step s ls = some s' → Inv s' := by
  intro ls
  induction ls with
  | nil => intro s s' hi h; simp at h; subst h; exact hi
  | cons l ls ih =>
    intro s s' hi h
    simp only [run] at h
    cases hs : step s l with
    | none => simp [hs] at h
    | some s1 =>
      simp only [hs] at h
      exact ih s1 s' (hstep s l s1 hi hs) h

/-- Safety: an inductive invariant holds in every reachable state (= under every interleaving). -/
theorem invariant_of_step {step : σ → lab → Option σ} {init : σ} {Inv : σ → Prop}
    (hinit : Inv init) (hstep : ∀ s l s', Inv s → step s l = some s' → Inv s') :
    ∀ s, Reachable step init s → Inv s := by
  rintro s ⟨ls, hls⟩
  exact run_invariant hstep ls init s hinit hls

/-- Number of labels of the execution selected by `isRx` (e.g. "steps of the receiver"). -/
def countSel (isRx : lab → Bool) (ls : List lab) : Nat := (ls.filter isRx).length

@[simp] theorem countSel_nil (isRx : lab → Bool) : countSel isRx [] = 0 := rfl

theorem countSel_cons (isRx : lab → Bool) (l : lab) (ls : List lab) :
    countSel isRx (l :: ls) = (if isRx l then 1 else 0) + countSel isRx ls := by
  unfold countSel
  by_cases h : isRx l <;> simp [List.filter, h] <;> omega

/-- Ranking-function lemma. `Inv` is an inductive invariant, `Goal` is stable; while the goal is not reached,
    selected labels strictly decrease `rank` and all other labels do not increase it. Then along every
    execution either the goal is reached or the selected labels consumed that much rank. -/
theorem progress_of_rank {step : σ → lab → Option σ} {Inv Goal : σ → Prop} {isRx : lab → Bool} {rank : σ → Nat}
    (hinv : ∀ s l s', Inv s → step s l = some s' → Inv s')
    (hstable : ∀ s l s', Inv s → Goal s → step s l = some s' → Goal s')
    (hsel : ∀ s l s', Inv s → ¬ Goal s → isRx l = true → step s l = some s' → Goal s' ∨ rank s' < rank s)
    (hoth : ∀ s l s', Inv s → ¬ Goal s → isRx l = false → step s l = some s' → Goal s' ∨ rank s' ≤ rank s) :
    ∀ (ls : List lab) (s s' : σ), Inv s → run step s ls = some s' →
      Goal s' ∨ rank s' + countSel isRx ls ≤ rank s := by
  intro ls
  induction ls with
  | nil => intro s s' _ h; simp at h; subst h; right; simp
  | cons l ls ih =>
    intro s s' hi h
    simp only [run] at h
    cases hs : step s l with
    | none => simp [hs] at h
    | some s1 =>
      simp only [hs] at h
      have hi1 := hinv s l s1 hi hs
      by_cases hg : Goal s
      · left
        have hg1 := hstable s l s1 hi hg hs
        exact run_invariant (Inv := fun t => Inv t ∧ Goal t)
          (fun a b c ⟨ia, ga⟩ st => ⟨hinv a b c ia st, hstable a b c ia ga st⟩) ls s1 s' ⟨hi1, hg1⟩ h |>.2
      · rw [countSel_cons]
        cases hl : isRx l with
        | true =>
          rcases hsel s l s1 hi hg hl hs with g1 | lt
          · left
            exact run_invariant (Inv := fun t => Inv t ∧ Goal t)
              (fun a b c ⟨ia, ga⟩ st => ⟨hinv a b c ia st, hstable a b c ia ga st⟩) ls s1 s' ⟨hi1, g1⟩ h |>.2
          · rcases ih s1 s' hi1 h with g | le
            · exact Or.inl g
            · right; simp; omega
        | false =>
          rcases hoth s l s1 hi hg hl hs with g1 | le1
          · left
            exact run_invariant (Inv := fun t => Inv t ∧ Goal t)
              (fun a b c ⟨ia, ga⟩ st => ⟨hinv a b c ia st, hstable a b c ia ga st⟩) ls s1 s' ⟨hi1, g1⟩ h |>.2
          · rcases ih s1 s' hi1 h with g | le
            · exact Or.inl g
            · right; simp; omega

/-- Bounded progress: an execution with more than `rank s` selected steps ends in the goal. -/
theorem progress_within {step : σ → lab → Option σ} {Inv Goal : σ → Prop} {isRx : lab → Bool} {rank : σ → Nat}
    (hinv : ∀ s l s', Inv s → step s l = some s' → Inv s')
    (hstable : ∀ s l s', Inv s → Goal s → step s l = some s' → Goal s')
    (hsel : ∀ s l s', Inv s → ¬ Goal s → isRx l = true → step s l = some s' → Goal s' ∨ rank s' < rank s)
    (hoth : ∀ s l s', Inv s → ¬ Goal s → isRx l = false → step s l = some s' → Goal s' ∨ rank s' ≤ rank s)
    (ls : List lab) (s s' : σ) (hi : Inv s) (h : run step s ls = some s')
    (hk : rank s < countSel isRx ls) : Goal s' := by
  rcases progress_of_rank hinv hstable hsel hoth ls s s' hi h with g | le
  · exact g
  · omega

end EmitModel.Sched
