/-
  Base/Assoc.lean — first-wins association lists (the meaning of `Props`: "when a key is duplicated the first
  value is the one to use") and sorted association lists modelling `BTreeMap` as emit uses it
  (`entry(k).or_insert(v)`, `insert(k, v)`, in-order iteration). Generic in key and value type; shared by the
  models of C02 (and reusable by C01/C13/C17).

  Contents
    lookupFirst / keys                      first-wins lookup, key projection
    lookupFirst_append, _eq_none_iff, …     algebra of first-wins lookup
    foldUntil                               a left fold that stops at the first `Break` (ControlFlow)
    insertIfAbsent / insertOverwrite        sorted-list models of BTreeMap::entry().or_insert / ::insert
    Sorted                                  strictly increasing keys (⇒ Nodup keys)
    collectFirst                            fold of insertIfAbsent = what `Dedup::for_each` collects
    fromInserts                             fold of insertOverwrite = `BTreeMap::from_iter` / repeated `insert`
-/
import Std

namespace EmitModel.Assoc
open Std

variable {κ ν : Type}

/-- The key projection of an association list. -/
def keys (xs : List (κ × ν)) : List κ := xs.map Prod.fst

@[simp] theorem keys_nil : keys ([] : List (κ × ν)) = [] := rfl
@[simp] theorem keys_cons (a : κ × ν) (xs : List (κ × ν)) : keys (a :: xs) = a.1 :: keys xs := rfl
@[simp] theorem keys_append (xs ys : List (κ × ν)) : keys (xs ++ ys) = keys xs ++ keys ys := by
  simp [keys]

/-! ### A fold that honours `ControlFlow::Break` -/

/-- Visit the elements left to right with a state-passing visitor; the visitor returns the new state and
    `true` to break. Returns the final state and whether the visitor broke. This is the meaning of
    `for x in xs { f(x)?; } Continue(())`. -/
def foldUntil {σ α : Type} (f : σ → α → σ × Bool) : σ → List α → σ × Bool
  | s, [] => (s, false)
  | s, x :: xs =>
    match f s x with
    | (s', true) => (s', true)
    | (s', false) => foldUntil f s' xs

@[simp] theorem foldUntil_nil {σ α : Type} (f : σ → α → σ × Bool) (s : σ) : foldUntil f s [] = (s, false) := rfl

theorem foldUntil_append {σ α : Type} (f : σ → α → σ × Bool) (s : σ) (xs ys : List α) :
    foldUntil f s (xs ++ ys) =
      match foldUntil f s xs with
      | (s', true) => (s', true)
      | (s', false) => foldUntil f s' ys := by
  induction xs generalizing s with
  | nil => simp
  | cons x xs ih =>
    simp only [List.cons_append, foldUntil]
    rcases h : f s x with ⟨s', b⟩
    cases b <;> simp [ih]

/-- A visitor that never breaks is a plain left fold. -/
theorem foldUntil_never {σ α : Type} (g : σ → α → σ) (s : σ) (xs : List α) :
    foldUntil (fun s x => (g s x, false)) s xs = (xs.foldl g s, false) := by
  induction xs generalizing s with
  | nil => rfl
  | cons x xs ih => simp [foldUntil, ih]

section lookup
variable [DecidableEq κ]

/-- First-wins lookup: the value of the first pair whose key is `k`. -/
def lookupFirst (k : κ) : List (κ × ν) → Option ν
  | [] => none
  | (k', v) :: rest => if k' = k then some v else lookupFirst k rest

@[simp] theorem lookupFirst_nil (k : κ) : lookupFirst k ([] : List (κ × ν)) = none := rfl

theorem lookupFirst_cons (k k' : κ) (v : ν) (rest : List (κ × ν)) :
    lookupFirst k ((k', v) :: rest) = if k' = k then some v else lookupFirst k rest := rfl

theorem lookupFirst_append (k : κ) (xs ys : List (κ × ν)) :
    lookupFirst k (xs ++ ys) = (lookupFirst k xs).or (lookupFirst k ys) := by
  induction xs with
  | nil => simp
  | cons a xs ih =>
    obtain ⟨k', v⟩ := a
    simp only [List.cons_append, lookupFirst_cons]
    split <;> simp [ih]

theorem lookupFirst_eq_none_iff (k : κ) (xs : List (κ × ν)) :
    lookupFirst k xs = none ↔ k ∉ keys xs := by
  induction xs with
  | nil => simp
  | cons a xs ih =>
    obtain ⟨k', v⟩ := a
    simp only [lookupFirst_cons, keys_cons, List.mem_cons, not_or]
    split
    · next h => simp [h]
    · next h => simp [ih, Ne.symm h]

theorem lookupFirst_isSome_iff (k : κ) (xs : List (κ × ν)) :
    (lookupFirst k xs).isSome = true ↔ k ∈ keys xs := by
  rw [← Decidable.not_iff_not]
  simp [← lookupFirst_eq_none_iff]

/-- What a lookup hit means: the pair is in the list and nothing before it has the key. -/
theorem lookupFirst_eq_some_iff (k : κ) (v : ν) (xs : List (κ × ν)) :
    lookupFirst k xs = some v ↔ ∃ pre post, xs = pre ++ (k, v) :: post ∧ k ∉ keys pre := by
  induction xs with
  | nil => simp
  | cons a xs ih =>
    obtain ⟨k', v'⟩ := a
    rw [lookupFirst_cons]
    split
    · next h =>
      subst h
      constructor
      · intro e; cases e; exact ⟨[], xs, rfl, by simp⟩
      · rintro ⟨pre, post, e, hn⟩
        cases pre with
        | nil => simp at e; simp [e.1]
        | cons b pre => simp at e; simp [← e.1] at hn
    · next h =>
      rw [ih]
      constructor
      · rintro ⟨pre, post, e, hn⟩
        exact ⟨(k', v') :: pre, post, by simp [e], by simp [hn, Ne.symm h]⟩
      · rintro ⟨pre, post, e, hn⟩
        cases pre with
        | nil => simp at e; exact absurd e.1.1 h
        | cons b pre =>
          simp at e
          exact ⟨pre, post, e.2, by simp at hn; exact hn.2⟩

/-- With distinct keys, membership and lookup coincide (so the order of the list is irrelevant). -/
theorem lookupFirst_eq_some_of_mem {k : κ} {v : ν} {xs : List (κ × ν)} (hn : (keys xs).Nodup)
    (hm : (k, v) ∈ xs) : lookupFirst k xs = some v := by
  induction xs with
  | nil => simp at hm
  | cons a xs ih =>
    obtain ⟨k', v'⟩ := a
    simp only [keys_cons, List.nodup_cons] at hn
    rw [lookupFirst_cons]
    rcases List.mem_cons.1 hm with e | hm'
    · cases e; simp
    · have : k' ≠ k := by
        rintro rfl
        exact hn.1 (List.mem_map.2 ⟨(k', v), hm', rfl⟩)
      simp [this, ih hn.2 hm']

theorem mem_of_lookupFirst_eq_some {k : κ} {v : ν} {xs : List (κ × ν)} (h : lookupFirst k xs = some v) :
    (k, v) ∈ xs := by
  obtain ⟨pre, post, e, _⟩ := (lookupFirst_eq_some_iff k v xs).1 h
  simp [e]

/-- Lookup in a list with distinct keys is invariant under permutation (hash-map iteration order). -/
theorem lookupFirst_perm {xs ys : List (κ × ν)} (hp : xs.Perm ys) (hn : (keys xs).Nodup) (k : κ) :
    lookupFirst k xs = lookupFirst k ys := by
  have hn' : (keys ys).Nodup := (hp.map Prod.fst).nodup_iff.1 hn
  cases h : lookupFirst k xs with
  | some v =>
    exact (lookupFirst_eq_some_of_mem hn' (hp.mem_iff.1 (mem_of_lookupFirst_eq_some h))).symm
  | none =>
    symm
    rw [lookupFirst_eq_none_iff] at h ⊢
    intro hk; exact h ((hp.map Prod.fst).mem_iff.2 hk)

/-- Two lists with the same first-wins lookups have the same key sets. -/
theorem mem_keys_iff_of_lookup_eq {xs ys : List (κ × ν)} (h : ∀ k, lookupFirst k xs = lookupFirst k ys) (k : κ) :
    k ∈ keys xs ↔ k ∈ keys ys := by
  rw [← lookupFirst_isSome_iff, ← lookupFirst_isSome_iff, h]

end lookup

/-! ### Sorted association lists = BTreeMap -/

section sorted
variable (cmp : κ → κ → Ordering)

/-- Strictly increasing keys (the in-order iteration of a `BTreeMap`). -/
def Sorted (xs : List (κ × ν)) : Prop := xs.Pairwise (fun a b => cmp a.1 b.1 = .lt)

/-- `map.entry(k).or_insert(v)`: keeps the existing value when the key is present. -/
def insertIfAbsent : List (κ × ν) → κ → ν → List (κ × ν)
  | [], k, v => [(k, v)]
  | (k', v') :: rest, k, v =>
    match cmp k' k with
    | .lt => (k', v') :: insertIfAbsent rest k v
    | .eq => (k', v') :: rest
    | .gt => (k, v) :: (k', v') :: rest

/-- `map.insert(k, v)`: replaces the value when the key is present (the old key is kept). -/
def insertOverwrite : List (κ × ν) → κ → ν → List (κ × ν)
  | [], k, v => [(k, v)]
  | (k', v') :: rest, k, v =>
    match cmp k' k with
    | .lt => (k', v') :: insertOverwrite rest k v
    | .eq => (k', v) :: rest
    | .gt => (k, v) :: (k', v') :: rest

/-- What `Dedup::for_each` collects from an enumeration: first value per key, in key order. -/
def collectFirst (xs : List (κ × ν)) : List (κ × ν) :=
  xs.foldl (fun m kv => insertIfAbsent cmp m kv.1 kv.2) []

/-- `BTreeMap::from_iter` / a sequence of `insert`s: last value per key, in key order. -/
def fromInserts (xs : List (κ × ν)) : List (κ × ν) :=
  xs.foldl (fun m kv => insertOverwrite cmp m kv.1 kv.2) []

variable {cmp}

theorem sorted_nil : Sorted cmp ([] : List (κ × ν)) := List.Pairwise.nil

theorem Sorted.nodup_keys [ReflCmp cmp] {xs : List (κ × ν)} (h : Sorted cmp xs) : (keys xs).Nodup := by
  unfold keys
  rw [List.nodup_iff_pairwise_ne, List.pairwise_map]
  refine List.Pairwise.imp ?_ h
  intro a b hab e
  rw [e, ReflCmp.compare_self (cmp := cmp)] at hab
  cases hab

theorem keys_insertIfAbsent [LawfulEqCmp cmp] (m : List (κ × ν)) (k : κ) (v : ν) (q : κ) :
    q ∈ keys (insertIfAbsent cmp m k v) ↔ q = k ∨ q ∈ keys m := by
  induction m with
  | nil => simp [insertIfAbsent]
  | cons a m ih =>
    obtain ⟨k', v'⟩ := a
    simp only [insertIfAbsent]
    split
    · simp [ih]; grind
    · next h => have := LawfulEqCmp.eq_of_compare h; subst this; simp
    · simp

theorem keys_insertOverwrite [LawfulEqCmp cmp] (m : List (κ × ν)) (k : κ) (v : ν) (q : κ) :
    q ∈ keys (insertOverwrite cmp m k v) ↔ q = k ∨ q ∈ keys m := by
  induction m with
  | nil => simp [insertOverwrite]
  | cons a m ih =>
    obtain ⟨k', v'⟩ := a
    simp only [insertOverwrite]
    split
    · simp [ih]; grind
    · next h => have := LawfulEqCmp.eq_of_compare h; subst this; simp
    · simp

theorem sorted_insertIfAbsent [TransCmp cmp] [LawfulEqCmp cmp] {m : List (κ × ν)} (h : Sorted cmp m) (k : κ) (v : ν) :
    Sorted cmp (insertIfAbsent cmp m k v) := by
  induction m with
  | nil => simp [insertIfAbsent, Sorted]
  | cons a m ih =>
    obtain ⟨k', v'⟩ := a
    have h' := List.pairwise_cons.1 h
    simp only [insertIfAbsent]
    split
    · next hc =>
      refine List.pairwise_cons.2 ⟨?_, ih h'.2⟩
      intro b hb
      have hb' : b.1 ∈ keys (insertIfAbsent cmp m k v) := List.mem_map.2 ⟨b, hb, rfl⟩
      rcases (keys_insertIfAbsent m k v b.1).1 hb' with e | hm
      · rw [e]; exact hc
      · obtain ⟨c, hc', e⟩ := List.mem_map.1 hm
        rw [← e]; exact h'.1 c hc'
    · exact h
    · next hc =>
      have hlt : cmp k k' = .lt := by rw [OrientedCmp.eq_swap (cmp := cmp)]; simp [hc]
      refine List.pairwise_cons.2 ⟨?_, h⟩
      intro b hb
      rcases List.mem_cons.1 hb with e | hb
      · rw [e]; exact hlt
      · exact TransCmp.lt_trans hlt (h'.1 b hb)

theorem sorted_insertOverwrite [TransCmp cmp] [LawfulEqCmp cmp] {m : List (κ × ν)} (h : Sorted cmp m) (k : κ) (v : ν) :
    Sorted cmp (insertOverwrite cmp m k v) := by
  induction m with
  | nil => simp [insertOverwrite, Sorted]
  | cons a m ih =>
    obtain ⟨k', v'⟩ := a
    have h' := List.pairwise_cons.1 h
    simp only [insertOverwrite]
    split
    · next hc =>
      refine List.pairwise_cons.2 ⟨?_, ih h'.2⟩
      intro b hb
      have hb' : b.1 ∈ keys (insertOverwrite cmp m k v) := List.mem_map.2 ⟨b, hb, rfl⟩
      rcases (keys_insertOverwrite m k v b.1).1 hb' with e | hm
      · rw [e]; exact hc
      · obtain ⟨c, hc', e⟩ := List.mem_map.1 hm
        rw [← e]; exact h'.1 c hc'
    · exact List.pairwise_cons.2 ⟨h'.1, h'.2⟩
    · next hc =>
      have hlt : cmp k k' = .lt := by rw [OrientedCmp.eq_swap (cmp := cmp)]; simp [hc]
      refine List.pairwise_cons.2 ⟨?_, h⟩
      intro b hb
      rcases List.mem_cons.1 hb with e | hb
      · rw [e]; exact hlt
      · exact TransCmp.lt_trans hlt (h'.1 b hb)

variable [DecidableEq κ]

/-- In a sorted list nothing after a greater-or-equal head has a smaller key. -/
theorem lookupFirst_eq_none_of_lt [TransCmp cmp] {m : List (κ × ν)} {k q : κ} (h : Sorted cmp ((k, v) :: m))
    (hq : cmp q k = .lt) : lookupFirst q ((k, v) :: m) = none := by
  rw [lookupFirst_eq_none_iff]
  intro hm
  have h' := List.pairwise_cons.1 h
  rcases List.mem_cons.1 hm with e | hm
  · simp at e; subst e; rw [ReflCmp.compare_self (cmp := cmp)] at hq; cases hq
  · obtain ⟨c, hc, e⟩ := List.mem_map.1 hm
    have := TransCmp.lt_trans hq (h'.1 c hc)
    rw [e, ReflCmp.compare_self (cmp := cmp)] at this; cases this

theorem lookupFirst_insertIfAbsent [TransCmp cmp] [LawfulEqCmp cmp] {m : List (κ × ν)} (h : Sorted cmp m)
    (k : κ) (v : ν) (q : κ) :
    lookupFirst q (insertIfAbsent cmp m k v) = (lookupFirst q m).or (if k = q then some v else none) := by
  induction m with
  | nil => simp [insertIfAbsent, lookupFirst_cons]
  | cons a m ih =>
    obtain ⟨k', v'⟩ := a
    have h' := List.pairwise_cons.1 h
    simp only [insertIfAbsent]
    split
    · next hc =>
      rw [lookupFirst_cons, lookupFirst_cons, ih h'.2]
      split <;> simp
    · next hc =>
      have := LawfulEqCmp.eq_of_compare hc; subst this
      rw [lookupFirst_cons]
      split <;> simp_all
    · next hc =>
      have hlt : cmp k k' = .lt := by rw [OrientedCmp.eq_swap (cmp := cmp)]; simp [hc]
      rw [lookupFirst_cons (k' := k)]
      split
      · next e => subst e; rw [lookupFirst_eq_none_of_lt h hlt]; simp
      · simp

theorem lookupFirst_insertOverwrite [TransCmp cmp] [LawfulEqCmp cmp] {m : List (κ × ν)} (h : Sorted cmp m)
    (k : κ) (v : ν) (q : κ) :
    lookupFirst q (insertOverwrite cmp m k v) = if k = q then some v else lookupFirst q m := by
  induction m with
  | nil => simp [insertOverwrite, lookupFirst_cons]
  | cons a m ih =>
    obtain ⟨k', v'⟩ := a
    have h' := List.pairwise_cons.1 h
    simp only [insertOverwrite]
    split
    · next hc =>
      have hne : k' ≠ k := by rintro rfl; rw [ReflCmp.compare_self (cmp := cmp)] at hc; cases hc
      rw [lookupFirst_cons, lookupFirst_cons, ih h'.2]
      by_cases e1 : k' = q <;> by_cases e2 : k = q <;> simp_all
    · next hc =>
      have := LawfulEqCmp.eq_of_compare hc; subst this
      rw [lookupFirst_cons, lookupFirst_cons]
      split <;> simp_all
    · rw [lookupFirst_cons (k' := k)]

theorem sorted_collectFirst_aux [TransCmp cmp] [LawfulEqCmp cmp] (xs : List (κ × ν)) {m : List (κ × ν)}
    (h : Sorted cmp m) :
    Sorted cmp (xs.foldl (fun m kv => insertIfAbsent cmp m kv.1 kv.2) m) ∧
    ∀ q, lookupFirst q (xs.foldl (fun m kv => insertIfAbsent cmp m kv.1 kv.2) m)
          = (lookupFirst q m).or (lookupFirst q xs) := by
  induction xs generalizing m with
  | nil => simp [h]
  | cons a xs ih =>
    obtain ⟨k, v⟩ := a
    have hs := sorted_insertIfAbsent h k v
    refine ⟨(ih hs).1, fun q => ?_⟩
    rw [List.foldl_cons, (ih hs).2 q, lookupFirst_insertIfAbsent h, lookupFirst_cons]
    cases lookupFirst q m <;> split <;> simp

/-- The map `Dedup` collects is sorted by key … -/
theorem sorted_collectFirst [TransCmp cmp] [LawfulEqCmp cmp] (xs : List (κ × ν)) :
    Sorted cmp (collectFirst cmp xs) := (sorted_collectFirst_aux xs sorted_nil).1

/-- … and maps every key to the first value the enumeration yielded for it. -/
theorem lookupFirst_collectFirst [TransCmp cmp] [LawfulEqCmp cmp] (xs : List (κ × ν)) (q : κ) :
    lookupFirst q (collectFirst cmp xs) = lookupFirst q xs := by
  have := (sorted_collectFirst_aux xs (sorted_nil (cmp := cmp))).2 q
  simpa [collectFirst] using this

omit [DecidableEq κ] in
theorem sorted_fromInserts [TransCmp cmp] [LawfulEqCmp cmp] (xs : List (κ × ν)) :
    Sorted cmp (fromInserts cmp xs) := by
  suffices ∀ m, Sorted cmp m → Sorted cmp (xs.foldl (fun m kv => insertOverwrite cmp m kv.1 kv.2) m) from
    this [] sorted_nil
  induction xs with
  | nil => intro m h; exact h
  | cons a xs ih => intro m h; exact ih _ (sorted_insertOverwrite h a.1 a.2)

end sorted

end EmitModel.Assoc
