/-
  Driver/C16.lean — line-protocol front end of Model/Template.lean.
    stream `c16_eq` : (eq T T…)  →  the full matrix of `Ti == Tj`, rows separated by `/`, one char per entry:
                       `t` true, `f` false, `p` panic
                      T ::= (tpl KIND P…)   KIND ::= ref | owned | toowned | byref | lit   (all identities on parts)
                      P ::= (t xTEXT) | (h xLABEL F)      F ::= - | N   (formatter table index)
-/
import EmitModel.Base.Sexp
import EmitModel.Model.Template

namespace EmitModel.Driver.C16
open EmitModel EmitModel.Template

def fmt? : Sexp → Option (Option Nat)
  | .atom "-" => some none
  | s => s.nat?.map some

def part? : Sexp → Option Part
  | .list [.atom "t", t] => t.bytes?.map Part.text
  | .list [.atom "h", l, f] => do
    let l ← l.bytes?
    let f ← fmt? f
    pure (Part.hole l f)
  | _ => none

def kindOk (k : String) (ps : List Part) : Bool :=
  match k with
  | "ref" | "owned" | "toowned" | "byref" => true
  | "lit" => (asLiteral ps).isSome
  | _ => false

def tpl? : Sexp → Option (List Part)
  | .list (.atom "tpl" :: .atom k :: ps) => do
    let ps ← ps.mapM part?
    if kindOk k ps then pure ps else none
  | _ => none

def resChar : Res → Char
  | .ok true => 't'
  | .ok false => 'f'
  | .panic => 'p'

def runEq (line : String) : String :=
  match Sexp.parse line with
  | some (.list (.atom "eq" :: ts)) =>
    match ts.mapM tpl? with
    | some tpls =>
      if tpls.length < 2 then "bad-op" else
      let rows := tpls.map fun a => String.ofList (tpls.map fun b => resChar (Template.eq a b))
      let out := "/".intercalate rows
      let lit := tpls.all fun t => (asLiteral t).isSome
      let anyEq := (tpls.zipIdx.any fun (a, i) => tpls.zipIdx.any fun (b, j) => i < j && Template.eq a b == .ok true)
      let sig := if tpls.all List.isEmpty then "trivial" else s!"n={tpls.length},lit={lit},someeq={anyEq},p={out.contains 'p'}"
      s!"{out}\t{sig}"
    | none => "bad-op"
  | _ => "bad-op"

def streams : List (String × (String → String)) :=
  [("c16_eq", runEq)]

end EmitModel.Driver.C16
