/-
  Driver/C16.lean — line-protocol front end of Model/Template.lean.
    stream `c16_eq` : (eq T T…)  →  the full matrix of `Ti == Tj`, rows separated by `/`, one char per entry:
                       `t` true, `f` false, `p` panic
                      T ::= (tpl KIND P…)   KIND ::= ref | owned | toowned | byref | lit   (all identities on parts)
                      P ::= (t xTEXT) | (h xLABEL F)      F ::= - | N   (formatter table index)
    stream `c16_render` : (render T (props (xKEY V)…) PK FAIL) → `s=<hex of the String rendering> ev=<callbacks> r=ok|err`
                      V ::= (s xSTR) | (i N) | (b true|false)     PK ::= slice | (and K) | erased | with   (how the harness
                      presents the pairs; all first-wins over the list)      FAIL ::= - | N  (the recording writer fails on
                      callback N);  callbacks: T<text> | V<label>:<value> | F<label>:<value>:<formatted> | L<label>, comma separated
    stream `c16_macro` : (macro IDX xSRC (props (xKEY V)…) (ext (xLABEL xFLAGS)…)) → `parts=<P,…> msg=<hex>`
                      P ::= T<text> | H<label> | H<label>+ (has a formatter);  SRC = source text of the template literal of
                      harness fixture IDX, between the quotes; the model recomputes parts and message from SRC
    stream `c16_scan` : (scan xSRC) → `err` | the parts `macroParts [] SRC` generates: T<text> | H<label> | H<label>:<flags>
-/
import EmitModel.Base.Sexp
import EmitModel.Model.Template
import EmitModel.Model.TemplateMacro

namespace EmitModel.Driver.C16
open EmitModel EmitModel.Template EmitModel.TemplateMacro

def fmt? : Sexp → Option (Option Nat)
  | .atom "-" => some none
  | s => s.nat?.map some

def part? : Sexp → Option Part
  | .list [.atom "t", t] => t.bytes?.map Part.text
  | .list [.atom "h", l, f] => do
    let l ← l.bytes?
    let f ← fmt? f
    pure (Part.hole l f)
  | _ => none

def kindOk (k : String) (ps : List Part) : Bool :=
  match k with
  | "ref" | "owned" | "toowned" | "byref" => true
  | "lit" => (asLiteral ps).isSome
  | _ => false

/-- The template the harness builds for `(tpl KIND P…)`, through the model of the constructor KIND names. -/
def tpl? : Sexp → Option (List Part)
  | .list (.atom "tpl" :: .atom k :: ps) => do
    let ps ← ps.mapM part?
    if !kindOk k ps then none
    else match k, ps with
      | "toowned", ps => pure (toOwned ps)
      | "byref", ps => pure (byRef ps)
      | "lit", [.text t] => pure (literal t)
      | _, ps => pure ps
  | _ => none

/-! The harness's formatter functions (harness/hcore/src/streams/c16.rs `FORMATTERS`). -/

def charCount (bs : List UInt8) : Nat := bs.countP fun b => (b &&& 0xC0) != 0x80

def fmtTable : Nat → Val → List UInt8
  | 0, v => [0x5b] ++ v.display ++ [0x5d]                                        -- "[{}]"
  | 1, v => let d := v.display; List.replicate (6 - charCount d) 0x20 ++ d       -- "{:>6}" of the displayed text
  | _, _ => [0x23]                                                               -- "#"

def val? : Sexp → Option Val
  | .list [.atom "s", s] => s.bytes?.map Val.str
  | .list [.atom "i", n] => n.int?.map Val.int
  | .list [.atom "b", b] => b.bool?.map Val.bool
  | _ => none

def prop? : Sexp → Option (List UInt8 × Val)
  | .list [k, v] => do
    let k ← k.bytes?
    let v ← val? v
    pure (k, v)
  | _ => none

def props? : Sexp → Option (List (List UInt8 × Val))
  | .list (.atom "props" :: ps) => ps.mapM prop?
  | _ => none

def propsKindOk (n : Nat) : Sexp → Bool
  | .atom "slice" | .atom "erased" | .atom "with" | .atom "btree" => true
  | .list [.atom "and", k] => match k.nat? with | some k => k ≤ n | none => false
  | _ => false

def failAt? : Sexp → Option (Option Nat)
  | .atom "-" => some none
  | s => s.nat?.map some

def showEv : Ev → String
  | .text t => "T" ++ hexOfBytes t
  | .holeValue l v => "V" ++ hexOfBytes l ++ ":" ++ hexOfBytes v.display
  | .holeFmt l v f => "F" ++ hexOfBytes l ++ ":" ++ hexOfBytes v.display ++ ":" ++ hexOfBytes (fmtTable f v)
  | .holeLabel l => "L" ++ hexOfBytes l

def runRender (line : String) : String :=
  match Sexp.parse line with
  | some (.list [.atom "render", t, ps, pk, fa]) =>
    match tpl? t, props? ps, failAt? fa with
    | some parts, some props, some failAt =>
      if !propsKindOk props.length pk then "bad-op" else
      match render (stringWriter fmtTable) props parts [] with
      | (_, false) => "bad-op"
      | (out, true) =>
        let (evs, ok) := render (recWriter failAt) props parts []
        let evs' := ",".intercalate (evs.map showEv)
        let nh := parts.countP fun p => match p with | .hole _ _ => true | _ => false
        let hit := parts.countP fun p => match p with | .hole l _ => (lookupFirst l props).isSome | _ => false
        let nf := parts.countP fun p => match p with | .hole l (some _) => (lookupFirst l props).isSome | _ => false
        let sig := if parts.isEmpty then "trivial" else s!"holes={min nh 3},hit={min hit 3},fmt={min nf 2},ok={ok}"
        s!"s={atomOfBytes out} ev={evs'} r={if ok then "ok" else "err"}\t{sig}"
    | _, _, _ => "bad-op"
  | _ => "bad-op"

def resChar : Res → Char
  | .ok true => 't'
  | .ok false => 'f'
  | .panic => 'p'

def runEq (line : String) : String :=
  match Sexp.parse line with
  | some (.list (.atom "eq" :: ts)) =>
    match ts.mapM tpl? with
    | some tpls =>
      if tpls.length < 2 then "bad-op" else
      let rows := tpls.map fun a => String.ofList (tpls.map fun b => resChar (Template.eq a b))
      let out := "/".intercalate rows
      let lit := tpls.all fun t => (asLiteral t).isSome
      let anyEq := (tpls.zipIdx.any fun (a, i) => tpls.zipIdx.any fun (b, j) => i < j && Template.eq a b == .ok true)
      let sig := if tpls.all List.isEmpty then "trivial" else s!"n={tpls.length},lit={lit},someeq={anyEq},p={out.contains 'p'}"
      s!"{out}\t{sig}"
    | none => "bad-op"
  | _ => "bad-op"

def ext? : Sexp → Option (List (List Char × List Char))
  | .list (.atom "ext" :: es) => es.mapM fun e => match e with
    | .list [l, f] => do
      let l ← l.str?
      let f ← f.str?
      pure (l.toList, f.toList)
    | _ => none
  | _ => none

def showMPart : MPart → String
  | .text t => "T" ++ hexOfBytes (utf8 t)
  | .hole l f => "H" ++ hexOfBytes (utf8 l) ++ (if f.isSome then "+" else "")

def runMacro (line : String) : String :=
  match Sexp.parse line with
  | some (.list [.atom "macro", idx, src, ps, ext]) =>
    match idx.nat?, src.str?, props? ps, ext? ext with
    | some _, some src, some props, some ext =>
      match macroParts ext src.toList with
      | none => "bad-op"      -- the model rejects the literal, yet the fixture compiled
      | some mparts =>
        let parts := toParts mparts
        -- every formatter that will be applied must be inside the modelled subset of core::fmt
        let supported := mparts.all fun p => match p with
          | .hole l (some f) => match lookupFirst (utf8 l) props with
            | some v => (applyFlags f v).isSome
            | none => true
          | _ => true
        if !supported then "bad-op" else
        let tbl : Nat → Val → List UInt8 := fun i v => ((flagsAt mparts i).bind fun f => applyFlags f v).getD []
        let (msg, _) := render (stringWriter tbl) props parts []
        let nh := mparts.countP fun p => match p with | .hole _ _ => true | _ => false
        let nf := mparts.countP fun p => match p with | .hole _ (some _) => true | _ => false
        let esc := src.toList.contains '\\'
        let dbl := (src.splitOn "{{").length > 1 || (src.splitOn "}}").length > 1
        s!"parts={",".intercalate (mparts.map showMPart)} msg={atomOfBytes msg}\tholes={min nh 3},fmt={min nf 2},dbl={dbl},bs={esc}"
    | _, _, _, _ => "bad-op"
  | _ => "bad-op"

def showScanPart : MPart → String
  | .text t => "T" ++ hexOfBytes (utf8 t)
  | .hole l none => "H" ++ hexOfBytes (utf8 l)
  | .hole l (some f) => "H" ++ hexOfBytes (utf8 l) ++ ":" ++ hexOfBytes (utf8 f)

def runScan (line : String) : String :=
  match Sexp.parse line with
  | some (.list [.atom "scan", src]) =>
    match src.str? with
    | some src =>
      match macroParts [] src.toList with
      | none => "err\terr"
      | some mparts =>
        let nh := mparts.countP fun p => match p with | .hole _ _ => true | _ => false
        let nf := mparts.countP fun p => match p with | .hole _ (some _) => true | _ => false
        let esc := src.toList.contains '\\'
        let dbl := (src.splitOn "{{").length > 1 || (src.splitOn "}}").length > 1
        let sig := if src.isEmpty then "trivial" else s!"holes={min nh 3},fmt={min nf 2},dbl={dbl},bs={esc}"
        s!"{",".intercalate (mparts.map showScanPart)}\t{sig}"
    | none => "bad-op"
  | _ => "bad-op"

def streams : List (String × (String → String)) :=
  [("c16_eq", runEq), ("c16_render", runRender), ("c16_macro", runMacro), ("c16_scan", runScan)]

end EmitModel.Driver.C16
