/-
  Driver/C20.lean — line-protocol front end of Model/Slot.lean.
    stream `c20`      : (c20 STEP…), STEP ::= (T OP) [slot 0] | (T s1 OP) [slot 1] — a sequential schedule over two slots; thread T (an actor thread in the harness) runs OP
         OP ::= (init I) | obs | (emit E) | flush | enabled
         → one token per step, then the deliveries per configuration
    stream `c20_race` : (race NINIT NEMIT NOBS K) — NINIT racing initialisers, NEMIT emitters × K events, NOBS observers,
         released together by a barrier under the OS scheduler. What every interleaving must satisfy
         (Thm/C20: at_most_one_winner, losers_never_used, all_or_nothing) is all that is compared:
         → winners=<0|1> stray=0 torn=0 unstable=0
-/
import EmitModel.Base.Sexp
import EmitModel.Model.Slot

namespace EmitModel.Driver.C20
open EmitModel EmitModel.Slot

def op? : Sexp → Option Label
  | .list [.atom "init", i] => i.nat?.map Label.init
  | .atom "obs" => some .observe
  | .list [.atom "emit", e] => e.nat?.map Label.emit
  | .atom "flush" => some .flush
  | .atom "enabled" => some .enabled
  | _ => none

/-- `(T OP)` addresses slot 0, `(T s1 OP)` slot 1 -/
def label? : Sexp → Option (Bool × Label)
  | .list [_, .atom "s1", op] => (op? op).map fun l => (true, l)
  | .list [_, op] => (op? op).map fun l => (false, l)
  | _ => none

def showOut : Out → String
  | .initResult b => s!"init={b}"
  | .components none => "comp=empty"
  | .components (some (a, b, c, d, e)) => s!"comp=({a},{b},{c},{d},{e})"
  | .emitted none => "to=none"
  | .emitted (some w) => s!"to={w}"
  | .flushed b => s!"flush={b}"
  | .isEnabled b => s!"en={b}"

def runC20 (line : String) : String :=
  match Sexp.parse line with
  | some (.list (.atom "c20" :: steps)) =>
    match steps.mapM label? with
    | some ls =>
      let r := run2 (init0, init0) ls
      let s := r.1.1
      let outs := r.2
      let showRecv := fun (st : State) => " ".intercalate (st.received.reverse.map fun (c, e) => s!"({c} {e})")
      let usesS1 := ls.any (·.1)
      let ninit := (ls.filter fun l => match l.2 with | .init _ => true | _ => false).length
      let sig := if ls.length ≤ 1 then "trivial" else s!"inits={min ninit 3},won={s.slot.isSome},recv={min s.received.length 3},slots={if usesS1 then 2 else 1}"
      s!"{" ".intercalate (outs.map showOut)} recv=({showRecv s}){if usesS1 then s!" recv1=({showRecv r.1.2})" else ""}\t{sig}"
    | none => "bad-op"
  | _ => "bad-op"

def runRace (line : String) : String :=
  match Sexp.parse line with
  | some (.list [.atom "race", ni, ne, no, k]) =>
    match ni.nat?, ne.nat?, no.nat?, k.nat? with
    | some ni, some _, some _, some _ =>
      -- at_most_one_winner: exactly one winner iff any init ran; the other counts are 0 by
      -- losers_never_used / all_or_nothing for EVERY interleaving
      s!"winners={if ni > 0 then 1 else 0} stray=0 torn=0 unstable=0\tninit={min ni 4}"
    | _, _, _, _ => "bad-op"
  | _ => "bad-op"

/-- stream `c20_global` : (global shared-first|internal-first N) — N threads race to initialise the process-global
    shared slot and N the internal slot, in the given order. Each slot is its own instance of the slot machine,
    so `at_most_one_winner` / `losers_never_used` give one winner per slot whatever happened to the other. -/
def runGlobal (line : String) : String :=
  match Sexp.parse line with
  | some (.list [.atom "global", .atom order, n]) =>
    match n.nat? with
    | some n =>
      if (order != "shared-first" && order != "internal-first") || n == 0 || n > 16 then "bad-op"
      else
        let one (k : Nat) : Nat := (EmitModel.Slot.run EmitModel.Slot.init0 ((List.range k).map fun i => Label.init i)).1.inits.filter (·.2) |>.length
        s!"shared={one n} internal={one n} stray=0\t{order}"
    | none => "bad-op"
  | _ => "bad-op"

def streams : List (String × (String → String)) := [("c20", runC20), ("c20_race", runRace), ("c20_global", runGlobal)]

end EmitModel.Driver.C20
