/-
  Driver/C20.lean — line-protocol front end of Model/Slot.lean.
    stream `c20`      : (c20 STEP…), STEP ::= (T OP) [slot 0] | (T s1 OP) [slot 1] — a sequential schedule over two slots; thread T (an actor thread in the harness) runs OP
         OP ::= (init I) | obs | (emit E) | flush | enabled
         → one token per step, then the deliveries per configuration
    stream `c20_race` : (race NINIT NEMIT NOBS K) — NINIT racing initialisers, NEMIT emitters × K events, NOBS observers,
         released together by a barrier under the OS scheduler. What every interleaving must satisfy
         (Thm/C20: at_most_one_winner, losers_never_used, all_or_nothing) is all that is compared:
         → winners=<0|1> stray=0 torn=0 unstable=0
-/
import EmitModel.Base.Sexp
import EmitModel.Model.Slot

namespace EmitModel.Driver.C20
open EmitModel EmitModel.Slot

def op? : Sexp → Option Label
  | .list [.atom "init", i] => i.nat?.map Label.init
  | .atom "obs" => some .observe
  | .list [.atom "emit", e] => e.nat?.map Label.emit
  | .atom "flush" => some .flush
  | .atom "enabled" => some .enabled
  | _ => none

/-- `(T OP)` addresses slot 0, `(T s1 OP)` slot 1 -/
def label? : Sexp → Option (Bool × Label)
  | .list [_, .atom "s1", op] => (op? op).map fun l => (true, l)
  | .list [_, op] => (op? op).map fun l => (false, l)
  | _ => none

def showOut : Out → String
  | .initResult b => s!"init={b}"
  | .components none => "comp=empty"
  | .components (some (a, b, c, d, e)) => s!"comp=({a},{b},{c},{d},{e})"
  | .emitted none => "to=none"
  | .emitted (some w) => s!"to={w}"
  | .flushed b => s!"flush={b}"
  | .isEnabled b => s!"en={b}"

def runC20 (line : String) : String :=
  match Sexp.parse line with
  | some (.list (.atom "c20" :: steps)) =>
    match steps.mapM label? with
    | some ls =>
      let r := run2 (init0, init0) ls
      let s := r.1.1
      let outs := r.2
      let showRecv := fun (st : State) => " ".intercalate (st.received.reverse.map fun (c, e) => s!"({c} {e})")
      let usesS1 := ls.any (·.1)
      let ninit := (ls.filter fun l => match l.2 with | .init _ => true | _ => false).length
      let sig := if ls.length ≤ 1 then "trivial" else s!"inits={min ninit 3},won={s.slot.isSome},recv={min s.received.length 3},slots={if usesS1 then 2 else 1}"
      s!"{" ".intercalate (outs.map showOut)} recv=({showRecv s}){if usesS1 then s!" recv1=({showRecv r.1.2})" else ""}\t{sig}"
    | none => "bad-op"
  | _ => "bad-op"

def runRace (line : String) : String :=
  match Sexp.parse line with
  | some (.list [.atom "race", ni, ne, no, k]) =>
    match ni.nat?, ne.nat?, no.nat?, k.nat? with
    | some ni, some _, some _, some _ =>
      -- at_most_one_winner: exactly one winner iff any init ran; the other counts are 0 by
      -- losers_never_used / all_or_nothing for EVERY interleaving
      s!"winners={if ni > 0 then 1 else 0} stray=0 torn=0 unstable=0\tninit={min ni 4}"
    | _, _, _, _ => "bad-op"
  | _ => "bad-op"


/-! stream `c20_global`, second case form: (gseq OP…) — a sequential script through the public front doors of the
    process-global slots (one harness process per case).
      OP ::= (init I F) | (tryinit I F) | (initguard I F T) | dropguard | (initint I F) | (tryinitint I F)
           | (emit E LM) | (span E LM) | (rtemit E LM) | (direct E LM) | (emitint E LM) | (flush T) | obs
      F  ::= all | none | (minlvl LEVEL) | (idge N)        LM ::= plain | debug | info | warn | error
    → one token per op, then recv=((cfg id lvl amb clocked|bare)…) flushes=((cfg t)…) -/

def rank? : Sexp → Option Nat
  | .atom "debug" => some 0
  | .atom "info" => some 1
  | .atom "warn" => some 2
  | .atom "error" => some 3
  | _ => none

def lm? : Sexp → Option (Option Nat)
  | .atom "plain" => some none
  | s => (rank? s).map some

def fspec? : Sexp → Option FSpec
  | .atom "all" => some .all
  | .atom "none" => some .none
  | .list [.atom "minlvl", l] => (rank? l).map FSpec.minLvl
  | .list [.atom "idge", n] => n.nat?.map FSpec.idGe
  | _ => none

def gevt? (e l : Sexp) : Option GEvt := do
  let id ← e.nat?
  if id ≥ 1000000 then none
  let lvl ← lm? l
  pure ⟨id, lvl⟩

inductive GKind where
  | init | tryInit | initGuard | dropGuard | initInt | tryInitInt | sent | flush | obs

def glabel? : Sexp → Option (GLabel × GKind)
  | .list [.atom "init", i, f] => do pure (.init (← i.nat?) (← fspec? f), .init)
  | .list [.atom "tryinit", i, f] => do pure (.tryInit (← i.nat?) (← fspec? f), .tryInit)
  | .list [.atom "initguard", i, f, t] => do pure (.initGuard (← i.nat?) (← fspec? f) (← t.nat?), .initGuard)
  | .atom "dropguard" => some (.dropGuard, .dropGuard)
  | .list [.atom "initint", i, f] => do pure (.initInternal (← i.nat?) (← fspec? f), .initInt)
  | .list [.atom "tryinitint", i, f] => do pure (.tryInitInternal (← i.nat?) (← fspec? f), .tryInitInt)
  | .list [.atom "emit", e, l] => do pure (.emit (← gevt? e l), .sent)
  | .list [.atom "span", e, l] => do pure (.span (← gevt? e l), .sent)
  | .list [.atom "rtemit", e, l] => do pure (.emit (← gevt? e l), .sent)
  -- `emit::dbg!(id)`: an event of level debug through the shared runtime (no call-site filter can be given)
  | .list [.atom "dbg", e] => do pure (.emit (← gevt? e (.atom "debug")), .sent)
  | .list [.atom "direct", e, l] => do pure (.direct (← gevt? e l), .sent)
  | .list [.atom "emitint", e, l] => do pure (.emitInternal (← gevt? e l), .sent)
  | .list [.atom "flush", t] => do pure (.flush (← t.nat?), .flush)
  | .atom "obs" => some (.observe, .obs)
  | _ => none

def showG : GKind → GOut → String
  | .init, .inited p => s!"init={if p then "panic" else "ok"}"
  | .initGuard, .inited p => s!"initguard={if p then "panic" else "ok"}"
  | .initInt, .inited p => s!"initint={if p then "panic" else "ok"}"
  | .tryInit, .tried b => s!"tryinit={b}"
  | .tryInitInt, .tried b => s!"tryinitint={b}"
  | _, .dropped => "dropguard"
  | _, .sent none => "to=none"
  | _, .sent (some w) => s!"to={w}"
  | _, .flushed b => s!"flush={b}"
  | _, .comps none => "comp=empty"
  | _, .comps (some w) => s!"comp=({w},{w},{w},{w},{w})"
  | _, _ => "?"

def rankName : Option Nat → String
  | none => "none"
  | some 0 => "debug"
  | some 1 => "info"
  | some 2 => "warn"
  | some _ => "error"

def runGseq (ops : List Sexp) : String :=
  match ops.mapM glabel? with
  | none => "bad-op"
  | some ls =>
    let (s, outs) := grun g0 (ls.map Prod.fst)
    let toks := (ls.map Prod.snd).zip outs |>.map fun (k, o) => showG k o
    let recv := s.delivered.reverse.map fun d =>
      s!"({d.cfg} {d.evt.id} {rankName d.evt.lvl} {match d.amb with | some a => toString a | none => "none"} {if d.clocked then "clocked" else "bare"})"
    let fl := s.flushes.reverse.map fun (c, t) => s!"({c} {t})"
    let sig := s!"gseq,shared={s.shared.slot.isSome},internal={s.internal.slot.isSome},dlv={min s.delivered.length 3},fl={min s.flushes.length 2}"
    s!"{" ".intercalate toks} recv=({" ".intercalate recv}) flushes=({" ".intercalate fl})\t{sig}"

/-- stream `c20_global` : (global shared-first|internal-first N) — N threads race to initialise the process-global
    shared slot and N the internal slot, in the given order. Each slot is its own instance of the slot machine,
    so `at_most_one_winner` / `losers_never_used` give one winner per slot whatever happened to the other. -/
def runGlobal (line : String) : String :=
  match Sexp.parse line with
  | some (.list (.atom "gseq" :: ops)) => runGseq ops
  | some (.list [.atom "global", .atom order, n]) =>
    match n.nat? with
    | some n =>
      if (order != "shared-first" && order != "internal-first") || n == 0 || n > 16 then "bad-op"
      else
        let one (k : Nat) : Nat := (EmitModel.Slot.run EmitModel.Slot.init0 ((List.range k).map fun i => Label.init i)).1.inits.filter (·.2) |>.length
        s!"shared={one n} internal={one n} stray=0\t{order}"
    | none => "bad-op"
  | _ => "bad-op"

def streams : List (String × (String → String)) := [("c20", runC20), ("c20_race", runRace), ("c20_global", runGlobal)]

end EmitModel.Driver.C20
