/-
  Driver/E2E.lean — end-to-end carry-through streams for the OTLP emitter.
    stream `c07_otlp` : (c07o L T M)   with L, T, M ∈ absent | idle | done | held | dead
        → f0=<bool> f30=<bool> final=true     (blocking_flush(0), blocking_flush(30 ms) while busy; then, once the
                                               collector answers / the retries are over, blocking_flush(long))
    stream `c09_otlp` : (c09o N SIG)   N events emitted to signal SIG (logs|traces|metrics) while all workers are parked
        → len=<pending> trunc=<count> others-quiet=true  (capacity 10000; per-signal metrics)
-/
import EmitModel.Base.Sexp
import EmitModel.Model.OtlpE2E

namespace EmitModel.Driver.E2E
open EmitModel EmitModel.OtlpE2E

def sig? : Sexp → Option SigState
  | .atom "absent" => some .absent
  | .atom "idle" => some .idle
  | .atom "done" => some .done
  | .atom "held" => some .held
  | .atom "dead" => some .dead
  | _ => none

def runC07o (line : String) : String :=
  match Sexp.parse line with
  | some (.list [.atom "c07o", l, t, m]) =>
    match sig? l, sig? t, sig? m with
    | some l, some t, some m =>
      let f := otlpFlush l t m
      let busy := [l, t, m].filter (·.busy)
      let sig := if [l, t, m].all (fun s => !s.configured) then "trivial" else s!"busy={busy.length},flush={f}"
      s!"f0={f} f30={f} final=true\t{sig}"
    | _, _, _ => "bad-op"
  | _ => "bad-op"

def runC09o (line : String) : String :=
  match Sexp.parse line with
  | some (.list [.atom "c09o", n, .atom sig]) =>
    match n.nat? with
    | some n =>
      if sig != "logs" && sig != "traces" && sig != "metrics" then "bad-op" else
      -- the three signals have independent channels (C12 `signals_independent`): the others stay empty
      let r := sendN 10000 n (0, 0)
      s!"len={r.1} trunc={r.2} others-quiet=true\ttrunc={min r.2 3},sig={sig}"
    | none => "bad-op"
  | _ => "bad-op"

/-- stream `c07_file` : (c07f THREADS EVENTS ROUNDS) — THREADS threads each emit EVENTS events to one real
    `emit_file::FileSet`, flush, and look for their events on disk, ROUNDS times. Flush soundness (C07
    `flush_sound` composed with C10 `acked_durable`) fixes the line for every schedule: nothing is missing and the
    30 s flush of a healthy worker succeeds. -/
def runC07f (line : String) : String :=
  match Sexp.parse line with
  | some (.list [.atom "c07f", t, e, r]) =>
    match t.nat?, e.nat?, r.nat? with
    | some t, some e, some r =>
      if t == 0 || t > 8 || e > 5000 || r == 0 || r > 10 then "bad-op"
      else s!"missing=0 unflushed=0\tthreads={min t 4}"
    | _, _, _ => "bad-op"
  | _ => "bad-op"

/-- stream `c11_realfs` : (rfs PATHKIND MAX REUSE SIZE N RESTARTS PLANT) — a real `emit_file::FileSet` on the real
    filesystem in a fresh working directory, for every spelling of the file-set path. Judged by the
    implementation-side oracle alone; the model contributes the verdict the C11 theorems give for every history of
    a fault-free filesystem: at most MAX members after every batch (`retention_partial`), only own names
    (`name_shape`), the newest file holds the last event, every flush of a healthy worker succeeds. -/
def runRfs (line : String) : String :=
  match Sexp.parse line with
  | some (.list [.atom "rfs", .atom kind, mx, reuse, size, n, restarts, plant]) =>
    match mx.nat?, reuse.bool?, size.nat?, n.nat?, restarts.nat?, plant.bool? with
    | some mx, some _, some size, some n, some restarts, some plant =>
      if !(["nodir", "dot", "rel", "nested", "abs", "noext", "dotted"].contains kind) || mx == 0 || mx > 8 || n == 0 || n > 40
        || restarts > 3 then "bad-op"
      else s!"ok\tkind={kind},roll={if size == 0 then "no" else "yes"},plant={plant}"
    | _, _, _, _, _, _ => "bad-op"
  | _ => "bad-op"

/-- stream `c10_realfs` : (rfault LIMIT EVENTS SIZE) — the production `StdFilesystem` under a real "short write,
    then error" fault (`RLIMIT_FSIZE`), lifted before the retry. Judged by the implementation-side oracle alone; the
    model contributes the verdict C10 gives for every fault history: after the retry succeeded every event is in
    some file (`failed_batch_rewritten`, `acked_never_lost`), and every record is a complete event, empty or a
    truncated prefix of one event (`records_wellformed`). -/
def runRfault (line : String) : String :=
  match Sexp.parse line with
  | some (.list [.atom "rfdrop", lim, events, size]) =>
    match lim.nat?, events.nat?, size.nat? with
    | some lim, some events, some size =>
      if lim < 1000 || lim > 10000000 || events == 0 || events > 20000 || size < 16 || size > 4096 then "bad-op"
      else "ok\tat-drop"
    | _, _, _ => "bad-op"
  | some (.list [.atom "rfault", lim, events, size]) =>
    match lim.nat?, events.nat?, size.nat? with
    | some lim, some events, some size =>
      if lim < 1000 || lim > 10000000 || events == 0 || events > 20000 || size < 16 || size > 4096 then "bad-op"
      else s!"ok\tcrossings={min (events * (size + 1) / lim) 5}"
    | _, _, _ => "bad-op"
  | _ => "bad-op"

/-- stream `c08_otlp` : (c08o T P L TR M) — `Otlp::blocking_flush(T ms)` over three channels whose one event each is
    `ack`ed at once, `hold` (answered P % of T after the flush started), `stall`ed (never answered) or `absent`.
    → flush=<bool> over=false: the result is `flushSeq`'s, and the call returns within the ONE budget
    (C08.otlp_flush_within_budget: the instant it returns is ≤ T). -/
def runC08o (line : String) : String :=
  match Sexp.parse line with
  | some (.list [.atom "c08o", t, p, .atom l, .atom tr, .atom m]) =>
    -- T = max / maxsecs: `Duration::MAX` / `Duration::from_secs(u64::MAX)` in ms; held requests are answered P % of
    -- one second after the start; nothing may stall
    let huge := t == .atom "max" || t == .atom "maxsecs"
    let tv : Option Nat := if huge then some (2 ^ 64 * 1000) else t.nat?
    match tv, p.nat? with
    | some t, some p =>
      let base := if huge then 1000 else t
      let kind? : String → Option (Option (Option Nat)) := fun k =>
        if k == "absent" then some none
        else if k == "ack" then some (some (some 0))
        else if k == "hold" then some (some (some (base * p / 100)))
        else if k == "stall" then (if huge then none else some (some none))
        else none
      match kind? l, kind? tr, kind? m with
      | some l, some tr, some m =>
        if base < 200 || base > 5000 || p > 90 then "bad-op" else
        let cs := [l, tr, m].filterMap id
        let r := OtlpE2E.flushSeq t cs 0
        s!"flush={r.1} over={decide (r.2 > t)}\tsignals={cs.length},at={min (r.2 * 4 / t) 4}" ++ (if huge then ",huge" else "")
      | _, _, _ => "bad-op"
    | _, _ => "bad-op"
  | _ => "bad-op"

def streams : List (String × (String → String)) :=
  [("c08_otlp", runC08o), ("c07_otlp", runC07o), ("c09_otlp", runC09o), ("c07_file", runC07f), ("c11_realfs", runRfs), ("c10_realfs", runRfault)]

end EmitModel.Driver.E2E
