/-
  Driver/FilePipe.lean — stream `c07_pipe`: the rolling-file emitter as a whole (Model/FilePipe.lean) under IO faults.

  case ::= (c07p (cfg REUSE MAXSIZE) (plan (IDX err) | (IDX short N) …) (round xEV…)…)

  The implementation side runs the REAL pipeline (channel + worker thread + `on_batch` + the batcher's retry loop) on
  OS-scheduled threads, so which operation a fault lands on is not fixed by the case; its verdict is an oracle on the
  I/O alone. This side runs the MODEL of the composition (`FilePipe.step`) under the schedule the harness aims for
  (the first event of a round is a batch of its own, the rest of the round one batch; the receiver runs to
  quiescence before the next round) and prints `flushed` iff the model's own end state says what theorem
  `C07.file_flush_means_synced` says for every schedule: each round's flush callback has fired and every item is
  kept in synced content of a durable file or belongs to a batch the worker gave up.
-/
import EmitModel.Base.Sexp
import EmitModel.Model.FilePipe
import EmitModel.Model.OtlpE2E

namespace EmitModel.Driver.FilePipe
open EmitModel EmitModel.FilePipe

def natsOfBytes (bs : List UInt8) : List Nat := bs.map (·.toNat)

def fault? : Sexp → Option (Nat × FileSet.Fault)
  | .list [i, .atom "err"] => i.nat?.map fun i => (i, .err)
  | .list [i, .atom "short", n] => do
    let i ← i.nat?
    let n ← n.nat?
    pure (i, .short n)
  | _ => none

def round? : Sexp → Option (List (List Nat))
  | .list (.atom "round" :: evs) =>
    evs.mapM fun e => do
      let b ← e.bytes?
      let ns := natsOfBytes b
      if ns.contains 10 || ns.length > 64 then none else some (ns ++ [10])
  | _ => none

/-- 2023-11-14 22:13:20 UTC, the harness's fixed clock. -/
def nowFixed : FileSet.Parts :=
  { years := 2023, months := 11, days := 14, hours := 22, minutes := 13, seconds := 20, nanos := 0 }

/-- One step of the receiver if it has anything to do; `none` when it is quiescent (idle with nothing queued and no
    watcher waiting, waiting idle, or done). The attempt counter stands in for the id source. -/
def rxLabel (s : St) (attempt : Nat) : Option Label :=
  match s.ch.rx with
  | .idle => if s.ch.pending.isEmpty && s.ch.pendFlushW.isEmpty && s.ch.pendTakeW.isEmpty then none else some (.chan .rxTake)
  | .taken _ (_ :: _) _ _ => some (.chan .rxFireTake)
  | .taken [] [] (_ :: _) _ => some (.chan .rxFireFlush)
  | .taken _ [] _ _ => some (.chan .rxBegin)
  | .processing _ _ _ => some (.process nowFixed attempt)
  | .retryWait _ _ _ => some (.chan .rxRetryWaited)
  | .notifying _ => some (.chan .rxFireFlush)
  | .idleWait => some (.chan .rxIdleWaited)
  | .done => none

/-- Run the receiver for at most `fuel` steps; returns the state, the attempts made and whether it got quiescent. -/
def drive (cfg : Cfg) : Nat → St → Nat → St × Nat × Bool
  | 0, s, a => (s, a, false)
  | fuel + 1, s, a =>
    match rxLabel s a with
    | none => (s, a, true)
    | some l =>
      match step cfg s l with
      | none => (s, a, false)
      | some s' => drive cfg fuel s' (match l with | .process _ _ => a + 1 | _ => a)

def sends (cfg : Cfg) (s : St) (xs : List Nat) : Option St :=
  xs.foldlM (fun s x => step cfg s (.chan (.send x))) s

/-- the complete (separator-terminated) records of a content, each with its separator -/
def completeRecords (sep : Nat) : List Nat → List Nat → List (List Nat)
  | [], _ => []
  | b :: rest, acc => if b == sep then (acc.reverse ++ [sep]) :: completeRecords sep rest [] else completeRecords sep rest (b :: acc)

/-- a complete record `body ++ [10]` in synced content of a durable file -/
def keptB (fs : FileSet.St) (e : List Nat) : Bool :=
  fs.fs.any fun nf => nf.2.durable && (completeRecords 10 nf.2.synced []).contains e

def runCase (reuse : Bool) (maxSize : Nat) (plan : List (Nat × FileSet.Fault)) (rounds : List (List (List Nat))) : String :=
  let all : List (List Nat) := rounds.flatten
  let cfg : Cfg :=
    { ch := Batcher.Cfg.real 10000,
      file := { pfx := [97, 112, 112], ext := [108, 111, 103], rollBy := .hour, reuse := reuse, maxFiles := 1000,
                maxSize := maxSize, sep := [10] },
      ev := fun x => all.getD x [10],
      plan := fun i => (plan.lookup i).getD .ok }
  let rec go (rs : List (List (List Nat))) (next w attempts : Nat) (s : St) (okAll : Bool) : St × Nat × Bool :=
    match rs with
    | [] => (s, attempts, okAll)
    | r :: rest =>
      let ids := (List.range r.length).map (· + next)
      match ids with
      | [] => go rest next (w + 1) attempts s okAll
      | x0 :: xs =>
        match sends cfg s [x0] with
        | none => (s, attempts, false)
        | some s1 =>
          -- the receiver takes the first event as a batch of its own …
          let s2 := match step cfg s1 (.chan .rxTake) with | some t => t | none => s1
          -- … the rest of the round queues up behind it, then the flush is requested
          match sends cfg s2 xs with
          | none => (s, attempts, false)
          | some s3 =>
            match step cfg s3 (.chan (.whenFlushed w)) with
            | none => (s, attempts, false)
            | some s4 =>
              let (s5, a5, q) := drive cfg 4000 s4 attempts
              go rest (next + r.length) (w + 1) a5 s5 (okAll && q && s5.ch.fired.contains w)
  let (s, attempts, okAll) := go rounds 0 0 0 (init { fs := [], op := 0, active := none, log := [], faulted := false }) true
  let n := all.length
  let verdict := okAll && (List.range n).all fun x => s.failed.contains x || keptB s.fs (cfg.ev x)
  let sig := if n ≤ 1 then "trivial"
    else s!"attempts={min attempts 6},retries={min s.ch.mRetry 3},failed={min s.failed.length 2},files={min s.fs.fs.length 4},faults={min plan.length 3}"
  -- the files in creation order with their synced / unsynced content, and the number of filesystem operations
  let created : List (List Nat) := s.fs.log.filterMap fun e => match e with | .created n => some n | _ => none
  let showFile (n : List Nat) : Option String :=
    (s.fs.fs.lookup n).map fun f =>
      atomOfBytes (f.synced.map UInt8.ofNat) ++ "/" ++ atomOfBytes (f.unsynced.map UInt8.ofNat)
  let files := ",".intercalate (created.filterMap showFile)
  (if verdict then s!"flushed files=[{files}] ops={s.fs.op}" else "model-does-not-flush") ++ "\t" ++ sig

def runC07p (line : String) : String :=
  match Sexp.parse line with
  | some (.list (.atom "c07p" :: .list [.atom "cfg", reuse, ms] :: .list (.atom "plan" :: fs) :: rs)) =>
    match reuse.bool?, ms.nat?, fs.mapM fault?, rs.mapM round? with
    | some reuse, some ms, some plan, some rounds =>
      if rounds.isEmpty || rounds.length > 6 || rounds.any (·.length > 40) || !(plan.map (·.1)).Nodup then "bad-op"
      else runCase reuse ms plan rounds
    | _, _, _, _ => "bad-op"
  | _ => "bad-op"

/-- stream `c09_file` : (c09f N) — N events emitted to a real `FileSet` while its worker is parked holding a batch of
    one event. → `len=L trunc=T kept=K newest=true`: queue length and truncation count as C09 fixes them for the plain
    `send` (`OtlpE2E.sendN` with the file emitter's capacity 10 000; C09 `sendCount_refines_send`, `sendN_bound`), the
    records on disk after the flush (the held event + what the queue still held), the newest event among them. -/
def runC09f (line : String) : String :=
  match Sexp.parse line with
  | some (.list [.atom "c09f", n]) =>
    match n.nat? with
    | some n =>
      if n > 45000 then "bad-op" else
      let r := OtlpE2E.sendN 10000 n (0, 0)
      s!"len={r.1} trunc={r.2} kept={1 + r.1} newest=true\ttrunc={min r.2 3},len={if r.1 == 0 then "0" else if r.1 == 10000 then "cap" else "mid"}"
    | none => "bad-op"
  | _ => "bad-op"

def streams : List (String × (String → String)) := [("c07_pipe", runC07p), ("c09_file", runC09f)]

end EmitModel.Driver.FilePipe
