/-
  Driver/C04.lean — line-protocol front end of Model/Span.lean.
    stream `c04` : (c04 VARIANT (incoming (xKEY IDVAL)…) (T…)) → REC;REC;…   (VARIANT may be omitted = concrete)
      VARIANT ::= concrete | assert | ref | box | arc | option | boxdyn | arcdyn | assertdyn | slot   the ctxt wrapper /
                  runtime the harness drives; transparent, the model does not depend on it      sorted; REC = kind.tag.trace.parent.span
                                                                        (decimal, `-` = absent)
                | rngsome | rngnone | rngbox | rngarc | rngassert | rngdyn     how the runtime holds its rng (`Tree.hold`):
                                                                        transparent, except `Option::None` = no readings
                | tp                                                    `TraceparentCtxt<ThreadLocalCtxt>`: same records on
                                                                        the class `tpClass`; other cases are rejected (bad-op)
    (c04 tp (incoming) (T…) (header TRACE SPAN FLAGS push|push2)): the incoming ids arrive as a W3C traceparent with a
                  sampled (odd) flags byte, pushed with `Traceparent::push` / `emit_traceparent::push(tp, tracestate)`
      IDVAL ::= (trace N) | (span N) | (num N) | (text xHEX)
      T ::= (event EID (props (xKEY IDVAL)…)) | (cur CID)
          | (span ID KIND EN RT RS (props (xKEY IDVAL)…) T…)    KIND ::= sync|newspan|direct|async|anewspan|adirect
                                                                       | (rsync|rsync2|rasync|rasync2).(ok|errq|errret)
                                                                       | manual | amanual | manual2
                                                                 (manual = the hand-rolled span API: `SpanCtxt::current`,
                                                                  `new_child` / `new_root`, `SpanCtxt::push`, a `Span::new`
                                                                  event emitted inside the frame; manual2 assembles the ids
                                                                  with `TraceId::random`, `Rng::fill`, `SpanId::new`,
                                                                  `SpanCtxt::new`; EN = false pushes `SpanCtxt::empty()` and
                                                                  emits nothing. Same tree node as every other span: the
                                                                  frame lacks the `id` ctxt prop, which no record shows —
                                                                  the span event carries `id` as its own property.)
                                                                 (Result-aware macro completion; the exit path is
                                                                  invisible to the model: completion is inside the frame)
                                                                 EN ::= true|false   RT, RS ::= none | N
          | (hop THREAD T…) | (exec (threads T0 T1…) T…) | (yield) | (par ((branch T…)…) (sched I…))
          | (panic) | (catch T…)                 a panic unwinds to the nearest catch (or ends the case: `;panic`)
    The model executes the tree on the C03 machine (`runT`): `hop`/`exec` become `group` nodes (a
    `Frame::current` carried to that thread), `yield` disappears, the branches of `par` run one after the other.
-/
import EmitModel.Base.Sexp
import EmitModel.Model.Span

namespace EmitModel.Driver.C04
open EmitModel EmitModel.Ctxt EmitModel.Span

def idval? : Sexp → Option IdVal
  | .list [.atom "trace", n] => n.nat?.map IdVal.trace
  | .list [.atom "span", n] => n.nat?.map IdVal.span
  | .list [.atom "num", n] => n.nat?.map IdVal.num
  | .list [.atom "text", s] => s.str?.map IdVal.text
  | _ => none

def prop? : Sexp → Option (String × IdVal)
  | .list [k, v] => do
    let k ← k.str?
    let v ← idval? v
    pure (k, v)
  | _ => none

def props? (tag : String) : Sexp → Option (List (String × IdVal))
  | .list (.atom t :: ps) => if t == tag then ps.mapM prop? else none
  | _ => none

def reading? : Sexp → Option (Option Nat)
  | .atom "none" => some none
  | s => s.nat?.map some

mutual
/-- one S-expression gives zero or more tree nodes (`yield` none, `par` the concatenation of its branches) -/
partial def tree? (t : Nat) : Sexp → Option (List Tree)
  | .list [.atom "event", eid, own] => do
    let eid ← eid.nat?
    let own ← props? "props" own
    pure [.event eid own]
  | .list [.atom "cur", cid] => do
    let cid ← cid.nat?
    pure [.cur cid]
  | .list (.atom "span" :: id :: .atom _ :: en :: rt :: rs :: user :: children) => do
    let id ← id.nat?
    let en ← en.bool?
    let rt ← reading? rt
    let rs ← reading? rs
    let user ← props? "props" user
    let children ← trees? t children
    pure [.span id en rt rs user children]
  | .list (.atom "hop" :: th :: children) => do
    let th ← th.nat?
    let children ← trees? th children
    pure [.group th children]
  | .list (.atom "exec" :: .list (.atom "threads" :: th :: _) :: children) => do
    let th ← th.nat?
    let children ← trees? th children
    pure [.group th children]
  | .list [.atom "panic"] => some [.panic]
  | .list (.atom "catch" :: children) => do
    let children ← trees? t children
    pure [.catch_ children]
  | .list [.atom "yield"] => some []
  | .list [.atom "par", .list branches, .list (.atom "sched" :: _)] => do
    let bs ← branches.mapM fun
      | .list (.atom "branch" :: items) => trees? t items
      | _ => none
    -- a panic that leaves a `par` branch would drop the sibling branches' futures (their started spans then
    -- complete outside their frames): outside the modelled usage, the harness rejects such cases too
    if bs.any Span.panicsL then none else pure bs.flatten
  | _ => none
partial def trees? (t : Nat) (xs : List Sexp) : Option (List Tree) := do
  let ys ← xs.mapM (tree? t)
  pure ys.flatten
end

def showOpt : Option Nat → String
  | none => "-"
  | some n => toString n

def Rec.render (r : Rec) : String :=
  s!"{r.kind}.{showOpt r.tag}.{showOpt r.trace}.{showOpt r.parent}.{showOpt r.span}"

mutual
partial def depth : Tree → Nat
  | .span _ _ _ _ _ ch => 1 + depthL ch
  | .group _ ch => depthL ch
  | .catch_ ch => depthL ch
  | _ => 0
partial def depthL : List Tree → Nat
  | [] => 0
  | x :: xs => max (depth x) (depthL xs)
end

def hasInfix (pat : List Char) : List Char → Bool
  | [] => pat.isEmpty
  | c :: cs => pat.isPrefixOf (c :: cs) || hasInfix pat cs

def signature (line : String) (ts : List Tree) (incoming : List (String × IdVal)) : String :=
  let d := depthL ts
  if d == 0 then "trivial"
  else
    let cs := line.toList
    let has (s : String) : String := if hasInfix s.toList cs then "1" else "0"
    let inc := if incoming.isEmpty then "0" else "1"
    s!"depth={min d 6},in={inc},dis={has " false "},async={has " async "},par={has "(par "},hop={has "(hop "},exec={has "(exec "},none={has " none "},panic={has "(panic)"},res={has " rsync"},ares={has " rasync"},err={has ".err"},man={has " manual"},aman={has " amanual "},yield={has "(yield)"}"

/-- the ctxt wrapper / runtime variant the harness drives; the model is the same for all of them
    (C03 `wrappers_transparent`, `erased_storage_identity`) -/
def variants : List String :=
  ["concrete", "assert", "ref", "box", "arc", "option", "boxdyn", "arcdyn", "assertdyn", "slot"]

/-- how the variant's runtime holds its rng (theorems `rng_holders_transparent`, `rng_none_draws_nothingL`) -/
def rngHolder? : String → Option RngHolder
  | "rngsome" => some .some_
  | "rngnone" => some .none_
  | "rngbox" => some .box
  | "rngarc" => some .arc
  | "rngassert" => some .assertInternal
  | "rngdyn" => some .erased
  | "slot" => some .erased
  | "tp" => some .ref
  | v => if variants.contains v then some .ref else none

def runC04 (line : String) : String :=
  let parsed := match Sexp.parse line with
    | some (.list [.atom "c04", inc, .list ts]) => some ("concrete", RngHolder.ref, inc, ts)
    | some (.list [.atom "c04", .atom v, inc, .list ts]) => (rngHolder? v).map fun h => (v, h, inc, ts)
    -- the incoming ids as a sampled W3C traceparent pushed with `Traceparent::push` / `emit_traceparent::push`
    -- (under `tp`, instead of incoming props): the same as the two ids pushed as typed props
    | some (.list [.atom "c04", .atom "tp", .list [.atom "incoming"], .list ts, .list [.atom "header", tr, sp, fl, .atom via]]) =>
      match tr.nat?, sp.nat?, fl.nat? with
      | some tr, some sp, some fl =>
        if (via == "push" || via == "push2") && 0 < tr && tr < 2 ^ 128 && 0 < sp && sp < 2 ^ 64 && fl < 256 && fl % 2 == 1 then
          some ("tp", RngHolder.ref,
            Sexp.list [.atom "incoming", .list [.atom (atomOfString "trace_id"), .list [.atom "trace", .atom (toString tr)]],
                                         .list [.atom (atomOfString "span_id"), .list [.atom "span", .atom (toString sp)]]], ts)
        else none
      | _, _, _ => none
    | _ => none
  match parsed with
  | some (v, h, inc, ts) =>
    match props? "incoming" inc, (trees? 0 ts).map (holdL h) with
    | some incoming, some ts =>
      if v == "tp" && !tpClass incoming ts then "bad-op" else
      -- the outer `Frame::push(ctxt, incoming).call(..)` on thread 0, context 0, frame handle 0
      let s0 := St.init IdVal true
      let s1 := step s0 (.open 0 0 0 Kind.push incoming)
      let s2 := step s1 (.enter 0 0 0)
      let (recs, _, _) := runL 0 0 ts s2 1
      let out := (recs.map Rec.render).mergeSort (fun a b => !(b < a))
      ";".intercalate out ++ (if Span.panicsL ts then ";panic" else "") ++ "\t" ++ signature line ts incoming
    | _, _ => "bad-op"
  | none => "bad-op"

def streams : List (String × (String → String)) := [("c04", runC04)]

end EmitModel.Driver.C04
