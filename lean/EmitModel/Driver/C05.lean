/-
  Driver/C05.lean — line-protocol front end of Model/SpanGuard.lean.
    stream `c05`  : (c05 ENABLED (clock R…) (ops OP…) [HOLDER]) → deliveries, returned bools, is_enabled after every op
        R  ::= none | N
        OP ::= start | (mdl xS) | (name xS) | (props (xK xV)…) | (map (xK xV)…) | (comp N [AD]) | complete
             | (cwith N [AD]) | drop
        AD ::= rec | ref | fromfn | fromemitter | erased | erasedss | empty     the adapter recorder N sits behind
               (`&C`, `completion::from_fn`, `completion::from_emitter`, `dyn ErasedCompletion`, `… + Send + Sync`,
                `Empty`; default rec = the recorder itself). A delivery is `(N xMDL xNAME PROPS EXTENT)` — the span the
               recorder received — or, behind from_emitter, `(N evt xMDL xTPL PROPS EXTENT)` — the event its emitter got.
        HOLDER ::= direct | ref | some | none | box | arc | assert | dyn | dynss   how the guard holds the scripted clock
               (`T`, `&T`, `Some(T)`, `None`, `Box<T>`, `Arc<T>`, `AssertInternal<T>`, `&dyn ErasedClock`,
                `Box<dyn ErasedClock + Send + Sync>`); default direct
        The list must end with its only terminal (complete | cwith | drop).
    stream `c05d` : (c05d ENABLED LVL PLVL TPL (clock R…) (ambient (xK xV)…) (spanprops (xK xV)…) EXIT [VIA])
        LVL, PLVL, TPL ::= none | xS ; EXIT ::= drop | complete | panic
        VIA ::= ref | erased | erasedss | fromfn       how `completion::Default` is handed to the guard (transparent)
        → the event the default completion emits (or `none`)
-/
import EmitModel.Base.Sexp
import EmitModel.Model.SpanGuard

namespace EmitModel.Driver.C05
open EmitModel EmitModel.SpanGuard

def reading? : Sexp → Option (Option Nat)
  | .atom "none" => some none
  | s => s.nat?.map some

def kv? : Sexp → Option (String × String)
  | .list [k, v] => do pure ((← k.str?), (← v.str?))
  | _ => none

def adapter? : Sexp → Option Adapter
  | .atom "rec" => some .direct
  | .atom "ref" => some .ref
  | .atom "fromfn" => some .fromFn
  | .atom "fromemitter" => some .fromEmitter
  | .atom "erased" => some .erased
  | .atom "erasedss" => some .erasedSendSync
  | .atom "empty" => some .empty
  | _ => none

def holder? : Sexp → Option ClockHolder
  | .atom "direct" => some .direct
  | .atom "ref" => some .ref
  | .atom "some" => some .some_
  | .atom "none" => some .none_
  | .atom "box" => some .box
  | .atom "arc" => some .arc
  | .atom "assert" => some .assertInternal
  | .atom "dyn" => some .erased
  | .atom "dynss" => some .erasedSendSync
  | _ => none

def op? : Sexp → Option Op
  | .atom "start" => some .start
  | .atom "complete" => some .complete
  | .atom "drop" => some .drop
  | .list [.atom "mdl", s] => s.str?.map Op.withMdl
  | .list [.atom "name", s] => s.str?.map Op.withName
  | .list (.atom "props" :: kvs) => (kvs.mapM kv?).map Op.withProps
  | .list (.atom "map" :: kvs) => (kvs.mapM kv?).map Op.mapProps
  | .list [.atom "comp", n] => n.nat?.map fun n => Op.withCompletion (compCode n .direct)
  | .list [.atom "cwith", n] => n.nat?.map fun n => Op.completeWith (compCode n .direct)
  | .list [.atom "comp", n, a] => do pure (Op.withCompletion (compCode (← n.nat?) (← adapter? a)))
  | .list [.atom "cwith", n, a] => do pure (Op.completeWith (compCode (← n.nat?) (← adapter? a)))
  | _ => none

def isTerminal : Op → Bool
  | .complete | .completeWith _ | .drop => true
  | _ => false

def showProps (ps : Props) : String :=
  "(" ++ " ".intercalate (ps.map fun (k, v) => s!"({atomOfString k} {atomOfString v})") ++ ")"

def showExtent : Option (Nat × Nat) → String
  | none => "none"
  | some (a, b) => s!"({a} {b})"

def showCall (c : Call) : String :=
  s!"({c.by_} {atomOfString c.mdl} {atomOfString c.name} {showProps c.props} {showExtent c.extent})"

def showExt : Option Ext → String
  | none => "none"
  | some (.range a b) => s!"({a} {b})"
  | some (.point t) => s!"(point {t})"

def showDelivered : Delivered → String
  | .span _ c => showCall c
  | .event to e => s!"({to} evt {atomOfString e.mdl} {atomOfString e.tpl} {showProps e.props} {showExt e.extent})"

/-- is_enabled after every operation that leaves a usable guard (i.e. every builder op) -/
def enabledTrace (g : Guard) (clk : Clock) : List Op → List Bool
  | [] => []
  | op :: rest =>
    let o := step g clk op
    (if isTerminal op then [] else [o.guard.completion.isSome]) ++ enabledTrace o.guard o.clock rest

def d0 : Data := ⟨"m0", "n0", [("p", "0")]⟩

def wellFormed (ops : List Op) : Bool :=
  match ops.reverse with
  | [] => false
  | t :: bs => isTerminal t && bs.all (fun o => !isTerminal o)

def runC05 (line : String) : String :=
  let parsed := match Sexp.parse line with
    | some (.list [.atom "c05", en, .list (.atom "clock" :: rs), .list (.atom "ops" :: os)]) =>
      some (en, rs, os, ClockHolder.direct)
    | some (.list [.atom "c05", en, .list (.atom "clock" :: rs), .list (.atom "ops" :: os), h]) =>
      (holder? h).map fun h => (en, rs, os, h)
    | _ => none
  match parsed with
  | some (en, rs, os, holder) =>
    match en.bool?, rs.mapM reading?, os.mapM op? with
    | some enabled, some clk, some ops =>
      if !wellFormed ops then "bad-op" else
      let clk := holder.script clk
      let g := new enabled 0 d0
      let (calls, rets, _, _) := run g clk ops
      let en := enabledTrace g clk ops
      let delivered := calls.flatMap deliver
      let out := s!"calls=({" ".intercalate (delivered.map showDelivered)}) rets={rets} enabled={en}"
      let started := ops.contains .start
      let adapters := (ops.filterMap fun | .withCompletion c => some (compAdapter c) | .completeWith c => some (compAdapter c) | _ => none).eraseDups.length
      let sig := if ops.length ≤ 1 then "trivial" else s!"en={enabled},started={started},calls={calls.length},delivered={delivered.length},adapters={adapters},holder={repr holder},term={match ops.getLast? with | some .complete => "complete" | some (.completeWith _) => "cwith" | _ => "drop"}"
      s!"{out}\t{sig}"
    | _, _, _ => "bad-op"
  | none => "bad-op"

def optStr? : Sexp → Option (Option String)
  | .atom "none" => some none
  | s => s.str?.map some

def showEmitted (e : Emitted) : String :=
  s!"({atomOfString e.mdl} {atomOfString e.tpl} {showExt e.extent} {showProps e.props})"

def runC05d (line : String) : String :=
  -- how the default completion is handed to the guard does not enter the model (theorem `adapters_transparent`)
  let line? : Option Sexp := match Sexp.parse line with
    | some (.list [t, en, lvl, plvl, tpl, clk, amb, sps, exit, .atom via]) =>
      if via == "ref" || via == "erased" || via == "erasedss" || via == "fromfn" then
        some (.list [t, en, lvl, plvl, tpl, clk, amb, sps, exit]) else none
    | x => x
  match line? with
  | some (.list [.atom "c05d", en, lvl, plvl, tpl, .list (.atom "clock" :: rs), .list (.atom "ambient" :: amb),
                 .list (.atom "spanprops" :: sps), .atom exit]) =>
    match en.bool?, optStr? lvl, optStr? plvl, optStr? tpl, rs.mapM reading?, amb.mapM kv?, sps.mapM kv? with
    | some enabled, some lvl, some plvl, some tpl, some clk, some ambient, some sprops =>
      if exit != "drop" && exit != "complete" && exit != "panic" then "bad-op" else
      let g := new enabled 0 ⟨"m0", "n0", sprops⟩
      let term := if exit == "complete" then Op.complete else Op.drop
      let (calls, _, _, _) := run g clk [.start, term]
      let evs := calls.map (defaultComplete ⟨tpl, lvl, plvl⟩ (exit == "panic") ambient)
      let out := "(" ++ " ".intercalate (evs.map showEmitted) ++ ")"
      s!"{out}\ten={enabled},exit={exit},lvl={lvl.isSome},plvl={plvl.isSome},tpl={tpl.isSome}"
    | _, _, _, _, _, _, _ => "bad-op"
  | _ => "bad-op"

end EmitModel.Driver.C05

namespace EmitModel.Driver.C05
open EmitModel EmitModel.SpanGuard

/-  stream `c05m` : (c05m FORM LVL OK ERR MAPPED PAN ENABLED EXIT (clock R…) [HOLDER])
        HOLDER (as in c05): the macro call site is generic over the runtime and the runtime holds the scripted clock
        that way (fixtures in c05m/holders.rs: FORM sync|async, OK none|info, nothing else) -/
/-      FORM ::= sync | async | gdrop | gcomplete | block | bunstarted | blate | bwhenf | bwhent | ssetup | asetup ; LVL,OK,ERR,PAN ::= none | debug|info|warn|error
        EXIT ::= ok | early | qerr | reterr | panic
    → ret=<ok1|ok2|ok7|err|panic> events=(…) -/

def optAtom? : Sexp → Option (Option String)
  | .atom "none" => some none
  | .atom s => some (some s)
  | _ => none

def lookupF (k : String) : Props → String
  | [] => "none"
  | (k', v) :: rest => if k' == k then v else lookupF k rest

def showMacroEvent (e : Emitted) : String :=
  s!"(lvl={lookupF "lvl" e.props} err={lookupF "err" e.props} extent={showExt e.extent} name={atomOfString (lookupF "span_name" e.props)} kind={lookupF "evt_kind" e.props} mdl={atomOfString e.mdl} tpl={atomOfString e.tpl})"

def runC05m (line : String) : String :=
  let parsed : Option (Sexp × Option ClockHolder) := match Sexp.parse line with
    | some (.list [t, form, lvl, ok, err, mapped, pan, en, exit, clk, h]) =>
      (holder? h).map fun h => (.list [t, form, lvl, ok, err, mapped, pan, en, exit, clk], some h)
    | some x => some (x, none)
    | none => none
  match parsed with
  | some (.list [.atom "c05m", .atom form, lvl, ok, err, mapped, pan, en, .atom exit, .list (.atom "clock" :: rs)], holder) =>
    match optAtom? lvl, optAtom? ok, optAtom? err, mapped.bool?, optAtom? pan, en.bool?, rs.mapM reading? with
    | some lvl, some ok, some err, some mapped, some pan, some enabled, some clk =>
      let isFn := form == "sync" || form == "async"
      let holderOk := holder.isNone || (isFn && lvl.isNone && err.isNone && !mapped && pan.isNone && (ok.isNone || ok == some "debug"))
      let clk := match holder with | some h => h.script clk | none => clk
      let mdl := if holder.isSome then "hcore::streams::c05m::holders" else "hcore::streams::c05m::fixtures"
      let formOk := holderOk && (isFn || ((form == "gdrop" || form == "gcomplete" || form == "block" || form == "bunstarted" || form == "blate" || form == "bwhenf" || form == "bwhent" || form == "ssetup" || form == "asetup")
        && ok.isNone && err.isNone && !mapped))
      let exit? : Option (Exit × String) :=
        if exit == "ok" then some (.ok, if isFn then "ok1" else "ok7")
        else if exit == "early" && isFn then some (.ok, "ok2")
        else if (exit == "qerr" || exit == "reterr") && isFn then some (.err, "err")
        else if exit == "panic" then some (.panic, "panic")
        else none
      match formOk, exit? with
      | true, some (ex, ret) =>
        let cfg : MacroCfg := ⟨lvl, ok, err, mapped, mapped, pan, form == "gcomplete"⟩
        -- a call-site `when:` filter replaces the runtime's (C01 `call_site_overrides`): `bwhenf` rejects, `bwhent` accepts
        -- `setup:` runs before the span is created; the fixtures' setup switches the filter on
        let enabled := if form == "bwhenf" then false else if form == "bwhent" || form == "ssetup" || form == "asetup" then true else enabled
        -- `blate`: the body reads the clock once before it starts the guard (that reading is not the span's)
        let clk := if form == "blate" then (now clk).2 else clk
        let evs :=
          if form == "bunstarted" then
            -- the guard is dropped (normally or by the panic) without ever having been started
            (run (new enabled compDefault ⟨mdl, "fx {n}", []⟩) clk [.drop]).1.map
              (macroEvent cfg ex "fx {n}" "boom" [] none)
          else macroRun cfg enabled ex clk mdl "fx {n}" "fx {n}"
            (if mapped then "inner-boom" else "boom") []
        s!"ret={ret} events=({" ".intercalate (evs.map showMacroEvent)})\tform={form},res={cfg.useResult},en={enabled},exit={exit},holder={match holder with | some h => repr h | none => "-"}"
      | _, _ => "bad-op"
    | _, _, _, _, _, _, _ => "bad-op"
  | _ => "bad-op"

def streams : List (String × (String → String)) := [("c05", runC05), ("c05d", runC05d), ("c05m", runC05m)]

end EmitModel.Driver.C05
