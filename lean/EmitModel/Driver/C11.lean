/-
  Driver/C11.lean — streams of C11 over Model/FileSet.lean. The case grammar and the runner are those of
  Driver/C10.lean; `c11` differs only in what the generator emphasises (configurations, clocks, shared directories).
    stream `c11`        : (fs …)                                  → see Driver/C10.lean
    stream `c11_name`   : (name xPREFIX xEXT ROLLBY NOW ID)       → created name and its parsed period
    stream `c11_member` : (member xPREFIX xEXT xNAME)             → parsed period | none
    stream `c11_split`  : (split xPATH)                           → err | xDIR xPREFIX xEXT   (dir_prefix_ext)
-/
import EmitModel.Driver.C10

namespace EmitModel.Driver.C11

def streams : List (String × (String → String)) :=
  [("c11", EmitModel.Driver.C10.run), ("c11_name", EmitModel.Driver.C10.runName),
   ("c11_member", EmitModel.Driver.C10.runMember), ("c11_split", EmitModel.Driver.C10.runSplit)]

end EmitModel.Driver.C11
