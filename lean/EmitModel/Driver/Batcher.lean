/-
  Driver/Batcher.lean — line-protocol front end of Model/Batcher.lean (properties C06, C07, C08, C09).

  stream `batcher`:   (b CAP (sp I…) (win W…) (ops OP…))
      CAP  channel capacity; `sp` = 0-based indices of the `on_batch` invocations that panic synchronously (in the
      closure, before a future exists); W ::= (c I SOP…) | (w J SOP…): sender-side ops (s, t, f, e, ds) performed
      INSIDE the receiver's lock-free windows — `c I` right before the I-th `on_batch` invocation (model: in state
      `taken` before `rxBegin`, resp. in `retryWait` before `rxRetryWaited`), `w J` right before the J-th `wait`
      invocation (model: before the label that requests the wait) — and W ::= (cb V SOP…): sender-side ops
      performed from INSIDE the callback of watcher V, at the moment it runs (model: right after the label that
      runs it: `rxFireTake` / `rxFireFlush`, or the `whenFlushed` / `whenEmpty` label itself on the immediate
      path; there `ds` is skipped — a Sender cannot be dropped inside its own method). This exercises the
      interleavings in which sender steps land between the swap-out of a batch and its hand-over, between two
      callbacks, and between the last callback of an empty hand-off and the exit check.
      W ::= (n K SOP…) | (l K SOP…) | (v K SOP…): sender-side ops performed from INSIDE the K-th call (counted from 0
      over the whole case) that `Receiver::exec` itself makes of the user-supplied `Channel::new` / `Channel::len` /
      `Channel::with_capacity` (the harness runs the schedules on its own channel type). Where those calls are and
      whether the state lock is held there is the model's `chanCallsAtStart` / `chanCallsIn` / `chanCallsAfter`: a
      call outside the lock is a position between two receiver labels — the ops are sender labels executed there; a
      call inside the critical section of the hand-off is part of the atomic step `rxTake` — nothing can run there,
      the window prints `+held` (the harness does not assume this of the real code: it probes the lock).
      OP (interpreted in order) ::=
        (s X) send | (t X) try_send | (f W) when_flushed | (e W) when_empty | (ds) drop Sender | (dr) drop Receiver
        (bs X) (bt X) (ba X)        sync::blocking_send / tokio::blocking_send / tokio::send (polled once) with a ZERO
                                    timeout: label `sendOrWaitFirst X` (try_send + queue_full_blocked accounting), then
                                    the loop of send_or_wait with the clock at the timeout — the item is handed back
        (q)                         the metrics sampled right here: tag `q=<len>/<truncated>/<blocked>` (a read)
        (poll)                      poll the receiver future
        (ok) (fail) (retry X…) (pa) release the processing gate with Ok / Err(no_retry) / Err(retry(remainder)) /
                                    a panic inside the future, then poll
        (w)                         release the wait gate (retry back-off or idle wait), then poll
      The hand-polled real receiver only ever rests at an await point, so the driver FUSES the model's receiver
      labels between two await points (`advance`): rxTake; rxBegin; and an `rxOutcome panicSync` whenever the call
      just made is scripted to panic in the closure; every callback is its own label (`rxFireTake`/`rxFireFlush`).
      Each fused label is an application of `Batcher.step`.
      s, t, bs, bt, ba, q, f, e, ds are sender-side ops (SOP): legal at the top level, in windows and in callbacks.
      Output: one token per op `<tag>{,<event>}|<queue_length>/<queue_full_truncated>/<queue_full_blocked>` and a final token
      `F:<receiver state>,<counters>`; events are `!W` (flush callback W ran), `?W` (when_empty callback W ran),
      `~W` (flush callback W dropped unrun),
      `c(X.Y.Z)` (on_batch called with [X,Y,Z]), `w<ns>` (wait requested), `done` (exec returned), `+<tag>` (a
      window op and its result, after the events it caused).
      An op that is not enabled (sender op without Sender, gate release without that gate, …) prints tag `x`.

  stream `batcher_blocking`: the decision tables of the blocking entry points, see `runBlocking`. Send ops print
      `<result>[,within-budget|,over-budget],t=<queue_full_truncated>,b=<queue_full_blocked>`.
-/
import EmitModel.Base.Sexp
import EmitModel.Model.Batcher

namespace EmitModel.Driver.Batcher
open EmitModel EmitModel.Batcher

/-- A sender-side op: performed at the top level of a schedule, inside a window, or from inside a callback. -/
inductive SOp where
  | lab (l : Label)                   -- send / trySend / whenFlushed / whenEmpty / dropSender
  | bsend (kind : String) (x : Nat)   -- bs | bt | ba: sync::blocking_send / tokio::blocking_send / tokio::send, timeout 0
  | q                                 -- the channel's metrics sampled right here
  deriving Repr

inductive Op where
  | sop (o : SOp)
  | dropReceiver
  | sample (l : Label)       -- metrics sampled with a sampler whose callback performs this send / try_send
  | poll
  | out (o : Outcome)
  | waited
  deriving Repr

def nats? (xs : List Sexp) : Option (List Nat) := xs.mapM Sexp.nat?

def sop? : Sexp → Option SOp
  | .list [.atom "s", x] => x.nat?.map fun x => .lab (.send x)
  | .list [.atom "t", x] => x.nat?.map fun x => .lab (.trySend x)
  | .list [.atom "bs", x] => x.nat?.map fun x => .bsend "bs" x
  | .list [.atom "bt", x] => x.nat?.map fun x => .bsend "bt" x
  | .list [.atom "ba", x] => x.nat?.map fun x => .bsend "ba" x
  | .list [.atom "q"] => some .q
  | .list [.atom "f", w] => w.nat?.map fun w => .lab (.whenFlushed w)
  | .list [.atom "e", w] => w.nat?.map fun w => .lab (.whenEmpty w)
  | .list [.atom "ds"] => some (.lab .dropSender)
  | _ => none

def op? (x : Sexp) : Option Op :=
  match sop? x with
  | some o => some (.sop o)
  | none => match x with
    | .list [.atom "m", x] => x.nat?.map fun x => .sample (.trySend x)
    | .list [.atom "ms", x] => x.nat?.map fun x => .sample (.send x)
    | .list [.atom "dr"] => some .dropReceiver
    | .list [.atom "poll"] => some .poll
    | .list [.atom "ok"] => some (.out .ok)
    | .list [.atom "fail"] => some (.out .failNoRetry)
    | .list [.atom "pa"] => some (.out .panicAsync)
    | .list (.atom "retry" :: xs) => (nats? xs).map fun r => .out (.failRetry r)
    | .list [.atom "w"] => some .waited
    | _ => none

def showItems (xs : List Nat) : String := ".".intercalate (xs.map toString)

/-- Events produced by one model step = the growth of the ghost histories, in the order the code produces
    them within that step (callbacks, then the call, then the wait request, then the return). -/
def events (s s' : St) : List String :=
  (s'.firedTake.drop s.firedTake.length).map (fun w => s!"?{w}")
  ++ (s'.fired.drop s.fired.length).map (fun w => s!"!{w}")
  ++ (s'.dropped.drop s.dropped.length).map (fun w => s!"~{w}")
  ++ (s'.calls.drop s.calls.length).map (fun b => s!"c({showItems b})")
  ++ (s'.waits.drop s.waits.length).map (fun d => s!"w{d}")
  ++ (if s'.rx = .done ∧ s.rx ≠ .done ∧ ¬ s'.tornDown then ["done"] else [])

/-- One label of the (extended) LTS; `none` when it is not enabled. -/
def micro (cfg : Cfg) (b : BSt) (l : BLabel) : Option (BSt × List String) :=
  (bstep cfg b l).map fun b' => (b', events b.st b'.st)

def senderTag (cfg : Cfg) (s : St) : Label → String
  | .send _ => "s"
  | .trySend x => match (trySend cfg s x).2 with
    | .ok => "t=ok"
    | .full y => s!"t=full({y})"
    | .closed => "t=closed"
  | .whenFlushed _ => "f"
  | .whenEmpty _ => "e"
  | .dropSender => "ds"
  | .dropReceiver => "dr"
  | _ => "?"

/-- `queue_length/queue_full_truncated/queue_full_blocked` as a metrics sample reads them. -/
def counters (b : BSt) : String := s!"{sampleQueueLength b.st}/{b.st.mTruncated}/{b.mBlocked}"

structure Windows where
  calls : List (Nat × List SOp)
  waits : List (Nat × List SOp)
  cbs : List (Nat × List SOp)     -- sender ops performed from INSIDE the callback of watcher W (once)
  chans : List ((Nat × Nat) × List SOp)   -- ((Channel method, K), ops): inside the K-th receiver-side call of it

/-- How many calls of `Channel::new` / `len` / `with_capacity` the receiver has made so far. -/
structure ChanCnt where
  nNew : Nat := 0
  nLen : Nat := 0
  nCap : Nat := 0
  deriving Repr

def ChanCnt.get (c : ChanCnt) : ChanCall → Nat
  | .new => c.nNew
  | .len => c.nLen
  | .withCapacity => c.nCap

def ChanCnt.bump (c : ChanCnt) : ChanCall → ChanCnt
  | .new => { c with nNew := c.nNew + 1 }
  | .len => { c with nLen := c.nLen + 1 }
  | .withCapacity => { c with nCap := c.nCap + 1 }

def chanCode : ChanCall → Nat
  | .new => 0
  | .len => 1
  | .withCapacity => 2

/-- Driver state: the model state, the watcher ids whose callback payload has already run, and the count of the
    receiver's `Channel` calls. -/
abbrev DS := BSt × List Nat × ChanCnt

/-- The watcher whose callback ran inside this sender label (immediate path of when_flushed / when_empty). -/
def firedNow (s s' : St) : Label → Option Nat
  | .whenFlushed w => if s'.fired.length > s.fired.length then some w else none
  | .whenEmpty w => if s'.firedTake.length > s.firedTake.length then some w else none
  | _ => none

mutual
/-- One sender-side op = one sender label, followed — if the label ran a callback at once — by the sender ops
    scripted for INSIDE that callback (each again a sender label, executed right after: the callback runs after
    the lock is released). `imm` = we are inside a sender call (a callback invoked by when_flushed / when_empty
    itself): the Sender cannot be dropped there, `ds` is skipped on both sides.
    A blocking / async send with a zero timeout is the label `sendOrWaitFirst` followed by the loop of
    `send_or_wait` with the clock at (≥) the timeout: `sendOrWait 0 first [(0, first)]`. Sampling (`q`) is a read. -/
def senderOp (cfg : Cfg) (win : Windows) : Nat → Bool → DS → SOp → DS × String × List String
  | 0, _, ds, _ => (ds, "fuel!", [])
  | _ + 1, _, (b, used), .q =>
    if b.st.senderAlive then ((b, used), s!"q={counters b}", []) else ((b, used), "x", [])
  | _ + 1, _, (b, used), .bsend kind x =>
    match micro cfg b (.sendOrWaitFirst x) with
    | none => ((b, used), "x", [])
    | some (b', e) =>
      let first := (sendOrWaitFirst cfg b x).2
      let tag := match sendOrWait 0 first [(0, first)] with
        | some .ok => s!"{kind}=ok"
        | some (.handedBack y) => s!"{kind}=full({y})"
        | some .errNoItem => s!"{kind}=closed"
        | none => s!"{kind}=pending"
      ((b', used), tag, e)
  | fuel + 1, imm, (b, used), .lab l =>
    if imm && l == .dropSender then ((b, used), "x", [])
    else match micro cfg b (.base l) with
      | none => ((b, used), "x", [])
      | some (b', e) =>
        let tag := senderTag cfg b.st l
        match firedNow b.st b'.st l with
        | some w => let (ds', pe) := cbPayload cfg win fuel true (b', used) w; (ds', tag, e ++ pe)
        | none => ((b', used), tag, e)

/-- The sender ops scripted for inside the callback of watcher `w` (at most once per id); each prints its events,
    then `+<tag>`. -/
def cbPayload (cfg : Cfg) (win : Windows) : Nat → Bool → DS → Nat → DS × List String
  | 0, _, ds, _ => (ds, ["fuel!"])
  | fuel + 1, imm, (b, used, cc), w =>
    if used.contains w then ((b, used, cc), [])
    else match win.cbs.lookup w with
      | none => ((b, used, cc), [])
      | some ops => senderOps cfg win fuel imm (b, w :: used, cc) ops []

def senderOps (cfg : Cfg) (win : Windows) : Nat → Bool → DS → List SOp → List String → DS × List String
  | 0, _, ds, _, acc => (ds, acc ++ ["fuel!"])
  | _ + 1, _, ds, [], acc => (ds, acc)
  | fuel + 1, imm, ds, l :: ls, acc =>
    let (ds', tag, e) := senderOp cfg win fuel imm ds l
    senderOps cfg win fuel imm ds' ls (acc ++ e ++ [s!"+{tag}"])
end

/-- The receiver makes the `Channel` calls `sites` (in this order) at the current position. A call for which the
    schedule has a window: under the lock nothing can be done from inside it (`+held`); outside the lock the
    window's sender ops are sender labels executed right here. Every call is counted. -/
def chanWindows (cfg : Cfg) (win : Windows) : DS → List ChanSite → List String → DS × List String
  | ds, [], acc => (ds, acc)
  | (b, used, cc), site :: rest, acc =>
    let cc' := cc.bump site.call
    match win.chans.lookup (chanCode site.call, cc.get site.call) with
    | none => chanWindows cfg win (b, used, cc') rest acc
    | some ops =>
      if site.locked then chanWindows cfg win (b, used, cc') rest (acc ++ ["+held"])
      else
        let (ds', e) := senderOps cfg win 64 false (b, used, cc') ops []
        chanWindows cfg win ds' rest (acc ++ e)

/-- A receiver label with the window ops that the real code would execute inside it: if the label invokes
    `on_batch` (resp. `wait`) for the I-th (J-th) time and a window is scripted for that index, the window's
    sender labels are executed FIRST (the label reads no shared state), and the output is ordered as the code
    produces it: window ops, then the call / wait. -/
def rxStep (cfg : Cfg) (win : Windows) (ds : DS) (l : Label) : Option (DS × List String) :=
  let (b, used) := ds
  let s := b.st
  match bstep cfg b (.base l) with
  | none => none
  | some b1 =>
    let s1 := b1.st
    let w : Option (List SOp) :=
      if s1.calls.length > s.calls.length then win.calls.lookup s.calls.length
      else if s1.waits.length > s.waits.length then win.waits.lookup s.waits.length
      else none
    match w with
    | none => some ((b1, used), events s s1)
    | some ops =>
      let ((b0, used0), pev) := senderOps cfg win 64 false (b, used) ops []
      match bstep cfg b0 (.base l) with
      | none => some ((b0, used0), pev ++ ["stuck!"])
      | some b2 => some ((b2, used0), pev ++ events b0.st b2.st)

/-- Run the receiver from where it is to its next await point (or its return): the hand-off, every callback one
    by one (each followed by the sender ops scripted for inside it), the call / exit check, and an
    `rxOutcome panicSync` whenever the call just made is scripted to panic in the closure. -/
def advance (cfg : Cfg) (sp : List Nat) (win : Windows) : Nat → DS → List String → DS × List String
  | 0, ds, evs => (ds, evs ++ ["fuel!"])
  | fuel + 1, (b, used), evs =>
    let s := b.st
    -- (label, watcher whose callback this label runs)
    let next : Option (Label × Option Nat) :=
      match s.rx with
      | .idle => some (.rxTake, none)
      | .taken _ (w :: _) _ _ => some (.rxFireTake, some w)
      | .taken [] [] (w :: _) _ => some (.rxFireFlush, some w)
      | .taken _ [] _ _ => some (.rxBegin, none)
      | .notifying (w :: _) => some (.rxFireFlush, some w)
      | .processing _ _ _ => if sp.contains (s.calls.length - 1) then some (.rxOutcome .panicSync, none) else none
      | _ => none
    match next with
    | none => ((b, used), evs)
    | some (l, cb) =>
      -- the `Channel` calls at the start of the label (sender ops there do not touch what the label reads)
      let (ds0, e0) := chanWindows cfg win (b, used) (chanCallsIn s l) []
      match rxStep cfg win ds0 l with
      | none => (ds0, evs ++ e0 ++ ["stuck!"])
      | some (ds', e) =>
        let (ds'', pe) := match cb with
          | none => (ds', [])
          | some w => cbPayload cfg win 64 false ds' w
        -- … and the one right after it (once the `when_empty` callbacks of the hand-off are through)
        let (ds3, ce) := chanWindows cfg win ds'' (chanCallsAfter ds''.1.st l) []
        advance cfg sp win fuel ds3 (evs ++ e0 ++ e ++ pe ++ ce)

def tok (tag : String) (evs : List String) (b : BSt) : String :=
  ",".intercalate (tag :: evs) ++ s!"|{counters b}"

/-- Interpret one op; returns the new state and the output token. -/
def runOp (cfg : Cfg) (sp : List Nat) (win : Windows) (ds : DS) : Op → DS × String
  | .dropReceiver =>
    match micro cfg ds.1 (.base .dropReceiver) with
    | none => (ds, tok "x" [] ds.1)
    | some (b', e) => ((b', ds.2), tok "dr" e b')
  | .sop o =>
    let (ds', tag, e) := senderOp cfg win 64 false ds o
    (ds', tok tag e ds'.1)
  | .sample l =>
    -- `sample_metrics` reads `sampleQueueLength` under the lock and releases it before calling the sampler
    -- (lib.rs:659-678), so the send performed by the sampler's callback is an ordinary sender step
    let _q := sampleQueueLength ds.1.st
    let (ds', tag, e) := senderOp cfg win 64 false ds (.lab l)
    let tag' := if tag == "x" then "x" else if tag == "s" then "ms" else "m" ++ (tag.drop 1).toString
    (ds', tok tag' e ds'.1)
  | .poll =>
    match ds.1.st.rx with
    | .done => (ds, tok "x" [] ds.1)
    | .idle =>
      -- first poll: `exec` starts (`Batch::new()` before the loop)
      let (ds0, e0) := chanWindows cfg win ds chanCallsAtStart []
      let (ds', e) := advance cfg sp win 400 ds0 e0; (ds', tok "r" e ds'.1)
    | _ => (ds, tok "r" [] ds.1)
  | .out o =>
    match ds.1.st.rx with
    | .processing _ _ _ =>
      let (ds0, e0) := chanWindows cfg win ds (chanCallsIn ds.1.st (.rxOutcome o)) []
      match rxStep cfg win ds0 (.rxOutcome o) with
      | none => (ds, tok "x" [] ds.1)
      | some (ds1, e1) => let (ds', e) := advance cfg sp win 400 ds1 (e0 ++ e1); (ds', tok "r" e ds'.1)
    | _ => (ds, tok "x" [] ds.1)
  | .waited =>
    match ds.1.st.rx with
    | .retryWait _ _ _ =>
      match rxStep cfg win ds .rxRetryWaited with
      | none => (ds, tok "x" [] ds.1)
      | some (ds1, e1) => let (ds', e) := advance cfg sp win 400 ds1 e1; (ds', tok "r" e ds'.1)
    | .idleWait =>
      match rxStep cfg win ds .rxIdleWaited with
      | none => (ds, tok "x" [] ds.1)
      | some (ds1, e1) => let (ds', e) := advance cfg sp win 400 ds1 e1; (ds', tok "r" e ds'.1)
    | _ => (ds, tok "x" [] ds.1)

def runOps (cfg : Cfg) (sp : List Nat) (win : Windows) : DS → List Op → List String → DS × List String
  | ds, [], acc => (ds, acc.reverse)
  | ds, o :: os, acc => let (ds', t) := runOp cfg sp win ds o; runOps cfg sp win ds' os (t :: acc)

/-- (kind, index or watcher id, sender ops): kind 0 = before the I-th on_batch call, 1 = before the J-th wait call,
    2 = inside the callback of watcher W, 3 / 4 / 5 = inside the K-th receiver-side call of `Channel::new` / `len` /
    `with_capacity` -/
def window? : Sexp → Option (Nat × Nat × List SOp)
  | .list (.atom "c" :: i :: ops) => do pure (0, ← i.nat?, ← ops.mapM sop?)
  | .list (.atom "w" :: i :: ops) => do pure (1, ← i.nat?, ← ops.mapM sop?)
  | .list (.atom "cb" :: i :: ops) => do pure (2, ← i.nat?, ← ops.mapM sop?)
  | .list (.atom "n" :: i :: ops) => do pure (3, ← i.nat?, ← ops.mapM sop?)
  | .list (.atom "l" :: i :: ops) => do pure (4, ← i.nat?, ← ops.mapM sop?)
  | .list (.atom "v" :: i :: ops) => do pure (5, ← i.nat?, ← ops.mapM sop?)
  | _ => none

def windows? (ws : List Sexp) : Option Windows := do
  let l ← ws.mapM window?
  let pick (k : Nat) := (l.filter (·.1 == k)).map (·.2)
  -- an index / id may be given at most once per kind
  if [0, 1, 2, 3, 4, 5].any (fun k => ((pick k).map (·.1)).eraseDups.length != (pick k).length) then none
  else
    let chan (k code : Nat) : List ((Nat × Nat) × List SOp) := (pick k).map fun (i, ops) => ((code, i), ops)
    pure ⟨pick 0, pick 1, pick 2, chan 3 (chanCode .new) ++ chan 4 (chanCode .len) ++ chan 5 (chanCode .withCapacity)⟩

def rxName (s : St) : String :=
  match s.rx with
  | .idle => "new"
  | .taken _ _ _ _ => "taken"
  | .processing _ _ _ => "proc"
  | .retryWait _ _ _ => "wait"
  | .notifying _ => "notifying"
  | .idleWait => "wait"
  | .done => if s.tornDown then "dropped" else "done"

def finalTok (s : St) : String :=
  s!"F:{rxName s},proc={s.mProcessed},fail={s.mFailed},panic={s.mPanicked},retry={s.mRetry}"

def signature (b : BSt) (nops : Nat) : String :=
  let s := b.st
  if nops = 0 then "trivial"
  else
    let f (p : Bool) (t : String) : String := if p then t else ""
    s!"calls={min s.calls.length 6},rx={rxName s}"
      ++ f (s.mTruncated > 0) ",trunc" ++ f (b.mBlocked > 0) ",blocked" ++ f (s.mRetry > 0) ",retry" ++ f (s.mPanicked > 0) ",panic"
      ++ f (s.mFailed > 0) ",fail" ++ f (!s.fired.isEmpty) ",fired" ++ f (!s.firedTake.isEmpty) ",firedTake" ++ f (!s.dropped.isEmpty) ",dropped"
      ++ f (!s.senderAlive) ",closed" ++ f (s.waits.contains (Cfg.real 1).idleCap) ",idlecap" ++ f (s.callsPerBatch.any (· ≥ 11)) ",exhausted"

/-- Projection of the full trace onto one property's observables (mirrors `Proj` in the Rust stream):
    event kinds kept (by first character), op tags kept, `|queue/truncated[/blocked]` kept, final counters kept. -/
structure Proj where
  events : String
  tags : Bool
  queue : Bool
  blocked : Bool
  counters : Bool

def projFull : Proj := ⟨"!?~cwdP+", true, true, true, true⟩
def proj06 : Proj := ⟨"cdP+", true, true, false, false⟩
def proj07 : Proj := ⟨"!~cP", false, false, false, false⟩
def proj08 : Proj := ⟨"!?~cwdP", false, false, false, true⟩
def proj09 : Proj := ⟨"+", true, true, true, false⟩

def projectTok (p : Proj) (tok : String) : String :=
  if tok.startsWith "F:" then
    if p.counters then tok else (tok.splitOn ",").headD ""
  else
    let (body, q) := match tok.splitOn "|" with
      | [b, q] => (b, q)
      | _ => (tok, "")
    let parts := body.splitOn ","
    let tag := parts.headD ""
    let tag' := if p.tags || tag == "x" then tag else "-"
    let evs := parts.tail.filter fun e => match e.toList with
      | c :: _ => p.events.toList.contains c
      | [] => false
    let q' := if p.blocked then q else "/".intercalate ((q.splitOn "/").take 2)
    ",".intercalate (tag' :: evs) ++ (if p.queue then "|" ++ q' else "")

def runBatcherProj (p : Proj) (line : String) : String :=
  match Sexp.parse line with
  | some (.list [.atom "b", cap, .list (.atom "sp" :: sp), .list (.atom "win" :: ws), .list (.atom "ops" :: ops)]) =>
    -- (capacity 0 is legal: C06 is stated for all capacities; C09's bound for capacities ≥ 1)
    match cap.nat?, nats? sp, windows? ws, ops.mapM op? with
    | some cap, some sp, some win, some ops =>
      let cfg := Cfg.real cap
      let ((b, used, cc), toks) := runOps cfg sp win (binit, [], {}) ops []
      let trace := toks ++ [finalTok b.st]
      let winHit := trace.any fun t => (t.splitOn ",+").length > 1
      let heldHit := trace.any fun t => (t.splitOn ",+held").length > 1
      -- a channel window was reached (every receiver-side call is counted; a window is used when its index is passed)
      let chanHit := win.chans.any fun ((k, i), _) =>
        i < (if k == chanCode .new then cc.nNew else if k == chanCode .len then cc.nLen else cc.nCap)
      " ".intercalate (trace.map (projectTok p)) ++ "\t" ++ signature b ops.length
        ++ (if winHit then ",win" else "") ++ (if used.isEmpty then "" else ",cb")
        ++ (if chanHit then ",chan" else "") ++ (if heldHit then ",held" else "")
    | _, _, _, _ => "bad-op"
  | _ => "bad-op"

def runBatcher : String → String := runBatcherProj projFull

/-! ### stream `batcher_blocking`: (bl API OP CTX RX CAP PREFILL TIMEOUT_MS) → true|false|ok|err(X)|err(noitem)|panic -/

def api? : Sexp → Option Api
  | .atom "sync" => some .sync
  | .atom "tokio" => some .tokio
  | .atom "async" => some .async
  | _ => none

def ctx? : Sexp → Option Ctx
  | .atom "plain" => some .plainThread
  | .atom "mt" => some .tokioMultiThread
  | .atom "ct" => some .tokioCurrentThread
  | .atom "mtnd" => some .tokioMultiThreadNoDrivers
  | .atom "mtndb" => some .tokioMultiThreadNoDriversBlockOn
  | .atom "ctnd" => some .tokioCurrentThreadNoDrivers
  | _ => none

def rxKind? : Sexp → Option RxKind
  | .atom "live" => some .live
  | .atom "stalled" => some .stalled
  | .atom "gone" => some .gone
  | .atom "late" => some .late
  | .atom "refill" => some .refill
  | .atom "hangup" => some .hangup
  | _ => none

def pathName : BlockingPath → String
  | .condvar => "condvar"
  | .blockInPlace => "block_in_place"
  | .handleBlockOn => "handle_block_on"
  | .blockInPlaceAsync => "block_in_place_async"

/-- TIMEOUT in ms; `max` = Duration::MAX, `maxsecs` = u64::MAX seconds. -/
def timeout? : Sexp → Option Nat
  | .atom "max" => some (18446744073709551616 * 1000)
  | .atom "maxsecs" => some (18446744073709551615 * 1000)
  | x => x.nat?

def runBlocking (line : String) : String :=
  match Sexp.parse line with
  | some (.list (.atom "blctx" :: api :: ctxs)) =>
    -- one thread, a sequence of calling contexts: every call is judged by ITS context (`blockingPath` is a function
    -- of the call's context alone); against a healthy receiver with room each one sends and flushes
    match api? api, ctxs.mapM ctx? with
    | some api, some cs =>
      if api = .async ∨ cs.isEmpty ∨ cs.length > 6 ∨
          ¬ cs.all (fun c => c = .plainThread ∨ c = .tokioMultiThreadNoDriversBlockOn ∨ c = .tokioCurrentThread) then "bad-op"
      else
        if cs.any (fun c => pathPanics (blockingPath api c) c) then s!"panic\tctxseq={cs.length}"
        else s!"{" ".intercalate (cs.map fun _ => "send=ok,flush=true")}\tctxseq={cs.length}"
    | _, _ => "bad-op"
  | some (.list [.atom "blseq", api, ctx]) =>
    match api? api, ctx? ctx with
    | some api, some ctx =>
      if api = .async ∨ ¬ (ctx = .plainThread ∨ ctx = .tokioMultiThread ∨ ctx = .tokioCurrentThread) then "bad-op"
      else if pathPanics (blockingPath api ctx) ctx then s!"panic\tseq"
      else match flushSequence (Cfg.real 8) with
        | some (f1, f2, s) =>
          -- C07.flush_sound at the instant flush #2 returns true: everything accepted before it is finalised
          let sound := [1, 2, 3].all fun x => s.finalised.contains x
          s!"{f1},{f2}\tseq,{pathName (blockingPath api ctx)},sound={sound}"
        | none => "blocked\tseq"
    | _, _ => "bad-op"
  | some (.list [.atom "bldrop", cap, rounds]) =>
    -- (cap + 1) · rounds plain sends against a receiver that never runs: what is still alive is what is pending
    -- (C09.capacity_bound, truncation_discards_exactly_capacity)
    match cap.nat?, rounds.nat? with
    | some cap, some rounds =>
      if cap = 0 ∨ cap > 64 ∨ rounds = 0 ∨ rounds > 20 then "bad-op"
      else
        let s := (List.range ((cap + 1) * rounds)).foldl (fun s i => send (Cfg.real cap) s i) init
        s!"live={s.pending.length}\tdrop,trunc={min s.mTruncated 4}"
    | _, _ => "bad-op"
  | some (.list [.atom "blslow", api, d, timeout, n, cap]) =>
    -- a processor whose single attempt takes D behind `tokio::spawn`, a flush requested meanwhile: the duration is
    -- not an input of the model (no label carries one) — `true`, with every item through its final attempt both when
    -- the batch's watchers were notified and when the flush returned (C07.flush_sound on the final state)
    match api? api, d.nat?, timeout.nat?, n.nat?, cap.nat?.filter (· ≥ 1) with
    | some _, some d, some timeout, some n, some cap =>
      if n = 0 ∨ n > cap ∨ cap > 64 ∨ d > 3600000 ∨ timeout < 10000 ∨ timeout > 600000 then "bad-op"
      else match slowFlush (Cfg.real cap) n .ok timeout with
        | some (r, atNotify, atReturn, s) =>
          let sound := (List.range n).all fun i => s.finalised.contains (i + 1)
          s!"{r},{atNotify},{atReturn}\tslow,d={if d > 30000 then "long" else "short"},sound={sound}"
        | none => "blocked\tslow"
    | _, _, _, _, _ => "bad-op"
  | some (.list [.atom "bl", api, .atom op, ctx, rx0, cap, prefill, timeout]) =>
    -- RX = spurious: a stalled receiver, the blocked caller woken twice without its condition being signalled. A
    -- wakeup that leaves the flag unset is a step of `waitTimeout` that changes nothing but the remaining time
    -- (C08.wait_timeout_within_budget): same result as `stalled`, returned within the budget (oracle on the real call)
    let spurious := rx0 == .atom "spurious"
    -- RX = livein: a live receiver spawned from inside the calling runtime — where a receiver is spawned from is no
    -- input of the model (it runs on its own thread): same verdict as `live`
    let livein := rx0 == .atom "livein"
    let rx := if spurious then .atom "stalled" else if livein then .atom "live" else rx0
    match api? api, ctx? ctx, rxKind? rx, cap.nat?.filter (· ≥ 1), prefill.nat?, timeout? timeout with
    | some api, some ctx, some rx, some cap, some prefill, some timeout =>
      let cfg := Cfg.real cap
      let path := blockingPath api ctx
      let rxn := if spurious then "spurious" else if livein then "livein" else match rx with | .live => "live" | .stalled => "stalled" | .gone => "gone" | .late => "late" | .refill => "refill" | .hangup => "hangup"
      let sig := s!"{pathName path},{op},rx={rxn}"
      if spurious ∧ (timeout < 300 ∨ timeout > 5000 ∨ api = .async) then "bad-op" else
      if livein ∧ (api = .async ∨ (ctx ≠ .tokioCurrentThread ∧ ctx ≠ .tokioMultiThread)) then "bad-op" else
      -- the counters after a send: truncations come from the prefill alone, blocked = the first attempt failed
      -- (against a live / late receiver thread with a full queue that depends on thread scheduling: `b=?`)
      let (mt, mb) := blockingSendCounters cfg rx prefill 999
      let cnt := s!",t={mt},b=" ++ (if (rx = .live ∨ rx = .late) ∧ prefill ≥ cap then "?" else toString mb)
      if (api = .async ∧ ctx ≠ .tokioCurrentThread) ∨ (rx = .hangup ∧ (api ≠ .async ∨ op ≠ "flush")) then "bad-op"
      else if rx = .refill ∧ (op ≠ "send" ∨ prefill < cap ∨ timeout < 200 ∨ timeout > 5000) then "bad-op"
      else if pathPanics path ctx then s!"panic\t{sig}"
      else if rx = .refill then
        -- remaining-time accounting (C08.send_or_wait_within_budget): the last clock reading is within 1.4·T
        let (first, obs) := blockingSendObs cfg rx prefill timeout 999
        let res := match sendOrWait timeout first obs with
          | some .ok => "ok"
          | some (.handedBack y) => s!"err({y})"
          | some .errNoItem => "err(noitem)"
          | none => "blocked"
        let within := match sendOrWaitLastReading timeout first obs with
          | some t => decide (t * 10 ≤ timeout * 14)
          | none => true
        -- every wait round is asked for the REMAINING time (C09.send_or_wait_asks_remaining)
        let asked := ".".intercalate ((sendOrWaitAsked timeout first obs).map fun p => toString p.2)
        s!"{res},{if within then "within-budget" else "over-budget"}{cnt}\t{sig},asked={asked}"
      else if api = .async ∧ op = "flush" then s!"{asyncFlush cfg rx prefill timeout}\tasync,{op},rx={rxn}"
      else if op = "flush" then
        match blockingFlush cfg rx prefill timeout with
        | some b => s!"{b}\t{sig}"
        | none => s!"blocked\t{sig}"
      else if op = "send" then
        match blockingSend cfg rx prefill timeout 999 with
        | some .ok => s!"ok{cnt}\t{sig}"
        | some (.handedBack y) => s!"err({y}){cnt}\t{sig}"
        | some .errNoItem => s!"err(noitem){cnt}\t{sig}"
        | none => s!"blocked\t{sig}"
      else "bad-op"
    | _, _, _, _, _, _ => "bad-op"
  | _ => "bad-op"

/-- C08 projection: did the call return or panic. -/
def runBlockingC08 (line : String) : String :=
  match (runBlocking line).splitOn "\t" with
  | [o, sig] => (if o == "panic" then "panic" else if o == "bad-op" then "bad-op" else if o == "blocked" then "blocked"
      else if (o.splitOn "-budget").length > 1 then ",".intercalate ((o.splitOn ",").take 2) else "returned") ++ "\t" ++ sig
  | _ => runBlocking line

/-- stream `batcher_mt` (thorough): an OS-scheduled soak on real threads, judged by the implementation-side oracle
    alone. The model contributes the verdict the theorems give for EVERY interleaving: accepted = delivered +
    capacity × truncations once the receiver has drained and returned (C06.partition_fifo, C06.truncation_counted,
    C09.truncation_discards_exactly_capacity, C08.drain_on_close), no duplicates, per-sender order. -/
def runMt (line : String) : String :=
  match Sexp.parse line with
  -- the receiver dropped while another thread holds the state lock: afterwards the channel is closed, whoever held
  -- the lock (C06.closed_after_receiver_drop); computed, not printed as a constant
  | some (.list [.atom "rxdrop", .atom holder]) =>
    if holder == "push" || holder == "len" then
      let cfg : Cfg := ⟨8, 10, 1, 10, 1, 10⟩
      let s := if holder == "push" then send cfg init 1 else init
      match dropReceiver s with
      | some s' =>
        (match (trySend cfg s' 2).2 with | .closed => "try=closed" | .ok => "try=ok" | .full _ => "try=full") ++
          s!"\trxdrop-{holder}"
      | none => "bad-op"
    else "bad-op"
  | some (.list [.atom "mt", cap, senders, per, .atom mode, seed]) =>
    match cap.nat?.filter (· ≥ 1), senders.nat?.filter (fun n => n ≥ 1 ∧ n ≤ 16), per.nat?.filter (· ≤ 100000),
          seed.nat? with
    | some _, some _, some _, some _ =>
      if mode == "send" || mode == "try" || mode == "mix" || mode == "spin" then s!"conserved\tmt-{mode}" else "bad-op"
    | _, _, _, _ => "bad-op"
  | _ => "bad-op"

/-- stream `batcher_race` (quick): real threads race the teardown of an overflowing queue inside `send` (items
    whose Drop sleeps). What every interleaving of the atomic steps must satisfy (C09.capacity_bound) is all that
    is compared: the largest queue length observed is at most the capacity. -/
def runRace (line : String) : String :=
  match Sexp.parse line with
  | some (.list [.atom "race", cap, nb, seed]) =>
    match cap.nat?.filter (fun c => c ≥ 1 ∧ c ≤ 8), nb.nat?.filter (fun n => n ≥ 1 ∧ n ≤ 4), seed.nat? with
    | some cap, some nb, some _ => s!"max_pending<=cap\trace,cap={cap},nb={nb}"
    | _, _, _ => "bad-op"
  | _ => "bad-op"

def streams : List (String × (String → String)) :=
  [("batcher", runBatcher), ("batcher_c06", runBatcherProj proj06), ("batcher_c07", runBatcherProj proj07),
   ("batcher_c08", runBatcherProj proj08), ("batcher_c09", runBatcherProj proj09),
   ("batcher_blocking", runBlocking), ("batcher_blocking_c07", runBlocking), ("batcher_blocking_c09", runBlocking),
   ("batcher_blocking_c08", runBlockingC08), ("batcher_mt", runMt), ("batcher_race", runRace)]

end EmitModel.Driver.Batcher
