/-
  Driver/C17.lean — line-protocol front end of Model/Level.lean.
    stream `c17`       : (c17 (regs R…) xMDL (props (xKEY V)…)) → true | false
                         R ::= (d MIN DFLT) | (p xPATH MIN DFLT); MIN ::= debug|info|warn|error; DFLT ::= none | MIN
                         V ::= (typed MIN) | (text xSTR) | (int N) | (bool B)
                         R may also be (db MIN) | (pb xPATH MIN): a bare `Level` through `From<Level> for MinLevelFilter`
                         (c17s (regs S…) xMDL (props …)), S ::= (d SEV SDFLT) | (p xPATH SEV SDFLT), SEV ::= 0..7,
                         SDFLT ::= none | SEV: the same map at the harness's user level type `Sev` (Model/Level.lean `sevType`)
    stream `c17_min`   : (min MIN DFLT (props …)) → true | false            (MinLevelFilter alone)
                         (minb MIN (props …))  a bare level converted by From<Level>
                         (mins SEV SDFLT (props …))  MinLevelFilter<Sev>
    stream `c17_parse` : (lvl xSTR) → debug | info | warn | error | none     (Level::from_str)
-/
import EmitModel.Base.Sexp
import EmitModel.Model.Level

namespace EmitModel.Driver.C17
open EmitModel EmitModel.Level

def level? : Sexp → Option Level
  | .atom "debug" => some .debug
  | .atom "info" => some .info
  | .atom "warn" => some .warn
  | .atom "error" => some .error
  | _ => none

def optLevel? : Sexp → Option (Option Level)
  | .atom "none" => some none
  | s => (level? s).map some

def minF? (mn df : Sexp) : Option MinF := do
  let m ← level? mn
  let d ← optLevel? df
  pure ⟨m, d⟩

def reg? : Sexp → Option Reg
  | .list [.atom "d", mn, df] => (minF? mn df).map Reg.dflt
  | .list [.atom "p", p, mn, df] => do
    let path ← p.str?
    let f ← minF? mn df
    pure (Reg.path path f)
  | .list [.atom "db", mn] => (level? mn).map fun l => Reg.dflt (MinF.ofLevel l)
  | .list [.atom "pb", p, mn] => do
    let path ← p.str?
    let l ← level? mn
    pure (Reg.path path (MinF.ofLevel l))
  | _ => none

def sev? (s : Sexp) : Option Nat := s.nat?.bind fun n => if n ≤ 7 then some n else none

def sevF? (mn df : Sexp) : Option (MinG Nat) := do
  let m ← sev? mn
  let d ← match df with
    | .atom "none" => some none
    | d => (sev? d).map some
  pure ⟨m, d⟩

/-- a registration at the user level type: (segments, filter) -/
def sevReg? : Sexp → Option (List String × MinG Nat)
  | .list [.atom "d", mn, df] => (sevF? mn df).map fun f => ([], f)
  | .list [.atom "p", p, mn, df] => do
    let path ← p.str?
    let f ← sevF? mn df
    pure (segments path, f)
  | _ => none

def val? : Sexp → Option LvlVal
  | .list [.atom "typed", l] => (level? l).map LvlVal.typed
  | .list [.atom "text", s] => s.str?.map LvlVal.text
  | .list [.atom "int", n] => n.int?.map LvlVal.int
  | .list [.atom "bool", b] => b.bool?.map LvlVal.bool
  | .list [.atom "otyped", l] => (level? l).map LvlVal.ownedTyped
  | .list [.atom "display", s] => s.str?.map LvlVal.display
  | .list [.atom "otext", s] => s.str?.map LvlVal.ownedText
  | _ => none

def prop? : Sexp → Option (String × LvlVal)
  | .list [k, v] => do
    let k ← k.str?
    let v ← val? v
    pure (k, v)
  | _ => none

def props? : Sexp → Option (List (String × LvlVal))
  | .list (.atom "props" :: ps) => ps.mapM prop?
  | _ => none

def lvlSig (props : List (String × LvlVal)) : String :=
  match lookupFirst "lvl" props with
  | none => "missing"
  | some (.typed _) => "typed"
  | some (.text s) => if (parseLevel s).isSome then "text-ok" else "text-bad"
  | some (.int _) => "int"
  | some (.bool _) => "bool"
  | some (.ownedTyped _) => "owned-typed"
  | some (.display s) => if (parseLevel s).isSome then "display-ok" else "display-bad"
  | some (.ownedText s) => if (parseLevel s).isSome then "otext-ok" else "otext-bad"

def showLevel : Option Level → String
  | none => "none"
  | some l => l.display

def runC17 (line : String) : String :=
  match Sexp.parse line with
  | some (.list [.atom "c17", .list (.atom "regs" :: rs), mdl, ps]) =>
    match rs.mapM reg?, mdl.str?, props? ps with
    | some regs, some mdl, some props =>
      let r := pathMapMatches regs mdl props
      let hit := (Node.lookup compare (build regs) (segments mdl)).isSome
      let sig := if regs.isEmpty then "trivial" else s!"hit={hit},lvl={lvlSig props},regs={min regs.length 4}"
      s!"{r}\t{sig}"
    | _, _, _ => "bad-op"
  | some (.list [.atom "c17s", .list (.atom "regs" :: rs), mdl, ps]) =>
    match rs.mapM sevReg?, mdl.str?, props? ps with
    | some regs, some mdl, some props =>
      let r := pathMapMatchesG (fun f => f.matches sevType props) regs mdl
      let hit := (Node.lookup compare (buildG regs) (segments mdl)).isSome
      let sig := if regs.isEmpty then "trivial" else s!"sev,hit={hit},lvl={lvlSig props},regs={min regs.length 4}"
      s!"{r}\t{sig}"
    | _, _, _ => "bad-op"
  | _ => "bad-op"

def runMin (line : String) : String :=
  match Sexp.parse line with
  | some (.list [.atom "min", mn, df, ps]) =>
    match minF? mn df, props? ps with
    | some f, some props => s!"{f.matches props}\t{lvlSig props},dflt={f.dflt.isSome}"
    | _, _ => "bad-op"
  | some (.list [.atom "minb", mn, ps]) =>
    match level? mn, props? ps with
    | some l, some props => s!"{(MinF.ofLevel l).matches props}\tbare,{lvlSig props}"
    | _, _ => "bad-op"
  | some (.list [.atom "mins", mn, df, ps]) =>
    match sevF? mn df, props? ps with
    | some f, some props => s!"{f.matches sevType props}\tsev,{lvlSig props},dflt={f.dflt.isSome}"
    | _, _ => "bad-op"
  | _ => "bad-op"

def runParse (line : String) : String :=
  match Sexp.parse line with
  | some (.list [.atom "lvl", s]) =>
    match s.str? with
    | some s => let r := showLevel (parseLevel s); s!"{r}\t{r}"
    | none => "bad-op"
  | _ => "bad-op"

/-- stream `c17_child` : (child xCHILD xPARENT) → true | false  (Path::is_child_of), plus the segments of both -/
def runChild (line : String) : String :=
  match Sexp.parse line with
  | some (.list [.atom "child", a, b]) =>
    match a.str?, b.str? with
    | some a, some b =>
      let r := isChildOf a.toList b.toList
      let segs (p : String) := " ".intercalate ((segments p).map atomOfString)
      s!"{r} ({segs a}) ({segs b})\t{r}"
    | _, _ => "bad-op"
  | _ => "bad-op"

def streams : List (String × (String → String)) :=
  [("c17", runC17), ("c17_min", runMin), ("c17_parse", runParse), ("c17_child", runChild)]

end EmitModel.Driver.C17
