/-
  Driver/C15.lean — line-protocol front end of the C15 text-codec models.

  stream `c15_hex` (Model/HexId.lean, Model/TraceparentText.lean):
    (tid xBYTES) | (sid xBYTES)        parse as TraceId / SpanId            → ok(N) | err
    (flags xBYTES)                      parse as TraceFlags                  → ok(N) | err
    (tp xBYTES)                         parse as Traceparent                 → ok(T,S,F) | err   (T,S: N | none)
    (fmt-tid N) | (fmt-sid N)           from_u128/from_u64 then Display      → xTEXT | none
    (fmt-flags N)                       TraceFlags::from_u8 then Display     → xTEXT
    (fmt-tp T S F)                      Traceparent::new(..) then Display    → xTEXT            (T,S = 0 ↦ None)
    (cast-tid V) | (cast-sid V)         Value::cast; V ::= (typed N) | (text xBYTES) | (int TY N)  → ok(N) | err
-/
import EmitModel.Base.Sexp
import EmitModel.Model.Text
import EmitModel.Model.HexId
import EmitModel.Model.TraceparentText
import EmitModel.Model.Timestamp
import EmitModel.Model.PathValid
import EmitModel.Model.KindText

namespace EmitModel.Driver.C15
open EmitModel EmitModel.Text

/-! ### c15_hex -/
section Hex
open EmitModel.HexId EmitModel.TraceparentText

def showOptNat : Option Nat → String
  | some v => s!"ok({v})"
  | none => "err"

/-- why a hex id text was rejected (coverage signature only) -/
def idSig (n : Nat) (bs : List UInt8) : String :=
  if bs.length ≠ 2 * n then (if bs.length < 2 * n then "short" else "long")
  else match decodePairs bs with
    | none => "digit"
    | some dst => if fromBeBytes dst = 0 then "zero" else
      (if bs.any (fun b => 65 ≤ b && b ≤ 70) then "ok-upper" else "ok")

def idVal? (n : Nat) : Sexp → Option IdVal
  | .list [.atom "typed", v] => do
    let v ← v.nat?
    if v = 0 ∨ 256 ^ n ≤ v then none else pure (.typed v)
  | .list [.atom "text", s] => s.bytes?.map IdVal.text
  | .list [.atom "int", .atom _, i] => i.int?.map IdVal.int
  | _ => none

def idValSig : IdVal → String
  | .typed _ => "typed"
  | .text _ => "text"
  | .int _ => "int"

def showOptId : Option Nat → String
  | some v => toString v
  | none => "none"

def tpSig (bs : List UInt8) : String :=
  if bs.length ≠ 55 then "len"
  else if bs[2]? ≠ some dash ∨ bs[35]? ≠ some dash ∨ bs[52]? ≠ some dash then "sep"
  else if sub bs 0 2 ≠ [48, 48] then "version"
  else match parseTraceparent bs with
    | none => "field"
    | some tp => s!"ok,tid={tp.traceId.isSome},sid={tp.spanId.isSome}"

def runHex (line : String) : String :=
  match Sexp.parse line with
  | some (.list [.atom "tid", s]) =>
    match s.bytes? with
    | some bs => s!"{showOptNat (fromStr 16 bs)}\ttid-{idSig 16 bs}"
    | none => "bad-op"
  | some (.list [.atom "sid", s]) =>
    match s.bytes? with
    | some bs => s!"{showOptNat (fromStr 8 bs)}\tsid-{idSig 8 bs}"
    | none => "bad-op"
  | some (.list [.atom "flags", s]) =>
    match s.bytes? with
    | some bs =>
      let r := flagsParse bs
      s!"{showOptNat (r.map UInt8.toNat)}\tflags-{r.isSome}"
    | none => "bad-op"
  | some (.list [.atom "tp", s]) =>
    match s.bytes? with
    | some bs =>
      let out := match parseTraceparent bs with
        | some tp => s!"ok({showOptId tp.traceId},{showOptId tp.spanId},{tp.flags.toNat})"
        | none => "err"
      s!"{out}\ttp-{tpSig bs}"
    | none => "bad-op"
  | some (.list [.atom "fmt-tid", v]) =>
    match v.nat? with
    | some v =>
      if 256 ^ 16 ≤ v then "bad-op"
      else match fromInt v with
        | some v => s!"{atomOfBytes (toHex 16 v)}\tfmt-tid"
        | none => "none\tfmt-tid-zero"
    | none => "bad-op"
  | some (.list [.atom "fmt-sid", v]) =>
    match v.nat? with
    | some v =>
      if 256 ^ 8 ≤ v then "bad-op"
      else match fromInt v with
        | some v => s!"{atomOfBytes (toHex 8 v)}\tfmt-sid"
        | none => "none\tfmt-sid-zero"
    | none => "bad-op"
  | some (.list [.atom "fmt-flags", v]) =>
    match v.nat? with
    | some v => if 256 ≤ v then "bad-op" else s!"{atomOfBytes (flagsToHex (UInt8.ofNat v))}\tfmt-flags"
    | none => "bad-op"
  | some (.list [.atom "fmt-tp", t, s, f]) =>
    match t.nat?, s.nat?, f.nat? with
    | some t, some s, some f =>
      if 256 ^ 16 ≤ t ∨ 256 ^ 8 ≤ s ∨ 256 ≤ f then "bad-op"
      else
        let tp : Traceparent := ⟨fromInt t, fromInt s, UInt8.ofNat f⟩
        s!"{atomOfBytes (fmtTraceparent tp)}\tfmt-tp,tid={tp.traceId.isSome},sid={tp.spanId.isSome}"
    | _, _, _ => "bad-op"
  | some (.list [.atom "cast-tid", v]) =>
    match idVal? 16 v with
    | some v => s!"{showOptNat (v.cast 16)}\tcast-tid-{idValSig v}-{(v.cast 16).isSome}"
    | none => "bad-op"
  | some (.list [.atom "cast-sid", v]) =>
    match idVal? 8 v with
    | some v => s!"{showOptNat (v.cast 8)}\tcast-sid-{idValSig v}-{(v.cast 8).isSome}"
    | none => "bad-op"
  | _ => "bad-op"

end Hex

/-! ### c15_ts -/
section Ts
open EmitModel.Timestamp

def showTs (t : Nat) : String := s!"{t / NANOS}.{t % NANOS}"

def showParts (p : Parts) : String :=
  s!"({p.years} {p.months} {p.days} {p.hours} {p.minutes} {p.seconds} {p.nanos})"

/-- coverage signature of a parse case: which check decided -/
def parseSig (s : List UInt8) : String :=
  if s.length < 20 ∨ s.length > 30 then "len"
  else if s[4]? ≠ some 45 ∨ s[7]? ≠ some 45 ∨ s[10]? ≠ some 84 ∨ s[13]? ≠ some 58 ∨ s[16]? ≠ some 58 then "sep"
  else if s[s.length - 1]? ≠ some 90 then "zone"
  else if s.length > 20 ∧ s[19]? ≠ some 46 then "dot"
  else if s.length = 21 then "empty-frac"
  else match parseRfc3339 s with
    | .ok _ => s!"ok,frac={s.length - 20}"
    | .err => "field"
    | .panic => "panic"

def prec? : Sexp → Option (Option Nat)
  | .atom "none" => some none
  | s => s.nat?.map some

def runTs (line : String) : String :=
  match Sexp.parse line with
  | some (.list [.atom "parse", s]) =>
    match s.bytes? with
    | some bs => s!"{(parseDisplay bs).render showTs}\tparse-{parseSig bs}"
    | none => "bad-op"
  | some (.list [.atom "fmt", p, t]) =>
    match prec? p, t.nat? with
    | some p, some t =>
      if MAX_NS < t then "bad-op"
      else match fmtRfc3339O p t with
        | .ok bs => s!"{atomOfBytes bs}\tfmt-{min 10 (p.getD 10)}"
        | _ => "panic\tfmt-panic"
    | _, _ => "bad-op"
  | some (.list [.atom "ord", p, a, b]) =>
    match prec? p, a.nat?, b.nat? with
    | some p, some a, some b =>
      if MAX_NS < a ∨ MAX_NS < b then "bad-op"
      else match fmtRfc3339O p a, fmtRfc3339O p b with
        | .ok x, .ok y =>
          let r := if bytesLt x y then "lt" else if bytesLt y x then "gt" else "eq"
          s!"{r}\tord-{r}-{min 10 (p.getD 10)}"
        | _, _ => "panic\tord-panic"
    | _, _, _ => "bad-op"
  | some (.list [.atom "to-parts", t]) =>
    match t.nat? with
    | some t =>
      if MAX_NS < t then "bad-op"
      else match toPartsO t with
        | .ok p => s!"{showParts p}\tto-parts,m={p.months}"
        | _ => "panic\tto-parts-panic"
    | none => "bad-op"
  | some (.list [.atom "from-parts", y, mo, d, h, mi, s, n]) =>
    match y.nat?, mo.nat?, d.nat?, h.nat?, mi.nat?, s.nat?, n.nat? with
    | some y, some mo, some d, some h, some mi, some s, some n =>
      if 65536 ≤ y ∨ 256 ≤ mo ∨ 256 ≤ d ∨ 256 ≤ h ∨ 256 ≤ mi ∨ 256 ≤ s ∨ 4294967296 ≤ n then "bad-op"
      else match fromParts ⟨y, mo, d, h, mi, s, n⟩ with
        | .ok (some t) => s!"ok({showTs t})\tfrom-parts-ok,fast={decide (1900 ≤ y ∧ y ≤ 2038)}"
        | .ok none => "none\tfrom-parts-none"
        | .err => "none\tfrom-parts-none"
        | .panic => "panic\tfrom-parts-panic"
    | _, _, _, _, _, _, _ => "bad-op"
  | _ => "bad-op"

end Ts

/-! ### c15_path
    (valid (CP START CONT)…)   one triple per char of the path: code point and its XID_Start / XID_Continue class
                               → true | false                       (is_valid_path / Path::new* / cast to Path)
    (child xCHILD xPARENT)     → true | false                       (Path::is_child_of on raw paths)
-/
section PathS
open EmitModel.PathValid

def charClass? : Sexp → Option (Char × Bool × Bool)
  | .list [cp, s, c] => do
    let n ← cp.nat?
    let s ← s.bool?
    let c ← c.bool?
    if h : n.isValidChar then pure (Char.ofNatAux n h, s, c) else none
  | _ => none

def classOf (tbl : List (Char × Bool × Bool)) (pick : Bool × Bool → Bool) (c : Char) : Bool :=
  match tbl.lookup c with
  | some f => pick f
  | none => false

/-- the same char must not be shipped with two different classes -/
def consistent (tbl : List (Char × Bool × Bool)) : Bool :=
  tbl.all fun (c, f) => tbl.lookup c == some f

def runPath (line : String) : String :=
  match Sexp.parse line with
  | some (.list (.atom "valid" :: cs)) =>
    match cs.mapM charClass? with
    | some tbl =>
      if !consistent tbl then "bad-op"
      else
        let path := tbl.map (·.1)
        let xs := classOf tbl (·.1)
        let xc := classOf tbl (·.2)
        let r := isValidPath xs xc path
        let colons := (path.filter (· == ':')).length
        s!"{r}\t{if path.isEmpty then "trivial" else s!"valid={r},colons={min colons 5},legacy={isValidPathLegacy xs xc path}"}"
    | none => "bad-op"
  | some (.list [.atom "child", c, p]) =>
    match c.bytes?, p.bytes? with
    | some c, some p =>
      let r := isChildOf c p
      s!"{r}\tchild={r},boundary={isCharBoundary c p.length}"
    | _, _ => "bad-op"
  | _ => "bad-op"

end PathS

/-! ### c15_kind
    (kind xSTR)            parse / cast a text as `Kind`   → span | metric | none
    (fmt-kind span|metric) Display                          → xTEXT
-/
section KindS
open EmitModel.KindText

def showKind : Option Kind → String
  | some k => k.display
  | none => "none"

def runKind (line : String) : String :=
  match Sexp.parse line with
  | some (.list [.atom "kind", s]) =>
    match s.str? with
    | some s => let r := showKind (KindVal.cast (.text s)); s!"{r}\t{r}"
    | none => "bad-op"
  | some (.list [.atom "fmt-kind", .atom "span"]) => s!"{atomOfString Kind.span.display}\tfmt"
  | some (.list [.atom "fmt-kind", .atom "metric"]) => s!"{atomOfString Kind.metric.display}\tfmt"
  | _ => "bad-op"

end KindS

def streams : List (String × (String → String)) :=
  [("c15_hex", runHex), ("c15_ts", runTs), ("c15_path", runPath), ("c15_kind", runKind)]

end EmitModel.Driver.C15
