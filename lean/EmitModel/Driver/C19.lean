/-
  Driver/C19.lean — line-protocol front end of Model/Capture.lean.
    stream `c19` : (c19 TYPE VALUE (KEY ATTR OPT) PATH) → the observations of the property read back along PATH
      TYPE  : the harness's name of the static Rust type (ignored here: VALUE is self-describing)
      VALUE ::= (bool B) | (int ITY N) | (f32 BITS xDISP xDBG xSJ xVJ F64LEAF) | F64LEAF | (char CODEPOINT xDBG)
              | (str xS xDBG) | (string xS xDBG) | unit | (none prim|other) | (some VALUE)
              | (seq VALUE…) | (map (VALUE VALUE)…) | (tuple VALUE…)
              | (rec xNAME (xFIELD VALUE)…) | (tstruct xNAME VALUE…) | (ustruct xNAME)
              | (uvar xNAME) | (nvar xNAME VALUE) | (tvar xNAME VALUE…) | (svar xNAME (xFIELD VALUE)…)
              | (err xDBG xMSG…) | (opaque none|xDISP none|xDBG) | (level xTEXT) | (traceid N) | (spanid N)
      F64LEAF ::= (f64 BITS xDISP xDBG xSJ xVJ)
      KEY   ::= k | lvl | err | trace_id | span_id | span_parent
      ATTR  ::= none | display | display_i | debug | debug_i | sval | sval_i | serde | serde_i | value | value_i | error
      OPT   ::= plain | some | none
      PATH  ::= direct | erased | event | owned | shared | owned_thread | ctxt_push | ctxt_root | ctxt_nested | ctxt_thread
              | emit (only with OPT = plain) | emit_ctxt
    Output: `absent` or `(b=… i64=… … null=… disp=… dbg=… sj=… vj=… chain=… tid=…)`; typed pulls are printed unless the
    hook is sval/serde and the value is not a plain primitive; disp/dbg are printed unless the hook is sval/serde;
    dbg is not printed when the captured value is an error (see `shown` in harness/hcore/src/streams/c19.rs).
-/
import EmitModel.Base.Sexp
import EmitModel.Model.Capture

namespace EmitModel.Driver.C19
open EmitModel EmitModel.Capture

def intTy? : String → Option IntTy
  | "i8" => some .i8 | "i16" => some .i16 | "i32" => some .i32 | "i64" => some .i64 | "i128" => some .i128
  | "isize" => some .isize | "u8" => some .u8 | "u16" => some .u16 | "u32" => some .u32 | "u64" => some .u64
  | "u128" => some .u128 | "usize" => some .usize
  | _ => none

def f64Leaf? : Sexp → Option F
  | .list [.atom "f64", bits, d, g, sj, vj] => do
    pure ⟨← bits.nat?, ← d.str?, ← g.str?, ← sj.str?, ← vj.str?⟩
  | _ => none

def optText? : Sexp → Option (Option String)
  | .atom "none" => some none
  | s => s.str?.map some

partial def value? : Sexp → Option V
  | .list [.atom "bool", b] => b.bool?.map V.bool
  | .list [.atom "int", .atom t, n] => do
    let t ← intTy? t
    let i ← n.int?
    if t.inRange i then pure (V.int t i) else none
  | .list [.atom "f32", bits, d, g, sj, vj, wide] => do
    pure (V.f32 ⟨← bits.nat?, ← d.str?, ← g.str?, ← sj.str?, ← vj.str?⟩ (← f64Leaf? wide))
  | s@(.list (.atom "f64" :: _)) => (f64Leaf? s).map V.f64
  | .list [.atom "char", cp, d] => do
    let n ← cp.nat?
    if n < 0x110000 && !(0xD800 ≤ n && n < 0xE000) then pure (V.char (Char.ofNat n) (← d.str?)) else none
  | .list [.atom "str", s, d] => do pure (V.str false (← s.str?) (← d.str?))
  | .list [.atom "string", s, d] => do pure (V.str true (← s.str?) (← d.str?))
  | .atom "unit" => some V.unit
  | .list [.atom "none", .atom "prim"] => some (V.optNone true)
  | .list [.atom "none", .atom "other"] => some (V.optNone false)
  | .list [.atom "some", v] => (value? v).map V.optSome
  | .list (.atom "seq" :: vs) => (vs.mapM value?).map V.seq
  | .list (.atom "tuple" :: vs) => (vs.mapM value?).map V.tuple
  | .list (.atom "map" :: kvs) =>
    (kvs.mapM fun (kv : Sexp) => match kv with
      | Sexp.list [k, v] => do pure ((← value? k), (← value? v))
      | _ => none).map V.map
  | .list (.atom "rec" :: n :: fs) => do pure (V.record (← n.str?) (← fs.mapM field?))
  | .list (.atom "tstruct" :: n :: vs) => do pure (V.tstruct (← n.str?) (← vs.mapM value?))
  | .list [.atom "ustruct", n] => n.str?.map V.ustruct
  | .list [.atom "uvar", n] => n.str?.map V.uvar
  | .list [.atom "nvar", n, v] => do pure (V.nvar (← n.str?) (← value? v))
  | .list (.atom "tvar" :: n :: vs) => do pure (V.tvar (← n.str?) (← vs.mapM value?))
  | .list (.atom "svar" :: n :: fs) => do pure (V.svar (← n.str?) (← fs.mapM field?))
  | .list (.atom "err" :: d :: msgs) => do
    let ms ← msgs.mapM Sexp.str?
    if ms.isEmpty then none else pure (V.err ms (← d.str?))
  | .list [.atom "opaque", d, g] => do pure (V.fmtOnly (← optText? d) (← optText? g))
  | .list [.atom "level", t] => t.str?.map V.level
  | .list [.atom "traceid", n] => n.nat?.map V.traceId
  | .list [.atom "spanid", n] => n.nat?.map V.spanId
  | _ => none
where
  field? : Sexp → Option (String × V)
    | .list [f, v] => do pure ((← f.str?), (← value? v))
    | _ => none

def attr? : String → Option (Option Attr)
  | "none" => some none
  | "display" => some (some (.display false)) | "display_i" => some (some (.display true))
  | "debug" => some (some (.debug false)) | "debug_i" => some (some (.debug true))
  | "sval" => some (some (.sval false)) | "sval_i" => some (some (.sval true))
  | "serde" => some (some (.serde false)) | "serde_i" => some (some (.serde true))
  | "value" => some (some (.value false)) | "value_i" => some (some (.value true))
  | "error" => some (some .error)
  | _ => none

def optForm? : String → Option OptForm
  | "plain" => some .plain | "some" => some .some | "none" => some .none
  | _ => none

def path? : String → Option Path
  | "direct" => some .direct | "erased" => some .erased | "event" => some .event | "owned" => some .owned
  | "shared" => some .shared | "owned_thread" => some .ownedThread | "ctxt_push" => some .ctxtPush
  | "ctxt_root" => some .ctxtRoot | "ctxt_nested" => some .ctxtNested | "ctxt_thread" => some .ctxtThread
  | "emit" => some .emit | "emit_ctxt" => some .emitCtxt
  | _ => none

def isKey (k : String) : Bool :=
  k == "k" || k == "lvl" || k == "err" || k == "trace_id" || k == "span_id" || k == "span_parent"

def showRes : Res → String
  | .b none | .i none | .n none | .s none | .l none => "none"
  | .b (some x) => toString x
  | .i (some x) => toString x
  | .n (some x) => toString x
  | .s (some x) => atomOfString x
  | .t x => atomOfString x
  | .l (some xs) => "(" ++ " ".intercalate (xs.map atomOfString) ++ ")"
  | .flag x => toString x
  | .tid .no => "no"
  | .tid .level => "level"
  | .tid (.trace _) => "trace"
  | .tid (.span _) => "span"

def pullKinds : List (String × ObsKind) :=
  [("b", .pullBool), ("i64", .pullI64), ("u64", .pullU64), ("i128", .pullI128), ("u128", .pullU128),
   ("i32", .pullI32), ("u8", .pullU8), ("f64", .pullF64), ("s", .pullStr), ("bs", .pullBorrowedStr)]

def fmtRes : Res → String
  | .s none => "?"   -- a text the model does not determine was asked for: never equal to an implementation output
  | r => showRes r

/-- the printed observations; `pulls` / `fmt` as decided by `shown` -/
def render (pulls fmt dbg : Bool) (c : Cap) : String :=
  let kv (name : String) (k : ObsKind) := name ++ "=" ++ showRes (observe k c)
  let p := if pulls then pullKinds.map (fun (n, k) => kv n k) else []
  let f := if fmt then
      ["disp=" ++ fmtRes (observe .display c)] ++
        (if dbg then ["dbg=" ++ fmtRes (observe .debug c)] else [])
    else []
  "(" ++ " ".intercalate (p ++ [kv "null" .isNull] ++ f ++
    [kv "sj" .serdeJson, kv "vj" .svalJson, kv "chain" .chain, kv "tid" .downcast]) ++ ")"

def capKind : Cap → String
  | .signed _ => "signed" | .unsigned _ => "unsigned" | .bigSigned _ => "bigSigned" | .bigUnsigned _ => "bigUnsigned"
  | .float _ => "float" | .bool _ => "bool" | .char _ _ => "char" | .str _ _ => "str" | .empty => "empty"
  | .display _ _ => "display" | .debug _ _ => "debug" | .error _ => "error" | .sharedError _ => "sharedError"
  | .sval _ _ _ => "sval" | .serde _ _ _ => "serde"

def runC19 (line : String) : String :=
  match Sexp.parse line with
  | some (.list [.atom "c19", .atom _ty, val, .list [.atom key, .atom attr, .atom opt], .atom path]) =>
    match value? val, attr? attr, optForm? opt, path? path with
    | some v, some a, some form, some p =>
      if !isKey key || (p == .emit && form != .plain) then "bad-op" else
      match captureSite key a form v with
      | none => "bad-op"          -- the call site would not compile
      | some none => s!"absent\t{attr}/{opt}/absent"
      | some (some c) =>
        let hook := hookFor key a
        let out := render (!hook.structured || v.isLeaf) (!hook.structured) c.chain.isNone (readVia p c)
        s!"{out}\t{key}/{attr}/{opt}/{capKind c}/{path}"
    | _, _, _, _ => "bad-op"
  | _ => "bad-op"

def streams : List (String × (String → String)) := [("c19", runC19)]

end EmitModel.Driver.C19
