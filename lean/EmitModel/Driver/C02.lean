/-
  Driver/C02.lean — line-protocol front end of Model/Props.lean.

    stream `c02` : (c02 T (q xKEY…)) →
        e=<pairs>;u=<t|f>;g=<vals>;p=<ints>;d=<pairs>;dg=<vals>;b=<brks>;db=<brks>
      T ::= (pair xK V) | (slice T…) | (arr T…)            -- arr: at most 4 elements ([P; 0] … [P; 4])
          | (btree (xK V)…) | (hash (xK V)…)               -- the INSERTION sequence (`insert`, last value wins)
          | (none) | (some T) | (and T T) | (ref T) | (boxed T) | (shared T) | (erased T)
          | (asmap T) | (dedup T) | (empty)
          | (marr (xK V|none)…)                            -- a `__PrivateMacroProps` runtime array, at most 4 elements
          | (extent N) | (extent N M)                      -- N, M < 2^50 nanoseconds
          | (spanctxt TRACE SPAN PARENT)                   -- each `none` or a non-zero id < 2^63
          | (span xNAME T) | (metric xNAME xAGG V T)
          | (frame STAGE…)   STAGE ::= (root T) | (push T) -- the frame a real ThreadLocalCtxt holds after the stages
      top level only: (snap direct|opt|optnone|erased STAGE…)   -- observed inside `with_current`
      V ::= (i N) | (s xSTR)
      e  = enumeration (hash-map segments are listed in key order on both sides), u = is_unique,
      g  = get per query key, p = pull::<i64> per query key, d = enumeration of `.dedup()`, dg = get on `.dedup()`,
      b  = for every break index i in 0..=len(e): visitor calls and `+` when the result is Break, `.` otherwise,
      db = the same on `.dedup()`.
    stream `c02_static` : (static INDEX (xK V)×6 (q xKEY…)) → the same observables on the INDEX-th statically typed
                          nesting of the real combinators over the six pairs (no adapter in the harness)
    stream `c02_macro` : (macro INDEX) → e=…;u=<t|f|->;g=…;m=<hex of the rendered message>
                         the INDEX-th call site of Model/PropsFixtures.lean (= harness/hcore/src/c02_fixtures.rs):
                         `emit::props!` (the collection itself), `emit::emit!` and `#[emit::span]` (the event's props at
                         the emitter; for span sites `e` is sorted because the ambient frame is hash-ordered)
-/
import EmitModel.Base.Sexp
import EmitModel.Model.Props
import EmitModel.Model.PropsFixtures

namespace EmitModel.Driver.C02
open EmitModel EmitModel.Props EmitModel.Assoc

def val? : Sexp → Option Val
  | .list [.atom "i", n] => n.int?.map Val.int
  | .list [.atom "s", s] => s.str?.map Val.str
  -- `Value::null()` (a captured `None`): a value like any other, it casts to nothing
  | .list [.atom "n", .atom "0"] => some (.tok "null" 0)
  | _ => none

def entry? : Sexp → Option (String × Val)
  | .list [k, v] => do pure ((← k.str?), (← val? v))
  | _ => none

def optEntry? : Sexp → Option (String × Option Val)
  | .list [k, .atom "none"] => do pure ((← k.str?), none)
  | .list [k, v] => do pure ((← k.str?), some (← val? v))
  | _ => none

def ts? (s : Sexp) : Option Nat := s.nat?.bind fun n => if n < 2 ^ 50 then some n else none

def optId? : Sexp → Option (Option Nat)
  | .atom "none" => some none
  | s => s.nat?.bind fun n => if n == 0 || n ≥ 2 ^ 63 then none else some (some n)

mutual
partial def stages? (cur : List (String × Val)) : List Sexp → Option (List (String × Val))
  | [] => some cur
  | .list [.atom "root", t] :: rest => do stages? (pushInto [] (enum (← tree? t))) rest
  | .list [.atom "push", t] :: rest => do stages? (pushInto cur (enum (← tree? t))) rest
  | _ => none
partial def tree? : Sexp → Option P
  | .list [.atom "pair", k, v] => do pure (.pair (← k.str?) (← val? v))
  | .list (.atom "slice" :: ts) => (ts.mapM tree?).map .slice
  | .list (.atom "arr" :: ts) => if ts.length ≤ 4 then (ts.mapM tree?).map .arr else none
  | .list (.atom "btree" :: es) => (es.mapM entry?).map fun xs => .btree (fromInserts compare xs)
  | .list (.atom "hash" :: es) => (es.mapM entry?).map fun xs => .hash (fromInserts compare xs)
  | .list [.atom "none"] => some .optNone
  | .list [.atom "some", t] => (tree? t).map .optSome
  | .list [.atom "and", a, b] => do pure (.and (← tree? a) (← tree? b))
  | .list [.atom "ref", t] => (tree? t).map .ref
  | .list [.atom "boxed", t] => (tree? t).map .boxed
  | .list [.atom "shared", t] => (tree? t).map .shared
  | .list [.atom "erased", t] => (tree? t).map .erased
  | .list [.atom "asmap", t] => (tree? t).map .asMap
  | .list [.atom "dedup", t] => (tree? t).map .dedup
  | .list [.atom "empty"] => some .empty
  | .list (.atom "marr" :: es) => if es.length ≤ 4 then (es.mapM optEntry?).map .macro else none
  | .list [.atom "extent", n] => (ts? n).map .extentPoint
  | .list [.atom "extent", a, b] => do pure (.extentRange (← ts? a) (← ts? b))
  | .list [.atom "spanctxt", t, sp, pa] => do pure (.spanCtxt (← optId? t) (← optId? sp) (← optId? pa))
  | .list [.atom "span", name, t] => do pure (.spanView (← name.str?) (← tree? t))
  | .list [.atom "metric", name, agg, v, t] => do pure (.metricView (← name.str?) (← agg.str?) (← val? v) (← tree? t))
  | .list (.atom "frame" :: sts) => (stages? [] sts).map .frame
  | _ => none
end

/-- Top level: a tree, or an ambient snapshot as `with_current` hands it out — the frame itself (`direct`),
    `Option<Slot<frame>>` for `Option<C>` (core/src/ctxt.rs:119-127; `optnone`: `None`), `ErasedCurrent` over
    `dyn ErasedProps` for `dyn ErasedCtxt` (:509-518). -/
def top? : Sexp → Option P
  | .list (.atom "snap" :: .atom kind :: sts) => do
    let es ← stages? [] sts
    match kind with
    | "direct" => some (.frame es)
    | "opt" => some (.optSome (.slot (.frame es)))
    | "optnone" => some .optNone
    | "erased" => some (.slot (.erased (.frame es)))
    | _ => none
  | t => tree? t

def hx (s : String) : String := hexOfBytes s.toUTF8.toList

def showVal : Val → String
  | .int i => s!"i{i}"
  | .str s => "s" ++ hx s
  | .tok tag n => tag ++ toString n

def showPairs (xs : List (String × Val)) : String :=
  ",".intercalate (xs.map fun (k, v) => hx k ++ ":" ++ showVal v)

def showOptVal : Option Val → String
  | some v => showVal v
  | none => "-"

def showOptInt : Option Int → String
  | some i => toString i
  | none => "-"

def showBool (b : Bool) : String := if b then "t" else "f"

def showBreaks (p : P) (n : Nat) : String :=
  ",".intercalate ((List.range (n + 1)).map fun i =>
    let r := visits p i
    toString r.1 ++ (if r.2 then "+" else "."))

def hasDup (xs : List (String × Val)) : Bool :=
  let ks := xs.map Prod.fst
  ks.eraseDups.length != ks.length

partial def ctors : P → List String
  | .pair _ _ => ["pair"]
  | .slice ps => "slice" :: ps.flatMap ctors
  | .arr ps => "arr" :: ps.flatMap ctors
  | .btree _ => ["btree"]
  | .hash _ => ["hash"]
  | .optNone => ["none"]
  | .optSome p => "some" :: ctors p
  | .and a b => "and" :: (ctors a ++ ctors b)
  | .ref p => "ref" :: ctors p
  | .boxed p => "boxed" :: ctors p
  | .shared p => "shared" :: ctors p
  | .erased p => "erased" :: ctors p
  | .asMap p => "asmap" :: ctors p
  | .dedup p => "dedup" :: ctors p
  | .empty => ["empty"]
  | .macro _ => ["marr"]
  | .extentPoint _ => ["extent"]
  | .extentRange _ _ => ["extent"]
  | .spanCtxt _ _ _ => ["spanctxt"]
  | .spanView _ p => "span" :: ctors p
  | .metricView _ _ _ p => "metric" :: ctors p
  | .frame _ => ["frame"]
  | .slot p => "slot" :: ctors p

def topCtor : P → String
  | .pair _ _ => "pair" | .slice _ => "slice" | .arr _ => "arr" | .btree _ => "btree" | .hash _ => "hash"
  | .optNone => "none" | .optSome _ => "some" | .and _ _ => "and" | .ref _ => "ref" | .boxed _ => "boxed"
  | .shared _ => "shared" | .erased _ => "erased" | .asMap _ => "asmap" | .dedup _ => "dedup" | .empty => "empty"
  | .macro _ => "marr"
  | .extentPoint _ => "extent" | .extentRange _ _ => "extent" | .spanCtxt _ _ _ => "spanctxt" | .spanView _ _ => "span"
  | .metricView _ _ _ _ => "metric" | .frame _ => "frame" | .slot _ => "slot"

def observe (p : P) (qs : List String) : String :=
  let e := enum p
  let d := enum (.dedup p)
  s!"e={showPairs e};u={showBool (isUnique p)};g={",".intercalate (qs.map fun q => showOptVal (get p q))}" ++
  s!";p={",".intercalate (qs.map fun q => showOptInt (pullInt p q))};d={showPairs d}" ++
  s!";dg={",".intercalate (qs.map fun q => showOptVal (get (.dedup p) q))}" ++
  s!";b={showBreaks p e.length};db={showBreaks (.dedup p) d.length}"

def runC02 (line : String) : String :=
  match Sexp.parse line with
  | some (.list [.atom "c02", t, .list (.atom "q" :: qs)]) =>
    match top? t, qs.mapM Sexp.str? with
    | some p, some qs =>
      let e := enum p
      let cs := (ctors p).eraseDups
      let sig := if e.isEmpty then "trivial"
        else s!"top={topCtor p},n={min e.length 8},dup={hasDup e},u={isUnique p},kinds={cs.length}"
      s!"{observe p qs}\t{sig}"
    | _, _ => "bad-op"
  | _ => "bad-op"

/-! ### stream `c02_static` -/

/-- The statically typed shapes of harness/hcore/src/streams/c02.rs `run_static_shape`, over pairs `p 0 … p 5`. -/
def staticShape (idx : Nat) (kv : Array (String × Val)) : Option P :=
  let p (i : Nat) : P := match kv[i]? with
    | some (k, v) => .pair k v
    | none => .empty
  let bt (is : List Nat) : P := .btree (fromInserts compare (is.filterMap (kv[·]?)))
  match idx with
  | 0 => some (.and (p 0) (.arr [p 1, p 2, p 3]))
  | 1 => some (.and (.and (p 0) (.arr [p 1, p 2])) (.optSome (bt [3, 4])))
  | 2 => some .optNone
  | 3 => some (.ref (.and (.ref (.slice [p 0, p 1, p 2])) (.ref (p 3))))
  | 4 => some (.boxed (.and (p 0) (.shared (.arr [p 1, p 2]))))
  | 5 => some (.dedup (.arr [p 0, p 1, p 2, p 3]))
  | 6 => some (.asMap (.and (bt [0, 1]) (p 2)))
  | 7 => some (.arr [.optSome (p 0), .optNone, .optSome (p 1)])
  | 8 => some (.and .empty (.and (p 0) .empty))
  | 9 => some (.ref (.erased (.and (.arr [p 0, p 1]) (p 2))))
  | 10 => some (.ref (.slice [.and (p 0) (p 1), .and (p 2) (p 3)]))
  | 11 => some (.and (.ref (.dedup (.arr [p 0, p 1, p 2]))) (p 3))
  | 12 => some (.dedup (.and (bt [0, 1]) (.arr [p 2, p 3])))
  | 13 => some (.boxed (.erased (.shared (.and (p 0) (p 1)))))
  | 14 => some (.arr [.arr [p 0, p 1], .arr [p 2, p 3]])
  | 15 => some (.optSome (.ref (bt [0, 1, 2])))
  | _ => none

def runStatic (line : String) : String :=
  match Sexp.parse line with
  | some (.list [.atom "static", idx, a, b, c, d, e, f, .list (.atom "q" :: qs)]) =>
    match idx.nat?, [a, b, c, d, e, f].mapM entry?, qs.mapM Sexp.str? with
    | some idx, some kv, some qs =>
      match staticShape idx kv.toArray with
      | some p =>
        let en := enum p
        let sig := if en.isEmpty then "trivial" else s!"shape={idx},n={en.length},dup={hasDup en}"
        s!"{observe p qs}\t{sig}"
      | none => "bad-op"
    | _, _, _ => "bad-op"
  | _ => "bad-op"

/-! ### stream `c02_macro` -/

/-- The template of a call site names every field: `ident={ident}` joined by spaces. A hole carries the FINAL key
    (the key hook renames it, macros/src/template.rs:139-163); under a false `#[cfg]` the hole part is removed
    while its text stays. -/
def templateParts (fields : List Field) : List Part :=
  (fields.zipIdx).flatMap fun (f, j) =>
    let text := Part.text ((if j == 0 then "" else " ") ++ f.ident ++ "=")
    if f.cfg then [text, .hole f.key] else [text]

/-- What the observer holds: the macro-built collection itself (`props!`), or the event's props at the emitter
    (`emit!`): `props.and_props(base_props)` (macro_hooks.rs:763-774, base props `Empty`) `.and_props(ctxt)`
    (core/src/lib.rs:70-72, ambient context `Empty`) behind `&dyn ErasedProps`. -/
def siteProps (kind : SiteKind) (fields : List Field) (arr : List (String × Option Val)) : P :=
  match kind with
  | .props => .macro arr
  | .emit => .ref (.erased (.and (.and (.ref (.macro arr)) (.ref .empty)) (.ref .empty)))
  | .span =>
    -- `SpanGuard::new` pushes `ctxt_props.and_props(span_ctxt)` onto the ambient context (src/span.rs:966-967; no id
    -- generator: the span context is empty); on completion the event carries `[lvl?, err?]` (both `None`), the
    -- `Span<Empty>` view named by the template literal, and the ambient frame (src/span.rs:1198-1224,
    -- core/src/lib.rs:70-72)
    let name := " ".intercalate (fields.map fun f => f.ident ++ "={" ++ f.ident ++ "}")
    let frame := P.frame (pushInto [] (enum (.and (.ref (.macro arr)) (.ref (.spanCtxt none none none)))))
    .ref (.erased (.and (.and (.arr [.optNone, .optNone]) (.ref (.spanView name .empty))) (.ref frame)))

/-- insertion sort of rendered pairs (span sites: the frame's hash order is canonicalised by sorting on both sides) -/
def sortStrings (xs : List String) : List String :=
  xs.foldl (fun acc x => (acc.takeWhile (· ≤ x)) ++ x :: acc.dropWhile (· ≤ x)) []

def runMacro (line : String) : String :=
  match Sexp.parse line with
  | some (.list [.atom "macro", n]) =>
    match n.nat?.bind (fixtures[·]?) with
    | some fx =>
      match expand fx.fields with
      | none => "rejected"
      | some arr =>
        let p := siteProps fx.kind fx.fields arr
        let u := match fx.kind with
          | .props => showBool (isUnique p)
          | _ => "-"
        let kind := match fx.kind with | .props => "props" | .emit => "emit" | .span => "span"
        let e := match fx.kind with
          | .span => ",".intercalate (sortStrings ((enum p).map fun (k, v) => hx k ++ ":" ++ showVal v))
          | _ => showPairs (enum p)
        let renamed := fx.fields.any fun f => f.ident != f.key
        let sig := if fx.fields.isEmpty then "trivial"
          else s!"kind={kind},n={fx.fields.length},renamed={renamed},none={fx.fields.any (·.val.isNone)},cfgoff={fx.fields.any (!·.cfg)}"
        s!"e={e};u={u};g={",".intercalate (fx.queries.map fun q => showOptVal (get p q))}" ++
        s!";m={hx (render (templateParts fx.fields) p)}\t{sig}"
    | none => "bad-op"
  | _ => "bad-op"

/-- stream `c02_tp` : (c02tp (STAGE…) (q xKEY…)) — the ambient snapshot of `TraceparentCtxt<ThreadLocalCtxt>` inside
    pushed properties / root frames / pushed traceparents, judged by the implementation-side oracle alone: whatever
    the snapshot holds (C18 models that), it is a collection whose lookup agrees with its own enumeration
    (`get_eq_first`, `pull_get` hold of EVERY collection). The model contributes that verdict and validates the case. -/
def runTp (line : String) : String :=
  match Sexp.parse line with
  | some (.list [.atom "c02tp", .list stages, .list (.atom "q" :: qs)]) =>
    let stageOk : Sexp → Bool := fun st => match st with
      | .list [.atom "push", t] => (tree? t).isSome
      | .list [.atom "root", t] => (tree? t).isSome
      | .list [.atom "tp", t, s, f] =>
        (t == .atom "none" || t.nat?.isSome) && (s == .atom "none" || s.nat?.isSome) && (f.nat?.filter (· < 256)).isSome
      | _ => false
    if stages.all stageOk && qs.all (fun q => q.str?.isSome) then
      s!"coherent\tstages={min stages.length 4},tp={min ((stages.filter fun st => match st with | .list (.atom "tp" :: _) => true | _ => false).length) 2}"
    else "bad-op"
  | _ => "bad-op"

def streams : List (String × (String → String)) :=
  [("c02", runC02), ("c02_static", runStatic), ("c02_macro", runMacro), ("c02_tp", runTp)]

end EmitModel.Driver.C02
