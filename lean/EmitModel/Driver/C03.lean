/-
  Driver/C03.lean — line-protocol front end of Model/Ctxt.lean.
    stream `c03` : (c03 VARIANT (P…)) → OBS;OBS;…      one `{xKEY=VAL,…}` (sorted by key) per observation, in order
      VARIANT ::= concrete | erased | boxed | option | assert | assertdyn | assertarc | ref | box | arc | boxdyn | slot
                | tp | defpush | defpushdyn | optnone
                                                          which `Ctxt` impl the harness drives (`boxed` = erased frames
                                                          too large for inline storage); the model takes from it the
                                                          storage class, and
                                                            defpush / defpushdyn: a user Ctxt with only the required
                                                              methods → `open_push` / `open_disabled` are the trait
                                                              defaults (`viaDefault`);
                                                            optnone: `Option::<ThreadLocalCtxt>::None` (`observationsOpt false`);
                                                            tp: `TraceparentCtxt<ThreadLocalCtxt>` — transparent as long
                                                              as no props carry the key `span_id` (such cases are
                                                              rejected: bad-op)
      P ::= (obs C) | (new F C KIND (props (xKEY VAL)…)) | (new F C KIND (props …) reent) | (use F MODE P…) | (on T P…)
          | (catch P…) | (panic) | (drop F) | (parts F) | (tasks ((task A…)…) (sched (I T)…))
                                                          `reent` (KIND push|root only): the props value calls
                                                          `ctxt.with_current` while it is enumerated by `open_*` and
                                                          records what it sees — one observation of the ENCLOSING view
                                                          just before the frame exists (none under optnone: the props
                                                          are never enumerated);  `parts`: into_parts + from_parts
      MODE ::= enter | with | gwith | call | (infn T)       KIND ::= push | root | disabled | current
      A ::= (sync P…) | (yield) | (aframe F C KIND (props …) A…) | (ause F A…)
      VAL ::= (i N) | (s xHEX)
-/
import EmitModel.Base.Sexp
import EmitModel.Model.Ctxt

namespace EmitModel.Driver.C03
open EmitModel EmitModel.Ctxt

inductive Val where
  | int (i : Int)
  | str (s : String)
  deriving Repr

def val? : Sexp → Option Val
  | .list [.atom "i", n] => n.int?.map Val.int
  | .list [.atom "s", s] => s.str?.map Val.str
  | _ => none

def Val.render : Val → String
  | .int i => s!"i{i}"
  | .str s => "s" ++ atomOfString s

def kind? : Sexp → Option Kind
  | .atom "push" => some .push
  | .atom "root" => some .root
  | .atom "disabled" => some .disabled
  | .atom "current" => some .current
  | _ => none

def mode? : Sexp → Option Mode
  | .atom "enter" => some .enter
  | .atom "with" => some .with_
  | .atom "gwith" => some .guardWith
  | .atom "call" => some .call
  | .list [.atom "infn", t] => t.nat?.map Mode.inFn
  | _ => none

def prop? : Sexp → Option (String × Val)
  | .list [k, v] => do
    let k ← k.str?
    let v ← val? v
    pure (k, v)
  | _ => none

def props? : Sexp → Option (List (String × Val))
  | .list (.atom "props" :: ps) => ps.mapM prop?
  | _ => none

def sched? : Sexp → Option (List (Nat × Nat))
  | .list (.atom "sched" :: es) => es.mapM fun
    | .list [i, t] => do
      let i ← i.nat?
      let t ← t.nat?
      pure (i, t)
    | _ => none
  | _ => none

/-- How the variant named in the case line enters the model. -/
structure Variant where
  inl : Bool := true            -- erased frames stored inline
  dflt : Bool := false          -- `open_push` / `open_disabled` are the trait defaults
  present : Bool := true        -- `false`: the ctxt is `Option::None`
  noSpanId : Bool := false      -- the key `span_id` may not occur (TraceparentCtxt would claim it)

/-- `Frame::<kind>(ctxt, props)` as the variant's ctxt has it -/
def Variant.frame (v : Variant) (k : Kind) (ps : List (String × Val)) : Option (Kind × List (String × Val)) :=
  if v.noSpanId && ps.any (fun kv => kv.1 == "span_id") then none
  else some (if v.dflt then viaDefault k ps else (k, ps))

mutual
/-- one S-expression gives one or two program items (`reent` adds the observation made from inside `open_*`) -/
partial def prog? (v : Variant) : Sexp → Option (List (Prog Val))
  | .list [.atom "obs", c] => c.nat?.map fun c => [Prog.obs c]
  | .list [.atom "new", f, c, k, ps] => do
    let f ← f.nat?
    let c ← c.nat?
    let k ← kind? k
    let ps ← props? ps
    let (k, ps) ← v.frame k ps
    pure [.new f c k ps]
  | .list [.atom "new", f, c, k, ps, .atom "reent"] => do
    let f ← f.nat?
    let c ← c.nat?
    let k ← kind? k
    let ps ← props? ps
    if k != .push && k != .root then none
    let (k, ps) ← v.frame k ps
    pure ((if v.present then [Prog.obs c] else []) ++ [.new f c k ps])
  | .list (.atom "use" :: f :: m :: body) => do
    let f ← f.nat?
    let m ← mode? m
    let body ← progs? v body
    pure [.use f m body]
  | .list (.atom "on" :: t :: body) => do
    let t ← t.nat?
    let body ← progs? v body
    pure [.on t body]
  | .list (.atom "catch" :: body) => do
    let body ← progs? v body
    pure [.catch_ body]
  | .list [.atom "panic"] => some [.panic]
  | .list [.atom "drop", f] => f.nat?.map fun f => [Prog.drop f]
  | .list [.atom "parts", f] => f.nat?.map fun f => [Prog.parts f]
  | .list [.atom "tasks", .list ts, sc] => do
    let ts ← ts.mapM fun
      | .list (.atom "task" :: as) => as.mapM (aprog? v)
      | _ => none
    let sc ← sched? sc
    pure [.tasks ts sc]
  | _ => none
partial def progs? (v : Variant) (xs : List Sexp) : Option (List (Prog Val)) := do
  let ys ← xs.mapM (prog? v)
  pure ys.flatten
partial def aprog? (v : Variant) : Sexp → Option (AProg Val)
  | .list (.atom "sync" :: ps) => do
    let ps ← progs? v ps
    pure (.sync ps)
  | .list [.atom "yield"] => some .yield
  | .list (.atom "aframe" :: f :: c :: k :: ps :: body) => do
    let f ← f.nat?
    let c ← c.nat?
    let k ← kind? k
    let ps ← props? ps
    let (k, ps) ← v.frame k ps
    let body ← body.mapM (aprog? v)
    pure (.aframe f c k ps body)
  | .list (.atom "ause" :: f :: body) => do
    let f ← f.nat?
    let body ← body.mapM (aprog? v)
    pure (.ause f body)
  | _ => none
end

def renderObs (m : List (String × Val)) : String :=
  "{" ++ ",".intercalate (m.map fun kv => atomOfString kv.1 ++ "=" ++ kv.2.render) ++ "}"

def variant? : Sexp → Option Variant
  | .atom "concrete" => some {}
  | .atom "erased" => some {}
  | .atom "option" => some {}        -- `Some(ctxt)`: theorem `option_some_transparent`
  -- forwarding wrappers around the concrete ctxt: transparent (theorem `wrappers_transparent`), the model is the same
  | .atom "assert" => some {}
  | .atom "assertdyn" => some {}
  | .atom "assertwide" => some {}    -- around a context whose enter / exit are not interchangeable
  | .atom "assertarc" => some {}
  | .atom "ref" => some {}
  | .atom "box" => some {}
  | .atom "arc" => some {}
  | .atom "boxdyn" => some {}
  | .atom "slot" => some {}
  | .atom "boxed" => some { inl := false }
  -- `TraceparentCtxt<ThreadLocalCtxt>`: theorem `traceparent_ctxt_transparent`
  | .atom "tp" => some { noSpanId := true }
  -- a user Ctxt with only the required methods (and the same behind `Arc<dyn ErasedCtxt>`): `trait_default_is_viaDefault`
  | .atom "defpush" => some { dflt := true }
  | .atom "defpushdyn" => some { dflt := true }
  -- `Option::None`: theorem `option_none_inert`
  | .atom "optnone" => some { present := false }
  | _ => none

/-- coverage signature: nesting depth reached, number of threads and contexts touched, features used -/
def hasInfix (pat : List Char) : List Char → Bool
  | [] => pat.isEmpty
  | c :: cs => pat.isPrefixOf (c :: cs) || hasInfix pat cs

def signature (evs : List (Ev Val)) (line : String) : String :=
  let enters := evs.filter fun | .enter .. => true | _ => false
  let depth := (evs.foldl (fun (acc : Nat × Nat) e =>
    match e with
    | .enter .. => (acc.1 + 1, max acc.2 (acc.1 + 1))
    | .exit .. => (acc.1 - 1, acc.2)
    | _ => acc) (0, 0)).2
  let threads := (evs.map fun | .open t .. => t | .enter t .. => t | .exit t .. => t | .observe t _ => t).eraseDups.length
  if enters.isEmpty then "trivial"
  else
    let cs := line.toList
    let has (s : String) : String := if hasInfix s.toList cs then "1" else "0"
    s!"depth={min depth 6},thr={threads},tasks={has "(tasks"},panic={has "(panic)"},infn={has "(infn"},yield={has "(yield)"},reent={has " reent)"},parts={has "(parts "}"

def runC03 (line : String) : String :=
  match Sexp.parse line with
  | some (.list [.atom "c03", v, .list ps]) =>
    match (variant? v).bind fun v => (progs? v ps).map fun ps => (v, ps) with
    | some (v, ps) =>
      match compileL 0 [] (desugarL ps) with
      | some (evs, _) =>
        let obs := observationsOpt v.present (St.init Val v.inl) evs
        ";".intercalate (obs.map renderObs) ++ "\t" ++ signature evs line
      | none => "bad-op"
    | none => "bad-op"
  | _ => "bad-op"

def streams : List (String × (String → String)) := [("c03", runC03)]

end EmitModel.Driver.C03
