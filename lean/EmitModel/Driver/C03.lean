/-
  Driver/C03.lean — line-protocol front end of Model/Ctxt.lean.
    stream `c03` : (c03 VARIANT (P…)) → OBS;OBS;…      one `{xKEY=VAL,…}` (sorted by key) per observation, in order
      VARIANT ::= concrete | erased | boxed | option | assert | assertdyn | assertarc | ref | box | arc | boxdyn | slot
                                                          which `Ctxt` impl the harness drives (`boxed` = erased frames
                                                          too large for inline storage); the model only takes the
                                                          storage class from it
      P ::= (obs C) | (new F C KIND (props (xKEY VAL)…)) | (use F MODE P…) | (on T P…) | (catch P…) | (panic)
          | (drop F) | (tasks ((task A…)…) (sched (I T)…))
      MODE ::= enter | with | gwith | call | (infn T)       KIND ::= push | root | disabled | current
      A ::= (sync P…) | (yield) | (aframe F C KIND (props …) A…) | (ause F A…)
      VAL ::= (i N) | (s xHEX)
-/
import EmitModel.Base.Sexp
import EmitModel.Model.Ctxt

namespace EmitModel.Driver.C03
open EmitModel EmitModel.Ctxt

inductive Val where
  | int (i : Int)
  | str (s : String)
  deriving Repr

def val? : Sexp → Option Val
  | .list [.atom "i", n] => n.int?.map Val.int
  | .list [.atom "s", s] => s.str?.map Val.str
  | _ => none

def Val.render : Val → String
  | .int i => s!"i{i}"
  | .str s => "s" ++ atomOfString s

def kind? : Sexp → Option Kind
  | .atom "push" => some .push
  | .atom "root" => some .root
  | .atom "disabled" => some .disabled
  | .atom "current" => some .current
  | _ => none

def mode? : Sexp → Option Mode
  | .atom "enter" => some .enter
  | .atom "with" => some .with_
  | .atom "gwith" => some .guardWith
  | .atom "call" => some .call
  | .list [.atom "infn", t] => t.nat?.map Mode.inFn
  | _ => none

def prop? : Sexp → Option (String × Val)
  | .list [k, v] => do
    let k ← k.str?
    let v ← val? v
    pure (k, v)
  | _ => none

def props? : Sexp → Option (List (String × Val))
  | .list (.atom "props" :: ps) => ps.mapM prop?
  | _ => none

def sched? : Sexp → Option (List (Nat × Nat))
  | .list (.atom "sched" :: es) => es.mapM fun
    | .list [i, t] => do
      let i ← i.nat?
      let t ← t.nat?
      pure (i, t)
    | _ => none
  | _ => none

mutual
partial def prog? : Sexp → Option (Prog Val)
  | .list [.atom "obs", c] => c.nat?.map Prog.obs
  | .list [.atom "new", f, c, k, ps] => do
    let f ← f.nat?
    let c ← c.nat?
    let k ← kind? k
    let ps ← props? ps
    pure (.new f c k ps)
  | .list (.atom "use" :: f :: m :: body) => do
    let f ← f.nat?
    let m ← mode? m
    let body ← body.mapM prog?
    pure (.use f m body)
  | .list (.atom "on" :: t :: body) => do
    let t ← t.nat?
    let body ← body.mapM prog?
    pure (.on t body)
  | .list (.atom "catch" :: body) => do
    let body ← body.mapM prog?
    pure (.catch_ body)
  | .list [.atom "panic"] => some .panic
  | .list [.atom "drop", f] => f.nat?.map Prog.drop
  | .list [.atom "tasks", .list ts, sc] => do
    let ts ← ts.mapM fun
      | .list (.atom "task" :: as) => as.mapM aprog?
      | _ => none
    let sc ← sched? sc
    pure (.tasks ts sc)
  | _ => none
partial def aprog? : Sexp → Option (AProg Val)
  | .list (.atom "sync" :: ps) => do
    let ps ← ps.mapM prog?
    pure (.sync ps)
  | .list [.atom "yield"] => some .yield
  | .list (.atom "aframe" :: f :: c :: k :: ps :: body) => do
    let f ← f.nat?
    let c ← c.nat?
    let k ← kind? k
    let ps ← props? ps
    let body ← body.mapM aprog?
    pure (.aframe f c k ps body)
  | .list (.atom "ause" :: f :: body) => do
    let f ← f.nat?
    let body ← body.mapM aprog?
    pure (.ause f body)
  | _ => none
end

def renderObs (m : List (String × Val)) : String :=
  "{" ++ ",".intercalate (m.map fun kv => atomOfString kv.1 ++ "=" ++ kv.2.render) ++ "}"

def variant? : Sexp → Option Bool
  | .atom "concrete" => some true
  | .atom "erased" => some true
  | .atom "option" => some true
  -- forwarding wrappers around the concrete ctxt: transparent (theorem `wrappers_transparent`), the model is the same
  | .atom "assert" => some true
  | .atom "assertdyn" => some true
  | .atom "assertarc" => some true
  | .atom "ref" => some true
  | .atom "box" => some true
  | .atom "arc" => some true
  | .atom "boxdyn" => some true
  | .atom "slot" => some true
  | .atom "boxed" => some false
  | _ => none

/-- coverage signature: nesting depth reached, number of threads and contexts touched, features used -/
def hasInfix (pat : List Char) : List Char → Bool
  | [] => pat.isEmpty
  | c :: cs => pat.isPrefixOf (c :: cs) || hasInfix pat cs

def signature (evs : List (Ev Val)) (line : String) : String :=
  let enters := evs.filter fun | .enter .. => true | _ => false
  let depth := (evs.foldl (fun (acc : Nat × Nat) e =>
    match e with
    | .enter .. => (acc.1 + 1, max acc.2 (acc.1 + 1))
    | .exit .. => (acc.1 - 1, acc.2)
    | _ => acc) (0, 0)).2
  let threads := (evs.map fun | .open t .. => t | .enter t .. => t | .exit t .. => t | .observe t _ => t).eraseDups.length
  if enters.isEmpty then "trivial"
  else
    let cs := line.toList
    let has (s : String) : String := if hasInfix s.toList cs then "1" else "0"
    s!"depth={min depth 6},thr={threads},tasks={has "(tasks"},panic={has "(panic)"},infn={has "(infn"},yield={has "(yield)"}"

def runC03 (line : String) : String :=
  match Sexp.parse line with
  | some (.list [.atom "c03", v, .list ps]) =>
    match variant? v, ps.mapM prog? with
    | some inl, some ps =>
      match compileL 0 [] (desugarL ps) with
      | some (evs, _) =>
        let obs := observations (St.init Val inl) evs
        ";".intercalate (obs.map renderObs) ++ "\t" ++ signature evs line
      | none => "bad-op"
    | _, _ => "bad-op"
  | _ => "bad-op"

def streams : List (String × (String → String)) := [("c03", runC03)]

end EmitModel.Driver.C03
