/-
  Driver/C13.lean — line-protocol front end of Model/{Json,Value,FileRecord,AnyValue,OtlpRecords}.lean.

    stream `c13_file` : (file EVENT)          → (line xBYTES) | discarded
    stream `c13_otlp` : (otlp SIGNAL EVENT)   → RECORD | none | panic          SIGNAL ::= logs | traces | metrics
                        (otlp-re SIGNAL OUTER INNER) → (re RECORD|none RECORD|none) | panic
                          OUTER, INNER ::= EVENT. OUTER is emitted by the caller; each `(reemit xTEXT)` value of
                          OUTER is a `Display` value printing TEXT whose formatting code emits INNER through the
                          SAME emitter on the same thread, every time the emitter formats it. Output: OUTER's
                          record and the (one) record of the nested emits. A reemit value sits under a key that
                          occurs once in OUTER and is not lifted by any signal (`reReserved`); the two modules
                          differ (the records are told apart by their scope).
    stream `c13_term` : (term EVENT)          → (out xBYTES) | panic        (zone pinned to UTC, no colors)
    stream `c13_otlp_kf` : the same function; its corpus holds the reproducers of the known findings

  EVENT  ::= (evt xMDL (tpl PART…) EXTENT UNIQUE (props (xKEY VAL)…))
  PART   ::= (t xTEXT) | (h xLABEL)
  EXTENT ::= none | (point TS) | (range TS TS)          TS ::= (SECS NANOS xRFC3339)
  UNIQUE ::= true | false                                what the collection answers to `is_unique()`
  VAL    ::= null | (bool B) | (int TY N) | (f64 BITS xJSONTOK xDISPLAY) | (str xS) | (disp xS) | (dbg xS)
           | (reemit xS)                               encoded exactly like (disp xS)
           | (err xTOP xCAUSE…) | (lvl debug|info|warn|error) | (tid N) | (sid N) | (kind span|metric) | (sv T xDISPLAY)
           | (fx sval|serde FIXTURE xDISPLAY)          FIXTURE: see `fixture?`
           | (arr-i64 (N…) xDISPLAY) | (arr-f64 ((BITS xJSONTOK xDISPLAY)…) xDISPLAY)        N ≤ 6 elements
  T      ::= null | none | unit | (bool B) | (int TY N) | (f64 BITS xJSONTOK xDISPLAY)
           | (f32 BITS32 BITS64 xJSONTOK xDISPLAY64) | (text xS) | (bin xBYTES) | (seq T…) | (map (T T)…)
           | (rec (xL T)…) | (tup T…) | (some T) | (uvar xL) | (nvar xL T) | (svar xL (xL T)…) | (tvar xL T…)
  TY     ::= u8|u16|u32|u64|u128|usize|i8|i16|i32|i64|i128|isize

  RECORD (traces) ::= (span (scope x) (name x) (kind N) (start N) (end N) (tid ..) (sid ..) (psid ..) (attrs ..)
                        (events (event (name x) (time N) (attrs ..))…) (status CODE xMESSAGE))
  RECORD (metrics) ::= (metric (scope x) (name x) (unit x) (sum TEMPORALITY MONOTONIC)|gauge
                        (points (pt (start N) (time N) (i N)|(d BITS) (attrs ..))…))      NaN canonicalised
  RECORD (logs) ::= (log (scope xMDL) (time N) (otime N) (sev N xTEXT) (body AV) (tid xHEX|none) (sid xHEX|none) (attrs (xK AV)…))
  AV ::= empty | (s xS) | (b B) | (i N) | (d BITS) | (a AV…) | (kv (xK AV)…) | (y xBYTES)
-/
import EmitModel.Base.Sexp
import EmitModel.Model.FileRecord
import EmitModel.Model.OtlpRecords
import EmitModel.Model.Term
import EmitModel.Model.Timestamp

namespace EmitModel.Driver.C13
open EmitModel EmitModel.Encode EmitModel.Level

def intRange? (ty : String) : Option (Int × Int) :=
  match ty with
  | "u8" => some (0, 2 ^ 8) | "u16" => some (0, 2 ^ 16) | "u32" => some (0, 2 ^ 32)
  | "u64" => some (0, 2 ^ 64) | "usize" => some (0, 2 ^ 64) | "u128" => some (0, 2 ^ 128)
  | "i8" => some (-(2 ^ 7), 2 ^ 7) | "i16" => some (-(2 ^ 15), 2 ^ 15) | "i32" => some (-(2 ^ 31), 2 ^ 31)
  | "i64" => some (-(2 ^ 63), 2 ^ 63) | "isize" => some (-(2 ^ 63), 2 ^ 63) | "i128" => some (-(2 ^ 127), 2 ^ 127)
  | _ => none

def typedInt? (ty n : Sexp) : Option Int := do
  let ty ← ty.atom?
  let (lo, hi) ← intRange? ty
  let n ← n.int?
  if lo ≤ n ∧ n < hi then some n else none

def u64? (s : Sexp) : Option UInt64 := do
  let n ← s.nat?
  if n < 2 ^ 64 then some (UInt64.ofNat n) else none

partial def tree? : Sexp → Option V
  | .atom "null" => some .null
  | .atom "none" => some .null
  | .atom "unit" => some .null
  | .list [.atom "bool", b] => b.bool?.map V.bool
  | .list [.atom "int", ty, n] => (typedInt? ty n).map V.int
  | .list [.atom "f64", bits, tok, disp] => do
    pure (V.f64 (← u64? bits) (← tok.str?) (← disp.str?))
  | .list [.atom "f32", bits32, bits64, tok, disp] => do
    let b32 ← bits32.nat?
    if b32 < 2 ^ 32 then pure (V.f32 (← u64? bits64) (← tok.str?) (← disp.str?)) else none
  | .list [.atom "text", s] => s.str?.map V.text
  | .list [.atom "bin", b] => b.bytes?.map V.bytes
  | .list (.atom "seq" :: xs) => (xs.mapM tree?).map V.seq
  | .list (.atom "tup" :: xs) => (xs.mapM tree?).map V.tuple
  | .list (.atom "map" :: kvs) => (kvs.mapM fun (s : Sexp) => match s with
      | Sexp.list [k, v] => do pure ((← tree? k), (← tree? v))
      | _ => none).map V.map
  | .list (.atom "rec" :: fs) => (fs.mapM fun (s : Sexp) => match s with
      | Sexp.list [l, v] => do pure ((← l.str?), (← tree? v))
      | _ => none).map V.record
  | .list [.atom "some", v] => (tree? v).map V.some
  | .list [.atom "uvar", l] => l.str?.map V.uvar
  | .list [.atom "nvar", l, v] => do pure (V.nvar (← l.str?) (← tree? v))
  | .list (.atom "svar" :: l :: fs) => do
    let l ← l.str?
    let fs ← fs.mapM fun (s : Sexp) => match s with
      | Sexp.list [l, v] => do pure ((← l.str?), (← tree? v))
      | _ => none
    pure (V.svar l fs)
  | .list (.atom "tvar" :: l :: xs) => do pure (V.tvar (← l.str?) (← xs.mapM tree?))
  | _ => none

/-- THE TABLE: image under value_bag/sval of the harness fixtures (harness/hotlp/src/streams/c13/fixtures.rs:
    types with derived `sval::Value` / `serde::Serialize` impls and std collections). The same image for both
    capture paths (`from_sval`, `from_serde` through sval_serde); validated by the correspondence. -/
def fixture? (name : String) (args : List Sexp) : Option V :=
  let i32? (s : Sexp) : Option Int := do
    let n ← s.int?
    if -(2 ^ 31) ≤ n ∧ n < 2 ^ 31 then some n else none
  match name, args with
  | "unit-variant", [] => some (.uvar "Unit")
  | "newtype-variant", [n] => do pure (.nvar "Newtype" (.int (← i32? n)))
  | "tuple-variant", [n, b] => do pure (.tvar "Tuple" [.int (← i32? n), .bool (← b.bool?)])
  | "struct-variant", [n, s] => do pure (.svar "Struct" [("a", .int (← i32? n)), ("b", .text (← s.str?))])
  | "struct", [id, nm, opt, .list tags, n, p] => do
    let id ← id.nat?
    if id ≥ 2 ^ 64 then none
    let opt : V ← match opt with
      | .atom "none" => some V.null
      | o => do
        let i ← o.int?
        if -(2 ^ 63) ≤ i ∧ i < 2 ^ 63 then some (V.some (.int i)) else none
    let p ← p.int?
    if ¬ (-(2 ^ 7) ≤ p ∧ p < 2 ^ 7) then none
    let tags ← tags.mapM fun t => t.str?.map V.text
    pure (.record [("id", .int id), ("name", .text (← nm.str?)), ("opt", opt), ("tags", .seq tags),
      ("nested", .nvar "Newtype" (.int (← i32? n))), ("pair", .tuple [.int p, .f64 0x3FF8000000000000 "1.5" "1.5"])])
  | "newtype", [n] => do
    let n ← n.nat?
    if n < 2 ^ 16 then some (.some (.int n)) else none
  | "unit-struct", [] => some (.uvar "FxUnit")
  | "strmap", kvs => (kvs.mapM fun (kv : Sexp) => match kv with
      | Sexp.list [k, n] => do
        let n ← n.int?
        if -(2 ^ 63) ≤ n ∧ n < 2 ^ 63 then pure (V.text (← k.str?), V.int n) else none
      | _ => none).map V.map
  | "intmap", kvs => (kvs.mapM fun (kv : Sexp) => match kv with
      | Sexp.list [k, s] => do pure (V.int (← i32? k), V.text (← s.str?))
      | _ => none).map V.map
  | "optvec", xs => (xs.mapM fun (x : Sexp) => match x with
      | Sexp.atom "none" => some V.null
      | b => b.bool?.map fun b => V.some (.bool b)).map V.seq
  | _, _ => none

/-- the entries of a `BTreeMap` fixture are listed in the map's own order -/
def sortedStrict (ks : List String) : Bool :=
  match ks with
  | a :: b :: rest => decide (a < b) && sortedStrict (b :: rest)
  | _ => true

def level? : Sexp → Option Level
  | .atom "debug" => some .debug
  | .atom "info" => some .info
  | .atom "warn" => some .warn
  | .atom "error" => some .error
  | _ => none

def val? : Sexp → Option PV
  | .atom "null" => some (.simple .null)
  | .list [.atom "bool", b] => b.bool?.map fun b => .simple (.bool b)
  | .list [.atom "int", ty, n] => (typedInt? ty n).map fun i => .simple (.int i)
  | .list [.atom "f64", bits, tok, disp] => do
    pure (.simple (.f64 (← u64? bits) (← tok.str?) (← disp.str?)))
  | .list [.atom "str", s] => s.str?.map fun s => .simple (.str s)
  | .list [.atom "disp", s] => s.str?.map fun s => .simple (.disp s)
  -- a `Display` value whose formatting code emits another event: for the encoder it is a `Display` value
  | .list [.atom "reemit", s] => s.str?.map fun s => .simple (.disp s)
  | .list [.atom "dbg", s] => s.str?.map fun s => .simple (.dbg s)
  | .list (.atom "err" :: top :: causes) => do
    pure (.simple (.err (← top.str?) (← causes.mapM Sexp.str?)))
  | .list [.atom "lvl", l] => (level? l).map fun l => .simple (.lvl l)
  | .list [.atom "tid", n] => do
    let n ← n.nat?
    if 0 < n ∧ n < 2 ^ 128 then some (.simple (.tid n)) else none
  | .list [.atom "sid", n] => do
    let n ← n.nat?
    if 0 < n ∧ n < 2 ^ 64 then some (.simple (.sid n)) else none
  | .list [.atom "kind", .atom "span"] => some (.simple (.kind .span))
  | .list [.atom "kind", .atom "metric"] => some (.simple (.kind .metric))
  | .list [.atom "sv", t, disp] => do pure (.tree (← tree? t) (← disp.str?))
  | .list (.atom "fx" :: .atom via :: .atom name :: rest) => do
    if via != "sval" && via != "serde" then none
    let disp ← rest.getLast?
    let v ← fixture? name rest.dropLast
    pure (.tree v (← disp.str?))
  | .list [.atom "arr-i64", .list xs, disp] => do
    if xs.length > 6 then none
    let is ← xs.mapM fun x => do
      let i ← x.int?
      if -(2 ^ 63) ≤ i ∧ i < 2 ^ 63 then some (V.int i) else none
    pure (.tree (.seq is) (← disp.str?))
  | .list [.atom "arr-f64", .list xs, disp] => do
    if xs.length > 6 then none
    let fs ← xs.mapM fun (x : Sexp) => match x with
      | Sexp.list [bits, tok, d] => do pure (V.f64 (← u64? bits) (← tok.str?) (← d.str?))
      | _ => none
    pure (.tree (.seq fs) (← disp.str?))
  | _ => none

/-- The RFC 3339 text the sinks print is the MODEL's (`Timestamp.fmtRfc3339`, the formatter the C15 theorems are about),
not the text the case carries: a formatter that prints the wrong day shows as a different line. -/
def ts? : Sexp → Option Ts
  | .list [s, n, _t] => do
    let n ← n.nat?
    let s ← s.nat?
    if n < 1000000000 then
      pure ⟨s, n, String.ofList ((Timestamp.fmtRfc3339 none (s * 1000000000 + n)).map fun b => Char.ofNat b.toNat)⟩
    else none
  | _ => none

def extent? : Sexp → Option Extent
  | .atom "none" => some .none
  | .list [.atom "point", t] => (ts? t).map Extent.point
  | .list [.atom "range", a, b] => do pure (.range (← ts? a) (← ts? b))
  | _ => none

def part? : Sexp → Option Part
  | .list [.atom "t", s] => s.str?.map Part.text
  | .list [.atom "h", s] => s.str?.map Part.hole
  | _ => none

def nodupKeys : List String → Bool
  | [] => true
  | k :: ks => !ks.contains k && nodupKeys ks

def event? : Sexp → Option Event
  | .list [.atom "evt", mdl, .list (.atom "tpl" :: parts), ext, uniq, .list (.atom "props" :: ps)] => do
    let props ← ps.mapM fun (s : Sexp) => match s with
      | Sexp.list [k, v] => do pure ((← k.str?), (← val? v))
      | _ => none
    let unique ← uniq.bool?
    -- a collection may only claim `is_unique()` when its keys are distinct
    if unique && !nodupKeys (props.map Prod.fst) then none
    else pure ⟨← mdl.str?, ← parts.mapM part?, ← extent? ext, unique, props⟩
  | _ => none

/-! ### printing -/

def sx (tag : String) (args : List String) : String := "(" ++ " ".intercalate (tag :: args) ++ ")"

partial def showAny : AnyValue → String
  | .empty => "empty"
  | .str s => sx "s" [atomOfString s]
  | .bool b => sx "b" [toString b]
  | .int i => sx "i" [toString i]
  | .dbl bits => sx "d" [toString bits.toNat]
  | .arr xs => sx "a" (xs.map showAny)
  | .kv kvs => sx "kv" (kvs.map fun (k, v) => "(" ++ atomOfString k ++ " " ++ showAny v ++ ")")
  | .bytes bs => sx "y" [atomOfBytes bs]

def showAttrs (tag : String) (kvs : List (String × AnyValue)) : String :=
  sx tag (kvs.map fun (k, v) => "(" ++ atomOfString k ++ " " ++ showAny v ++ ")")

def showId (w : Nat) : Option Nat → String
  | none => "none"
  | some n => atomOfString (hexString w n)

def showLog (r : LogRecord) : String :=
  sx "log" [sx "scope" [atomOfString r.scope], sx "time" [toString r.timeUnixNano], sx "otime" [toString r.observedTimeUnixNano],
    sx "sev" [toString r.severityNumber, atomOfString r.severityText], sx "body" [showAny (.str r.body)],
    sx "tid" [showId 32 r.traceId], sx "sid" [showId 16 r.spanId], showAttrs "attrs" r.attributes]

def showSpanEvent (ev : SpanEvent) : String :=
  sx "event" [sx "name" [atomOfString ev.name], sx "time" [toString ev.timeUnixNano], showAttrs "attrs" ev.attributes]

def showSpan (r : SpanRecord) : String :=
  sx "span" [sx "scope" [atomOfString r.scope], sx "name" [atomOfString r.name], sx "kind" [toString r.kind],
    sx "start" [toString r.startTimeUnixNano], sx "end" [toString r.endTimeUnixNano],
    sx "tid" [showId 32 r.traceId], sx "sid" [showId 16 r.spanId], sx "psid" [showId 16 r.parentSpanId],
    showAttrs "attrs" r.attributes, sx "events" (r.events.map showSpanEvent),
    sx "status" [toString r.statusCode, atomOfString r.statusMessage]]

/-- NaN payloads are not compared (Lean's `Float.toBits` canonicalises NaN) -/
def canonNaN (bits : UInt64) : UInt64 :=
  if (bits.toNat / 2 ^ 52) % 2048 == 2047 && bits.toNat % 2 ^ 52 != 0 then 0x7FF8000000000000 else bits

def showPt : Pt → String
  | .int i => sx "i" [toString i]
  | .dbl b => sx "d" [toString (canonNaN b).toNat]

def showPoint (p : DataPoint) : String :=
  sx "pt" [sx "start" [toString p.startTimeUnixNano], sx "time" [toString p.timeUnixNano], showPt p.value,
    showAttrs "attrs" p.attributes]

def showMetric (r : MetricRecord) : String :=
  sx "metric" [sx "scope" [atomOfString r.scope], sx "name" [atomOfString r.name], sx "unit" [atomOfString r.unit],
    (match r.data with
      | .sum t m => sx "sum" [toString t, toString m]
      | .gauge => "gauge"),
    sx "points" (r.points.map showPoint)]

/-! ### branch signatures (coverage statistics only) -/

partial def treeKinds : V → List String
  | .null => ["null"] | .bool _ => ["bool"] | .int i => [if inI64 i then "int" else "bigint"]
  | .f64 b _ _ => [if isFiniteBits b then "f64" else "nonfinite"] | .f32 _ _ _ => ["f32"]
  | .text _ => ["text"] | .bytes _ => ["bytes"]
  | .seq xs => "seq" :: xs.flatMap treeKinds
  | .tuple xs => "tuple" :: xs.flatMap treeKinds
  | .map kvs => "map" :: kvs.flatMap fun (k, v) => (treeKinds k).map ("key-" ++ ·) ++ treeKinds v
  | .record fs => "record" :: fs.flatMap fun (_, v) => treeKinds v
  | .some v => "some" :: treeKinds v
  | .uvar _ => ["uvar"] | .nvar _ v => "nvar" :: treeKinds v
  | .svar _ fs => "svar" :: fs.flatMap fun (_, v) => treeKinds v
  | .tvar _ xs => "tvar" :: xs.flatMap treeKinds

def pvKinds : PV → List String
  | .simple .null => ["null"] | .simple (.bool _) => ["bool"]
  | .simple (.int i) => [if inI64 i then "int" else "bigint"]
  | .simple (.f64 b _ _) => [if isFiniteBits b then "f64" else "nonfinite"]
  | .simple (.str _) => ["str"] | .simple (.disp _) => ["disp"] | .simple (.dbg _) => ["dbg"]
  | .simple (.err _ cs) => [if cs.isEmpty then "err" else "errchain"]
  | .simple (.lvl _) => ["lvl"] | .simple (.tid _) => ["tid"] | .simple (.sid _) => ["sid"]
  | .simple (.kind _) => ["kind"]
  | .tree v _ => treeKinds v

def dedupStrings (xs : List String) : List String :=
  xs.foldl (fun acc x => if acc.contains x then acc else acc ++ [x]) []

def eventSig (e : Event) : String :=
  let keys := e.props.map Prod.fst
  let ext := match e.extent with | .none => "none" | .point _ => "point" | .range _ _ => "range"
  let kinds := dedupStrings (e.props.flatMap fun (_, v) => pvKinds v)
  let wk := dedupStrings (keys.filter fun k =>
    ["lvl", "trace_id", "span_id", "span_parent", "err", "evt_kind", "span_name", "metric_name", "metric_agg",
     "metric_value", "metric_unit", "msg", "ts", "mdl", "tpl", "ts_start", "exception.message"].contains k)
  s!"ext={ext},dup={!nodupKeys keys},uniq={e.unique},holes={e.tpl.any fun | .hole _ => true | _ => false}," ++
    s!"kinds={"+".intercalate kinds},wk={"+".intercalate wk}"

def isTrivial (e : Event) : Bool := e.props.isEmpty && e.tpl.isEmpty

/-! ### streams -/

def runFile (line : String) : String :=
  match Sexp.parse line with
  | some (.list [.atom "file", ev]) =>
    match event? ev with
    | some e =>
      let out := match fileLine e with
        | some cs => sx "line" [atomOfString (String.ofList cs)]
        | none => "discarded"
      let sig := if isTrivial e then "trivial" else eventSig e
      s!"{out}\t{sig}"
    | none => "bad-op"
  | _ => "bad-op"

/-- keys a `(reemit …)` value may not sit under (the same list as `RE_RESERVED` in
    harness/hotlp/src/streams/c13/mod.rs): the ones some signal lifts out of the attributes -/
def reReserved : List String :=
  ["lvl", "trace_id", "span_id", "span_parent", "err", "evt_kind", "span_name", "metric_name", "metric_agg",
   "metric_value", "metric_unit", "exception.message", "exception.stacktrace"]

/-- the keys of an EVENT's `(reemit …)` values -/
def reKeys : Sexp → Option (List String)
  | .list [.atom "evt", _, _, _, _, .list (.atom "props" :: ps)] =>
    (ps.mapM fun (s : Sexp) => match s with
      | Sexp.list [k, .list [.atom "reemit", _]] => k.str?.map fun k => [k]
      | Sexp.list [_, _] => some []
      | _ => none).map List.flatten
  | _ => none

/-- the encoder of a signal, its records rendered and tagged with their scope (what the collector sees) -/
def encoderOf : SignalS → Event → Option (Enc (String × String))
  | .logs, e => some ((logRecord e).bind fun r => .ok (r.scope, showLog r))
  | .traces, e => (spanRecord e).map fun x => x.bind fun r => .ok (r.scope, showSpan r)
  | .metrics, e => (metricRecord e).map fun x => x.bind fun r => .ok (r.scope, showMetric r)

def runOtlpRe (sig : String) (outerS innerS : Sexp) : String :=
  let sig? : Option SignalS := match sig with
    | "logs" => some .logs | "traces" => some .traces | "metrics" => some .metrics | _ => none
  match sig?, event? outerS, event? innerS, reKeys outerS with
  | some sg, some outer, some inner, some rks =>
    let keys := outer.props.map Prod.fst
    if outer.mdl == inner.mdl then "bad-op"
    else if rks.any (fun k => reReserved.contains k || (keys.filter (· == k)).length != 1) then "bad-op"
    else
      -- how often the formatter runs is the encoder's business (message holes, buffered attributes, …): at least
      -- once iff the event has such a value and its attributes are formatted at all; the observable collapses
      -- the identical nested records into one (`EmitModel.C13.reentrant_emit_accepts_both` is for every count)
      let k := if !rks.isEmpty && formatsAttributes sg outer then 1 else 0
      let out := match emitRe (encoderOf sg) outer inner k [] with
        | .panic => "panic"
        | .ok (recs : List (String × String)) =>
          let pick (mdl : String) : String :=
            ((recs.filter fun (r : String × String) => r.1 == mdl).head?.map Prod.snd).getD "none"
          sx "re" [pick outer.mdl, pick inner.mdl]
      s!"{out}\t{sig},re={rks.length},nested={k},{eventSig outer}"
  | _, _, _, _ => "bad-op"

def runOtlp (line : String) : String :=
  match Sexp.parse line with
  | some (.list [.atom "otlp-re", .atom sig, outer, inner]) => runOtlpRe sig outer inner
  | some (.list [.atom "otlp", .atom sig, ev]) =>
    match event? ev with
    | some e =>
      let out? : Option String := match sig with
        | "logs" => some (match logRecord e with
          | .ok r => showLog r
          | .panic => "panic")
        | "traces" => some (match spanRecord e with
          | none => "none"
          | some (.ok r) => showSpan r
          | some .panic => "panic")
        | "metrics" => some (match metricRecord e with
          | none => "none"
          | some (.ok r) => showMetric r
          | some .panic => "panic")
        | _ => none
      match out? with
      | some out => s!"{out}\t{sig},{eventSig e}"
      | none => "bad-op"
    | none => "bad-op"
  | _ => "bad-op"

def runTerm (line : String) : String :=
  match Sexp.parse line with
  | some (.list [.atom "term", ev]) =>
    match event? ev with
    | some e =>
      match termOutput e with
      | none => "bad-op"
      | some out =>
        let o := match out with
          | .ok s => sx "out" [atomOfString s]
          | .panic => "panic"
        let spark := match (lookupFirst "metric_value" e.props).map seqView with
          | some (.seq bs) => s!"spark={min bs.length 7}"
          | _ => "spark=no"
        s!"{o}\t{spark},{eventSig e}"
    | none => "bad-op"
  | _ => "bad-op"

def streams : List (String × (String → String)) :=
  [("c13_file", runFile), ("c13_otlp", runOtlp), ("c13_otlp_kf", runOtlp), ("c13_term", runTerm)]

end EmitModel.Driver.C13
