/-
  Driver/C01.lean — line-protocol front end of Model/Pipeline.lean.

  stream `c01` (and `c01_static`, which prefixes the same case with a fixture number the model ignores):

    (c01 VIA F E (amb KV…) CLK WHEN EVT T)
    (static N (c01 …))

    VIA  ::= (via gen|slot|setup|initrt ENTRY)   (how the runtime is held: generic value, AmbientSlot, Setup::init_slot,
                                                  Setup::init_runtime)
    ENTRY ::= core | rt | rtemit | rtdyn | (hook K) | (hookevt TPLOPT K) | (macro N)
           | (lvlmacro LEVEL N)                    emit::debug!/info!/warn!/error! at fixture N
           | (evtmacro LM N VIA)                   emit::evt!/debug_evt!/…/error_evt! at fixture N, emitted by VIA
           | (spanmacro attr|new LM mdl|nomdl)     #[emit::LM_span] fn / emit::new_LM_span!, with or without `mdl:`
    LEVEL ::= debug | info | warn | error      LM ::= plain | LEVEL
    VIA  ::= plain | tpl | (lvl LEVEL)         emit!(evt: e) | emit!(evt: e, "over {x}", x: 5) | LEVEL!(evt: e)
    F    ::= (leaf PRED) | (fnleaf PRED) | always | empty | (and F F) | (or F F) | (none) | (some F)
           | (ref F) | (boxed F) | (shared F) | (dynbox F) | (dynarc F) | (dynref F) | (internal F)
           | (minlvl MIN DFLT) | (pathmap R…) | (kind span|metric) | (kindnew span|metric)
             library leaf filters (R, MIN, DFLT as in Driver/C17.lean); they take a leaf number but record nothing
    PRED ::= (const B) | (mdl xM) | (haskey xK) | (keyis xK V) | (extent none|point|range) | (propsge N)
    E    ::= (leaf FL) | fnleaf | empty | (and E E) | (none) | (some E)
           | (wrapf F E) | (wrapfdyn F E) | (wrapm G E) | (wrapmdyn G E)
           | (ref E) | (boxed E) | (shared E) | (dynbox E) | (dynarc E) | (dynref E) | (internal E)
           | (rt F (amb KV…) CLK E) | (slot F (amb KV…) CLK E)
    FL   ::= true | false | (ge N)
    G    ::= id | (addprop xK V) | (prepend xK V) | (setmdl xM) | (settpl xT) | noextent | (setextent EXT)
    KV   ::= (xK V)        V ::= (i INT) | (s xS) | (l LEVEL) | (d xS)      (typed level, Display-only value)
    CLK  ::= none | N      WHEN ::= nowhen | (when F)      TPLOPT ::= none | xT
    EVT  ::= (evt xMDL xTPL EXT (props KV…))      EXT ::= none | (point N) | (range N N)
    T    ::= flush timeout in nanoseconds

  Leaf filters, leaf emitters and mappings are numbered by their position in the line (left to right,
  three separate counters); the harness numbers them the same way.

  Output (compared verbatim with the harness):
    fv=<B>[ids] wv=<B>[ids]|- emit=<LOG> direct=<LOG> flush=<B>[E<i>:t,t;…]
  LOG groups the effects per leaf (filter leaves first, then emitter leaves, ascending), each group in call
  order: F<i>{evt;evt}E<j>{evt}.  evt = hexmdl~hextpl~ext~k=v,k=v
-/
import EmitModel.Base.Sexp
import EmitModel.Model.Pipeline
import EmitModel.Driver.C17

namespace EmitModel.Driver.C01
open EmitModel EmitModel.Pipeline

/-! ### leaf behaviours shipped in the case line -/

inductive Pred where
  | const (b : Bool)
  | mdl (m : String)
  | hasKey (k : String)
  | keyIs (k : String) (v : Val)
  | extentKind (k : Nat) -- 0 none, 1 point, 2 range
  | propsGe (n : Nat)
  -- library leaf filters: their verdict is the model's, they record nothing
  | minLvl (f : EmitModel.Level.MinF)
  | pathMap (regs : List EmitModel.Level.Reg)
  | kind (k : EmitModel.KindText.Kind)

def Pred.isLib : Pred → Bool
  | .minLvl _ => true
  | .pathMap _ => true
  | .kind _ => true
  | _ => false

def Pred.holds : Pred → Evt → Bool
  | .const b, _ => b
  | .mdl m, x => x.mdl == m
  | .hasKey k, x => (lookupFirst k x.props).isSome
  | .keyIs k v, x => lookupFirst k x.props == some v
  | .extentKind n, x =>
    match x.extent with
    | none => n == 0
    | some (.point _) => n == 1
    | some (.range _ _) => n == 2
  | .propsGe n, x => x.props.length ≥ n
  | .minLvl f, x => minLevelLeaf f x
  | .pathMap regs, x => pathMapLeaf regs x
  | .kind k, x => kindLeaf k x

inductive FlushB where
  | always (b : Bool)
  | ge (n : Nat)

def FlushB.holds : FlushB → Nat → Bool
  | .always b, _ => b
  | .ge n, t => t ≥ n

inductive MapF where
  | id
  | addProp (k : String) (v : Val)
  | prepend (k : String) (v : Val)
  | setMdl (m : String)
  | setTpl (t : String)
  | noExtent
  | setExtent (e : Extent)

def MapF.apply : MapF → Evt → Evt
  | .id, x => x
  | .addProp k v, x => { x with props := x.props ++ [(k, v)] }
  | .prepend k v, x => { x with props := (k, v) :: x.props }
  | .setMdl m, x => { x with mdl := m }
  | .setTpl t, x => { x with tpl := t }
  | .noExtent, x => { x with extent := none }
  | .setExtent e, x => { x with extent := some e }

/-! ### parsing -/

structure PState where
  preds : Array Pred := #[]
  fls : Array FlushB := #[]
  maps : Array MapF := #[]

abbrev P := StateT PState Option

def fail {α : Type} : P α := fun _ => none

def liftO {α : Type} (o : Option α) : P α := fun s => o.map fun a => (a, s)

def val? : Sexp → Option Val
  | .list [.atom "i", n] => n.int?.map Val.int
  | .list [.atom "s", s] => s.str?.map Val.str
  | .list [.atom "l", l] => (C17.level? l).map Val.lvl
  | .list [.atom "d", s] => s.str?.map Val.disp
  | _ => none

def kind? : Sexp → Option EmitModel.KindText.Kind
  | .atom "span" => some .span
  | .atom "metric" => some .metric
  | _ => none

def kv? : Sexp → Option (String × Val)
  | .list [k, v] => do
    let k ← k.str?
    let v ← val? v
    pure (k, v)
  | _ => none

def ext? : Sexp → Option (Option Extent)
  | .atom "none" => some none
  | .list [.atom "point", t] => t.nat?.map fun t => some (.point t)
  | .list [.atom "range", a, b] => do
    let a ← a.nat?
    let b ← b.nat?
    pure (some (.range a b))
  | _ => none

def pred? : Sexp → Option Pred
  | .list [.atom "const", b] => b.bool?.map Pred.const
  | .list [.atom "mdl", m] => m.str?.map Pred.mdl
  | .list [.atom "haskey", k] => k.str?.map Pred.hasKey
  | .list [.atom "keyis", k, v] => do
    let k ← k.str?
    let v ← val? v
    pure (.keyIs k v)
  | .list [.atom "extent", .atom "none"] => some (.extentKind 0)
  | .list [.atom "extent", .atom "point"] => some (.extentKind 1)
  | .list [.atom "extent", .atom "range"] => some (.extentKind 2)
  | .list [.atom "propsge", n] => n.nat?.map Pred.propsGe
  | _ => none

def flushB? : Sexp → Option FlushB
  | .atom "true" => some (.always true)
  | .atom "false" => some (.always false)
  | .list [.atom "ge", n] => n.nat?.map FlushB.ge
  | _ => none

def mapF? : Sexp → Option MapF
  | .atom "id" => some .id
  | .list [.atom "addprop", k, v] => do
    let k ← k.str?
    let v ← val? v
    pure (.addProp k v)
  | .list [.atom "prepend", k, v] => do
    let k ← k.str?
    let v ← val? v
    pure (.prepend k v)
  | .list [.atom "setmdl", m] => m.str?.map MapF.setMdl
  | .list [.atom "settpl", t] => t.str?.map MapF.setTpl
  | .atom "noextent" => some .noExtent
  | .list [.atom "setextent", e] => do
    let e ← ext? e
    e.map MapF.setExtent
  | _ => none

def amb? : Sexp → Option (List (String × Val))
  | .list (.atom "amb" :: kvs) => kvs.mapM kv?
  | _ => none

def clk? : Sexp → Option (Option Nat)
  | .atom "none" => some none
  | s => s.nat?.map some

def newPred (p : Pred) : P Nat := fun s => some (s.preds.size, { s with preds := s.preds.push p })
def newFl (p : FlushB) : P Nat := fun s => some (s.fls.size, { s with fls := s.fls.push p })
def newMap (p : MapF) : P Nat := fun s => some (s.maps.size, { s with maps := s.maps.push p })

partial def flt? : Sexp → P Flt
  | .list [.atom "leaf", p] => do
    let p ← liftO (pred? p)
    let i ← newPred p
    pure (.leaf i)
  | .list [.atom "fnleaf", p] => do
    let p ← liftO (pred? p)
    let i ← newPred p
    pure (.leaf i)
  | .atom "always" => pure .always
  | .atom "empty" => pure .empty
  | .list [.atom "and", a, b] => do
    let a ← flt? a
    let b ← flt? b
    pure (.and a b)
  | .list [.atom "or", a, b] => do
    let a ← flt? a
    let b ← flt? b
    pure (.or a b)
  | .list [.atom "none"] => pure (.opt none)
  | .list [.atom "some", f] => do
    let f ← flt? f
    pure (.opt (some f))
  | .list [.atom "ref", f] => Flt.ref <$> flt? f
  | .list [.atom "boxed", f] => Flt.boxed <$> flt? f
  | .list [.atom "shared", f] => Flt.shared <$> flt? f
  | .list [.atom "dynbox", f] => Flt.erased <$> flt? f
  | .list [.atom "dynarc", f] => Flt.erased <$> flt? f
  | .list [.atom "dynref", f] => Flt.erased <$> flt? f
  | .list [.atom "internal", f] => Flt.internal <$> flt? f
  | .list [.atom "minlvl", mn, df] => do
    let f ← liftO (C17.minF? mn df)
    Flt.leaf <$> newPred (.minLvl f)
  | .list (.atom "pathmap" :: rs) => do
    let regs ← liftO (rs.mapM C17.reg?)
    Flt.leaf <$> newPred (.pathMap regs)
  | .list [.atom "kind", k] => do
    let k ← liftO (kind? k)
    Flt.leaf <$> newPred (.kind k)
  | .list [.atom "kindnew", k] => do
    let k ← liftO (kind? k)
    Flt.leaf <$> newPred (.kind k)
  | _ => fail

partial def emt? : Sexp → P Emt
  | .list [.atom "leaf", fl] => do
    let fl ← liftO (flushB? fl)
    let i ← newFl fl
    pure (.leaf i)
  | .atom "fnleaf" => do
    -- function leaves share the numbering of the other leaves; their flush behaviour is fixed
    let i ← newFl (.always true)
    pure (.fnLeaf i)
  | .atom "empty" => pure .empty
  | .list [.atom "and", a, b] => do
    let a ← emt? a
    let b ← emt? b
    pure (.and a b)
  | .list [.atom "none"] => pure (.opt none)
  | .list [.atom "some", e] => do
    let e ← emt? e
    pure (.opt (some e))
  | .list [.atom "wrapf", f, e] => do
    let f ← flt? f
    let e ← emt? e
    pure (.wrapFilter f e)
  | .list [.atom "wrapfdyn", f, e] => do
    let f ← flt? f
    let e ← emt? e
    pure (.wrapFilter f e)
  | .list [.atom "wrapm", g, e] => do
    let g ← liftO (mapF? g)
    let g ← newMap g
    let e ← emt? e
    pure (.wrapMap g e)
  | .list [.atom "wrapmdyn", g, e] => do
    let g ← liftO (mapF? g)
    let g ← newMap g
    let e ← emt? e
    pure (.wrapMap g e)
  | .list [.atom "ref", e] => Emt.ref <$> emt? e
  | .list [.atom "boxed", e] => Emt.boxed <$> emt? e
  | .list [.atom "shared", e] => Emt.shared <$> emt? e
  | .list [.atom "dynbox", e] => Emt.erased <$> emt? e
  | .list [.atom "dynarc", e] => Emt.erased <$> emt? e
  | .list [.atom "dynref", e] => Emt.erased <$> emt? e
  | .list [.atom "internal", e] => Emt.internal <$> emt? e
  | .list [.atom "rt", f, a, c, e] => do
    let f ← flt? f
    let a ← liftO (amb? a)
    let c ← liftO (clk? c)
    let e ← emt? e
    pure (.runtime f a c e)
  | .list [.atom "slot", f, a, c, e] => do
    let f ← flt? f
    let a ← liftO (amb? a)
    let c ← liftO (clk? c)
    let e ← emt? e
    pure (.runtime f a c e)
  | _ => fail

def evt? : Sexp → Option Evt
  | .list [.atom "evt", m, t, e, .list (.atom "props" :: ps)] => do
    let m ← m.str?
    let t ← t.str?
    let e ← ext? e
    let ps ← ps.mapM kv?
    pure ⟨m, t, e, ps⟩
  | _ => none

/-- how the event value of an `*_evt!` macro is emitted -/
inductive EvtVia where
  | plain                     -- emit::emit!(rt, evt: e)
  | tpl                       -- emit::emit!(rt, evt: e, "over {x}", x: 5)
  | lvl (m : LevelMacro)      -- emit::<m>!(rt, evt: e)

def levelMacro? : Sexp → Option LevelMacro
  | .atom "debug" => some .debug
  | .atom "info" => some .info
  | .atom "warn" => some .warn
  | .atom "error" => some .error
  | _ => none

def levelMacroOrPlain? : Sexp → Option LevelMacro
  | .atom "plain" => some .plain
  | s => levelMacro? s

def evtVia? : Sexp → Option EvtVia
  | .atom "plain" => some .plain
  | .atom "tpl" => some .tpl
  | .list [.atom "lvl", l] => (levelMacro? l).map EvtVia.lvl
  | _ => none

def lmName : LevelMacro → String
  | .plain => "plain" | .debug => "debug" | .info => "info" | .warn => "warn" | .error => "error"

inductive Entry where
  | plain (name : String)
  | hook (k : Nat)
  | hookEvt (tpl : Option String) (k : Nat)
  | macro (n : Nat)
  | lvlMacro (m : LevelMacro) (n : Nat)
  | evtMacro (m : LevelMacro) (n : Nat) (via : EvtVia)
  | spanMacro (attr : Bool) (m : LevelMacro) (withMdl : Bool)

structure Via where
  rtKind : String
  entry : Entry

def entry? : Sexp → Option Entry
  | .atom "core" => some (.plain "core")
  | .atom "rt" => some (.plain "rt")
  | .atom "rtemit" => some (.plain "rtemit")
  | .atom "rtdyn" => some (.plain "rtdyn")
  | .list [.atom "hook", k] => k.nat?.map Entry.hook
  | .list [.atom "hookevt", .atom "none", k] => k.nat?.map (Entry.hookEvt none)
  | .list [.atom "hookevt", t, k] => do
    let t ← t.str?
    let k ← k.nat?
    pure (.hookEvt (some t) k)
  | .list [.atom "macro", n] => n.nat?.map Entry.macro
  | .list [.atom "lvlmacro", l, n] => do
    let m ← levelMacro? l
    let n ← n.nat?
    pure (.lvlMacro m n)
  | .list [.atom "evtmacro", l, n, via] => do
    let m ← levelMacroOrPlain? l
    let n ← n.nat?
    let via ← evtVia? via
    pure (.evtMacro m n via)
  | .list [.atom "spanmacro", .atom form, l, .atom md] => do
    let m ← levelMacroOrPlain? l
    let attr ← if form == "attr" then some true else if form == "new" then some false else none
    let withMdl ← if md == "mdl" then some true else if md == "nomdl" then some false else none
    pure (.spanMacro attr m withMdl)
  | _ => none

def via? : Sexp → Option Via
  | .list [.atom "via", .atom k, e] =>
    if k == "gen" || k == "slot" || k == "setup" || k == "initrt" then (entry? e).map fun e => ⟨k, e⟩ else none
  | _ => none

def Entry.name : Entry → String
  | .plain n => n
  | .hook _ => "hook"
  | .hookEvt none _ => "hookevt"
  | .hookEvt (some _) _ => "hookevt-tpl"
  | .macro _ => "macro"
  | .lvlMacro m _ => s!"{lmName m}!"
  | .evtMacro m _ .plain => s!"{lmName m}_evt!"
  | .evtMacro m _ .tpl => s!"{lmName m}_evt!+tpl"
  | .evtMacro m _ (.lvl o) => s!"{lmName m}_evt!+{lmName o}!"
  | .spanMacro attr m withMdl => s!"{if attr then "#" else "new_"}{lmName m}_span{if withMdl then "" else "-nomdl"}"

def Via.name (v : Via) : String := v.rtKind ++ "/" ++ v.entry.name

structure Case where
  via : Via
  rt : Rt
  callSite : Option Flt
  evt : Evt
  timeout : Nat
  st : PState

def when? : Sexp → P (Option Flt)
  | .atom "nowhen" => pure none
  | .list [.atom "when", f] => some <$> flt? f
  | _ => fail

def case? : Sexp → Option Case
  | .list [.atom "c01", via, f, e, a, c, w, x, t] =>
    let p : P Case := do
      let via ← liftO (via? via)
      let f ← flt? f
      let e ← emt? e
      let a ← liftO (amb? a)
      let c ← liftO (clk? c)
      let w ← when? w
      let x ← liftO (evt? x)
      let t ← liftO t.nat?
      -- a call-site filter exists only at the macro hooks
      match via.entry, w with
      | .plain _, some _ => fail
      | _, _ => pure ()
      let st ← get
      pure { via := via, rt := ⟨f, e, a, c⟩, callSite := w, evt := x, timeout := t, st := st }
    (p {}).map (·.1)
  | _ => none

/-! ### rendering -/

def renderVal : Val → String
  | .int i => "i" ++ toString i
  | .str s => "s" ++ hexOfBytes s.toUTF8.toList
  | .lvl l => "?" ++ l.display
  | .kind k => "?" ++ k.display
  | .disp s => "?" ++ s

def renderExt : Option Extent → String
  | none => "n"
  | some (.point t) => "p" ++ toString t
  | some (.range a b) => "r" ++ toString a ++ "-" ++ toString b

def hexS (s : String) : String := hexOfBytes s.toUTF8.toList

def renderEvt (x : Evt) : String :=
  hexS x.mdl ++ "~" ++ hexS x.tpl ++ "~" ++ renderExt x.extent ++ "~" ++
    ",".intercalate (x.props.map fun kv => hexS kv.1 ++ "=" ++ renderVal kv.2)

def insertSorted (n : Nat) : List Nat → List Nat
  | [] => [n]
  | m :: rest => if n < m then n :: m :: rest else if n == m then m :: rest else m :: insertSorted n rest

def sortedIds (l : List Nat) : List Nat := l.foldl (fun acc n => insertSorted n acc) []

def renderGroups (tag : String) (l : List (Nat × Evt)) : String :=
  String.join ((sortedIds (l.map Prod.fst)).map fun i =>
    tag ++ toString i ++ "{" ++ ";".intercalate ((l.filter (·.1 == i)).map fun p => renderEvt p.2) ++ "}")

def renderLog (log : List Obs) : String :=
  renderGroups "F" (log.filterMap Obs.flt?) ++ renderGroups "E" (log.filterMap Obs.dlv?)

def renderIds (log : List Obs) : String :=
  ",".intercalate ((log.filterMap Obs.flt?).map fun p => toString p.1)

def renderVerdict (r : Bool × List Obs) : String := s!"{r.1}[{renderIds r.2}]"

def renderFlush (r : Bool × List (Nat × Nat)) : String :=
  s!"{r.1}[" ++ ";".intercalate ((sortedIds (r.2.map Prod.fst)).map fun i =>
    "E" ++ toString i ++ ":" ++ ",".intercalate ((r.2.filter (·.1 == i)).map fun p => toString p.2)) ++ "]"

/-! ### running a case on the model -/

def bucket (n : Nat) : String := if n == 0 then "0" else if n ≤ 2 then "1-2" else if n ≤ 6 then "3-6" else "7+"

/-! ### the static call sites of harness/hcore/src/streams/c01 (`macro_fixtures()` and sites.rs) -/

/-- template and call-site properties (in key order) of emit fixture `n` -/
def fixture? : Nat → Option (String × List (String × Val))
  | 0 => some ("fx0", [])
  | 1 => some ("fx1 {a}", [("a", .int 1)])
  | 2 => some ("fx2 {b} and {a}", [("a", .int (-7)), ("b", .str "bee")])
  | 3 => some ("fx3", [("a", .str "s"), ("n", .int 0), ("z", .int 5)])
  | _ => none

/-- The case's event must start with the fixture's own properties; the rest is the `props:` base. -/
def splitFixture (n : Nat) (x : Evt) : Option (List (String × Val) × List (String × Val)) :=
  match fixture? n with
  | some (tpl, fp) => if x.tpl == tpl && x.props.take fp.length == fp then some (fp, x.props.drop fp.length) else none
  | none => none

def sitesModule : String := "hcore::streams::c01::sites"
def spanTpl : String := "sp {n}"
def spanProps : List (String × Val) := [("n", .int 7)]
/-- `ConstRng` fills with 0x2a: the ids every span of these fixtures gets -/
def spanIds : List (String × Val) :=
  [("trace_id", .disp (String.join (List.replicate 16 "2a"))), ("span_id", .disp (String.join (List.replicate 8 "2a")))]

def spanModule : LevelMacro → String
  | .plain => sitesModule ++ "::sp_plain"
  | .debug => sitesModule ++ "::sp_debug"
  | .info => sitesModule ++ "::sp_info"
  | .warn => sitesModule ++ "::sp_warn"
  | .error => sitesModule ++ "::sp_error"

/-- The effect log of the emission step, or `none` when the line does not describe the call site it names. -/
def emitLog (c : Case) (ρ : Nat → Evt → Bool) (μ : Nat → Evt → Evt) : Option (List Obs) :=
  let x := c.evt
  match c.via.entry with
  | .plain _ => some (emit ρ μ c.rt none x)
  | .hook k => some (hookEmit ρ μ c.rt c.callSite x.mdl x.tpl x.extent (x.props.drop k) (x.props.take k))
  | .hookEvt tpl k => some (hookEmitEvent ρ μ c.rt c.callSite { x with props := x.props.drop k } tpl (x.props.take k))
  | .macro _ => some (hookEmit ρ μ c.rt c.callSite x.mdl x.tpl x.extent [] x.props)
  | .lvlMacro m n => do
    let (fp, base) ← splitFixture n x
    pure (macroEmit ρ μ c.rt c.callSite m x.mdl x.tpl x.extent base fp)
  | .evtMacro m n via => do
    if n == 2 then none
    let (fp, base) ← splitFixture n x
    let e := macroEvt m x.mdl x.tpl x.extent base fp
    match via with
    | .plain => pure (macroEmitEvt ρ μ c.rt c.callSite .plain e none [])
    | .tpl => pure (macroEmitEvt ρ μ c.rt c.callSite .plain e (some "over {x}") [("x", .int 5)])
    | .lvl o => pure (macroEmitEvt ρ μ c.rt c.callSite o e none [])
  | .spanMacro _ m withMdl =>
    if x.tpl != spanTpl || x.extent.isSome || x.props != spanProps then none
    else if !withMdl && (x.mdl != spanModule m || c.callSite.isSome) then none
    else some (spanMacro ρ μ c.rt c.callSite m x.mdl x.tpl spanProps spanIds ⟨x.mdl, "body", none, []⟩)

def runCase (c : Case) : String :=
  let ρ : Nat → Evt → Bool := fun i x => (c.st.preds[i]?.map (·.holds x)).getD false
  let μ : Nat → Evt → Evt := fun g x => (c.st.maps[g]?.map (·.apply x)).getD x
  let φ : Nat → Nat → Bool := fun i t => (c.st.fls[i]?.map (·.holds t)).getD false
  let x := c.evt
  let fv := c.rt.filter.evalTrace ρ x
  match emitLog c ρ μ with
  | none => "bad-op"
  | some log =>
  -- library leaf filters record nothing
  let isLib : Nat → Bool := fun i => (c.st.preds[i]?.map Pred.isLib).getD false
  let vis : List Obs → List Obs := fun l => l.filter fun o => match o with | .flt i _ => !isLib i | _ => true
  let fv := (fv.1, vis fv.2)
  let wv := match c.callSite with
    | some w => let r := w.evalTrace ρ x; renderVerdict (r.1, vis r.2)
    | none => "-"
  let log := vis log
  let dlog := vis (direct ρ μ c.rt x)
  let fl := c.rt.flush φ c.timeout
  let out := s!"fv={renderVerdict fv} wv={wv} emit={renderLog log} direct={renderLog dlog} flush={renderFlush fl}"
  let nd := (log.filterMap Obs.dlv?).length
  let nlib := (c.st.preds.toList.filter Pred.isLib).length
  let trivial := c.st.fls.size == 0 && c.st.preds.size == 0
  let extSig := match x.extent, c.rt.clk with
    | some _, some _ => "own-wins"
    | some _, none => "own"
    | none, some _ => "clock"
    | none, none => "none"
  let sig := if trivial then "trivial" else
    s!"via={c.via.name},cs={c.callSite.isSome},dlv={bucket nd},ext={extSig},amb={bucket c.rt.amb.length},nf={bucket c.st.preds.size},ne={bucket c.st.fls.size},nm={bucket c.st.maps.size},lib={min nlib 2},fl={fl.1}"
  s!"{out}\t{sig}"

def runC01 (line : String) : String :=
  match Sexp.parse line with
  | some s =>
    match case? s with
    | some c => runCase c
    | none => "bad-op"
  | none => "bad-op"

def runStatic (line : String) : String :=
  match Sexp.parse line with
  | some (.list [.atom "static", n, s]) =>
    match n.nat?, case? s with
    | some _, some c => runCase c
    | _, _ => "bad-op"
  | _ => "bad-op"

def streams : List (String × (String → String)) :=
  [("c01", runC01), ("c01_static", runStatic), ("c17_macro", runC01)]

end EmitModel.Driver.C01
