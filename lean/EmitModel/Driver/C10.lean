/-
  Driver/C10.lean — line-protocol front end of Model/FileSet.lean (shared by the streams `c10`, `c11`).

  case ::= (fs CFG DIR PLAN HIST)
  CFG  ::= (cfg xPREFIX xEXT day|hour|minute REUSE MAXFILES MAXSIZE xSEP)
  DIR  ::= (dir (xNAME xCONTENT)…)                 pre-existing files (synced, durable)
  PLAN ::= (plan (IDX err) | (IDX short N) | (IDX crash W DROPNEW LOSE…) …)   every other call succeeds
  HIST ::= (hist STEP…)
  STEP ::= (b NOW ID (pre xEV…) (ev xEV…))          push `pre`, clear (iff `pre` is non-empty), push `ev`, on_batch
         | (retry NOW ID)                           on_batch on the batch handed back by the last failure, if any
         | (restart)                                drop the worker, construct a new one
  NOW  ::= (Y MO D H MI S NANOS)

  output ::= step results joined by `;`, each  RES@A[LOG]{FILES}
  RES  ::= ok | retry:INDEX:TOTAL:REMAINING | noretry | crash | none | restart
  A    ::= 1 | 0 (the worker holds an active file)
  LOG  ::= c=xNAME | d=xNAME | o=xNAME, comma separated (created / deleted / opened for append)
  FILES::= files whose state changed in this step, sorted by name: xNAME=xSYNCED/xUNSYNCED/d|n  or xNAME=-
-/
import EmitModel.Base.Sexp
import EmitModel.Model.FileSet

namespace EmitModel.Driver.C10
open EmitModel EmitModel.FileSet

def natsOfBytes (bs : List UInt8) : List Nat := bs.map (·.toNat)
def hexOfNats (ns : List Nat) : String := atomOfBytes (ns.map UInt8.ofNat)

def nats? (s : Sexp) : Option (List Nat) := s.bytes?.map natsOfBytes

def rollBy? : Sexp → Option RollBy
  | .atom "day" => some .day
  | .atom "hour" => some .hour
  | .atom "minute" => some .minute
  | _ => none

def cfg? : Sexp → Option Config
  | .list [.atom "cfg", p, e, rb, reuse, mf, ms, sep] => do
    let p ← nats? p
    let e ← nats? e
    let rb ← rollBy? rb
    let reuse ← reuse.bool?
    let mf ← mf.nat?
    let ms ← ms.nat?
    let sep ← nats? sep
    pure { pfx := p, ext := e, rollBy := rb, reuse := reuse, maxFiles := mf, maxSize := ms, sep := sep }
  | _ => none

def dirEntry? : Sexp → Option (List Nat × File)
  | .list [n, c] => do
    let n ← nats? n
    let c ← nats? c
    pure (n, { synced := c, unsynced := [], durable := true })
  | _ => none

def dir? : Sexp → Option (List (List Nat × File))
  | .list (.atom "dir" :: es) => es.mapM dirEntry?
  | _ => none

def planEntry? : Sexp → Option (Nat × Fault)
  | .list [i, .atom "err"] => do pure (← i.nat?, .err)
  | .list [i, .atom "short", n] => do pure (← i.nat?, .short (← n.nat?))
  | .list (i :: .atom "crash" :: w :: d :: lose) => do
    pure (← i.nat?, .crash (← w.nat?) (← lose.mapM Sexp.nat?) (← d.bool?))
  | _ => none

def plan? : Sexp → Option (List (Nat × Fault))
  | .list (.atom "plan" :: es) => es.mapM planEntry?
  | _ => none

def planFn (es : List (Nat × Fault)) (i : Nat) : Fault :=
  match es.lookup i with
  | some f => f
  | none => .ok

def parts? : Sexp → Option Parts
  | .list [y, mo, d, h, mi, s, ns] => do
    let y ← y.nat?; let mo ← mo.nat?; let d ← d.nat?; let h ← h.nat?; let mi ← mi.nat?; let s ← s.nat?
    let ns ← ns.nat?
    if 1970 ≤ y ∧ y ≤ 9999 ∧ 1 ≤ mo ∧ mo ≤ 12 ∧ 1 ≤ d ∧ d ≤ 31 ∧ h ≤ 23 ∧ mi ≤ 59 ∧ s ≤ 59 ∧ ns ≤ 999999999 then
      pure { years := y, months := mo, days := d, hours := h, minutes := mi, seconds := s, nanos := ns }
    else none
  | _ => none

inductive Step where
  | batch (now : Parts) (id : Nat) (pre ev : List (List Nat))
  | retry (now : Parts) (id : Nat)
  | restart

def step? : Sexp → Option Step
  | .list [.atom "b", now, id, .list (.atom "pre" :: pre), .list (.atom "ev" :: ev)] => do
    let now ← parts? now
    let id ← id.nat?
    if id ≥ 4294967296 then none
    let pre ← pre.mapM nats?
    let ev ← ev.mapM nats?
    pure (.batch now id pre ev)
  | .list [.atom "retry", now, id] => do
    let now ← parts? now
    let id ← id.nat?
    if id ≥ 4294967296 then none
    pure (.retry now id)
  | .list [.atom "restart"] => some .restart
  | _ => none

def hist? : Sexp → Option (List Step)
  | .list (.atom "hist" :: ss) => ss.mapM step?
  | _ => none

structure Case where
  cfg : Config
  dir : List (List Nat × File)
  plan : List (Nat × Fault)
  hist : List Step

def case? (line : String) : Option Case :=
  match Sexp.parse line with
  | some (.list [.atom "fs", c, d, p, h]) => do
    pure { cfg := ← cfg? c, dir := ← dir? d, plan := ← plan? p, hist := ← hist? h }
  | _ => none

/-! ### Rendering -/

def showRes : Res → String
  | .ok => "ok"
  | .retry b => s!"retry:{b.index}:{b.bufs.length}:{b.remaining}"
  | .noRetry => "noretry"
  | .crashed => "crash"

def showEv : Ev → String
  | .created n => "c=" ++ hexOfNats n
  | .deleted n => "d=" ++ hexOfNats n
  | .opened n => "o=" ++ hexOfNats n

def showFile (f : File) : String :=
  hexOfNats f.synced ++ "/" ++ hexOfNats f.unsynced ++ "/" ++ (if f.durable then "d" else "n")

def sortedNames (fs : List (List Nat × File)) : List (List Nat) := (sortDesc (fs.map (·.1))).reverse

/-- Files whose state differs between two filesystems, sorted by name. -/
def showDelta (old new : List (List Nat × File)) : String :=
  let names := sortedNames (new ++ old.filter fun e => (fsGet new e.1).isNone)
  let parts := names.filterMap fun n =>
    match fsGet old n, fsGet new n with
    | some f, some g => if f = g then none else some (hexOfNats n ++ "=" ++ showFile g)
    | none, some g => some (hexOfNats n ++ "=" ++ showFile g)
    | some _, none => some (hexOfNats n ++ "=-")
    | none, none => none
  ",".intercalate parts

def showStep (res : String) (old new : St) : String :=
  let logs := new.log.drop old.log.length
  let a := if new.active.isSome then "1" else "0"
  res ++ "@" ++ a ++ "[" ++ ",".intercalate (logs.map showEv) ++ "]{" ++ showDelta old.fs new.fs ++ "}"

def buildBatch (pre ev : List (List Nat)) : Batch :=
  let b := pre.foldl Batch.push Batch.empty
  let b := if pre.isEmpty then b else b.clear
  ev.foldl Batch.push b

/-- Branch tag of one `on_batch` call, for coverage statistics only. -/
def tagOf (old new : St) (res : Res) : String :=
  let logs := new.log.drop old.log.length
  let created := logs.any fun | .created _ => true | _ => false
  let opened := logs.any fun | .opened _ => true | _ => false
  let deleted := logs.any fun | .deleted _ => true | _ => false
  let path :=
    if old.active.isSome then (if created then "roll" else if new.op = old.op then "noop" else "keep")
    else if created then (if opened then "reuse-roll" else "create") else if opened then "reuse" else "fail"
  let r := match res with | .ok => "ok" | .retry _ => "retry" | .noRetry => "noretry" | .crashed => "crash"
  path ++ (if deleted then "+del" else "") ++ "/" ++ r

structure Run where
  st : St
  pending : Option Batch
  outs : List String
  tags : List String

def runStep (c : Case) (r : Run) : Step → Run
  | .restart =>
    let s' := restart r.st
    { st := s', pending := none, outs := r.outs ++ [showStep "restart" r.st s'], tags := r.tags }
  | .batch now id pre ev =>
    let b := buildBatch pre ev
    let (res, s') := onBatch c.cfg (planFn c.plan) now id b r.st
    let pending := match res with | .retry b' => some b' | _ => none
    { st := s', pending := pending, outs := r.outs ++ [showStep (showRes res) r.st s'],
      tags := r.tags ++ [tagOf r.st s' res] }
  | .retry now id =>
    match r.pending with
    | none => { r with outs := r.outs ++ [showStep "none" r.st r.st] }
    | some b =>
      let (res, s') := onBatch c.cfg (planFn c.plan) now id b r.st
      let pending := match res with | .retry b' => some b' | _ => none
      { st := s', pending := pending, outs := r.outs ++ [showStep (showRes res) r.st s'],
        tags := r.tags ++ ["re:" ++ tagOf r.st s' res] }

def runCase (c : Case) : String :=
  let init : St := { fs := c.dir, op := 0, active := none, log := [], faulted := false }
  let r := c.hist.foldl (runStep c) { st := init, pending := none, outs := [], tags := [] }
  let sig := if r.tags.isEmpty then "trivial" else ",".intercalate (r.tags.take 8)
  ";".intercalate r.outs ++ "\t" ++ sig

def run (line : String) : String :=
  match case? line with
  | some c => runCase c
  | none => "bad-op"

/-! ### Name formatting alone: `(name xPREFIX xEXT ROLLBY NOW ID)` → the created file name and its parse -/

def runName (line : String) : String :=
  match Sexp.parse line with
  | some (.list [.atom "name", p, e, rb, now, id]) =>
    match nats? p, nats? e, rollBy? rb, parts? now, id.nat? with
    | some p, some e, some rb, some now, some id =>
      if id ≥ 4294967296 then "bad-op" else
      let n := nameFor p e rb now id
      let back := match memberTs? p e n with | some ts => hexOfNats ts | none => "none"
      hexOfNats n ++ " " ++ back ++ "\t" ++ (match rb with | .day => "day" | .hour => "hour" | .minute => "minute")
    | _, _, _, _, _ => "bad-op"
  | _ => "bad-op"

/-! ### Membership alone: `(member xPREFIX xEXT xNAME)` → the parsed period or `none` -/

def runMember (line : String) : String :=
  match Sexp.parse line with
  | some (.list [.atom "member", p, e, n]) =>
    match nats? p, nats? e, nats? n with
    | some p, some e, some n =>
      match memberTs? p e n with
      | some ts => hexOfNats ts ++ "\tmember"
      | none => "none\tforeign"
    | _, _, _ => "bad-op"
  | _ => "bad-op"

/-! ### The template split alone: `(split xPATH)` → `err` | xDIR xPREFIX xEXT -/

def runSplit (line : String) : String :=
  match Sexp.parse line with
  | some (.list [.atom "split", p]) =>
    match nats? p with
    | some p =>
      match dirPrefixExt p with
      | none => "err\terr"
      | some (d, pf, e) =>
        hexOfNats d ++ " " ++ hexOfNats pf ++ " " ++ hexOfNats e ++ "\t" ++
          (if d.isEmpty then "nodir" else "dir") ++ (if (splitLast dot p).isSome then "-dot" else "-nodot")
    | none => "bad-op"
  | _ => "bad-op"

/-! ### The emitting side: `(emit xSEP (ev ITEM…))` → the file content and `failed=N`; `(json (ev (xMSG xPROP)…))` → n=N ok=true -/

/-- ITEM ::= xPAYLOAD | (t xPAYLOAD) | (fail xPARTIAL) | (tfail xPARTIAL)   (`t…` = emitted from another thread) -/
def item? : Sexp → Option Formatted
  | .list [.atom "t", p] => (nats? p).map Formatted.ok
  | .list [.atom "fail", p] => (nats? p).map Formatted.fail
  | .list [.atom "tfail", p] => (nats? p).map Formatted.fail
  | s => (nats? s).map Formatted.ok

def runEmit (line : String) : String :=
  match Sexp.parse line with
  | some (.list [.atom "emit", sep, .list (.atom "ev" :: evs)]) =>
    match nats? sep, evs.mapM item? with
    | some sep, some ws =>
      let (bufs, failed) := emitAll sep ws
      let added := ws.filter fun w => match w with | .ok e => !(sep.isSuffixOf e) | .fail _ => false
      hexOfNats bufs.flatten ++ s!" failed={failed}" ++ "\t" ++
        (if ws.isEmpty then "trivial" else s!"added={min added.length 3},failed={min failed 2}")
    | _, _ => "bad-op"
  -- restarted onto an existing file of the current period (`reuse_files(true)`) that holds exactly `pre`: the worker's
  -- recovery write (`Model.FileSet`, theorems `reuse_recovers`, `recovery_separator_first`) puts the CONFIGURED
  -- separator before the first event; a life without a written event leaves the file alone
  | some (.list [.atom "emitr", sep, pre, .list (.atom "ev" :: evs)]) =>
    match nats? sep, nats? pre, evs.mapM item? with
    | some sep, some pre, some ws =>
      let (bufs, failed) := emitAll sep ws
      let content := if bufs.isEmpty then pre else pre ++ sep ++ bufs.flatten
      hexOfNats content ++ s!" failed={failed}" ++ "\t" ++
        (if bufs.isEmpty then "restart-untouched" else if sep.isSuffixOf pre then "restart-complete" else "restart-torn")
    | _, _, _ => "bad-op"
  | some (.list [.atom "json", .list (.atom "ev" :: evs)]) =>
    match evs.mapM (fun e => match e with | .list [m, p] => (do pure (← m.str?, ← p.str?)) | _ => none) with
    | some evs => s!"n={evs.length} ok=true\t" ++ (if evs.isEmpty then "trivial" else "json")
    | none => "bad-op"
  | _ => "bad-op"

def streams : List (String × (String → String)) :=
  [("c10", run), ("c10_emit", runEmit)]

end EmitModel.Driver.C10
