/-
  Driver/C18.lean — line-protocol front end of Model/Traceparent.lean.
    stream `c18` : (c18 VARIANT HASSAMPLER (decisions B…) OUTSIDE P…)   VARIANT ::= concrete | boxdyn | arcdyn | assert | slot | setup | option
        (how the traceparent ctxt is held: plain, boxed / shared erased, AssertInternal-wrapped, or as the erased ctxt of an
         AmbientSlot runtime — the model is the same for all: wrappers are transparent, property C03)
        P ::= event | (span P…) | (spant P…) | (spana P…) | (push (TRACE SPAN FLAGS) P…) | (carry P…) | (root P…)
            | (pushs TS P…) | (pushb (TRACE SPAN FLAGS) TS P…) | (spanp P…) | (pushp (TRACE SPAN FLAGS) P…) | (sspan (TRACE SPAN FLAGS) P…)      TS ::= N (0 = the empty tracestate; text "sN")
            | spanevt | spanevts | spanevte | spanevtp    (a completed span emitted as an EVENT through the runtime — range extent,
              evt_kind span, ids of `SpanCtxt::current(ctxt).new_child(rng)`: as `emit!` props / `rt.emit(Span::new(..))` /
              `emit!(evt: Span)` / `emit!(props: span_ctxt, ..)`; one model op, `Prog.spanEvent`)
        TRACE, SPAN ::= none | N with N ≥ 1000000 (ids that arrive in headers; rng-drawn ids are the counter 1,2,3…)
    → the observation log, oldest first, then `calls=N cur=(T S F)`
-/
import EmitModel.Base.Sexp
import EmitModel.Model.Traceparent

namespace EmitModel.Driver.C18
open EmitModel EmitModel.Traceparent

def extId? : Sexp → Option (Option Id)
  | .atom "none" => some none
  | s => match s.nat? with
    | some n => if n ≥ 1000000 then some (some (.ext n)) else none
    | none => none

def tp? : Sexp → Option TP
  | .list [t, s, f] => do
    let t ← extId? t
    let s ← extId? s
    let f ← f.nat?
    if f < 256 then pure ⟨t, s, f⟩ else none
  | _ => none

mutual
partial def prog? : Sexp → Option Prog
  | .atom "event" => some .event
  -- a manual span, however the event is put together: what reaches the runtime filter is the same
  | .atom "spanevt" => some .spanEvent
  | .atom "spanevts" => some .spanEvent
  | .atom "spanevte" => some .spanEvent
  | .atom "spanevtp" => some .spanEvent
  | .atom "spanevtx" => some .spanEvent
  | .list (.atom "span" :: cs) => (progs? cs).map Prog.span
  -- a span / pushed header whose scope is left by a PANIC (caught right outside): unwinding drops the guard inside
  -- the frame and exits the frame like a normal return, so the model is the same program (`restore_after`)
  | .list (.atom "spanp" :: cs) => (progs? cs).map Prog.span
  | .list (.atom "pushp" :: tp :: cs) => do
    let tp ← tp? tp
    let cs ← progs? cs
    pure (.push tp cs)
  -- a sync `#[emit::span(setup: ..)]` whose setup pushes and enters the incoming traceparent before the span is created
  -- (and leaves it after the span completed): the pushed header around the span
  | .list (.atom "sspan" :: tp :: cs) => do
    let tp ← tp? tp
    let cs ← progs? cs
    pure (.push tp [.span cs])
  | .list (.atom "spant" :: cs) => (progs? cs).map Prog.spanThread
  | .list (.atom "spana" :: cs) => (progs? cs).map Prog.spanAsync
  | .list (.atom "carry" :: cs) => (progs? cs).map Prog.carry
  -- `Frame::root(ctxt, Empty)` on the same thread: an inactive frame, like a carried one it leaves the traceparent
  -- in force (`run (.carry cs) e` runs `cs` with `enterSt e.st none = e.st`, theorem C18.enterSt_self_none)
  | .list (.atom "root" :: cs) => (progs? cs).map Prog.carry
  | .list (.atom "push" :: tp :: cs) => do
    let tp ← tp? tp
    let cs ← progs? cs
    pure (.push tp cs)
  | .list (.atom "pushs" :: ts :: cs) => do
    let ts ← ts.nat?
    let cs ← progs? cs
    pure (.pushState ts cs)
  | .list (.atom "pushb" :: tp :: ts :: cs) => do
    let tp ← tp? tp
    let ts ← ts.nat?
    let cs ← progs? cs
    pure (.pushBoth tp ts cs)
  | _ => none
partial def progs? (cs : List Sexp) : Option (List Prog) := cs.mapM prog?
end

def showId : Option Id → String
  | none => "none"
  | some (.gen n) => toString n
  | some (.ext n) => toString n

def showIds (i : Ids) : String := s!"({showId i.traceId} {showId i.spanParent} {showId i.spanId})"
def showTP (t : TP) : String := s!"({showId t.traceId} {showId t.spanId} {t.flags})"

def showObs : Obs → String
  | .sampler t s d => s!"(sampler {showId t} {showId (some s)} {d})"
  | .spanOpen en ids => s!"(open {en} {showIds ids})"
  | .spanDone ids => s!"(done {showIds ids})"
  | .event cur st ids p1 p2 => s!"(event {showTP cur} {st} {showIds ids} {p1} {p2})"
  | .spanEvent ids p1 p2 => s!"(spanevt {showIds ids} {p1} {p2})"

def countSpans : List Obs → Nat
  | [] => 0
  | .spanOpen _ _ :: r => countSpans r + 1
  | _ :: r => countSpans r

def countSpanEvents : List Obs → Nat
  | [] => 0
  | .spanEvent _ _ _ :: r => countSpanEvents r + 1
  | _ :: r => countSpanEvents r

/-- which filter answers a case's manual spans got: `n` none, `t`/`f` only accepted / only rejected, `b` both -/
def spanEventVerdicts (obs : List Obs) : String :=
  let t := obs.any fun | .spanEvent _ true _ => true | _ => false
  let f := obs.any fun | .spanEvent _ false _ => true | _ => false
  if t && f then "b" else if t then "t" else if f then "f" else "n"

def runC18 (line : String) : String :=
  match Sexp.parse line with
  | some (.list (.atom "c18" :: .atom variant :: hs :: .list (.atom "decisions" :: ds) :: outside :: ps)) =>
    match hs.bool?, ds.mapM Sexp.bool?, outside.bool?, progs? ps with
    | some hs, some ds, some outside, some ps =>
      if !(["concrete", "boxdyn", "arcdyn", "assert", "slot", "setup", "option"].contains variant) then "bad-op" else
      let e := runList ⟨hs, ds, outside⟩ ps env0
      let obs := e.out.reverse
      let nspan := countSpans obs
      let sig := if obs.length ≤ 1 then "trivial" else s!"spans={min nspan 6},calls={min e.calls 4},push={(line.splitOn "(push ").length - 1 |> min 3},pushs={(line.splitOn "(pushs ").length + (line.splitOn "(pushb ").length - 2 |> min 3},thread={(line.splitOn "spant").length + (line.splitOn "carry").length - 2 |> min 3},spanevt={min (countSpanEvents obs) 3}{spanEventVerdicts obs}"
      s!"{" ".intercalate (obs.map showObs)} calls={e.calls} cur={showTP (current e.st)} state={currentState e.st}\t{sig}"
    | _, _, _, _ => "bad-op"
  | _ => "bad-op"

def streams : List (String × (String → String)) := [("c18", runC18)]

end EmitModel.Driver.C18
