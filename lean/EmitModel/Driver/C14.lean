/-
  Driver/C14.lean — line-protocol front end of Model/Otlp.lean, part 1 (routing).
    stream `c14` : (c14 (sig LOGS TRACES METRICS) E (props (xKEY V)…)) → `<logs|traces|metrics|none> discard=<0|1>`
      E ::= none | (point NANOS) | (range NANOS NANOS)      NANOS ≤ 253402300799999999999 (`Timestamp::MAX`)
      V ::= (kind span|metric) | (str xHEX) | (disp xHEX) | (i64 N) | (u64 N) | (i128 N) | (u128 N)
          | (f64 BITS) | (bool B) | (null) | (seq V…) | (sseq V…)
  The driver executes `routeEvt` — the function `EmitModel.C14.route_evt_shape` relates to `route ∘ shapeOf`.
-/
import EmitModel.Base.Sexp
import EmitModel.Model.Otlp
import EmitModel.Model.OtlpAll
import EmitModel.Driver.C12

namespace EmitModel.Driver.C14
open EmitModel EmitModel.Otlp

mutual
partial def val? : Sexp → Option Val
  | .list [.atom "kind", .atom "span"] => some (.kind .span)
  | .list [.atom "kind", .atom "metric"] => some (.kind .metric)
  | .list [.atom "str", s] => s.str?.map .str
  | .list [.atom "disp", s] => s.str?.map .disp
  | .list [.atom "i64", n] => n.int?.map .int
  | .list [.atom "u64", n] => n.nat?.map fun k => .int k
  | .list [.atom "i128", n] => n.int?.map .int
  | .list [.atom "u128", n] => n.nat?.map fun k => .int k
  | .list [.atom "f64", n] => n.nat?.map .f64
  | .list [.atom "bool", b] => b.bool?.map .bool
  | .list [.atom "null"] => some .null
  | .list (.atom "seq" :: xs) => (vals? xs).map .seq
  | .list (.atom "sseq" :: xs) => (vals? xs).map .seq
  | _ => none
partial def vals? : List Sexp → Option (List Val)
  | [] => some []
  | x :: xs => do
    let v ← val? x
    let vs ← vals? xs
    pure (v :: vs)
end

/-- `Timestamp::MAX` (9999-12-31T23:59:59.999999999Z) in nanoseconds since the unix epoch: later instants cannot
    be built (`Timestamp::from_unix` is `None`), so they are not cases. -/
def tsMaxNanos : Nat := 253402300799999999999

def instant? (s : Sexp) : Option Nat := do
  let n ← s.nat?
  if n ≤ tsMaxNanos then some n else none

def extent? : Sexp → Option Extent
  | .atom "none" => some .none
  | .list [.atom "point", t] => (instant? t).map .point
  | .list [.atom "range", a, b] => do
    let a ← instant? a
    let b ← instant? b
    pure (.range a b)
  | _ => none

/-- Coverage statistics only: does the extent hold an instant past the 64-bit nanosecond range of OTLP's
    `*_unix_nano` fields (2554-07-21 and later)? The routing does not look (`EmitModel.C14.instants_irrelevant`). -/
def extentFar : Extent → Bool
  | .none => false
  | .point t => decide (t ≥ 2 ^ 64)
  | .range a b => decide (a ≥ 2 ^ 64) || decide (b ≥ 2 ^ 64)

def prop? : Sexp → Option (String × Val)
  | .list [k, v] => do
    let k ← k.str?
    let v ← val? v
    pure (k, v)
  | _ => none

def props? : Sexp → Option (List (String × Val))
  | .list (.atom "props" :: ps) => ps.mapM prop?
  | _ => none

def cfg? : Sexp → Option Cfg
  | .list [.atom "sig", l, t, m] => do
    let l ← l.bool?
    let t ← t.bool?
    let m ← m.bool?
    pure ⟨l, t, m⟩
  | _ => none

def showOutcome : Outcome → String
  | .signal .logs => "logs discard=0"
  | .signal .traces => "traces discard=0"
  | .signal .metrics => "metrics discard=0"
  | .discard => "none discard=1"

def showShape (s : Shape) : String :=
  let k := match s.kind with | .none => "none" | .span => "span" | .metric => "metric" | .unknown => "unknown"
  let e := match s.extent with | .none => "none" | .point => "point" | .range => "range"
  let v := match s.value with
    | .missing => "missing" | .num => "num" | .seqNums true => "seq0" | .seqNums false => "seqN"
    | .nested => "nested" | .nonNumeric => "nonnum"
  let a := match s.agg with
    | .missing => "missing" | .count => "count" | .sum => "sum" | .min => "min" | .max => "max"
    | .last => "last" | .unknown => "unknown"
  s!"kind={k},ext={e},val={v},agg={a}"

def showCfg (c : Cfg) : String :=
  (if c.logs then "l" else "-") ++ (if c.traces then "t" else "-") ++ (if c.metrics then "m" else "-")

/-- The same decision taken by the emitter as a whole (Model/OtlpAll.lean): the event is emitted, every signal's
    receiver runs to quiescence against an acknowledging collector, and the signal whose collector recorded it (or the
    discard counter) is read off the end state. -/
def routeThroughEmitter (c : Cfg) (e : Evt) : Option Outcome :=
  let cfg : OtlpAll.Cfg :=
    { logs := c.logs, traces := c.traces, metrics := c.metrics,
      pipe := fun _ => { ch := Batcher.Cfg.real 10000, tr := .http, limit := 1000000, size := fun _ => 1 },
      shape := fun _ => shapeOf e }
  let net0 : Signal → Net := fun _ => { dead := false, script := [], slot := false, conns := 0, log := [] }
  match OtlpAll.step cfg (OtlpAll.init net0) (.emit 0) with
  | none => none
  | some s =>
    let run (p : OtlpPipe.St) (g : Signal) : Bool :=
      let (p', quiet) := Driver.C12.pipeDrive (cfg.pipe g) 50 p
      quiet && !p'.net.log.isEmpty
    let hits := [(Signal.logs, run s.logs .logs), (Signal.traces, run s.traces .traces), (Signal.metrics, run s.metrics .metrics)].filter (·.2)
    match hits, s.discarded with
    | [(g, _)], [] => some (.signal g)
    | [], [_] => some .discard
    | _, _ => none

def runC14 (line : String) : String :=
  match Sexp.parse line with
  -- THREADS × N un-kinded events into an emitter without logs: each is routed to `discard` (`routeEvt`), and the
  -- counter moves by one per discard, so by THREADS × N in total whatever the interleaving
  | some (.list [.atom "c14mt", sig, threads, n]) =>
    match cfg? sig, threads.nat?, n.nat? with
    | some c, some threads, some n =>
      if c.logs || threads == 0 || threads > 16 || n > 200000 then "bad-op"
      else if routeEvt c ⟨.none, []⟩ != .discard then "bad-op"
      else s!"discard={threads * n}\tmt={min threads 8}"
    | _, _, _ => "bad-op"
  | some (.list [.atom "c14", sig, ext, ps]) =>
    match cfg? sig, extent? ext, props? ps with
    | some c, some ext, some props =>
      let e : Evt := ⟨ext, props⟩
      let r := routeEvt c e
      -- the composite must take the same decision (it routes on the event's shape: C14 `route_evt_shape`)
      if routeThroughEmitter c e != some r then "COMPOSITE-MODEL-DISAGREES-WITH-ROUTE" else
      let sg := if !c.logs && !c.traces && !c.metrics then "trivial" else s!"sig={showCfg c},{showShape (shapeOf e)}{if extentFar ext then ",far" else ""}"
      s!"{showOutcome r}\t{sg}"
    | _, _, _ => "bad-op"
  | _ => "bad-op"

def streams : List (String × (String → String)) :=
  [("c14", runC14)]

end EmitModel.Driver.C14
