/-
  Driver/C12.lean — line-protocol front end of Model/Otlp.lean, part 2 (delivery).
    stream `c12` :
      (c12 (cfg http|grpc proto|json|mixedpjp|mixedjpj GZIP LIMIT) (sig LOGS TRACES METRICS) (dead SIGNAL…)
           (events (ev ID log|span|metric xMDL PAD SIZE)…)
           (script (logs R…) (traces R…) (metrics R…)) (end flush|drop))
      R ::= ack | ackbody | (status N) | (grpc N) | (grpch N) | stall | stallh | rsth | drph | rstb | rsta
      PAD ::= N | (rnd N) | (uni N)
      rsth (gRPC only): response HEADERS (200), then RST_STREAM before any trailers; drph: response HEADERS (200;
      HTTP: content-length 64 and 10 bytes of body), then the connection is dropped
      → `logs=[E…] traces=[E…] metrics=[E…] flush=true|dropped`   E ::= <ids joined by , | ?>:<resp>:<n|r>
  `(end drop)`: the emitter is dropped instead of flushed; each signal's worker still processes what is queued
  (batcher: a closed channel gets "a chance to emit any last batch"; client.rs:290-293 after the `fix:` waits for
  every signal's receiver), so the model runs the same functions and only the last token differs.
  The encoding (proto|json), gzip flag, module and padding are transport/encoder details the model is
  indifferent to (that indifference is part of what the stream checks); SIZE is the encoded payload length.
  The driver executes `route` (C14) to assign events to signals and `runSignal` per signal — the functions the
  theorems of Thm/C12.lean are about.
-/
import EmitModel.Base.Sexp
import EmitModel.Model.Otlp
import EmitModel.Model.OtlpPipe

namespace EmitModel.Driver.C12
open EmitModel EmitModel.Otlp

inductive EvKind where
  | log | span | metric
  deriving Repr, DecidableEq

/-- The well-formed events the harness emits per kind, as shapes (see harness/hotlp/src/streams/c12.rs `emit_event`). -/
def EvKind.shape : EvKind → Shape
  | .log => ⟨.none, .point, false, .missing, .missing⟩
  | .span => ⟨.span, .range, false, .missing, .missing⟩
  | .metric => ⟨.metric, .point, true, .num, .count⟩

structure CaseEv where
  ev : Ev
  kind : EvKind

def resp? : Sexp → Option Resp
  | .atom "ack" => some .ack
  | .atom "ackbody" => some .ackBody
  | .atom "stall" => some .stall
  | .atom "stallh" => some .stallH
  | .atom "rsth" => some .rstH
  | .atom "drph" => some .drpH
  | .atom "rstb" => some .rstB
  | .atom "rsta" => some .rstA
  | .list [.atom "status", n] => n.nat?.bind fun k => if 200 ≤ k ∧ k ≤ 599 then some (.status k) else none
  | .list [.atom "grpc", n] => n.nat?.map .grpc
  | .list [.atom "grpch", n] => n.nat?.map .grpcH
  | _ => none

def showResp : Resp → String
  | .ack => "ack" | .ackBody => "ackbody" | .status n => s!"status{n}" | .grpc n => s!"grpc{n}"
  | .grpcH n => s!"grpch{n}" | .stall => "stall" | .stallH => "stallh" | .rstH => "rsth"
  | .drpH => "drph" | .rstB => "rstb" | .rstA => "rsta"

def ev? : Sexp → Option CaseEv
  | .list [.atom "ev", id, k, mdl, pad, size] => do
    let id ← id.int?
    let k ← match k with
      | .atom "log" => some EvKind.log | .atom "span" => some .span | .atom "metric" => some .metric | _ => none
    let _ ← mdl.str?
    let _ ← match pad with
      | .list [.atom "rnd", n] => n.nat?
      | .list [.atom "uni", n] => n.nat?
      | p => p.nat?
    let size ← size.nat?
    if id ≤ 0 then none else pure ⟨⟨id, size⟩, k⟩
  | _ => none

def signalName? : Sexp → Option Signal
  | .atom "logs" => some .logs | .atom "traces" => some .traces | .atom "metrics" => some .metrics | _ => none

def scriptOf? (name : String) : Sexp → Option (List Resp)
  | .list (.atom n :: rs) => if n == name then rs.mapM resp? else none
  | _ => none

def insertSorted (x : Int) : List Int → List Int
  | [] => [x]
  | y :: ys => if x ≤ y then x :: y :: ys else y :: insertSorted x ys

def sortInts (xs : List Int) : List Int := xs.foldr insertSorted []

def showEntry (e : Entry) : String :=
  let ids := match e.ids with
    | none => "?"
    | some ids => ",".intercalate ((sortInts ids).map toString)
  s!"{ids}:{showResp e.resp}:{if e.fresh then "n" else "r"}"

def hasDup : List Int → Bool
  | [] => false
  | x :: xs => xs.contains x || hasDup xs

/-! ### The signal as a whole: the channel with the send loop as its processor (Model/OtlpPipe.lean)

The case's events are emitted while the worker is parked (one batch), a flush is requested, and the receiver runs to
quiescence: hand-off, `send`, retry waits, callbacks. The collector's log this produces must be the one `runSignal`
(the send loop under the bare retry loop, which the C12 theorems are about) produces — the two are compared on every
case, and the log that is printed (and compared with the real emitter's) is the composite's. -/

def pipeRxLabel (s : OtlpPipe.St) : Option OtlpPipe.Label :=
  match s.ch.rx with
  | .idle => if s.ch.pending.isEmpty && s.ch.pendFlushW.isEmpty && s.ch.pendTakeW.isEmpty then none else some (.chan .rxTake)
  | .taken _ (_ :: _) _ _ => some (.chan .rxFireTake)
  | .taken [] [] (_ :: _) _ => some (.chan .rxFireFlush)
  | .taken _ [] _ _ => some (.chan .rxBegin)
  | .processing _ _ _ => some .process
  | .retryWait _ _ _ => some (.chan .rxRetryWaited)
  | .notifying _ => some (.chan .rxFireFlush)
  | .idleWait => some (.chan .rxIdleWaited)
  | .done => none

def pipeDrive (cfg : OtlpPipe.Cfg) : Nat → OtlpPipe.St → OtlpPipe.St × Bool
  | 0, s => (s, false)
  | fuel + 1, s =>
    match pipeRxLabel s with
    | none => (s, true)
    | some l =>
      match OtlpPipe.step cfg s l with
      | none => (s, false)
      | some s' => pipeDrive cfg fuel s'

/-- (delivered, collector state, the flush callback fired and the receiver got quiescent) -/
def pipeSignal (tr : Transport) (limit : Nat) (mine : List Ev) (net0 : Net) : Bool × Net × Bool :=
  let cfg : OtlpPipe.Cfg :=
    { ch := Batcher.Cfg.real 10000, tr := tr, limit := limit,
      size := fun x => ((mine.find? fun e => e.id == (x : Int)).map (·.size)).getD 0 }
  let s0 := OtlpPipe.init net0
  let sent := mine.foldlM (fun s e => OtlpPipe.step cfg s (.chan (.send e.id.toNat))) s0
  match sent.bind fun s => OtlpPipe.step cfg s (.chan (.whenFlushed 0)) with
  | none => (false, net0, false)
  | some s1 =>
    let (s2, quiet) := pipeDrive cfg 400 s1
    (s2.failed.isEmpty, s2.net, quiet && s2.ch.fired.contains 0)

def runC12 (line : String) : String :=
  match Sexp.parse line with
  | some (.list [.atom "c12", .list [.atom "cfg", tr, enc, gz, lim], .list [.atom "sig", l, t, m],
                 .list (.atom "dead" :: dead), .list (.atom "events" :: evs),
                 .list [.atom "script", sl, st, sm], .list [.atom "end", .atom endMode]]) =>
    let tr? : Option Transport := match tr with | .atom "http" => some .http | .atom "grpc" => some .grpc | _ => none
    -- `mixedpjp` / `mixedjpj`: a different encoding per signal (HTTP only); like the encoding itself, not modelled
    let enc? : Option Bool := match enc with
      | .atom "proto" => some false | .atom "json" => some true | .atom "mixedpjp" => some true | .atom "mixedjpj" => some true
      | _ => none
    match tr?, enc?, gz.bool?, lim.nat?, l.bool?, t.bool?, m.bool?, dead.mapM signalName?, evs.mapM ev?,
          scriptOf? "logs" sl, scriptOf? "traces" st, scriptOf? "metrics" sm with
    | some tr, some json, some _, some limit, some l, some t, some m, some dead, some evs,
      some sl, some st, some sm =>
      if tr == .grpc && json then "bad-op"
      else if endMode != "flush" && endMode != "drop" then "bad-op"
      else if tr == .http && (sl ++ st ++ sm).any (fun r => match r with | .grpc _ => true | .grpcH _ => true | .stallH => true | .rstH => true | _ => false) then "bad-op"
      else if hasDup (evs.map (·.ev.id)) then "bad-op"
      else
        let one (s : Signal) (configured : Bool) (script : List Resp) : String × Nat × Nat × Bool :=
          let mine := (evs.filter fun e => route l t m e.kind.shape == .signal s).map (·.ev)
          let isDead := dead.contains s
          let net0 : Net := ⟨isDead, script, configured && !isDead, if configured && !isDead then 1 else 0, [], false⟩
          let (ok0, netLoop) := runSignal tr limit mine net0
          let (ok, net, flushed) := pipeSignal tr limit mine net0
          let entries := net.log.reverse
          let agree := flushed && ok == ok0 && net == netLoop
          ((if agree then "" else "COMPOSITE-MODEL-DISAGREES-WITH-SEND-LOOP ") ++ " ".intercalate (entries.map showEntry),
           (Chan.ofEvents limit mine).requests.length,
           (entries.filter fun e => !(e.resp.headArrives && interpret tr e.resp)).length +
             (entries.filter fun e => e.resp.leavesStale).length, ok)
        let (ls, ln, lf, lok) := one .logs l sl
        let (ts, tn, tf, tok) := one .traces t st
        let (ms, mn, mf, mok) := one .metrics m sm
        let broken := (sl ++ st ++ sm).any fun r => match r with | .rstH => true | .drpH => true | _ => false
        let sg :=
          if evs.isEmpty then "trivial"
          else s!"{if broken then "broken-body," else ""}tr={if tr == .http then "http" else "grpc"},json={json},reqs={min ln 6}/{min tn 6}/{min mn 6},fails={min (lf + tf + mf) 12},dead={dead.length},delivered={lok && tok && mok}"
        s!"logs=[{ls}] traces=[{ts}] metrics=[{ms}] flush={if endMode == "drop" then "dropped" else "true"}\t{if sg == "trivial" then sg else sg ++ ",end=" ++ endMode}"
    | _, _, _, _, _, _, _, _, _, _, _, _ => "bad-op"
  | _ => "bad-op"

def streams : List (String × (String → String)) :=
  [("c12", runC12)]

end EmitModel.Driver.C12
