/-
  Model/Text.lean — C15, shared vocabulary of the text-codec models.

  * `Outcome α` — what a Rust entry point can do: return `Ok(v)`, return `Err`/`None`, or panic (the harness is
    built in the dev profile: integer overflow, out-of-range or non-char-boundary slicing, `unwrap` on `Err` panic).
  * byte-string helpers: `isCharBoundary` (`str::is_char_boundary`), `strSlice` (`&s[a..b]` on a `&str`),
    ASCII digit tests. Strings are `List UInt8` (the UTF-8 bytes of the Rust `&str`).
-/
namespace EmitModel.Text

inductive Outcome (α : Type) where
  | ok (a : α)
  | err
  | panic
  deriving Repr, DecidableEq, Inhabited

namespace Outcome
variable {α β : Type}

def bind (o : Outcome α) (f : α → Outcome β) : Outcome β :=
  match o with
  | .ok a => f a
  | .err => .err
  | .panic => .panic

def map (f : α → β) (o : Outcome α) : Outcome β := o.bind (fun a => .ok (f a))

def ofOption : Option α → Outcome α
  | some a => .ok a
  | none => .err

def isOk : Outcome α → Bool
  | .ok _ => true
  | _ => false

def render (f : α → String) : Outcome α → String
  | .ok a => "ok(" ++ f a ++ ")"
  | .err => "err"
  | .panic => "panic"

def tag : Outcome α → String
  | .ok _ => "ok"
  | .err => "err"
  | .panic => "panic"

instance : Monad Outcome where
  pure := .ok
  bind := Outcome.bind

end Outcome

/-- A UTF-8 continuation byte `10xxxxxx`. -/
def isCont (b : UInt8) : Bool := 0x80 ≤ b && b ≤ 0xBF

/-- `str::is_char_boundary(i)` on the UTF-8 bytes of a `&str`:
    `i == 0 || i == len || (i < len && (bytes[i] as i8) >= -0x40)`. -/
def isCharBoundary (s : List UInt8) (i : Nat) : Bool :=
  if i = 0 then true
  else if i = s.length then true
  else match s[i]? with
    | some b => !isCont b
    | none => false

/-- `&s[a..b]` on a `&str`: panics unless `a ≤ b ≤ len` and both ends are char boundaries. -/
def strSlice (s : List UInt8) (a b : Nat) : Outcome (List UInt8) :=
  if a ≤ b ∧ b ≤ s.length ∧ isCharBoundary s a ∧ isCharBoundary s b then .ok ((s.drop a).take (b - a))
  else .panic

def isDigit (b : UInt8) : Bool := 48 ≤ b && b ≤ 57

def digitVal (b : UInt8) : Nat := b.toNat - 48

/-- value of a run of ASCII digits, most significant first -/
def digitsVal (bs : List UInt8) : Nat := bs.foldl (fun acc b => acc * 10 + digitVal b) 0

/-- lexicographic `<` on byte strings (`[u8]::cmp`, which is also `str::cmp`) -/
def bytesLt : List UInt8 → List UInt8 → Bool
  | [], [] => false
  | [], _ :: _ => true
  | _ :: _, [] => false
  | a :: as, b :: bs => a < b || (a == b && bytesLt as bs)

end EmitModel.Text
