/-
  Model/Template.lean — C16. Mirrors /repo/core/src/template.rs:
    * `Template` = the slice of `Part`s behind any of its three representations
      (`Literal([Part; 1])`, `Parts(&[Part])`, `Owned(Box<[Part]>)`, `TemplateKind::parts` :51-60)
    * `PartialEq for Template` — the two-cursor, fragment-split-insensitive comparison        (:180-273)
      (after `fix: compare template text fragments as bytes and skip empty fragments in Template equality`)

  Byte strings are `List UInt8` (UTF-8 of the Rust `&str`). A hole formatter is a Rust
  `fn(Value, &mut fmt::Formatter) -> fmt::Result`; the model names it by a number (the harness owns a
  fixed table of such functions, see Driver/C16.lean).
-/
namespace EmitModel.Template

inductive Part where
  | text (t : List UInt8)
  | hole (label : List UInt8) (fmt : Option Nat)
  deriving Repr, DecidableEq, Inhabited

/-- Result of a Rust function returning `bool` that may panic. -/
inductive Res where
  | ok (b : Bool)
  | panic
  deriving Repr, DecidableEq, Inhabited

/-- `Template::as_literal` (:132-137): `Some` iff there is exactly one part and it is text. -/
def asLiteral : List Part → Option (List UInt8)
  | [.text t] => some t
  | _ => none

/-- The loop after the `while` (:246-254): every remaining part must be an empty text fragment. -/
def restEmpty (ps : List Part) : Bool :=
  ps.all fun p => match p with
    | .text t => t.isEmpty
    | .hole _ _ => false

/-! ### `PartialEq for Template` (:180-273) -/

/-- The `while ai < a.len() && bi < b.len()` loop (:195-257). The cursor `(ai, ati)` is kept as (the parts from `ai`
    on, the byte offset `ati` into the first of them); likewise `(bi, bti)`. The arms are the Rust `match` arms in
    order, the two guarded ones expanded per constructor. Slicing a byte slice `&a[ati..]` panics iff `ati > a.len()`;
    `&at[..len]` cannot (`len` is a minimum of lengths). -/
def eqLoop (as : List Part) (ati : Nat) (bs : List Part) (bti : Nat) : Res :=
  match as, bs with
  | [], bs => .ok (restEmpty bs)                                            -- loop exit, then (:260-268)
  | ap :: as, [] => .ok (restEmpty (ap :: as))
  | .text a :: as, .text b :: bs =>
    if a.isEmpty then eqLoop as ati (.text b :: bs) bti                     -- (:202-206) skip empty fragment of a
    else if b.isEmpty then eqLoop (.text a :: as) ati bs bti                -- (:207-211) skip empty fragment of b
    else if _h : ati ≤ a.length ∧ bti ≤ b.length then                       -- `&a[ati..]`, `&b[bti..]` (:218-219)
      let len := min (a.length - ati) (b.length - bti)                      -- (:221)
      if (a.drop ati).take len != (b.drop bti).take len then .ok false      -- (:223-228)
      else
        if _h1 : ati + len = a.length then                                  -- (:233-241)
          if _h2 : bti + len = b.length then eqLoop as 0 bs 0
          else eqLoop as 0 (.text b :: bs) (bti + len)
        else
          if _h2 : bti + len = b.length then eqLoop (.text a :: as) (ati + len) bs 0
          else eqLoop (.text a :: as) (ati + len) (.text b :: bs) (bti + len)
    else .panic
  | .text a :: as, .hole lb fb :: bs =>
    if a.isEmpty then eqLoop as ati (.hole lb fb :: bs) bti                 -- (:202-206)
    else .ok false                                                          -- (:255)
  | .hole la fa :: as, .text b :: bs =>
    if b.isEmpty then eqLoop (.hole la fa :: as) ati bs bti                 -- (:207-211)
    else .ok false                                                          -- (:255)
  | .hole la _ :: as, .hole lb _ :: bs =>
    if la != lb then .ok false else eqLoop as ati bs bti                    -- (:245-254) labels only, formatter ignored
termination_by as.length + bs.length
decreasing_by
  all_goals simp only [List.length_cons]
  all_goals omega

/-- `PartialEq::eq` (:181). -/
def eq (a b : List Part) : Res :=
  match asLiteral a, asLiteral b with
  | some x, some y => .ok (x == y)                                          -- (:183-185) both single text parts
  | _, _ => eqLoop a 0 b 0

/-! ### What equality means -/

/-- A template read as one stream: the bytes of its text and its holes, in order. -/
inductive Atom where
  | byte (b : UInt8)
  | hole (label : List UInt8)
  deriving Repr, DecidableEq

def atoms : List Part → List Atom
  | [] => []
  | .text t :: ps => t.map Atom.byte ++ atoms ps
  | .hole l _ :: ps => Atom.hole l :: atoms ps

/-- A normalised template: non-empty text runs separated by holes (labels only). -/
inductive Seg where
  | text (t : List UInt8)
  | hole (label : List UInt8)
  deriving Repr, DecidableEq

/-- Put text in front of a normalised sequence: merge with a leading text run, drop if empty. -/
def consText (t : List UInt8) : List Seg → List Seg
  | .text u :: r => .text (t ++ u) :: r
  | r => if t = [] then r else .text t :: r

/-- Drop empty text parts, merge adjacent text parts, forget formatters. -/
def norm : List Part → List Seg
  | [] => []
  | .text t :: ps => consText t (norm ps)
  | .hole l _ :: ps => .hole l :: norm ps

end EmitModel.Template
