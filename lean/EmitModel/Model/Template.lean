/-
  Model/Template.lean — C16. Mirrors /repo/core/src/template.rs:
    * `Template` = the slice of `Part`s behind any of its three representations
      (`Literal([Part; 1])`, `Parts(&[Part])`, `Owned(Box<[Part]>)`, `TemplateKind::parts` :51-60)
    * `Render::write` / `Part::write` and the `Write` trait defaults                          (:306-319, :334-403, :570-591)
    * `to_owned` / `by_ref` / `literal` conversions                                           (:91-93, :118-125, :538-551, :706-759)
    * `PartialEq for Template` — the two-cursor, fragment-split-insensitive comparison        (:180-273)
      (after `fix: compare template text fragments as bytes and skip empty fragments in Template equality`;
      all line numbers are those of the tree with that commit: +14 after :199 w.r.t. the anchors in properties.jsonl.
      The comparison as it was before the fix — `&str` slicing with an explicit panic outcome where the offset is not a
      char boundary — is in the history of this file: commit "C16 step 1".)

  Byte strings are `List UInt8` (UTF-8 of the Rust `&str`). A hole formatter is a Rust
  `fn(Value, &mut fmt::Formatter) -> fmt::Result`; the model names it by a number (the harness owns a
  fixed table of such functions, see Driver/C16.lean).
-/
namespace EmitModel.Template

inductive Part where
  | text (t : List UInt8)
  | hole (label : List UInt8) (fmt : Option Nat)
  deriving Repr, DecidableEq, Inhabited

/-- Result of a Rust function returning `bool` that may panic. -/
inductive Res where
  | ok (b : Bool)
  | panic
  deriving Repr, DecidableEq, Inhabited

/-- `Template::as_literal` (:132-137): `Some` iff there is exactly one part and it is text. -/
def asLiteral : List Part → Option (List UInt8)
  | [.text t] => some t
  | _ => none

/-- The loop after the `while` (:260-268): every remaining part must be an empty text fragment. -/
def restEmpty (ps : List Part) : Bool :=
  ps.all fun p => match p with
    | .text t => t.isEmpty
    | .hole _ _ => false

/-! ### `PartialEq for Template` (:180-273) -/

/-- The `while ai < a.len() && bi < b.len()` loop (:195-257). The cursor `(ai, ati)` is kept as (the parts from `ai`
    on, the byte offset `ati` into the first of them); likewise `(bi, bti)`. The arms are the Rust `match` arms in
    order, the two guarded ones expanded per constructor. Slicing a byte slice `&a[ati..]` panics iff `ati > a.len()`;
    `&at[..len]` cannot (`len` is a minimum of lengths). -/
def eqLoop (as : List Part) (ati : Nat) (bs : List Part) (bti : Nat) : Res :=
  match as, bs with
  | [], bs => .ok (restEmpty bs)                                            -- loop exit, then (:260-268)
  | ap :: as, [] => .ok (restEmpty (ap :: as))
  | .text a :: as, .text b :: bs =>
    if a.isEmpty then eqLoop as ati (.text b :: bs) bti                     -- (:202-206) skip empty fragment of a
    else if b.isEmpty then eqLoop (.text a :: as) ati bs bti                -- (:207-211) skip empty fragment of b
    else if _h : ati ≤ a.length ∧ bti ≤ b.length then                       -- `&a[ati..]`, `&b[bti..]` (:218-219)
      let len := min (a.length - ati) (b.length - bti)                      -- (:221)
      if (a.drop ati).take len != (b.drop bti).take len then .ok false      -- (:223-228)
      else
        if _h1 : ati + len = a.length then                                  -- (:233-241)
          if _h2 : bti + len = b.length then eqLoop as 0 bs 0
          else eqLoop as 0 (.text b :: bs) (bti + len)
        else
          if _h2 : bti + len = b.length then eqLoop (.text a :: as) (ati + len) bs 0
          else eqLoop (.text a :: as) (ati + len) (.text b :: bs) (bti + len)
    else .panic
  | .text a :: as, .hole lb fb :: bs =>
    if a.isEmpty then eqLoop as ati (.hole lb fb :: bs) bti                 -- (:202-206)
    else .ok false                                                          -- (:255)
  | .hole la fa :: as, .text b :: bs =>
    if b.isEmpty then eqLoop (.hole la fa :: as) ati bs bti                 -- (:207-211)
    else .ok false                                                          -- (:255)
  | .hole la _ :: as, .hole lb _ :: bs =>
    if la != lb then .ok false else eqLoop as ati bs bti                    -- (:245-254) labels only, formatter ignored
termination_by as.length + bs.length
decreasing_by
  all_goals simp only [List.length_cons]
  all_goals omega

/-- `PartialEq::eq` (:181). -/
def eq (a b : List Part) : Res :=
  match asLiteral a, asLiteral b with
  | some x, some y => .ok (x == y)                                          -- (:183-185) both single text parts
  | _, _ => eqLoop a 0 b 0

/-! ### What equality means -/

/-- A template read as one stream: the bytes of its text and its holes, in order. -/
inductive Atom where
  | byte (b : UInt8)
  | hole (label : List UInt8)
  deriving Repr, DecidableEq

def atoms : List Part → List Atom
  | [] => []
  | .text t :: ps => t.map Atom.byte ++ atoms ps
  | .hole l _ :: ps => Atom.hole l :: atoms ps

/-- A normalised template: non-empty text runs separated by holes (labels only). -/
inductive Seg where
  | text (t : List UInt8)
  | hole (label : List UInt8)
  deriving Repr, DecidableEq

/-- Put text in front of a normalised sequence: merge with a leading text run, drop if empty. -/
def consText (t : List UInt8) : List Seg → List Seg
  | .text u :: r => .text (t ++ u) :: r
  | r => if t = [] then r else .text t :: r

/-- Drop empty text parts, merge adjacent text parts, forget formatters. -/
def norm : List Part → List Seg
  | [] => []
  | .text t :: ps => consText t (norm ps)
  | .hole l _ :: ps => .hole l :: norm ps

/-! ### Conversions (all rebuild the parts one by one; Lemma: identities) -/

/-- `Part::to_owned` (:744-758): text → text(value.to_owned()), hole → hole(label.to_owned(), formatter.clone()). -/
def Part.toOwned : Part → Part
  | .text t => .text t
  | .hole l f => .hole l f

/-- `Template::to_owned` (:706-719). -/
def toOwned (ps : List Part) : List Part := ps.map Part.toOwned

/-- `Part::by_ref` (:538-551). -/
def Part.byRef : Part → Part
  | .text t => .text t
  | .hole l f => .hole l f

/-- `Template::by_ref` (:118-125): the `Literal` kind rebuilds its one part, the other two kinds re-borrow the slice. -/
def byRef (ps : List Part) : List Part := ps.map Part.byRef

/-- `Template::literal` / `literal_ref` (:91-93, :111-113). -/
def literal (t : List UInt8) : List Part := [.text t]

/-! ### Rendering -/

/-- Property values the correspondence samples (`emit::Value` from `&str`, `i64`, `bool`). -/
inductive Val where
  | str (s : List UInt8)
  | int (i : Int)
  | bool (b : Bool)
  deriving Repr, DecidableEq, Inhabited

/-- `Display for Value` on these kinds. -/
def Val.display : Val → List UInt8
  | .str s => s
  | .int i => (toString i).toUTF8.toList
  | .bool b => (toString b).toUTF8.toList

/-- `Props::get(label)`: the first pair whose key equals the label (first value wins). -/
def lookupFirst (label : List UInt8) : List (List UInt8 × Val) → Option Val
  | [] => none
  | (k, v) :: rest => if k = label then some v else lookupFirst label rest

/-- What a `template::Write` implementation is to `Render::write`: four `&mut self` callbacks on some state; each
    returns the state it leaves behind and whether it returned `Ok(())` (`false` = `Err(fmt::Error)`).
    `fmtTable f v` is the text `Formatter::apply` of formatter number `f` produces for `v`. -/
structure Writer (σ : Type) where
  writeText : σ → List UInt8 → σ × Bool
  writeHoleValue : σ → List UInt8 → Val → σ × Bool
  writeHoleFmt : σ → List UInt8 → Val → Nat → σ × Bool
  writeHoleLabel : σ → List UInt8 → σ × Bool

/-- `Part::write` (:570-591). -/
def Part.write {σ : Type} (w : Writer σ) (props : List (List UInt8 × Val)) (s : σ) : Part → σ × Bool
  | .text t => w.writeText s t                                              -- (:572)
  | .hole label fmt =>
    match lookupFirst label props with                                      -- (:580)
    | some value =>
      match fmt with
      | some f => w.writeHoleFmt s label value f                            -- (:582)
      | none => w.writeHoleValue s label value                              -- (:584)
    | none => w.writeHoleLabel s label                                      -- (:587)

/-- `Render::write` (:312-318): part by part, `?` stops at the first error. -/
def render {σ : Type} (w : Writer σ) (props : List (List UInt8 × Val)) : List Part → σ → σ × Bool
  | [], s => (s, true)
  | p :: ps, s =>
    match p.write w props s with
    | (s', true) => render w props ps s'
    | (s', false) => (s', false)

/-- The `Write` trait defaults (:340-371) over a `fmt::Write` whose `write_str` appends and never fails
    (`impl Write for String {}` :393; the `fmt::Formatter` specialisation :395-403 writes the same bytes when the
    outer formatter carries no flags, as in `to_string()`). -/
def stringWriter (fmtTable : Nat → Val → List UInt8) : Writer (List UInt8) where
  writeText s t := (s ++ t, true)                                           -- write_str(text)
  writeHoleValue s _ v := (s ++ v.display, true)                            -- "{}", value
  writeHoleFmt s _ v f := (s ++ fmtTable f v, true)                         -- "{}", formatter.apply(value)
  writeHoleLabel s l := (s ++ [0x7b] ++ l ++ [0x7d], true)                  -- "{{{}}}", label

/-- The callback a part triggers, as data. -/
inductive Ev where
  | text (t : List UInt8)
  | holeValue (label : List UInt8) (v : Val)
  | holeFmt (label : List UInt8) (v : Val) (f : Nat)
  | holeLabel (label : List UInt8)
  deriving Repr, DecidableEq

/-- A writer that records its callbacks and fails (recording nothing) on callback number `failAt` (never, if `none`). -/
def recWriter (failAt : Option Nat) : Writer (List Ev) where
  writeText s t := if failAt = some s.length then (s, false) else (s ++ [.text t], true)
  writeHoleValue s l v := if failAt = some s.length then (s, false) else (s ++ [.holeValue l v], true)
  writeHoleFmt s l v f := if failAt = some s.length then (s, false) else (s ++ [.holeFmt l v f], true)
  writeHoleLabel s l := if failAt = some s.length then (s, false) else (s ++ [.holeLabel l], true)

end EmitModel.Template
