/-
  Model/Template.lean — C16. Mirrors /repo/core/src/template.rs:
    * `Template` = the slice of `Part`s behind any of its three representations
      (`Literal([Part; 1])`, `Parts(&[Part])`, `Owned(Box<[Part]>)`, `TemplateKind::parts` :51-60)
    * `PartialEq for Template` — the two-cursor, fragment-split-insensitive comparison        (:180-259)

  Byte strings are `List UInt8` (UTF-8 of the Rust `&str`). A hole formatter is a Rust
  `fn(Value, &mut fmt::Formatter) -> fmt::Result`; the model names it by a number (the harness owns a
  fixed table of such functions, see Driver/C16.lean).
-/
namespace EmitModel.Template

inductive Part where
  | text (t : List UInt8)
  | hole (label : List UInt8) (fmt : Option Nat)
  deriving Repr, DecidableEq, Inhabited

/-- Result of a Rust function returning `bool` that may panic. -/
inductive Res where
  | ok (b : Bool)
  | panic
  deriving Repr, DecidableEq, Inhabited

/-- `Template::as_literal` (:132-137): `Some` iff there is exactly one part and it is text. -/
def asLiteral : List Part → Option (List UInt8)
  | [.text t] => some t
  | _ => none

/-- The loop after the `while` (:246-254): every remaining part must be an empty text fragment. -/
def restEmpty (ps : List Part) : Bool :=
  ps.all fun p => match p with
    | .text t => t.isEmpty
    | .hole _ _ => false

/-! ### The comparison as it is on the unchanged tree (defect D12) -/

/-- `str::is_char_boundary`. -/
def isCharBoundary (s : List UInt8) (i : Nat) : Bool :=
  if i = 0 then true
  else if s.length ≤ i then decide (i = s.length)
  else match s[i]? with
    | some b => decide (b < 128) || decide (192 ≤ b)
    | none => false

/-- The `while ai < a.len() && bi < b.len()` loop (:195-243) with `&str` slicing. The cursor `(ai, ati)` is kept as
    (the parts from `ai` on, the byte offset `ati` into the first of them). `&s[i..]` / `&s[..n]` panic unless the
    offset is a char boundary of `s`. -/
def eqLoopV0 (as : List Part) (ati : Nat) (bs : List Part) (bti : Nat) : Res :=
  match as, bs with
  | [], bs => .ok (restEmpty bs)
  | ap :: as, [] => .ok (restEmpty (ap :: as))
  | .text a :: as, .text b :: bs =>
    if _h : ati ≤ a.length ∧ bti ≤ b.length then
      if !(isCharBoundary a ati && isCharBoundary b bti) then .panic        -- `&a[ati..]`, `&b[bti..]` (:204-205)
      else
        let ta := a.drop ati
        let tb := b.drop bti
        let len := min (a.length - ati) (b.length - bti)                    -- (:207)
        if !(isCharBoundary ta len && isCharBoundary tb len) then .panic    -- `&at[..len]`, `&bt[..len]` (:209-210)
        else if ta.take len != tb.take len then .ok false                   -- (:212)
        else
          if _h1 : ati + len = a.length then
            if _h2 : bti + len = b.length then eqLoopV0 as 0 bs 0
            else eqLoopV0 as 0 (.text b :: bs) (bti + len)
          else
            if _h2 : bti + len = b.length then eqLoopV0 (.text a :: as) (ati + len) bs 0
            else eqLoopV0 (.text a :: as) (ati + len) (.text b :: bs) (bti + len)
    else .panic
  | .hole la _ :: as, .hole lb _ :: bs =>
    if la != lb then .ok false else eqLoopV0 as ati bs bti                    -- (:231-240) labels only
  | _ :: _, _ :: _ => .ok false                                            -- (:241)
termination_by as.length + bs.length
decreasing_by
  all_goals simp only [List.length_cons]
  all_goals omega

/-- `PartialEq::eq` on the unchanged tree. -/
def eqV0 (a b : List Part) : Res :=
  match asLiteral a, asLiteral b with
  | some x, some y => .ok (x == y)                                          -- (:183-185)
  | _, _ => eqLoopV0 a 0 b 0

end EmitModel.Template
