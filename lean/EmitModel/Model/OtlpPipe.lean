/-
  Model/OtlpPipe.lean — one signal of the OTLP emitter as a whole: the batching channel (Model/Batcher.lean) with the
  transport's send loop (Model/Otlp.lean `send`) as its processor and the collector (`Net`: a response script, the
  connection slot, what the endpoint has seen) behind it. This is the composition `OtlpBuilder::spawn` builds per
  configured signal (/repo/emitter/otlp/src/client.rs: `emit_batcher::bounded(10_000)` + `receiver.exec(.., move
  |batch| transport.send(batch))`), the one C07's last clause is about ("OTLP requests have been answered"). The three
  signals are three independent copies (C12 `signals_independent`); `Otlp::blocking_flush` waits on each
  (C07 `otlp_flush_true_iff`).

  * an item `x` of the channel is the encoded event `⟨x, size x⟩`;
  * when the receiver hands a batch to the processor (`rxBegin`) the transport gets the requests `Channel::push`
    grouped those events into under the size limit (`Chan.ofEvents`);
  * the conclusion of an `on_batch` call is what `Otlp.send` returns on the held requests against the collector:
        Ok                              ↦ `Outcome.ok`
        Err(retry(_, remaining requests)) ↦ `Outcome.failRetry` with the items of the requests not yet acknowledged
        Err(no_retry(_))                ↦ `Outcome.failNoRetry`
  * every other label of the channel is unchanged.
-/
import EmitModel.Model.Batcher
import EmitModel.Model.Otlp

namespace EmitModel.OtlpPipe
open EmitModel

structure Cfg where
  ch : Batcher.Cfg
  tr : Otlp.Transport
  limit : Nat
  size : Nat → Nat

def Cfg.ev (cfg : Cfg) (x : Nat) : Otlp.Ev := ⟨(x : Int), cfg.size x⟩

structure St where
  ch : Batcher.St
  net : Otlp.Net
  cur : Option (List Otlp.Request)   -- the requests the transport holds (being sent or waiting for the retry)
  -- ghost
  okd : List Nat                     -- items of batches that concluded Ok
  failed : List Nat                  -- items of batches that concluded as failed (retries exhausted / no_retry)

def init (net0 : Otlp.Net) : St := { ch := Batcher.init, net := net0, cur := none, okd := [], failed := [] }

inductive Label where
  | chan (l : Batcher.Label)
  | process
  deriving Repr

/-- The items (as channel ids) of a list of requests, in transmission order. -/
def itemsOf (reqs : List Otlp.Request) : List Nat := reqs.flatten.map fun e => e.id.toNat

def step (cfg : Cfg) (s : St) : Label → Option St
  | .chan (.rxOutcome _) => none
  | .chan .rxBegin =>
    match Batcher.step cfg.ch s.ch .rxBegin with
    | none => none
    | some ch' =>
      match ch'.rx with
      | .processing _ c _ =>
        some { s with ch := ch', cur := some (Otlp.Chan.ofEvents cfg.limit (c.map cfg.ev)).requests }
      | _ => some { s with ch := ch' }
  | .chan l => (Batcher.step cfg.ch s.ch l).map fun ch' => { s with ch := ch' }
  | .process =>
    match s.ch.rx, s.cur with
    | .processing orig _ _, some reqs =>
      match Otlp.send cfg.tr reqs s.net with
      | (.ok, net') =>
        (Batcher.step cfg.ch s.ch (.rxOutcome .ok)).map fun ch' =>
          { s with ch := ch', net := net', cur := none, okd := s.okd ++ orig }
      | (.retry rem, net') =>
        (Batcher.step cfg.ch s.ch (.rxOutcome (.failRetry (itemsOf rem)))).map fun ch' =>
          match ch'.rx with
          | .retryWait _ _ _ => { s with ch := ch', net := net', cur := some rem }
          | _ => { s with ch := ch', net := net', cur := none, failed := s.failed ++ orig }
      | (.noRetry, net') =>
        (Batcher.step cfg.ch s.ch (.rxOutcome .failNoRetry)).map fun ch' =>
          { s with ch := ch', net := net', cur := none, failed := s.failed ++ orig }
    | _, _ => none

def chanLabel (cfg : Cfg) (s : St) : Label → Option Batcher.Label
  | .chan l => some l
  | .process =>
    match s.ch.rx, s.cur with
    | .processing _ _ _, some reqs =>
      match (Otlp.send cfg.tr reqs s.net).1 with
      | .ok => some (.rxOutcome .ok)
      | .retry rem => some (.rxOutcome (.failRetry (itemsOf rem)))
      | .noRetry => some (.rxOutcome .failNoRetry)
    | _, _ => none

def Reachable (cfg : Cfg) (net0 : Otlp.Net) (s : St) : Prop := Sched.Reachable (step cfg) (init net0) s

end EmitModel.OtlpPipe
