/-
  Model/Slot.lean — C20. Mirrors /repo/core/src/runtime.rs:649-717 (`AmbientSlot`: one `OnceLock` holding the
  whole boxed runtime; `init` = `OnceLock::set` of all five components at once, `get` = the stored runtime or
  a constant empty one) and /repo/src/setup.rs:344-369 (`try_init_slot` / `init_slot`).

  A configuration is identified by a number `i`; its five components (emitter, filter, ctxt, clock, rng) all
  carry that number. Atomic steps (any thread may take any step at any time — a schedule is a label list):
    init i   : `slot.init(runtime i)` — succeeds iff the cell is empty (linearisable `OnceLock::set`); on
               failure the boxed components of `i` are dropped without ever being used
    observe  : `slot.get()` and a reading of each of the five components
    emit e   : `slot.get().emit(e)`
    flush    : `slot.get().emitter().blocking_flush(..)`
-/
namespace EmitModel.Slot

inductive Label where
  | init (i : Nat)
  | observe
  | emit (e : Nat)
  | flush
  | enabled
  deriving Repr, DecidableEq

/-- What a step returns to its caller. -/
inductive Out where
  | initResult (ok : Bool)                       -- `Some(..)` / `None` from `try_init_slot`
  | components (c : Option (Nat × Nat × Nat × Nat × Nat))  -- ids read off emitter, filter, ctxt, clock, rng; none = the empty runtime
  | emitted (to : Option Nat)                    -- which configuration's emitter received the event
  | flushed (ok : Bool)
  | isEnabled (b : Bool)
  deriving Repr, DecidableEq

structure State where
  slot : Option Nat
  /-- ghost: every (configuration, event) delivery, newest first -/
  received : List (Nat × Nat)
  /-- ghost: every init attempt with its result, newest first -/
  inits : List (Nat × Bool)
  deriving Repr, DecidableEq

def init0 : State := ⟨none, [], []⟩

def step (s : State) : Label → State × Out
  | .init i =>
    match s.slot with
    | none => ({ s with slot := some i, inits := (i, true) :: s.inits }, .initResult true)
    | some _ => ({ s with inits := (i, false) :: s.inits }, .initResult false)
  | .observe => (s, .components (s.slot.map fun w => (w, w, w, w, w)))
  | .emit e =>
    match s.slot with
    | none => (s, .emitted none)             -- Empty emitter: nothing is emitted
    | some w => ({ s with received := (w, e) :: s.received }, .emitted (some w))
  | .flush => (s, .flushed true)             -- Empty emitter flushes `true`; recording emitters too
  | .enabled => (s, .isEnabled s.slot.isSome)

def run (s : State) : List Label → State × List Out
  | [] => (s, [])
  | l :: rest =>
    let (s', o) := step s l
    let (sf, os) := run s' rest
    (sf, o :: os)

/-! ### Two slots side by side (the shared and the internal slot of a process, or any two `AmbientSlot`s) -/

/-- a step addressed to slot `k` (`false` = the first, `true` = the second) -/
def step2 (s : State × State) (k : Bool) (l : Label) : (State × State) × Out :=
  if k then let r := step s.2 l; ((s.1, r.1), r.2) else let r := step s.1 l; ((r.1, s.2), r.2)

def run2 (s : State × State) : List (Bool × Label) → (State × State) × List Out
  | [] => (s, [])
  | (k, l) :: rest =>
    let r := step2 s k l
    let rr := run2 r.1 rest
    (rr.1, r.2 :: rr.2)

end EmitModel.Slot
