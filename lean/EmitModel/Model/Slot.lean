/-
  Model/Slot.lean — C20. Mirrors /repo/core/src/runtime.rs:649-717 (`AmbientSlot`: one `OnceLock` holding the
  whole boxed runtime; `init` = `OnceLock::set` of all five components at once, `get` = the stored runtime or
  a constant empty one) and /repo/src/setup.rs:344-369 (`try_init_slot` / `init_slot`).

  A configuration is identified by a number `i`; its five components (emitter, filter, ctxt, clock, rng) all
  carry that number. Atomic steps (any thread may take any step at any time — a schedule is a label list):
    init i   : `slot.init(runtime i)` — succeeds iff the cell is empty (linearisable `OnceLock::set`); on
               failure the boxed components of `i` are dropped without ever being used
    observe  : `slot.get()` and a reading of each of the five components
    emit e   : `slot.get().emit(e)`
    flush    : `slot.get().emitter().blocking_flush(..)`
-/
namespace EmitModel.Slot

inductive Label where
  | init (i : Nat)
  | observe
  | emit (e : Nat)
  | flush
  | enabled
  deriving Repr, DecidableEq

/-- What a step returns to its caller. -/
inductive Out where
  | initResult (ok : Bool)                       -- `Some(..)` / `None` from `try_init_slot`
  | components (c : Option (Nat × Nat × Nat × Nat × Nat))  -- ids read off emitter, filter, ctxt, clock, rng; none = the empty runtime
  | emitted (to : Option Nat)                    -- which configuration's emitter received the event
  | flushed (ok : Bool)
  | isEnabled (b : Bool)
  deriving Repr, DecidableEq

structure State where
  slot : Option Nat
  /-- ghost: every (configuration, event) delivery, newest first -/
  received : List (Nat × Nat)
  /-- ghost: every init attempt with its result, newest first -/
  inits : List (Nat × Bool)
  deriving Repr, DecidableEq

def init0 : State := ⟨none, [], []⟩

def step (s : State) : Label → State × Out
  | .init i =>
    match s.slot with
    | none => ({ s with slot := some i, inits := (i, true) :: s.inits }, .initResult true)
    | some _ => ({ s with inits := (i, false) :: s.inits }, .initResult false)
  | .observe => (s, .components (s.slot.map fun w => (w, w, w, w, w)))
  | .emit e =>
    match s.slot with
    | none => (s, .emitted none)             -- Empty emitter: nothing is emitted
    | some w => ({ s with received := (w, e) :: s.received }, .emitted (some w))
  | .flush => (s, .flushed true)             -- Empty emitter flushes `true`; recording emitters too
  | .enabled => (s, .isEnabled s.slot.isSome)

def run (s : State) : List Label → State × List Out
  | [] => (s, [])
  | l :: rest =>
    let (s', o) := step s l
    let (sf, os) := run s' rest
    (sf, o :: os)

/-! ### Two slots side by side (the shared and the internal slot of a process, or any two `AmbientSlot`s) -/

/-- a step addressed to slot `k` (`false` = the first, `true` = the second) -/
def step2 (s : State × State) (k : Bool) (l : Label) : (State × State) × Out :=
  if k then let r := step s.2 l; ((s.1, r.1), r.2) else let r := step s.1 l; ((r.1, s.2), r.2)

def run2 (s : State × State) : List (Bool × Label) → (State × State) × List Out
  | [] => (s, [])
  | (k, l) :: rest =>
    let r := step2 s k l
    let rr := run2 r.1 rest
    (rr.1, r.2 :: rr.2)
/-! ### The two process-global slots through the public front doors

  /repo/src/setup.rs:305-331 (`Setup::init` = `init_slot(shared_slot())` = `try_init_slot(..).expect(..)`: panics
  when the slot is taken; `try_init`), :380-421 (`init_internal` / `try_init_internal`: the same on the internal
  slot, with `.with_filter(self.filter)` like every other component), :486-520 (`Init::flush_on_drop`,
  `Drop for InitGuard`), /repo/src/lib.rs:173-229 (`emit::emitter()` = `*runtime::shared().emitter()` — the bare
  emitter, not the runtime —, `filter()`, `ctxt()`, `clock()`, `rng()`, `blocking_flush()`), and the macros
  without `rt:` (macros/src/args.rs:255-261: `emit::runtime::shared()`).

  Each slot is an instance of the slot machine above. A configuration `i` additionally has the event filter
  it was set up with; its ctxt contributes the ambient property `cfg = i`; its emitter's `blocking_flush`
  succeeds iff the timeout is at least `flushNeeds` nanoseconds. -/

/-- The filter a configuration is set up with (`Setup::emit_when`). -/
inductive FSpec where
  | all                  -- accepts everything
  | none                 -- rejects everything
  | minLvl (rank : Nat)  -- `emit::level::min_filter(level)`; ranks: debug 0, info 1, warn 2, error 3
  | idGe (n : Nat)       -- a user filter on the event's `id` property
  deriving Repr, DecidableEq

/-- An event: its `id` property and its level (the rank of a typed `lvl` property), if any. -/
structure GEvt where
  id : Nat
  lvl : Option Nat
  deriving Repr, DecidableEq

/-- An event without a level counts as Info (rank 1) for a level filter. -/
def FSpec.accepts : FSpec → GEvt → Bool
  | .all, _ => true
  | .none, _ => false
  | .minLvl m, e => decide (m ≤ e.lvl.getD 1)
  | .idGe n, e => decide (n ≤ e.id)

inductive GLabel where
  | init (i : Nat) (f : FSpec)                 -- `setup(i, f).init()` (panics when the shared slot is taken)
  | tryInit (i : Nat) (f : FSpec)              -- `….try_init()`
  | initGuard (i : Nat) (f : FSpec) (t : Nat)  -- `….init().flush_on_drop(t)`, the guard is kept
  | dropGuard                                  -- every kept guard is dropped
  | initInternal (i : Nat) (f : FSpec)         -- `….init_internal()` (panics when the internal slot is taken)
  | tryInitInternal (i : Nat) (f : FSpec)
  | emit (e : GEvt)                            -- a macro without `rt:` / `runtime::shared().emit(e)`
  | span (e : GEvt)                            -- a span macro without `rt:` (level = the macro's)
  | direct (e : GEvt)                          -- `emit::emitter().emit(e)`
  | emitInternal (e : GEvt)                    -- `runtime::internal().emit(e)`
  | flush (t : Nat)                            -- `emit::blocking_flush(t)`
  | observe                                    -- `emit::emitter()/filter()/ctxt()/clock()/rng()`
  deriving Repr, DecidableEq

/-- initialisers of the shared slot / of the internal slot -/
def GLabel.initsShared : GLabel → Bool
  | .init _ _ => true | .tryInit _ _ => true | .initGuard _ _ _ => true | _ => false
def GLabel.initsInternal : GLabel → Bool
  | .initInternal _ _ => true | .tryInitInternal _ _ => true | _ => false

inductive GOut where
  | inited (panicked : Bool)        -- the panicking forms: returned a handle / panicked
  | tried (ok : Bool)               -- the try forms
  | dropped
  | sent (to : Option Nat)          -- which configuration's emitter received the event
  | flushed (ok : Bool)
  | comps (c : Option Nat)          -- all five accessors show configuration `c`; none = all empty
  deriving Repr, DecidableEq

/-- What an emitter received: the event, the ambient `cfg` property it arrived with (none = no ambient
    context was added) and whether it arrived with an extent (the events have none of their own, so an extent is
    the runtime clock's doing). -/
structure Delivery where
  cfg : Nat
  evt : GEvt
  amb : Option Nat
  clocked : Bool
  deriving Repr, DecidableEq

def flushNeeds : Nat := 500

structure GState where
  shared : State
  sharedF : Option FSpec           -- the filter of the configuration in the shared slot
  internal : State
  internalF : Option FSpec
  guards : List (Nat × Nat)        -- kept `InitGuard`s: (configuration, timeout)
  delivered : List Delivery        -- newest first
  flushes : List (Nat × Nat)       -- every `blocking_flush` a configuration's emitter saw, newest first
  deriving Repr, DecidableEq

def g0 : GState := ⟨init0, none, init0, none, [], [], []⟩

/-- `slot.init(runtime)` on the shared slot: all five components AND the filter go in together. -/
def GState.initShared (s : GState) (i : Nat) (f : FSpec) : GState × Bool :=
  let r := step s.shared (.init i)
  match r.2 with
  | .initResult true => ({ s with shared := r.1, sharedF := some f }, true)
  | _ => ({ s with shared := r.1 }, false)

def GState.initInternal (s : GState) (i : Nat) (f : FSpec) : GState × Bool :=
  let r := step s.internal (.init i)
  match r.2 with
  | .initResult true => ({ s with internal := r.1, internalF := some f }, true)
  | _ => ({ s with internal := r.1 }, false)

/-- `runtime.emit(e)` on a slot's runtime: the configured filter decides; the ctxt adds `cfg`. An empty slot is
    the empty runtime: nothing happens. -/
def throughRuntime (slot : State) (flt : Option FSpec) (e : GEvt) : Option Delivery :=
  match slot.slot, flt with
  | some w, some f => if f.accepts e then some ⟨w, e, some w, true⟩ else none
  | _, _ => none

def gstep (s : GState) : GLabel → GState × GOut
  | .init i f => let r := s.initShared i f; (r.1, .inited (!r.2))
  | .tryInit i f => let r := s.initShared i f; (r.1, .tried r.2)
  | .initGuard i f t =>
    let r := s.initShared i f
    if r.2 then ({ r.1 with guards := (i, t) :: r.1.guards }, .inited false) else (r.1, .inited true)
  -- `Drop for InitGuard`: `self.inner.blocking_flush(self.timeout)` on the guard's OWN emitter
  | .dropGuard => ({ s with guards := [], flushes := s.guards ++ s.flushes }, .dropped)
  | .initInternal i f => let r := s.initInternal i f; (r.1, .inited (!r.2))
  | .tryInitInternal i f => let r := s.initInternal i f; (r.1, .tried r.2)
  | .emit e =>
    match throughRuntime s.shared s.sharedF e with
    | some d => ({ s with shared := (step s.shared (.emit e.id)).1, delivered := d :: s.delivered }, .sent (some d.cfg))
    | none => (s, .sent none)
  -- the span is enabled by the filter on its start event (which carries the macro's level and the id);
  -- its completion then goes to the emitter with the ambient context, no second filtering
  | .span e =>
    match throughRuntime s.shared s.sharedF e with
    | some d => ({ s with shared := (step s.shared (.emit e.id)).1, delivered := d :: s.delivered }, .sent (some d.cfg))
    | none => (s, .sent none)
  -- `emit::emitter()` is the bare emitter: no filter, no clock, no ambient properties
  | .direct e =>
    match s.shared.slot with
    | some w => ({ s with shared := (step s.shared (.emit e.id)).1, delivered := ⟨w, e, none, false⟩ :: s.delivered }, .sent (some w))
    | none => (s, .sent none)
  | .emitInternal e =>
    match throughRuntime s.internal s.internalF e with
    | some d => ({ s with internal := (step s.internal (.emit e.id)).1, delivered := d :: s.delivered }, .sent (some d.cfg))
    | none => (s, .sent none)
  | .flush t =>
    match s.shared.slot with
    | some w => ({ s with flushes := (w, t) :: s.flushes }, .flushed (decide (flushNeeds ≤ t)))
    | none => (s, .flushed true)
  | .observe => (s, .comps s.shared.slot)

def grun (s : GState) : List GLabel → GState × List GOut
  | [] => (s, [])
  | l :: rest =>
    let (s', o) := gstep s l
    let (sf, os) := grun s' rest
    (sf, o :: os)

end EmitModel.Slot
