/-
  Model/TimestampLegacy.lean — C15, defect D10 (DESIGN §8). The RFC 3339 parser AS IT WAS before the `fix:` commit
  in /repo (core/src/timestamp.rs:471-505 at 4dcf5f6): fixed offsets into the `&str` (`&fmt[a..b]` panics when an
  offset is not a char boundary or `a > b`), `uN::from_str_radix` (accepts a leading `+`), `unwrap()` on the
  fraction, no separator checks, `from_parts` underflowing on month/day `00`.

  This file documents the defect: the `example`s at the end are the panicking / wrongly accepted inputs, proved
  about this model by `decide`. It was validated against the unfixed tree with the same correspondence stream
  (`c15_ts`, see harness/corpus/c15_ts.txt for the reproducers); after the fix the driver runs
  `Timestamp.parseRfc3339` (Model/Timestamp.lean) instead, so nothing here is part of a proof obligation.
-/
import EmitModel.Model.Timestamp

namespace EmitModel.TimestampLegacy
open EmitModel.Text EmitModel.Timestamp

/-- `uN::from_str_radix(src, 10)` for an unsigned type with maximum `maxv`:
    empty → Err; a lone sign → Err; one leading `+` is skipped (a `-` is an invalid digit for unsigned types);
    every remaining byte must be a digit; overflow → Err. -/
def fromStrRadix (maxv : Nat) (src : List UInt8) : Option Nat :=
  match src with
  | [] => none
  | [43] => none
  | [45] => none
  | _ =>
    let ds := match src with
      | 43 :: rest => rest
      | _ => src
    if ds.all isDigit then
      let v := digitsVal ds
      if v ≤ maxv then some v else none
    else none

/-- run `k` on the slice, propagating the slicing panic; `from_str_radix(..).map_err(..)?` -/
def field (s : List UInt8) (a b : Nat) (maxv : Nat) (k : Nat → Outcome Nat) : Outcome Nat :=
  match strSlice s a b with
  | .panic => .panic
  | .err => .err
  | .ok sl =>
    match fromStrRadix maxv sl with
    | none => .err
    | some v => k v

def parseRfc3339Legacy (s : List UInt8) : Outcome Nat :=
  if s.length > 30 ∨ s.length < 19 then .err
  else if s.getLast? ≠ some 90 then .err
  else
    field s 0 4 65535 fun years =>
    field s 5 7 255 fun months =>
    field s 8 10 255 fun days =>
    field s 11 13 255 fun hours =>
    field s 14 16 255 fun minutes =>
    field s 17 19 255 fun seconds =>
      let nanos : Outcome Nat :=
        if s.length > 19 then
          match strSlice s 20 (s.length - 1) with
          | .panic => .panic
          | .err => .err
          | .ok subsecond =>
            match fromStrRadix 4294967295 subsecond with
            | none => .panic                         -- `.unwrap()`
            | some v =>
              let r := v * 10 ^ (9 - subsecond.length)
              if r > 4294967295 then .panic else .ok r   -- `u32 *` overflow (dev profile)
        else .ok 0
      match nanos with
      | .panic => .panic
      | .err => .err
      | .ok nanos =>
        match fromParts ⟨years, months, days, hours, minutes, seconds, nanos⟩ with
        | .ok (some t) => .ok t
        | .ok none => .err
        | .err => .err
        | .panic => .panic

def parseDisplayLegacy (s : List UInt8) : Outcome Nat :=
  match buffer30 s with
  | none => .err
  | some b => parseRfc3339Legacy b

def ascii (s : String) : List UInt8 := s.toList.map fun c => UInt8.ofNat c.toNat

/-! D10: what the unfixed parser did. -/
-- its own `{:.0}` output
example : parseRfc3339Legacy (ascii "1970-01-01T00:00:00Z") = .panic := by decide +kernel
-- empty / non-digit fraction
example : parseRfc3339Legacy (ascii "1970-01-01T00:00:00.Z") = .panic := by decide +kernel
example : parseRfc3339Legacy (ascii "1970-01-01T00:00:00.xZ") = .panic := by decide +kernel
-- month / day 00
example : parseRfc3339Legacy (ascii "1970-00-01T00:00:00.0Z") = .panic := by decide +kernel
example : parseRfc3339Legacy (ascii "1970-01-00T00:00:00.0Z") = .panic := by decide +kernel
-- separators are not looked at, signs are accepted
example : parseRfc3339Legacy (ascii "1970x01x01x00x00x00x0Z") = .ok 0 := by decide +kernel
example : parseRfc3339Legacy (ascii "1970-01-01T00:00:00.+5Z") = .ok 50000000 := by decide +kernel
-- a two-byte character straddling offset 4
example : parseRfc3339Legacy ([49, 57, 55, 0xC3, 0xA9] ++ ascii "01-01T00:00:00.0Z") = .panic := by decide +kernel

end EmitModel.TimestampLegacy
