/-
  Model/OtlpAll.lean — the OTLP emitter with its three signals: `OtlpInner::emit` (/repo/emitter/otlp/src/client.rs:
  637-668) routes every event to the first configured signal that can take it — metrics, then traces, then logs — or
  counts it as discarded (Model/Otlp.lean `route`, property C14); each configured signal is an independent copy of
  Model/OtlpPipe.lean (its own channel, worker, transport state and collector endpoint).

  An item `x` is an emitted event of shape `shape x` (the abstraction C14's routing is phrased over). Labels: `emit x`
  (route, then `Sender::send` on that signal's channel) and `sig s l` (any step of signal `s` other than a send — sends
  only come from `emit`). `Otlp::blocking_flush` is three `when_flushed` registrations, one per configured signal
  (C07 `otlp_flush_true_iff`); they are `sig s (.chan (.whenFlushed w))` labels here.
-/
import EmitModel.Model.OtlpPipe

namespace EmitModel.OtlpAll
open EmitModel EmitModel.Otlp

structure Cfg where
  logs : Bool
  traces : Bool
  metrics : Bool
  pipe : Signal → OtlpPipe.Cfg
  shape : Nat → Shape

structure St where
  logs : OtlpPipe.St
  traces : OtlpPipe.St
  metrics : OtlpPipe.St
  -- ghost
  emitted : List Nat
  discarded : List Nat       -- `event_discarded` counts these
  closedDrop : List Nat      -- routed to a signal whose channel was already closed (its receiver is gone): `send` returns

def St.get (s : St) : Signal → OtlpPipe.St
  | .logs => s.logs | .traces => s.traces | .metrics => s.metrics

def St.set (s : St) (g : Signal) (p : OtlpPipe.St) : St :=
  match g with
  | .logs => { s with logs := p } | .traces => { s with traces := p } | .metrics => { s with metrics := p }

def init (net0 : Signal → Net) : St :=
  { logs := OtlpPipe.init (net0 .logs), traces := OtlpPipe.init (net0 .traces), metrics := OtlpPipe.init (net0 .metrics),
    emitted := [], discarded := [], closedDrop := [] }

inductive Label where
  | emit (x : Nat)
  | sig (g : Signal) (l : OtlpPipe.Label)

/-- A send is not a step a signal takes by itself. -/
def isSend : OtlpPipe.Label → Bool
  | .chan (.send _) => true
  | .chan (.trySend _) => true
  | _ => false

def step (cfg : Cfg) (s : St) : Label → Option St
  | .emit x =>
    match route cfg.logs cfg.traces cfg.metrics (cfg.shape x) with
    | .discard => some { s with emitted := s.emitted ++ [x], discarded := s.discarded ++ [x] }
    | .signal g =>
      (OtlpPipe.step (cfg.pipe g) (s.get g) (.chan (.send x))).map fun p =>
        { s.set g p with emitted := s.emitted ++ [x],
                         closedDrop := if p.ch.accepted.length = (s.get g).ch.accepted.length then s.closedDrop ++ [x]
                                       else s.closedDrop }
  | .sig g l => if isSend l then none else (OtlpPipe.step (cfg.pipe g) (s.get g) l).map fun p => s.set g p

def Reachable (cfg : Cfg) (net0 : Signal → Net) (s : St) : Prop := Sched.Reachable (step cfg) (init net0) s

end EmitModel.OtlpAll
