/-
  Model/HexId.lean — C15. The hex id codecs of /repo/src/span.rs:
    * `TraceId` (NonZeroU128, 32 hex chars)   to_hex :148-160, try_from_hex_slice :167-196, try_from_hex :203-207
    * `SpanId`  (NonZeroU64, 16 hex chars)    to_hex :319-331, try_from_hex_slice :338-367, try_from_hex :374-378
    * tables HEX_ENCODE_TABLE / HEX_DECODE_TABLE / SHL4_TABLE :387-425, `Buffer<N>` :442-480
    * `FromStr` (:62-68, :217-223) = try_from_hex_slice(s.as_bytes());
      `FromValue` (:76-84, :231-239) = downcast, else integer value → from_u128/from_u64, else try_from_hex(Display)
  Both ids share one code shape, so the model is generic in the number of bytes `n` (16 / 8). An id value is a
  `Nat`; the Rust types guarantee `0 < v < 256^n`, the theorems carry that as hypotheses.
  No site of this code can panic (tables have 256 entries and are indexed by `u8`; the slice is converted to a
  fixed-size array first), so the parsers return `Option`.
-/
import EmitModel.Model.Text

namespace EmitModel.HexId
open EmitModel.Text

/-- `HEX_ENCODE_TABLE[i]` for `i < 16` (span.rs:387-389): lower-case digits. -/
def hexEncode (i : UInt8) : UInt8 := if i < 10 then 48 + i else 97 + (i - 10)

/-- `HEX_DECODE_TABLE[b]` (span.rs:391-409): `0xff` is the "invalid" sentinel. -/
def hexDecode (b : UInt8) : UInt8 :=
  if 48 ≤ b && b ≤ 57 then b - 48
  else if 97 ≤ b && b ≤ 102 then b - 97 + 10
  else if 65 ≤ b && b ≤ 70 then b - 65 + 10
  else 0xff

/-- `v.to_be_bytes()` for an `n`-byte unsigned integer. -/
def toBeBytes : Nat → Nat → List UInt8
  | 0, _ => []
  | n + 1, v => toBeBytes n (v / 256) ++ [UInt8.ofNat (v % 256)]

/-- `uN::from_be_bytes(dst)` -/
def fromBeBytes (bs : List UInt8) : Nat := bs.foldl (fun acc b => acc * 256 + b.toNat) 0

/-- the loop of `to_hex`: two table lookups per byte (span.rs:152-157) -/
def encodeBytes (src : List UInt8) : List UInt8 :=
  src.flatMap fun (b : UInt8) => [hexEncode (b >>> 4), hexEncode (b &&& 0x0f)]

/-- `to_hex` of an `n`-byte id -/
def toHex (n : Nat) (v : Nat) : List UInt8 := encodeBytes (toBeBytes n v)

/-- the `while i < N` loop of `try_from_hex_slice` (span.rs:172-190): pairs of chars → bytes,
    `h1 | h2 == 0xff` rejects, `SHL4_TABLE[h1] | h2` = `h1.wrapping_shl(4) | h2`. -/
def decodePairs : List UInt8 → Option (List UInt8)
  | [] => some []
  | [_] => none
  | a :: b :: rest =>
    let h1 := hexDecode a
    let h2 := hexDecode b
    if (h1 ||| h2) == 0xff then none
    else (decodePairs rest).map fun tl => ((h1 <<< 4) ||| h2) :: tl

/-- `try_from_hex_slice(hex: &[u8])` for an `n`-byte id: exact length (`try_into::<&[u8; 2n]>`), decode,
    `NonZero::new(from_be_bytes(dst))`. -/
def tryFromHexSlice (n : Nat) (hex : List UInt8) : Option Nat :=
  if hex.length ≠ 2 * n then none
  else match decodePairs hex with
    | none => none
    | some dst =>
      let v := fromBeBytes dst
      if v = 0 then none else some v

/-- `Buffer::<N>::buffer(value)` for a value whose `Display` is one `write_str(s)` (a `&str`, a `String`, a
    string-valued `Value`): fails when the text does not fit (span.rs:453-479). -/
def buffer (cap : Nat) (s : List UInt8) : Option (List UInt8) :=
  if s.length ≤ cap then some s else none

/-- `try_from_hex(hex: impl Display)` (span.rs:203-207 / 374-378) -/
def tryFromHex (n : Nat) (s : List UInt8) : Option Nat :=
  (buffer (2 * n) s).bind (tryFromHexSlice n)

/-- `FromStr::from_str(s)` -/
def fromStr (n : Nat) (s : List UInt8) : Option Nat := tryFromHexSlice n s

/-- `from_u128` / `from_u64` (the argument already fits the integer type) -/
def fromInt (v : Nat) : Option Nat := if v = 0 then none else some v

/-- What can sit in a `Value` that is cast to an id. -/
inductive IdVal where
  | typed (v : Nat)            -- a captured TraceId/SpanId (downcast succeeds)
  | text (s : List UInt8)      -- a string value
  | int (i : Int)              -- an integer value (any of the primitive integer types)

/-- decimal `Display` of an integer, as bytes -/
def intText (i : Int) : List UInt8 := (toString i).toUTF8.toList

/-- `FromValue::from_value` (span.rs:76-84 / 231-239):
    `downcast_ref().copied().or_else(|| uN::from_value(v).and_then(from_uN)).or_else(|| try_from_hex(v).ok())`.
    `uN::from_value` of a string value is `None` (value_bag does not parse); of an integer value it is the
    checked conversion into `uN`. -/
def IdVal.cast (n : Nat) : IdVal → Option Nat
  | .typed v => some v
  | .text s => tryFromHex n s
  | .int i =>
    ((if 0 ≤ i ∧ i.toNat < 256 ^ n then some i.toNat else none).bind fromInt).or
      (tryFromHex n (intText i))

end EmitModel.HexId
