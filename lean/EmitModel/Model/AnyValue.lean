/-
  Model/AnyValue.lean — C13. The bridge from an arbitrary structured value to an OTLP `AnyValue`.

  /repo/emitter/otlp/src/data/any_value.rs:147-369 `EmitValue` streams the captured value through the local
  `AnyStream`, which overrides `null bool text_* i64 f64 binary_* seq_* map_*` and inherits every other
  method of `sval::Stream` (sval-2.22.0/src/stream.rs:1311-1760 `default_stream`):
    * `u8..u64, i8..i32` widen to `i64` when they fit; `u64/u128/i128` outside the i64 range go through
      `stream_u128/stream_i128`, i.e. a NUMBER-tagged *text* of the decimal digits       → `stringValue`
    * `f32` widens to `f64`
    * `tagged_begin/enum_begin` are no-ops: `Some(v)` and a newtype variant are their payload, a unit
      variant / unit struct is the text of its label, `None` / `()` are `null`
    * records and struct variants are maps keyed by the field labels, tuples are sequences
  Value position: `null` writes an `AnyValue` with no value set (an empty record; after the repair
  `fix: OTLP any-value bridge keeps null elements of a sequence` — before it nothing was written and the protobuf
  array lost the element while the JSON array got a bare `null`).
  Key position (`in_map_key`): OTLP keys are strings. Text is written as is; `null` leaves the key empty;
  `bool`/`i64`/`f64` keys are written as their Display text (after the repair
  `fix: OTLP any-value bridge writes scalar map keys as text`; before it every non-text key hit `todo!()`);
  bytes, sequences and maps in key position still reach `todo!()` = a panic on the emitting thread
  (any_value.rs `binary_begin/seq_begin/map_begin`) — known finding.
-/
import EmitModel.Model.Value

namespace EmitModel.Encode

/-- `opentelemetry.proto.common.v1.AnyValue`; `empty` = no value set -/
inductive AnyValue where
  | empty
  | str (s : String)
  | bool (b : Bool)
  | int (i : Int)
  | dbl (bits : UInt64)
  | arr (xs : List AnyValue)
  | kv (kvs : List (String × AnyValue))
  | bytes (bs : List UInt8)
  deriving Inhabited

/-- outcome of encoding on the emitting thread -/
inductive Enc (α : Type) where
  | ok (a : α)
  | panic
  deriving Inhabited

def Enc.bind {α β : Type} : Enc α → (α → Enc β) → Enc β
  | .ok a, f => f a
  | .panic, _ => .panic

instance : Monad Enc where
  pure := Enc.ok
  bind := Enc.bind

def inI64 (i : Int) : Bool := decide (-(2 : Int) ^ 63 ≤ i) && decide (i < (2 : Int) ^ 63)

def AnyValue.isEmpty : AnyValue → Bool
  | .empty => true
  | _ => false

/-- a value in map-key position (`in_map_key = true`) -/
def anyKey : V → Enc String
  | .null => .ok ""
  | .bool b => .ok (if b then "true" else "false")
  | .int i => .ok (toString i)
  | .f64 _ _ disp => .ok disp
  | .f32 _ _ disp => .ok disp
  | .text s => .ok s
  | .some k => anyKey k
  | .uvar l => .ok l
  | .nvar _ k => anyKey k
  | .bytes _ => .panic
  | .seq _ => .panic
  | .map _ => .panic
  | .record _ => .panic
  | .tuple _ => .panic
  | .svar _ _ => .panic
  | .tvar _ _ => .panic

mutual
def anyValue : V → Enc AnyValue
  | .null => .ok .empty
  | .bool b => .ok (.bool b)
  | .int i => .ok (if inI64 i then .int i else .str (toString i))
  | .f64 bits _ _ => .ok (.dbl bits)
  | .f32 bits _ _ => .ok (.dbl bits)
  | .text s => .ok (.str s)
  | .bytes bs => .ok (.bytes bs)
  | .seq xs => (anyElems xs).bind fun es => .ok (.arr es)
  | .tuple xs => (anyElems xs).bind fun es => .ok (.arr es)
  | .tvar _ xs => (anyElems xs).bind fun es => .ok (.arr es)
  | .map kvs => (anyEntries kvs).bind fun es => .ok (.kv es)
  | .record fs => (anyFields fs).bind fun es => .ok (.kv es)
  | .svar _ fs => (anyFields fs).bind fun es => .ok (.kv es)
  | .some v => anyValue v
  | .nvar _ v => anyValue v
  | .uvar l => .ok (.str l)
/-- elements of a sequence, one `AnyValue` per element (a `null` element is the empty `AnyValue`) -/
def anyElems : List V → Enc (List AnyValue)
  | [] => .ok []
  | x :: xs => (anyValue x).bind fun a => (anyElems xs).bind fun as => .ok (a :: as)
def anyEntries : List (V × V) → Enc (List (String × AnyValue))
  | [] => .ok []
  | (k, v) :: rest => (anyKey k).bind fun ks => (anyValue v).bind fun a => (anyEntries rest).bind fun es =>
      .ok ((ks, a) :: es)
def anyFields : List (String × V) → Enc (List (String × AnyValue))
  | [] => .ok []
  | (l, v) :: rest => (anyValue v).bind fun a => (anyFields rest).bind fun es => .ok ((l, a) :: es)
end

end EmitModel.Encode
