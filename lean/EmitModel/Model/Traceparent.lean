/-
  Model/Traceparent.lean — C18. Mirrors /repo/traceparent/src/lib.rs:
    * thread-local `ACTIVE_TRACEPARENT : Option<ActiveTraceparent {traceparent, tracestate, span_parent}>`  (:706-741)
    * `Traceparent::push` / `current`                                                                     (:391-417)
    * `TraceparentCtxt`: `with_current` synthesises the ids only when sampled (:793-820); `open_push` /
      `open_disabled` call `incoming_traceparent(None, props, ALL | EMPTY)` (:822-857); `enter`/`exit` swap the
      thread's active traceparent with the frame's slot when the frame is active (:859-873)
    * `incoming_traceparent(sampler, props, flags)`                                                        (:880-970)
    * `TraceparentFilter::matches` (:1026-1043), `InSampledTraceFilter::matches` (:1047-1060)
    * a MANUAL span — a span-kind event that already carries an extent, emitted through `emit_core::emit`
      (/repo/core/src/lib.rs:56-79: ambient props appended to the event's own, then the runtime filter) — goes through
      the same span branch of `TraceparentFilter::matches` as the start event of a `SpanGuard` (`emitSpanEvent`)
  and the span machinery it is driven by, /repo/src/span.rs: `SpanCtxt::current`, `new_child` (:758-783),
  `SpanGuard::new` (:909-976: child ctxt → filter verdict → `Frame::push` or `Frame::disabled`).

  Ids are numbers drawn from a counter rng (fresh, non-zero, distinct). Trace flags are a byte; bit 0 = sampled.
  The sampler is an arbitrary decision list consumed one entry per call (false once exhausted).
-/
namespace EmitModel.Traceparent

/-- Ids are either drawn from the runtime's rng (`gen`, a counter: fresh, non-zero, never repeated) or arrive
    from outside in a traceparent header (`ext`); the two never coincide ("the random source does not repeat"). -/
inductive Id where
  | gen (n : Nat)
  | ext (n : Nat)
  deriving Repr, DecidableEq

structure TP where
  traceId : Option Id
  spanId : Option Id
  flags : Nat
  deriving Repr, DecidableEq

def TP.sampled (t : TP) : Bool := t.flags % 2 == 1
def TP.valid (t : TP) : Bool := t.traceId.isSome && t.spanId.isSome
/-- `Traceparent::empty()`: no ids, flags SAMPLED. -/
def TP.empty : TP := ⟨none, none, 1⟩

structure Active where
  tp : TP
  spanParent : Option Id
  /-- the `Tracestate` travelling with the traceparent (an opaque text; `0` = the empty tracestate) -/
  state : Nat := 0
  deriving Repr, DecidableEq

/-- `SpanCtxt` = (trace_id, span_parent, span_id) -/
structure Ids where
  traceId : Option Id
  spanParent : Option Id
  spanId : Option Id
  deriving Repr, DecidableEq

def Ids.empty : Ids := ⟨none, none, none⟩

/-- `TraceparentCtxt::with_current`: the synthesised `SpanCtxt` — only when the active traceparent is sampled.
    (The wrapped context never holds ids: `ExcludeTraceparentProps` strips them from everything pushed by spans.) -/
def ambientIds : Option Active → Ids
  | some a => if a.tp.sampled then ⟨a.tp.traceId, a.spanParent, a.tp.spanId⟩ else Ids.empty
  | none => Ids.empty

/-- `Traceparent::current()` -/
def current : Option Active → TP
  | some a => a.tp
  | none => TP.empty

/-- `Tracestate::current()` -/
def currentState : Option Active → Nat
  | some a => a.state
  | none => 0

inductive Obs where
  | sampler (traceId : Option Id) (spanId : Id) (decision : Bool)
  | spanOpen (enabled : Bool) (ids : Ids)              -- the child's own SpanCtxt and the filter verdict
  | spanDone (ids : Ids)                               -- a span event was emitted; ambient ids on it
  | event (cur : TP) (state : Nat) (ids : Ids) (passTraceparent passInSampled : Bool)
  -- a span emitted as an event (no guard): the ids the runtime filter sees on it and both filters' verdicts
  | spanEvent (ids : Ids) (passTraceparent passInSampled : Bool)
  deriving Repr, DecidableEq

structure Env where
  st : Option Active          -- the running thread's ACTIVE_TRACEPARENT
  rng : Nat                   -- counter rng: next id = rng + 1
  calls : Nat                 -- number of sampler calls so far
  out : List Obs              -- newest first
  deriving Repr, DecidableEq

structure Cfg where
  hasSampler : Bool           -- `TraceparentFilter::new_with_sampler(..)` vs `TraceparentFilter::new()`
  decisions : List Bool       -- the sampler, as its sequence of answers
  outside : Bool              -- `in_sampled_trace_filter(match_events_outside_traces)`
  deriving Repr

def Cfg.decide (c : Cfg) (i : Nat) : Bool := c.decisions.getD i false

/-- `flags & mask` for the two masks used: ALL (keep) and EMPTY (clear); `& SAMPLED` keeps bit 0. -/
def maskAll (f : Nat) : Nat := f % 256
def maskSampled (f : Nat) : Nat := f % 2

/-- `incoming_traceparent(sampler?, props, trace_flags)` for props carrying the span's own `span_id`/`trace_id`.
    `mask` is the `trace_flags` argument: `keep = true` ↦ ALL, `false` ↦ EMPTY; `sampledOnly` ↦ SAMPLED.
    Returns the slot (none = "not a new span here") and the updated sampler bookkeeping. -/
inductive Mask where | all | empty | sampled
  deriving Repr, DecidableEq

def applyMask : Mask → Nat → Nat
  | .all, f => f % 256
  | .empty, _ => 0
  | .sampled, f => f % 2

def maskIsSampled : Mask → Bool
  | .all => true | .sampled => true | .empty => false

def incoming (c : Cfg) (useSampler : Bool) (st : Option Active) (traceId : Option Id) (spanId : Option Id)
    (mask : Mask) (calls : Nat) : Option Active × Nat × List Obs :=
  match spanId with
  | none => (none, calls, [])
  | some sid =>
    let active := st.filter (fun a => a.tp.valid)
    if (active.bind (·.tp.spanId)) == some sid then (none, calls, [])
    else match active with
      | some a =>
        -- a child span inherits the tracestate of its parent
        (some ⟨⟨a.tp.traceId, some sid, applyMask mask a.tp.flags⟩, a.tp.spanId, a.state⟩, calls, [])
      | none =>
        if useSampler then
          if maskIsSampled mask then
            let d := c.decide calls
            -- a root span starts with the empty tracestate (whatever an invalid active traceparent carried)
            (some ⟨⟨traceId, some sid, if d then applyMask mask 1 else 0⟩, none, 0⟩, calls + 1, [.sampler traceId sid d])
          else (some ⟨⟨traceId, some sid, 0⟩, none, 0⟩, calls, [])
        else (some ⟨⟨traceId, some sid, applyMask mask 1⟩, none, 0⟩, calls, [])

inductive Prog where
  | event                                      -- observe `Traceparent::current`, ambient ids, both filters
  | spanEvent                                  -- a completed span emitted as an EVENT through the runtime (range
                                               --   extent, `evt_kind: span`, ids of a new child of the current
                                               --   span context); no guard, no frame
  | span (children : List Prog)                -- a span whose body runs the children on the same thread
  | spanThread (children : List Prog)          -- … whose body (guard + frame) is moved to a fresh thread
  | spanAsync (children : List Prog)           -- … whose body is a future polled once per child: the frame is
                                               --   entered and exited around EVERY poll (`FrameFuture::poll`)
  | push (tp : TP) (children : List Prog)      -- `Traceparent::push(tp)` frame entered around the children
  | pushState (ts : Nat) (children : List Prog)         -- `Tracestate::push(ts)` frame entered around the children
  | pushBoth (tp : TP) (ts : Nat) (children : List Prog) -- `emit_traceparent::push(tp, ts)`
  | carry (children : List Prog)               -- `Frame::current(ctxt)` captured here, entered on a fresh thread
  deriving Repr

/-- `SpanGuard::new` under the traceparent runtime: child ids, filter verdict, the frame's slot. -/
def openSpan (c : Cfg) (e : Env) : Bool × Ids × Option Active × Env :=
  let cur := ambientIds e.st
  -- SpanCtxt::new_child: inherit the trace id or draw one, parent = current span id, draw a span id
  let (traceId, rng1) := match cur.traceId with
    | some t => (some t, e.rng)
    | none => (some (.gen (e.rng + 1)), e.rng + 1)
  let spanId : Id := .gen (rng1 + 1)
  let child : Ids := ⟨traceId, cur.spanId, some spanId⟩
  -- what the filter sees on the span's start event: first-wins over the child's ids (absent ones are not
  -- enumerated) followed by the ambient ids, so an absent parent shows the ambient `span_parent`
  let seen : Ids := ⟨traceId, cur.spanId.or cur.spanParent, some spanId⟩
  -- TraceparentFilter::matches on the span's start event: incoming_traceparent(sampler, props, SAMPLED)
  let (fslot, calls1, obs1) := incoming c c.hasSampler e.st traceId (some spanId) .sampled e.calls
  let enabled := match fslot with
    | some a => a.tp.sampled
    | none => true
  -- Frame::push → open_push (ALL) when enabled, Frame::disabled → open_disabled (EMPTY) otherwise
  let (slot, _, _) := incoming c false e.st traceId (some spanId) (if enabled then .all else .empty) calls1
  (enabled, child, slot,
   { e with rng := rng1 + 1, calls := calls1, out := .spanOpen enabled seen :: (obs1 ++ e.out) })

def observeEvent (c : Cfg) (e : Env) : Env :=
  let passIn := match e.st with
    | some a => a.tp.sampled
    | none => c.outside
  -- a non-span event always passes TraceparentFilter
  { e with out := .event (current e.st) (currentState e.st) (ambientIds e.st) true passIn :: e.out }

/-- A MANUAL span: `SpanCtxt::current(ctxt).new_child(rng)` (src/span.rs:758-781), then the span — with a range
    extent, `evt_kind: span` and those ids as its own props — is emitted through `Runtime::emit`
    (core/src/lib.rs:56-79): the ambient props are appended to the event's own and the runtime filter decides.
    `TraceparentFilter::matches` (:1030-1046) takes its span branch whatever the extent: the same
    `incoming_traceparent(sampler, props, SAMPLED)` as for the start event of a guard — the sampler is consulted
    when no valid traceparent is active — and the verdict is the incoming sampled flag (`true` when the props do not
    start a span here). `InSampledTraceFilter::matches` (:1055-1063) looks at the active traceparent only.
    Nothing is pushed: the thread's active traceparent is untouched. -/
def emitSpanEvent (c : Cfg) (e : Env) : Env :=
  let cur := ambientIds e.st
  -- SpanCtxt::new_child: inherit the trace id or draw one, parent = current span id, draw a span id
  let (traceId, rng1) := match cur.traceId with
    | some t => (some t, e.rng)
    | none => (some (.gen (e.rng + 1)), e.rng + 1)
  let spanId : Id := .gen (rng1 + 1)
  -- what the filter sees: the event's own ids first (absent ones are not enumerated), then the ambient ids
  let seen : Ids := ⟨traceId, cur.spanId.or cur.spanParent, some spanId⟩
  let (fslot, calls1, obs1) := incoming c c.hasSampler e.st traceId (some spanId) .sampled e.calls
  let pass := match fslot with
    | some a => a.tp.sampled
    | none => true
  let passIn := match e.st with
    | some a => a.tp.sampled
    | none => c.outside
  { e with rng := rng1 + 1, calls := calls1, out := .spanEvent seen pass passIn :: (obs1 ++ e.out) }

/-- `enter`: an active frame (one with a slot) swaps its slot with the thread's active traceparent. -/
def enterSt (slot st : Option Active) : Option Active :=
  match slot with
  | some a => some a
  | none => st

/-- `exit`: swap back — the thread gets what was saved at `enter`; an inactive frame changes nothing. -/
def exitSt (slot saved cur : Option Active) : Option Active :=
  match slot with
  | some _ => saved
  | none => cur

/-- the guard completes inside the frame: one span event iff enabled, carrying the ambient ids -/
def completeSpan (enabled : Bool) (e : Env) : Env :=
  if enabled then { e with out := .spanDone (ambientIds e.st) :: e.out } else e

/-- `Traceparent::push`: span_parent = the active span id when the active traceparent is in the same trace -/
def pushedActive (st : Option Active) (tp : TP) : Active :=
  ⟨tp, match st with
    | some a => if a.tp.traceId.isSome && a.tp.traceId == tp.traceId then a.tp.spanId else none
    | none => none,
   -- the tracestate in force is kept
   currentState st⟩

/-- `Tracestate::push`: the active traceparent and span parent are kept, only the tracestate changes; with
    nothing active the frame holds `Traceparent::empty()` (no ids, flags SAMPLED). -/
def stateActive (st : Option Active) (ts : Nat) : Active :=
  match st with
  | some a => { a with state := ts }
  | none => ⟨TP.empty, none, ts⟩

/-- `emit_traceparent::push(traceparent, tracestate)`: both at once (its own copy of the span-parent rule). -/
def bothActive (st : Option Active) (tp : TP) (ts : Nat) : Active :=
  { pushedActive st tp with state := ts }

/-- A `TraceparentCtxtFrame`: `active` is fixed at creation (`slot.is_some()`); `enter` and `exit` both swap the
    slot with the thread's active traceparent when the frame is active. -/
structure Frm where
  active : Bool
  slot : Option Active
  deriving Repr, DecidableEq

def Frm.swap (f : Frm) (st : Option Active) : Frm × Option Active :=
  if f.active then ({ f with slot := st }, f.slot) else (f, st)

mutual
def run (c : Cfg) : Prog → Env → Env
  | .event, e => observeEvent c e
  | .spanEvent, e => emitSpanEvent c e
  | .span cs, e =>
    let o := openSpan c e
    let e1 := o.2.2.2
    let e2 := runList c cs { e1 with st := enterSt o.2.2.1 e1.st }
    let e3 := completeSpan o.1 e2
    { e3 with st := exitSt o.2.2.1 e1.st e3.st }
  | .spanThread cs, e =>
    let o := openSpan c e
    let e1 := o.2.2.2
    -- the fresh thread starts with no active traceparent; entering swaps the slot in
    let e2 := runList c cs { e1 with st := enterSt o.2.2.1 none }
    let e3 := completeSpan o.1 e2
    -- back on the spawning thread nothing changed
    { e3 with st := e1.st }
  | .spanAsync cs, e =>
    let o := openSpan c e
    let e1 := o.2.2.2
    let r := runPolls c cs ⟨o.2.2.1.isSome, o.2.2.1⟩ e1
    -- the last poll: enter, the body finishes and the guard completes inside the frame, exit
    let i := r.1.swap r.2.st
    let e3 := completeSpan o.1 { r.2 with st := i.2 }
    { e3 with st := (i.1.swap e3.st).2 }
  | .push tp cs, e =>
    let e2 := runList c cs { e with st := some (pushedActive e.st tp) }
    { e2 with st := e.st }
  | .pushState ts cs, e =>
    let e2 := runList c cs { e with st := some (stateActive e.st ts) }
    { e2 with st := e.st }
  | .pushBoth tp ts cs, e =>
    let e2 := runList c cs { e with st := some (bothActive e.st tp ts) }
    { e2 with st := e.st }
  | .carry cs, e =>
    -- Frame::current(ctxt) = open_push(Empty): no span id in the props; (fixed tree) the frame carries the
    -- active traceparent, so entering it on a fresh thread continues the trace
    let e2 := runList c cs { e with st := enterSt e.st none }
    { e2 with st := e.st }
def runList (c : Cfg) : List Prog → Env → Env
  | [], e => e
  | p :: ps, e => runList c ps (run c p e)
/-- one poll per child: enter (swap), run the segment, exit (swap) -/
def runPolls (c : Cfg) : List Prog → Frm → Env → Frm × Env
  | [], f, e => (f, e)
  | p :: ps, f, e =>
    let i := f.swap e.st
    let e1 := run c p { e with st := i.2 }
    let o := i.1.swap e1.st
    runPolls c ps o.1 { e1 with st := o.2 }
end

/-- The UNFIXED `open_push` for `Frame::current`: the frame is inactive, the fresh thread has no traceparent. -/
def carryUnfixedInside (_ : Option Active) : Option Active := none

def env0 : Env := ⟨none, 0, 0, []⟩

end EmitModel.Traceparent
