/-
  Model/PathValid.lean — C15. /repo/core/src/path.rs:
    * `is_valid_path` :167-208 — a three-state machine over `path.chars()` (after the D11 fix: the
      "middle of an identifier" arm requires `separators == 0`)
    * `Path::is_child_of` :140-151 — byte-wise prefix test guarded by `is_char_boundary`
  The Unicode classes `XID_Start` / `XID_Continue` (`unicode_ident`) are parameters `xs xc : Char → Bool`; the
  harness ships the class of every character of a case, so no Unicode table is needed here and the theorems hold
  for any classification that does not put `':'` in either class.
-/
import EmitModel.Model.Text

namespace EmitModel.PathValid
open EmitModel.Text

/-- one iteration of the `for c in path.chars()` loop: the new `separators`, or `none` for `return false` -/
def step (xs xc : Char → Bool) (sep : Nat) (c : Char) : Option Nat :=
  -- The start of a `::` separator
  if c = ':' ∧ sep = 0 then some 1
  -- The end of a `::` separator
  else if c = ':' ∧ sep = 1 then some 2
  -- The start of an identifier
  else if sep % 2 = 0 ∧ xs c = true then some 0
  -- The middle of an identifier
  else if sep = 0 ∧ xc c = true then some sep
  -- An invalid character
  else none

def run (xs xc : Char → Bool) : Nat → List Char → Option Nat
  | sep, [] => some sep
  | sep, c :: rest =>
    match step xs xc sep c with
    | none => none
    | some sep' => run xs xc sep' rest

/-- `is_valid_path(path)` -/
def isValidPath (xs xc : Char → Bool) (path : List Char) : Bool :=
  -- Empty paths are not valid
  if path.isEmpty then false
  -- Paths that start with `:` are not valid
  else if path.head? = some ':' then false
  else
    match run xs xc 0 path with
    | none => false
    -- If we ended on a separator (complete or incomplete) then the path is not valid
    | some sep => sep == 0

/-! The machine as it was before the D11 fix (the "middle of an identifier" arm did not look at `separators`):
    kept to document the defect; the driver does not run it. -/
def stepLegacy (xs xc : Char → Bool) (sep : Nat) (c : Char) : Option Nat :=
  if c = ':' ∧ sep = 0 then some 1
  else if c = ':' ∧ sep = 1 then some 2
  else if sep % 2 = 0 ∧ xs c = true then some 0
  else if xc c = true then some sep
  else none

def runLegacy (xs xc : Char → Bool) : Nat → List Char → Option Nat
  | sep, [] => some sep
  | sep, c :: rest =>
    match stepLegacy xs xc sep c with
    | none => none
    | some sep' => runLegacy xs xc sep' rest

def isValidPathLegacy (xs xc : Char → Bool) (path : List Char) : Bool :=
  if path.isEmpty then false
  else if path.head? = some ':' then false
  else
    match runLegacy xs xc 0 path with
    | none => false
    | some sep => sep == 0

def startsWith : List UInt8 → List UInt8 → Bool
  | _, [] => true
  | [], _ :: _ => false
  | a :: as, b :: bs => a == b && startsWith as bs

/-- `Path::is_child_of` on the UTF-8 bytes of the two paths (:140-151). `split_at` cannot panic: it is guarded by
    `is_char_boundary(parent.len())`, which is false beyond the end. -/
def isChildOf (child parent : List UInt8) : Bool :=
  if isCharBoundary child parent.length then
    let childPrefix := child.take parent.length
    let childSuffix := child.drop parent.length
    childPrefix == parent && (childSuffix.isEmpty || startsWith childSuffix [58, 58])
  else false

end EmitModel.PathValid
