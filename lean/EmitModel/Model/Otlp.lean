/-
  Model/Otlp.lean — C14 (signal routing) and C12 (delivery of size-split batches) of `emit_otlp`.

  Part 1 (C14) mirrors
    * `OtlpInner::emit`                       /repo/emitter/otlp/src/client.rs:637-668
        metrics, then traces, then logs; otherwise `event_discarded.increment()`
    * `MetricsEventEncoder::encode_event`     /repo/emitter/otlp/src/data/metrics.rs:52-60, 160-250, 338-365
        kind filter, `metric_value` present, `points_from_value` (the sval `Extract` stream), `into_points`
    * `TracesEventEncoder::encode_event`      /repo/emitter/otlp/src/data/traces.rs:38-55
    * `LogsEventEncoder::encode_event`        /repo/emitter/otlp/src/data/logs.rs:30-58 (always `Some`)
    * `KindFilter::matches`, `Kind: FromValue/FromStr`   /repo/src/kind.rs:91-113, 166-170
    * `Props::get` on a slice = first match   /repo/core/src/props.rs

  Part 2 (C12) is further down (`Channel.push`, `send`, the connection slot, the retry loop).
-/
import Std

namespace EmitModel.Otlp

/-! ## Part 1 — events as the harness builds them -/

inductive KindT where
  | span | metric
  deriving Repr, DecidableEq, Inhabited

/-- Property values (the subset of `emit::Value` captures the harness produces). Integers are mathematical;
    the Rust side captures them as i64/u64/i128/u128 (tag on the wire, same meaning). -/
inductive Val where
  | kind (k : KindT)        -- a captured `emit::Kind` (downcasts)
  | str (s : String)        -- a captured string
  | disp (s : String)       -- `Value::capture_display` of something that prints `s` (not a string value)
  | int (n : Int)
  | f64 (bits : Nat)
  | bool (b : Bool)
  | null
  | seq (xs : List Val)
  deriving Repr, Inhabited

inductive Extent where
  | none | point (t : Nat) | range (a b : Nat)
  deriving Repr, DecidableEq, Inhabited

structure Evt where
  extent : Extent
  props : List (String × Val)
  deriving Repr, Inhabited

/-- `Props::get` on `&[(K, V)]`: the first pair whose key matches. -/
def lookupFirst (k : String) : List (String × Val) → Option Val
  | [] => none
  | (k', v) :: rest => if k' == k then some v else lookupFirst k rest

/-! ### `Kind` parsing (`str::trim` + `eq_ignore_ascii_case`) -/

/-- Rust's `char::is_whitespace` (Unicode `White_Space`). -/
def isRustWhitespace (c : Char) : Bool :=
  let n := c.toNat
  (0x09 ≤ n && n ≤ 0x0D) || n == 0x20 || n == 0x85 || n == 0xA0 || n == 0x1680 ||
  (0x2000 ≤ n && n ≤ 0x200A) || n == 0x2028 || n == 0x2029 || n == 0x202F || n == 0x205F || n == 0x3000

def trim (cs : List Char) : List Char :=
  ((cs.dropWhile isRustWhitespace).reverse.dropWhile isRustWhitespace).reverse

def asciiLower (c : Char) : Char := if 'A' ≤ c && c ≤ 'Z' then Char.ofNat (c.toNat + 32) else c

/-- `a.eq_ignore_ascii_case(b)` (same length, bytes equal after ASCII lower-casing; on chars this is the same
    because non-ASCII chars are left alone and compared exactly). -/
def eqIgnoreAsciiCase : List Char → List Char → Bool
  | [], [] => true
  | a :: as, b :: bs => asciiLower a == asciiLower b && eqIgnoreAsciiCase as bs
  | _, _ => false

/-- `impl FromStr for Kind` (kind.rs:99-113). -/
def parseKind (s : String) : Option KindT :=
  let t := trim s.toList
  if eqIgnoreAsciiCase t "span".toList then some .span
  else if eqIgnoreAsciiCase t "metric".toList then some .metric
  else none

/-- `impl FromValue for Kind` (kind.rs:91-97): downcast, else parse the string / the `Display` text.
    Numbers, booleans, null and sequences never print as `span`/`metric`. -/
def castKind : Val → Option KindT
  | .kind k => some k
  | .str s => parseKind s
  | .disp s => parseKind s
  | _ => none

/-- `props.pull::<Kind, _>("evt_kind")`. -/
def pullKind (props : List (String × Val)) : Option KindT :=
  (lookupFirst "evt_kind" props).bind castKind

/-! ### The metrics encoder's `Extract` stream (metrics.rs:172-240) -/

def i64Min : Int := -9223372036854775808
def i64Max : Int := 9223372036854775807
def inI64 (n : Int) : Bool := decide (i64Min ≤ n) && decide (n ≤ i64Max)

/-- State of `Extract`: the `in_seq` flag and how many points the aggregator was given. -/
structure Ext where
  inSeq : Bool
  points : Nat
  deriving Repr, DecidableEq, Inhabited

mutual
/-- Streaming one value into `Extract`; `none` = `sval::error()`.
    * i64-range integers arrive as `i64` (sval forwards u8..u64/i128/u128 through `try_into::<i64>`),
      larger ones are streamed as tagged number *text* ⇒ `text_begin` ⇒ error;
    * strings, `Display` captures, `Kind` (captured by `Display`), bool and null are errors;
    * `seq_begin` fails when already inside a sequence, else sets `in_seq`; `seq_end` clears it. -/
def extract : Val → Ext → Option Ext
  | .int n, e => if inI64 n then some { e with points := e.points + 1 } else none
  | .f64 _, e => some { e with points := e.points + 1 }
  | .seq xs, e =>
    if e.inSeq then none
    else match extractList xs { e with inSeq := true } with
      | none => none
      | some e' => some { e' with inSeq := false }
  | .kind _, _ => none
  | .str _, _ => none
  | .disp _, _ => none
  | .bool _, _ => none
  | .null, _ => none
def extractList : List Val → Ext → Option Ext
  | [], e => some e
  | v :: vs, e => match extract v e with
    | none => none
    | some e' => extractList vs e'
end

/-- `metric_agg.and_then(|v| v.to_cow_str())` compared with `"sum"` / `"count"` (exact, case-sensitive):
    those two build `SumPoints` (always one point, even from no input); everything else — other text, a
    non-string value, no `metric_agg` at all — builds a gauge from `RawPointSet` (needs ≥ 1 point). -/
def aggIsSumLike : Option Val → Bool
  | some (.str s) => s == "sum" || s == "count"
  | _ => false

/-- `MetricsEventEncoder::encode_event(..).is_some()`. -/
def acceptsMetricEvt (e : Evt) : Bool :=
  if pullKind e.props != some .metric then false            -- metrics.rs:57
  else match lookupFirst "metric_value" e.props with        -- :61-64
    | none => false
    | some v =>
      match extract v ⟨false, 0⟩ with                        -- points_from_value: `value.stream(..).ok()?`
      | none => false
      | some st =>
        if aggIsSumLike (lookupFirst "metric_agg" e.props) then true   -- SumPoints::into_points = Some
        else decide (st.points > 0)                                    -- RawPointSet::into_points: 0 ⇒ None

/-- `TracesEventEncoder::encode_event(..).is_some()` (traces.rs:42-55). -/
def acceptsSpanEvt (e : Evt) : Bool :=
  if pullKind e.props != some .span then false
  else match e.extent with
    | .range _ _ => true       -- `as_range()` is `Some` for every range extent, empty or reversed too
    | _ => false

/-- `LogsEventEncoder::encode_event` always returns `Some`. -/
def acceptsLogEvt (_ : Evt) : Bool := true

inductive Signal where
  | logs | traces | metrics
  deriving Repr, DecidableEq, Inhabited

inductive Outcome where
  | signal (s : Signal)
  | discard
  deriving Repr, DecidableEq, Inhabited

/-- The configured signals. -/
structure Cfg where
  logs : Bool
  traces : Bool
  metrics : Bool
  deriving Repr, DecidableEq, Inhabited

/-- `OtlpInner::emit` (client.rs:637-668), on a concrete event. -/
def routeEvt (c : Cfg) (e : Evt) : Outcome :=
  if c.metrics && acceptsMetricEvt e then .signal .metrics
  else if c.traces && acceptsSpanEvt e then .signal .traces
  else if c.logs && acceptsLogEvt e then .signal .logs
  else .discard

/-! ### The shape abstraction the property is phrased over -/

inductive KindS where
  | none | span | metric | unknown
  deriving Repr, DecidableEq, Inhabited

inductive ExtentS where
  | none | point | range
  deriving Repr, DecidableEq, Inhabited

/-- Class of the `metric_value` property.
    `num`: an integer in the i64 range or a float. `seqNums empty`: a flat sequence of such numbers.
    `nested`: a sequence with a sequence inside. `nonNumeric`: anything else (text, bool, null, an integer
    outside the i64 range, a sequence with a non-number in it). -/
inductive ValueS where
  | missing | num | seqNums (empty : Bool) | nested | nonNumeric
  deriving Repr, DecidableEq, Inhabited

inductive AggS where
  | missing | count | sum | min | max | last | unknown
  deriving Repr, DecidableEq, Inhabited

def AggS.sumLike : AggS → Bool
  | .count => true | .sum => true | _ => false

structure Shape where
  kind : KindS
  extent : ExtentS
  hasName : Bool        -- `metric_name` present? (never consulted by the routing)
  value : ValueS
  agg : AggS
  deriving Repr, DecidableEq, Inhabited

def Shape.numeric (s : Shape) : Bool :=
  match s.value with
  | .num => true
  | .seqNums empty => !empty || s.agg.sumLike
  | _ => false

def acceptsMetric (s : Shape) : Bool := s.kind == .metric && s.numeric
def acceptsSpan (s : Shape) : Bool := s.kind == .span && s.extent == .range
def acceptsLog (_ : Shape) : Bool := true

/-- The routing decision over shapes, written as `OtlpInner::emit` is. -/
def route (logs traces metrics : Bool) (s : Shape) : Outcome :=
  if metrics && acceptsMetric s then .signal .metrics
  else if traces && acceptsSpan s then .signal .traces
  else if logs && acceptsLog s then .signal .logs
  else .discard

def Outcome.exports : Outcome → Nat
  | .signal _ => 1 | .discard => 0
def Outcome.discards : Outcome → Nat
  | .signal _ => 0 | .discard => 1

/-! ### `shapeOf` -/

def isNum : Val → Bool
  | .int n => inI64 n
  | .f64 _ => true
  | _ => false

def isSeq : Val → Bool
  | .seq _ => true
  | _ => false

def valueClass : Option Val → ValueS
  | none => .missing
  | some (.seq xs) =>
    if xs.all isNum then .seqNums xs.isEmpty
    else if xs.any isSeq then .nested
    else .nonNumeric
  | some v => if isNum v then .num else .nonNumeric

def aggClass : Option Val → AggS
  | none => .missing
  | some (.str s) =>
    if s == "count" then .count else if s == "sum" then .sum else if s == "min" then .min
    else if s == "max" then .max else if s == "last" then .last else .unknown
  | some _ => .unknown

def kindClass (props : List (String × Val)) : KindS :=
  match lookupFirst "evt_kind" props with
  | none => .none
  | some v => match castKind v with
    | some .span => .span
    | some .metric => .metric
    | none => .unknown

def extentClass : Extent → ExtentS
  | .none => .none | .point _ => .point | .range _ _ => .range

def shapeOf (e : Evt) : Shape :=
  { kind := kindClass e.props
    extent := extentClass e.extent
    hasName := (lookupFirst "metric_name" e.props).isSome
    value := valueClass (lookupFirst "metric_value" e.props)
    agg := aggClass (lookupFirst "metric_agg" e.props) }

/-! ## Part 2 — C12: size-split batches, the send loop, the connection slot, retries

  Mirrors (line numbers of the pinned tree 4dcf5f6)
    * `Channel::push` / `len`                       /repo/emitter/otlp/src/client.rs:707-751
    * `OtlpTransport::send` / `send_batch`          client.rs:552-623   (after `fix:` removing the second `pop`)
    * `HttpConnection::send`, `poison`/`unpoison`   client/http.rs:331-387
    * `HttpSender::send_request` (fails on a pooled sender whose connection is gone)   client/http.rs:404-421
    * `HttpResponse::stream_payload` (a body frame ERROR is an error, not the end of the body)  client/http.rs:680-726
    * response interpretation                       client.rs:422-441 (HTTP), 492-534 (gRPC; after `fix:` for
                                                    non-2xx and Trailers-Only error responses)
    * the receiver's retry loop                     /repo/batcher/src/lib.rs:405-441, 629-646 (`Retry::next`)
  One instance (`Net`) per signal: each signal owns its channel, transport and connection (client.rs:211-294);
  the worker awaits every signal's receiver (client.rs:290-293 after `fix:` replacing `into_future()`), so a
  batch queued on one signal is processed whatever the other signals do — also after the emitter was dropped.

  Pre-fix behaviour, for the record (reproducers in harness/corpus/c12.txt):
    D6  `send` popped twice per acknowledged request ⇒ of n requests only ⌈n/2⌉ were transmitted, flush = true;
    G1  gRPC: HTTP status ignored and `grpc-status` read from trailers only ⇒ `(status 503)` and a Trailers-Only
        `grpc-status: 14` counted as success, the batch was dropped without retry;
    F3  the worker ended with the first receiver that finished ⇒ dropping the emitter while one signal was idle
        abandoned the other signals' queued batches.
-/

/-- An encoded event: the id the harness gave it and `event.payload.len()`. -/
structure Ev where
  id : Int
  size : Nat
  deriving Repr, DecidableEq, Inhabited

abbrev Request := List Ev

def reqSize (r : Request) : Nat := (r.map (·.size)).sum

/-- `Channel`. `requests` is stored newest-first: its head is `self.requests.last()` — the request being
    filled by `push` and the first one `send` transmits. -/
structure Chan where
  requests : List Request
  cur : Nat          -- current_request_size_bytes
  total : Nat        -- total_items
  deriving Repr, DecidableEq, Inhabited

def Chan.empty : Chan := ⟨[], 0, 0⟩

/-- `Channel::push` (client.rs:714-734) with `item.max_request_size_bytes = limit`. -/
def Chan.push (limit : Nat) (c : Chan) (e : Ev) : Chan :=
  match c.requests with
  | [] => ⟨[[e]], e.size, c.total + 1⟩
  | r :: rs =>
    if c.cur ≥ limit then ⟨[e] :: r :: rs, e.size, c.total + 1⟩
    else ⟨(r ++ [e]) :: rs, c.cur + e.size, c.total + 1⟩

def Chan.ofEvents (limit : Nat) (evs : List Ev) : Chan := evs.foldl (Chan.push limit) Chan.empty

/-- `Channel::len`. -/
def Chan.len (c : Chan) : Nat := c.total

/-- What the scripted collector does with one request. -/
inductive Resp where
  | ack                  -- 200, empty body / trailers `grpc-status: 0`
  | ackBody              -- the same with a response body / message
  | status (n : Nat)     -- HTTP status n, no grpc-status anywhere
  | grpc (n : Nat)       -- 200 + trailers `grpc-status: n`
  | grpcH (n : Nat)      -- 200, `grpc-status: n` in the headers ("Trailers-Only"), no trailers
  | stall                -- body read, never answered (the request times out)
  | stallH               -- body read, response HEADERS (200) sent, then silence: no message, no trailers
  | rstH                 -- body read, response HEADERS (200, no grpc-status) sent and received, then the response
                         -- stream is reset (gRPC: RST_STREAM): the body breaks before any trailers; the
                         -- connection survives
  | drpH                 -- body read, response HEADERS (200; HTTP: with a content-length and the first bytes of
                         -- the body) sent and received, then the CONNECTION is dropped: the body breaks mid-way
  | rstB                 -- connection dropped before the body is read
  | rstA                 -- connection dropped after the body is read
  deriving Repr, DecidableEq, Inhabited

inductive Transport where
  | http | grpc
  deriving Repr, DecidableEq, Inhabited

/-- Does a response head reach the client (`send_request(..).await` returns `Ok`)? -/
def Resp.headArrives : Resp → Bool
  | .stall => false | .rstB => false | .rstA => false | _ => true

/-- Does the response body (and, for gRPC, the trailers) finish arriving? A stall never ends; a reset stream or a
    dropped connection ends the body with an ERROR (`poll_frame` = `Some(Err(_))`, http.rs:680-726
    `stream_payload` → `Err("failed to read HTTP response body")`) — which is not an end of the body. -/
def Resp.bodyEnds : Resp → Bool
  | .stallH => false | .rstH => false | .drpH => false | _ => true

/-- The peer drops the connection AFTER the response head reached the client: the client has already put the
    sender back into its slot (`unpoison`, http.rs:381) when the connection dies — the slot holds a sender
    whose connection is gone. -/
def Resp.leavesStale : Resp → Bool
  | .drpH => true | _ => false

/-- HTTP status carried by a response whose head arrives. -/
def Resp.httpStatus : Resp → Nat
  | .status n => n | _ => 200

/-- The collector's own view: did it acknowledge the request? An OTLP/HTTP endpoint acknowledges with a 2xx
    status line (whatever becomes of the response body afterwards); a gRPC endpoint with `grpc-status: 0` in
    the trailers or in the headers of a Trailers-Only response (a 2xx response that ends without any
    grpc-status is also taken as one — see props/C12.json `assumptions`). A gRPC response that stalls or breaks
    between its headers and its trailers never said `grpc-status: 0`. -/
def Resp.isAck : Transport → Resp → Bool
  | .http, r => r.headArrives && decide (200 ≤ r.httpStatus) && decide (r.httpStatus < 300)
  | .grpc, .ack => true
  | .grpc, .ackBody => true
  | .grpc, .status n => decide (200 ≤ n) && decide (n < 300)
  | .grpc, .grpc n => n == 0
  | .grpc, .grpcH n => n == 0
  | .grpc, _ => false

/-- `grpc-status` as the client determines it: the trailers' value, else the headers' value (a Trailers-Only
    response), else none. -/
def Resp.grpcStatus : Resp → Option Nat
  | .ack => some 0 | .ackBody => some 0 | .grpc n => some n | .grpcH n => some n | _ => none

/-- The `response` closures of `OtlpTransportBuilder::build` applied to a response whose head arrived.
    HTTP (client.rs:422-441): success iff 200 ≤ status < 300.
    gRPC (client.rs:492-534, after the `fix:` for non-2xx / trailers-only responses): a non-2xx HTTP status
    fails; otherwise `status` starts from the `grpc-status` header (0 when absent), is overwritten by a
    `grpc-status` trailer, and the request succeeded iff it is 0. The body is streamed to its end inside the
    request timeout (http.rs:343-386 wraps connect, send and the response handler in one `timeout`), so a
    response that stalls after its headers is a timeout failure — with the sender already put back in the slot;
    a body that ends with an error (stream reset, connection closed before the trailers) makes `stream_payload`
    return `Err`, which the handler propagates with `?`: a failure, whatever `status` held by then.
    The HTTP handler never reads the body: a 2xx status line is a success even when the body then breaks. -/
def interpret : Transport → Resp → Bool
  | .http, r => decide (200 ≤ r.httpStatus) && decide (r.httpStatus < 300)
  | .grpc, r =>
    decide (200 ≤ r.httpStatus) && decide (r.httpStatus < 300) && r.bodyEnds && r.grpcStatus.getD 0 == 0

/-- One request as the collector records it. -/
structure Entry where
  ids : Option (List Int)   -- `none`: the body was never read (`rstB`)
  resp : Resp
  fresh : Bool              -- arrived on a connection established for this request
  deriving Repr, DecidableEq, Inhabited

/-- One signal's transport state and what its endpoint has seen. -/
structure Net where
  dead : Bool               -- nothing listens on the endpoint: `connect` fails
  script : List Resp        -- responses for the next requests; afterwards `ack`
  slot : Bool               -- `sender: Mutex<Option<HttpSender>>` holds a connection
  conns : Nat               -- connections established so far
  log : List Entry          -- newest first
  stale : Bool := false     -- the peer dropped the connection of the pooled sender after it was put back
  deriving Repr, DecidableEq, Inhabited

def reqIds (r : Request) : List Int := r.map (·.id)

/-- The response the collector gives to the next request (`ack` once the script is exhausted). -/
def Net.nextResp (net : Net) : Resp := net.script.headD .ack

/-- The client counts this response as a success: the head arrived and the status interpretation accepts it. -/
def okResp (tr : Transport) (r : Resp) : Bool := r.headArrives && interpret tr r

/-- State after one request was transmitted to a live endpoint (http.rs:343-386): the pooled sender was taken
    (`poison`) or a connection was made (`fresh`); when a response head arrives the sender is put back
    (`unpoison`), otherwise (error, timeout) it is dropped and the slot stays empty. When the peer drops the
    connection after the head arrived, the sender that was put back is stale. -/
def Net.record (net : Net) (r : Request) : Net :=
  { net with
    script := net.script.tail
    slot := net.nextResp.headArrives
    conns := net.conns + (if net.slot then 0 else 1)
    log := ⟨if net.nextResp = .rstB then none else some (reqIds r), net.nextResp, !net.slot⟩ :: net.log
    stale := net.nextResp.leavesStale }

/-- The slot holds a sender whose connection the peer has dropped. -/
def Net.staleNow (net : Net) : Bool := net.slot && net.stale

/-- `send_batch` → `HttpConnection::send` for one request. On a dead endpoint `connect` fails: nothing is
    transmitted and the slot stays empty. With a stale sender in the slot, `poison` takes it and
    `send_request` on it fails (`"failed to send HTTP request"`, http.rs:404-421) — nothing reaches the
    endpoint, the sender is dropped, the attempt counts as a failure like any other; the next attempt connects. -/
def attempt (tr : Transport) (net : Net) (r : Request) : Bool × Net :=
  if net.dead then (false, { net with slot := false })
  else if net.staleNow then (false, { net with slot := false, stale := false })
  else (okResp tr net.nextResp, net.record r)

inductive SendResult where
  | ok
  | retry (remaining : List Request)
  | noRetry
  deriving Repr, DecidableEq, Inhabited

/-- `OtlpTransport::send` (client.rs:552-576): transmit `requests.last()`, pop it on success, return the
    channel with everything not yet popped on failure. (`noRetry` is only produced by a request encoder error,
    which the infallible encoders never raise.) -/
def send (tr : Transport) : List Request → Net → SendResult × Net
  | [], net => (.ok, net)
  | r :: rs, net =>
    match attempt tr net r with
    | (true, net') => send tr rs net'
    | (false, net') => (.retry (r :: rs), net')

/-- The receiver's loop around `on_batch` (batcher/src/lib.rs:405-441): on a retryable error with
    `retryable.len() > 0` and retries left (`Retry::next`, max 10) run again with the remainder (after the
    back-off wait, which has no state); otherwise the batch is dropped. `total` is `Channel::len` of the
    remainder — `total_items` is never decremented by `send`, so it is the batch's item count. -/
def execBatch (tr : Transport) (total : Nat) : Nat → List Request → Net → Bool × Net
  | 0, reqs, net =>
    match send tr reqs net with
    | (.ok, net') => (true, net')
    | (.noRetry, net') => (false, net')
    | (.retry _, net') => (false, net')                 -- `Retry::next` says no: the batch is dropped
  | k + 1, reqs, net =>
    match send tr reqs net with
    | (.ok, net') => (true, net')
    | (.noRetry, net') => (false, net')
    | (.retry rem, net') => if total > 0 then execBatch tr total k rem net' else (false, net')

def maxRetries : Nat := 10

/-- Emit `evs` (already routed to this signal) while the worker is busy, then let it take the batch. -/
def runSignal (tr : Transport) (limit : Nat) (evs : List Ev) (net : Net) : Bool × Net :=
  let c := Chan.ofEvents limit evs
  if c.len = 0 then (true, net) else execBatch tr c.total maxRetries c.requests net

end EmitModel.Otlp
