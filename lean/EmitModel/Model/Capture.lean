/-
  Model/Capture.lean — C19. What is emit's own logic on the way of a value from a macro call site to a sink:

    * which capture hook a property uses: the key name selects it            (/repo/macros/src/capture.rs:72-95
      `default_fn_name`), a capture attribute renames it                      (macros/src/capture.rs:104-130,
      macros/src/lib.rs `capture_as`: `inspect` chooses the `Any`-bounded or the anonymous hook)
    * what each hook does with which type: the capture traits                 (/repo/src/macro_hooks.rs:35-424;
      blanket impl per mode, `str` special-cased everywhere, `Option`/`&T` for the well-known keys)
    * `#[emit::optional]`: `None ↦ no property`                              (src/macro_hooks.rs:426-503,
      macros/src/optional.rs; `__PrivateMacroProps` skips `None` slots, src/macro_hooks.rs:1029-1052)
    * the typed conversions in and out of `Value`                             (/repo/core/src/value.rs:300-440)
    * buffering: `to_owned` / `to_shared`                                     (core/src/value.rs:500-509)
      and the ambient context's `ThreadLocalValue::from_value` fast path      (src/platform/thread_local_ctxt.rs:63-95)

  over an abstract captured value `Cap` (the image of `value_bag`'s `Internal`). How a `Cap` answers an observation
  (typed pull, Display, Debug, serde_json, sval_json, error chain, downcast) is a TABLE stating the behaviour of the
  external crate value_bag 1.14 (+ serde_json, sval_json, sval_serde); the table is sampled by stream `c19` on
  every run, it is not proved. References into value-bag-1.14.1/src are given as `vb:<file>:<line>`.

  Text that Lean does not compute — Rust's shortest-round-trip float printing and the Unicode-table-driven Debug
  escaping of chars/strings — travels with the value (`F`, `dbg` fields) and is verified by the harness against
  std / serde_json / sval_json on every case.
-/
namespace EmitModel.Capture

/-! ## The image of Rust values -/

/-- A float with the four renderings of the ORIGINAL value. `bits` is the IEEE-754 pattern (binary64 for `f64`
    and for the widened `f32`, binary32 for the `f32` itself). -/
structure F where
  bits : Nat
  disp : String   -- `format!("{}", x)`
  dbg : String    -- `format!("{:?}", x)`
  sj : String     -- `serde_json::to_string(&x)`
  vj : String     -- `sval_json::stream_to_string(&x)`
  deriving DecidableEq, Repr, Inhabited

inductive IntTy where
  | i8 | i16 | i32 | i64 | i128 | isize | u8 | u16 | u32 | u64 | u128 | usize
  deriving DecidableEq, Repr, Inhabited

def IntTy.signed : IntTy → Bool
  | .i8 | .i16 | .i32 | .i64 | .i128 | .isize => true
  | _ => false

/-- `T::MIN` -/
def IntTy.lo : IntTy → Int
  | .i8 => -128 | .i16 => -32768 | .i32 => -2147483648
  | .i64 | .isize => -9223372036854775808
  | .i128 => -170141183460469231731687303715884105728
  | _ => 0

/-- `T::MAX + 1` -/
def IntTy.hi : IntTy → Int
  | .i8 => 128 | .i16 => 32768 | .i32 => 2147483648
  | .i64 | .isize => 9223372036854775808
  | .i128 => 170141183460469231731687303715884105728
  | .u8 => 256 | .u16 => 65536 | .u32 => 4294967296
  | .u64 | .usize => 18446744073709551616
  | .u128 => 340282366920938463463374607431768211456

/-- the value range of the Rust type (64-bit target) -/
def IntTy.inRange (t : IntTy) (i : Int) : Bool := decide (t.lo ≤ i ∧ i < t.hi)

inductive V where
  | bool (b : Bool)
  | int (t : IntTy) (i : Int)
  | f32 (x : F) (wide : F)                  -- `wide` = `x as f64`
  | f64 (x : F)
  | char (c : Char) (dbg : String)
  | str (owned : Bool) (s : String) (dbg : String)   -- `owned = false`: a `&str`; `true`: a `String`
  | unit
  | optNone (prim : Bool)                   -- `Option::<T>::None`; `prim`: `T` is in value_bag's primitive table
  | optSome (v : V)
  | seq (vs : List V)                       -- `Vec<T>`
  | map (kvs : List (V × V))                -- `BTreeMap<K, T>`, K a string or an integer
  | tuple (vs : List V)
  | record (name : String) (fs : List (String × V))   -- `struct Name { f: … }`
  | tstruct (name : String) (vs : List V)             -- `struct Name(…)`; one field = newtype
  | ustruct (name : String)                           -- `struct Name;`
  | uvar (name : String)                              -- enum variants: unit / newtype / tuple / struct
  | nvar (name : String) (v : V)
  | tvar (name : String) (vs : List V)
  | svar (name : String) (fs : List (String × V))
  | err (chain : List String) (dbg : String)          -- `impl Error`: Display of the error and of each `source()`
  | fmtOnly (disp : Option String) (dbg : Option String)  -- a type that only implements Display and/or Debug
  | level (text : String)                             -- `emit::Level`
  | traceId (n : Nat)                                 -- `emit::span::TraceId`
  | spanId (n : Nat)                                  -- `emit::span::SpanId`
  deriving Repr, Inhabited

/-! ### Text helpers -/

def hexDigit (n : Nat) : Char :=
  if n < 10 then Char.ofNat (48 + n) else Char.ofNat (87 + n)

/-- `w` lower-case hex digits of `n`, most significant first (`TraceId::to_hex`, `SpanId::to_hex`) -/
def hexFixed : Nat → Nat → List Char
  | 0, _ => []
  | w + 1, n => hexFixed w (n / 16) ++ [hexDigit (n % 16)]

def traceIdText (n : Nat) : String := String.ofList (hexFixed 32 n)
def spanIdText (n : Nat) : String := String.ofList (hexFixed 16 n)

/-- JSON string escaping, identical in serde_json (`ESCAPE` table) and sval_json (`escape_str`):
    `"` `\` and U+0000‥U+001F are escaped, everything else is copied. -/
def jsonEscapeChar (c : Char) : List Char :=
  if c == '"' then ['\\', '"']
  else if c == '\\' then ['\\', '\\']
  else if c.toNat == 8 then ['\\', 'b']
  else if c.toNat == 9 then ['\\', 't']
  else if c.toNat == 10 then ['\\', 'n']
  else if c.toNat == 12 then ['\\', 'f']
  else if c.toNat == 13 then ['\\', 'r']
  else if c.toNat < 32 then ['\\', 'u', '0', '0', hexDigit (c.toNat / 16), hexDigit (c.toNat % 16)]
  else [c]

def jsonStr (s : String) : String :=
  String.ofList (['"'] ++ s.toList.flatMap jsonEscapeChar ++ ['"'])

def commaSep (xs : List String) : String := ",".intercalate xs
def commaSpaceSep (xs : List String) : String := ", ".intercalate xs

/-! ### What the original value shows when observed DIRECTLY (the reference the property compares against) -/

/-- `format!("{}", v)` when the Rust type implements `Display`. -/
def V.display? : V → Option String
  | .bool b => some (if b then "true" else "false")
  | .int _ i => some (toString i)
  | .f32 x _ => some x.disp
  | .f64 x => some x.disp
  | .char c _ => some (String.singleton c)
  | .str _ s _ => some s
  | .err chain _ => chain.head?
  | .fmtOnly d _ => d
  | .level t => some t
  | .traceId n => some (traceIdText n)
  | .spanId n => some (spanIdText n)
  | _ => none

mutual
  /-- `format!("{:?}", v)`: std / derived `Debug` (non-alternate). -/
  def V.debugText : V → String
    | .bool b => if b then "true" else "false"
    | .int _ i => toString i
    | .f32 x _ => x.dbg
    | .f64 x => x.dbg
    | .char _ d => d
    | .str _ _ d => d
    | .unit => "()"
    | .optNone _ => "None"
    | .optSome v => "Some(" ++ v.debugText ++ ")"
    | .seq vs => "[" ++ commaSpaceSep (debugList vs) ++ "]"
    | .map kvs => "{" ++ commaSpaceSep (debugKvs kvs) ++ "}"
    | .tuple vs =>
      match debugList vs with
      | [x] => "(" ++ x ++ ",)"
      | xs => "(" ++ commaSpaceSep xs ++ ")"
    | .record n fs => n ++ " { " ++ commaSpaceSep (debugFields fs) ++ " }"
    | .tstruct n vs => n ++ "(" ++ commaSpaceSep (debugList vs) ++ ")"
    | .ustruct n => n
    | .uvar n => n
    | .nvar n v => n ++ "(" ++ v.debugText ++ ")"
    | .tvar n vs => n ++ "(" ++ commaSpaceSep (debugList vs) ++ ")"
    | .svar n fs => n ++ " { " ++ commaSpaceSep (debugFields fs) ++ " }"
    | .err _ d => d
    | .fmtOnly _ d => d.getD ""
    | .level t => t                                   -- src/level.rs:104 (Debug = Display)
    | .traceId n => "\"" ++ traceIdText n ++ "\""     -- src/span.rs:50 (Debug of the hex str)
    | .spanId n => "\"" ++ spanIdText n ++ "\""
  def debugList : List V → List String
    | [] => []
    | v :: vs => v.debugText :: debugList vs
  def debugKvs : List (V × V) → List String
    | [] => []
    | (k, v) :: kvs => (k.debugText ++ ": " ++ v.debugText) :: debugKvs kvs
  def debugFields : List (String × V) → List String
    | [] => []
    | (f, v) :: fs => (f ++ ": " ++ v.debugText) :: debugFields fs
end

/-- Has the Rust type a `Debug` impl (a `fmtOnly` type may lack it). -/
def V.debug? : V → Option String
  | .fmtOnly _ d => d
  | v => some v.debugText

/-- The serialization framework whose JSON writer looks at the value. -/
inductive Fw where
  | serde | sval
  deriving DecidableEq, Repr

/-- A map key in JSON: strings as they are, integers quoted (serde_json `MapKeySerializer`, sval_json). -/
def jsonKey : V → String
  | .str _ s _ => jsonStr s
  | .int _ i => "\"" ++ toString i ++ "\""
  | _ => "\"?\""

/-- A JSON array; with `hint0` the way serde_json writes it when the length was announced as `Some(0)`:
    `[]` at once, then every element after a comma, then `]` (serde_json `serialize_seq`/`SerializeSeq::end`). -/
def seqJson (hint0 : Bool) (xs : List String) : String :=
  if xs.isEmpty then "[]"
  else if hint0 then "[]" ++ String.join (xs.map ("," ++ ·)) ++ "]"
  else "[" ++ commaSep xs ++ "]"

/-- a one-field tuple struct is a newtype (transparent), more fields are an array -/
def newtypeOrSeq : List String → String
  | [x] => x
  | xs => "[" ++ commaSep xs ++ "]"

mutual
  /-- `serde_json::to_string` / `sval_json::stream_to_string` of the ORIGINAL value (derived impls, externally
      tagged enums). `nestedSeqBroken` reproduces the sval→serde bridge defect (see `Cap.serdeJson`): every
      non-empty sequence below the root is announced with length 0, for which serde_json writes `[]` first. -/
  def V.json (fw : Fw) (broken : Bool) (root : Bool) : V → String
    | .bool b => if b then "true" else "false"
    | .int _ i => toString i
    | .f32 x _ => if fw == .serde then x.sj else x.vj
    | .f64 x => if fw == .serde then x.sj else x.vj
    | .char c _ => jsonStr (String.singleton c)
    | .str _ s _ => jsonStr s
    | .unit => "null"
    | .optNone _ => "null"
    | .optSome v => v.json fw broken false
    | .seq vs => seqJson (broken && !root) (jsonList fw broken vs)
    | .map kvs => "{" ++ commaSep (jsonKvs fw broken kvs) ++ "}"
    | .tuple vs => "[" ++ commaSep (jsonList fw broken vs) ++ "]"
    | .record _ fs => "{" ++ commaSep (jsonFields fw broken fs) ++ "}"
    | .tstruct _ vs => newtypeOrSeq (jsonList fw broken vs)
    | .ustruct n => if fw == .serde then "null" else jsonStr n
    | .uvar n => jsonStr n
    | .nvar n v => "{" ++ jsonStr n ++ ":" ++ v.json fw broken false ++ "}"
    | .tvar n vs => "{" ++ jsonStr n ++ ":[" ++ commaSep (jsonList fw broken vs) ++ "]}"
    | .svar n fs => "{" ++ jsonStr n ++ ":{" ++ commaSep (jsonFields fw broken fs) ++ "}}"
    | .err chain _ => jsonStr (chain.head?.getD "")
    | .fmtOnly d _ => jsonStr (d.getD "")
    | .level t => jsonStr t                      -- serialized through Display (src/level.rs, src/span.rs:86-98)
    | .traceId n => jsonStr (traceIdText n)
    | .spanId n => jsonStr (spanIdText n)
  def jsonList (fw : Fw) (broken : Bool) : List V → List String
    | [] => []
    | v :: vs => v.json fw broken false :: jsonList fw broken vs
  def jsonKvs (fw : Fw) (broken : Bool) : List (V × V) → List String
    | [] => []
    | (k, v) :: kvs => (jsonKey k ++ ":" ++ v.json fw broken false) :: jsonKvs fw broken kvs
  def jsonFields (fw : Fw) (broken : Bool) : List (String × V) → List String
    | [] => []
    | (f, v) :: fs => (jsonStr f ++ ":" ++ v.json fw broken false) :: jsonFields fw broken fs
end

/-- What a serializer of framework `fw` produces for the original value. -/
def V.directJson (fw : Fw) (v : V) : String := v.json fw false true

mutual
  /-- Is there a non-empty sequence strictly below the root? (the region of the sval→serde bridge defect) -/
  def V.hasSeqBelow (root : Bool) : V → Bool
    | .seq vs => (!root && !vs.isEmpty) || anySeqBelow vs
    | .optSome v => v.hasSeqBelow false
    | .map kvs => anySeqBelowKvs kvs
    | .tuple vs => anySeqBelow vs
    | .record _ fs => anySeqBelowFields fs
    | .tstruct _ vs => anySeqBelow vs
    | .nvar _ v => v.hasSeqBelow false
    | .tvar _ vs => anySeqBelow vs
    | .svar _ fs => anySeqBelowFields fs
    | _ => false
  def anySeqBelow : List V → Bool
    | [] => false
    | v :: vs => v.hasSeqBelow false || anySeqBelow vs
  def anySeqBelowKvs : List (V × V) → Bool
    | [] => false
    | (_, v) :: kvs => v.hasSeqBelow false || anySeqBelowKvs kvs
  def anySeqBelowFields : List (String × V) → Bool
    | [] => false
    | (_, v) :: fs => v.hasSeqBelow false || anySeqBelowFields fs
end

def V.nestedSeq (v : V) : Bool := v.hasSeqBelow true

/-- plain primitives and strings (for these the typed pulls are part of the output under every capture mode) -/
def V.isLeaf : V → Bool
  | .bool _ | .int _ _ | .f32 _ _ | .f64 _ | .char _ _ | .str _ _ _ => true
  | _ => false

/-! ## Captured values: the image of `value_bag::Internal` (vb:internal/mod.rs:30-107) -/

/-- What `Value::downcast_ref` can still recover (only captures through an `Any`-bounded hook keep it). -/
inductive Tid where
  | no
  | level
  | trace (n : Nat)
  | span (n : Nat)
  deriving DecidableEq, Repr, Inhabited

inductive Cap where
  | signed (i : Int)            -- `Internal::Signed(i64)`
  | unsigned (n : Nat)          -- `Internal::Unsigned(u64)`
  | bigSigned (i : Int)         -- `Internal::BigSigned(i128)`
  | bigUnsigned (n : Nat)       -- `Internal::BigUnsigned(u128)`
  | float (x : F)               -- `Internal::Float(f64)`
  | bool (b : Bool)
  | char (c : Char) (dbg : String)
  | str (s : String) (dbg : String)
  | empty                       -- `Internal::None`
  | display (text : String) (tid : Tid)   -- `Display` / `AnonDisplay` / buffered display: formats as `text`
  | debug (text : String) (tid : Tid)     -- `Debug` / `AnonDebug` / buffered debug
  | error (chain : List String)           -- `Error` / `AnonError` / buffered error (`OwnedError`)
  | sharedError (chain : List String)     -- `SharedError` / `SharedRefError`: an `Arc<OwnedError>`
  | sval (v : V) (buffered : Bool) (tid : Tid)
  | serde (v : V) (buffered : Bool) (tid : Tid)
  deriving Repr, Inhabited

def V.tid : V → Tid
  | .level _ => .level
  | .traceId n => .trace n
  | .spanId n => .span n
  | _ => .no

/-- `ValueBag::from(primitive)` (vb:impls.rs:57-71, 73-160; `f32` is widened with `as`, vb:lib.rs `from_f32`). -/
def primLeaf? : V → Option Cap
  | .bool b => some (.bool b)
  | .int t i =>
    some (match t with
      | .i128 => .bigSigned i
      | .u128 => .bigUnsigned i.toNat
      | t => if t.signed then .signed i else .unsigned i.toNat)
  | .f32 _ wide => some (.float wide)
  | .f64 x => some (.float x)
  | .char c d => some (.char c d)
  | .str _ s d => some (.str s d)
  | _ => none

/-- `ValueBag::try_capture` (vb:internal/cast/primitive.rs:55-95): the `TypeId` table holds `str`, the integer and
    float types, `char`, `bool`, `&'static str`, `String` — and `Option` of each (`None ↦ empty`). -/
def tryCapture : V → Option Cap
  | .optNone true => some .empty
  | .optSome v => primLeaf? v
  | v => primLeaf? v

/-- `ToValue` impls (core/src/value.rs:317-430, 571-617; src/level.rs:198, src/span.rs:70,238): integers, `f64`,
    `bool`, `str`/`String`, `Option<T: ToValue>`, and emit's `Level`/`TraceId`/`SpanId` (`capture_display`).
    Not `f32`, not `char`. -/
def toValue? : V → Option Cap
  | .f32 _ _ => none
  | .char _ _ => none
  | .optNone _ => some .empty
  | .optSome v => toValue? v
  | .level t => some (.display t .level)
  | .traceId n => some (.display (traceIdText n) (.trace n))
  | .spanId n => some (.display (spanIdText n) (.span n))
  | v => primLeaf? v

/-! ## Hook selection -/

inductive Attr where
  | display (inspect : Bool)
  | debug (inspect : Bool)
  | sval (inspect : Bool)
  | serde (inspect : Bool)
  | value (inspect : Bool)
  | error
  deriving DecidableEq, Repr

inductive Hook where
  | default
  | display (inspect : Bool)
  | debug (inspect : Bool)
  | sval (inspect : Bool)
  | serde (inspect : Bool)
  | value (inspect : Bool)
  | error
  | level
  | spanId
  | traceId
  deriving DecidableEq, Repr

/-- macros/src/capture.rs:72-95: the well-known keys choose their own hooks. -/
def defaultHook (key : String) : Hook :=
  if key == "lvl" then .level
  else if key == "err" then .error
  else if key == "span_id" then .spanId
  else if key == "span_parent" then .spanId
  else if key == "trace_id" then .traceId
  else .default

/-- A capture attribute renames whatever `__private_capture_*` call the key selected
    (macros/src/capture.rs:104-130, macros/src/lib.rs `capture_as`; `as_error` ignores `inspect`). -/
def hookFor (key : String) : Option Attr → Hook
  | none => defaultHook key
  | some (.display i) => .display i
  | some (.debug i) => .debug i
  | some (.sval i) => .sval i
  | some (.serde i) => .serde i
  | some (.value i) => .value i
  | some .error => .error

def Hook.structured : Hook → Bool
  | .sval _ | .serde _ => true
  | _ => false

mutual
  /-- Does the Rust type implement `serde::Serialize` (`sval = false`) / `sval::Value` (`sval = true`)? Primitives,
      std containers and the derived types do when their parts do; the error type, the Display/Debug-only types and
      `emit::Level` do not; `isize`/`usize` have no sval impl (sval 2.22). -/
  def V.serializable (sval : Bool) : V → Bool
    | .err _ _ | .fmtOnly _ _ | .level _ => false
    | .int t _ => !(sval && (t == .isize || t == .usize))
    | .optSome v => v.serializable sval
    | .nvar _ v => v.serializable sval
    | .seq vs | .tuple vs | .tstruct _ vs | .tvar _ vs => allSerializable sval vs
    | .map kvs => allSerializableKvs sval kvs
    | .record _ fs | .svar _ fs => allSerializableFields sval fs
    | _ => true
  def allSerializable (sval : Bool) : List V → Bool
    | [] => true
    | v :: vs => v.serializable sval && allSerializable sval vs
  def allSerializableKvs (sval : Bool) : List (V × V) → Bool
    | [] => true
    | (k, v) :: kvs => k.serializable sval && v.serializable sval && allSerializableKvs sval kvs
  def allSerializableFields (sval : Bool) : List (String × V) → Bool
    | [] => true
    | (_, v) :: fs => v.serializable sval && allSerializableFields sval fs
end

def V.hasSerde (v : V) : Bool := v.serializable false
def V.hasSval (v : V) : Bool := v.serializable true

/-- One capture trait applied to one value: `none` = the call site does not type-check;
    `some none` = the hook returned `None` (no property); `some (some c)` = captured. Follows
    src/macro_hooks.rs:35-424 impl by impl. Every trait has `impl … for str { self.to_value() }`. -/
def captureWith : Hook → V → Option (Option Cap)
  -- CaptureWithDefault (:38-55) and CaptureAsDisplay (:60-83): `T: Display + Any ↦ Value::capture_display`
  | .default, v | .display true, v =>
    match v with
    | .str false s d => some (some (.str s d))
    | v => (v.display?).map fun t => some ((tryCapture v).getD (.display t v.tid))
  -- CaptureAsAnonDisplay (:88-105): `T: Display ↦ Value::from_display` (no primitive detection)
  | .display false, v =>
    match v with
    | .str false s d => some (some (.str s d))
    | v => (v.display?).map fun t => some (.display t .no)
  -- CaptureAsDebug (:110-133): `T: Debug + Any ↦ Value::capture_debug`
  | .debug true, v =>
    match v with
    | .str false s d => some (some (.str s d))
    | v => (v.debug?).map fun t => some ((tryCapture v).getD (.debug t v.tid))
  -- CaptureAsAnonDebug (:138-155)
  | .debug false, v =>
    match v with
    | .str false s d => some (some (.str s d))
    | v => (v.debug?).map fun t => some (.debug t .no)
  -- CaptureAsValue / CaptureAsAnonValue (:160-199): `self.to_value()` either way
  | .value _, v => (toValue? v).map some
  -- CaptureAsSval (:204-222) `Value::capture_sval`, CaptureAsAnonSval (:227-245) `Value::from_sval`
  | .sval true, v =>
    match v with
    | .str false s d => some (some (.str s d))
    | v => if v.hasSval then some (some ((tryCapture v).getD (.sval v false v.tid))) else none
  | .sval false, v =>
    match v with
    | .str false s d => some (some (.str s d))
    | v => if v.hasSval then some (some (.sval v false .no)) else none
  -- CaptureAsSerde (:250-268), CaptureAsAnonSerde (:273-291)
  | .serde true, v =>
    match v with
    | .str false s d => some (some (.str s d))
    | v => if v.hasSerde then some (some ((tryCapture v).getD (.serde v false v.tid))) else none
  | .serde false, v =>
    match v with
    | .str false s d => some (some (.str s d))
    | v => if v.hasSerde then some (some (.serde v false .no)) else none
  -- CaptureAsError (:296-321): `T: Error + 'static ↦ Value::capture_error`, `str`
  | .error, v =>
    match v with
    | .str false s d => some (some (.str s d))
    | .err chain _ => some (some (.error chain))
    | _ => none
  -- CaptureLevel (:398-424): `Level`, `str`, `Option<T>` (None ↦ no property), `&T`
  | .level, v =>
    match v with
    | .str false s d => some (some (.str s d))
    | .level t => some (some (.display t .level))
    | .optNone _ => some none
    | .optSome (.level t) => some (some (.display t .level))
    | _ => none
  -- CaptureSpanId (:326-358): `SpanId`, `str`, `u64`, `Option<T>`, `&T`
  | .spanId, v =>
    match v with
    | .str false s d => some (some (.str s d))
    | .spanId n => some (some (.display (spanIdText n) (.span n)))
    | .int .u64 i => some (some (.unsigned i.toNat))
    | .optNone _ => some none
    | .optSome (.spanId n) => some (some (.display (spanIdText n) (.span n)))
    | .optSome (.int .u64 i) => some (some (.unsigned i.toNat))
    | _ => none
  -- CaptureTraceId (:363-395): `TraceId`, `str`, `u128`, `Option<T>`, `&T`
  | .traceId, v =>
    match v with
    | .str false s d => some (some (.str s d))
    | .traceId n => some (some (.display (traceIdText n) (.trace n)))
    | .int .u128 i => some (some (.bigUnsigned i.toNat))
    | .optNone _ => some none
    | .optSome (.traceId n) => some (some (.display (traceIdText n) (.trace n)))
    | .optSome (.int .u128 i) => some (some (.bigUnsigned i.toNat))
    | _ => none

/-- How the value expression reaches the hook: as it is, or through `#[emit::optional]` as `Some(&v)` / `None`
    (`__private_optional_map_option_ref`, src/macro_hooks.rs:491-502: `into_option().and_then(map)`). -/
inductive OptForm where
  | plain | some | none
  deriving DecidableEq, Repr

/-- The slot `(key, Option<Value>)` a macro call site produces for one key-value.
    Outer `none`: does not type-check. -/
def captureSite (key : String) (attr : Option Attr) (form : OptForm) (v : V) : Option (Option Cap) :=
  match form with
  | .none => (captureWith (hookFor key attr) v).map fun _ => none
  | _ => captureWith (hookFor key attr) v

/-- `__PrivateMacroProps` (src/macro_hooks.rs:1021-1057): an array of `(key, Option<Value>)` slots; `for_each`
    skips the `None` slots and `get` answers `None` for them. (Key lookup itself is C02's subject; here a list.) -/
abbrev Slots := List (String × Option Cap)

def Slots.forEach (ps : Slots) : List (String × Cap) :=
  ps.filterMap fun (k, s) => s.map fun c => (k, c)

def Slots.get (ps : Slots) (key : String) : Option Cap :=
  match ps.find? (fun (k, _) => k == key) with
  | some (_, s) => s
  | none => none

/-! ## The value_bag table: what a captured value answers -/

/-- vb:internal/cast/mod.rs:341-353 -/
inductive Cast where
  | signed (i : Int)
  | unsigned (n : Nat)
  | bigSigned (i : Int)
  | bigUnsigned (n : Nat)
  | float (x : F)
  | bool (b : Bool)
  | char (c : Char)
  | str (s : String) (borrowed : Bool)
  | nothing
  deriving Repr, Inhabited

/-- What a serde / sval captured PRIMITIVE surfaces to value_bag's cast visitor
    (serde: vb:internal/serde/v1.rs:344-424 — `char` stays a char, strings are short-lived;
     sval: vb:internal/sval/v2.rs — `char` is streamed as text, borrowed text stays borrowed until buffered). -/
def leafCast (fw : Fw) (buffered : Bool) : V → Cast
  | .bool b => .bool b
  | .int t i =>
    match t with
    | .i128 => .bigSigned i
    | .u128 => .bigUnsigned i.toNat
    | t => if t.signed then .signed i else .unsigned i.toNat
  | .f32 _ wide => .float wide
  | .f64 x => .float x
  | .char c _ => if fw == .serde then .char c else .str (String.singleton c) false
  | .str _ s _ => .str s (fw == .sval && !buffered)
  | _ => .nothing

/-- vb:internal/cast/mod.rs:186-338 (`Internal::cast`): primitives directly, Display/Debug/Error answer nothing. -/
def Cap.cast : Cap → Cast
  | .signed i => .signed i
  | .unsigned n => .unsigned n
  | .bigSigned i => .bigSigned i
  | .bigUnsigned n => .bigUnsigned n
  | .float x => .float x
  | .bool b => .bool b
  | .char c _ => .char c
  | .str s _ => .str s true
  | .empty => .nothing
  | .display _ _ | .debug _ _ | .error _ | .sharedError _ => .nothing
  | .sval v b _ => leafCast .sval b v
  | .serde v b _ => leafCast .serde b v

/-- the integer a cast holds, if it holds one -/
def Cast.int? : Cast → Option Int
  | .signed i | .bigSigned i => some i
  | .unsigned n | .bigUnsigned n => some (n : Int)
  | _ => none

/-- the `to_*` conversion `pull::<T>` goes through (vb:impls.rs:57-71: `to_i64` / `to_u64` for the types up to
    64 bits, vb:impls.rs:119-159: `to_i128` / `to_u128`) -/
def IntTy.carrier : IntTy → IntTy
  | .i128 => .i128
  | .u128 => .u128
  | t => if t.signed then .i64 else .u64

/-- `pull::<T>` for an integer type `T` (core/src/value.rs:359-363 `value.0.try_into()`): `to_i64`, `to_u64`,
    `to_i128`, `to_u128` are `try_into` between the four integer carriers (vb:internal/cast/mod.rs:367-412) — i.e.
    the integer when it is in the carrier's range — followed by `try_into::<T>` (vb:impls.rs:29-39). -/
def Cast.toInt (t : IntTy) (c : Cast) : Option Int :=
  (c.int?.filter t.carrier.inRange).filter t.inRange

/-- binary64 pattern of an integer of magnitude < 2^53 (exact conversion). -/
def f64BitsOfNat (n : Nat) : Nat :=
  if n = 0 then 0 else
    let e := Nat.log2 n
    (1023 + e) * 2 ^ 52 + (n - 2 ^ e) * 2 ^ (52 - e)

def f64BitsOfInt (i : Int) : Nat :=
  if i < 0 then 2 ^ 63 + f64BitsOfNat i.natAbs else f64BitsOfNat i.toNat

/-- `to_f64` (vb:internal/cast/mod.rs:414-432): floats, and integers that fit `u32` / `i32` (lossless `TryInto`). -/
def Cast.toF64 : Cast → Option Nat
  | .float x => some x.bits
  | .unsigned n | .bigUnsigned n => if IntTy.u32.inRange n then some (f64BitsOfNat n) else none
  | .signed i | .bigSigned i => if IntTy.i32.inRange i then some (f64BitsOfInt i) else none
  | _ => none

def Cast.toBool : Cast → Option Bool
  | .bool b => some b
  | _ => none

/-- `to_str` (`pull::<String>`, `Cow<str>`) and `to_borrowed_str` (`pull::<&str>`) -/
def Cast.toStr : Cast → Option String
  | .str s _ => some s
  | _ => none
def Cast.toBorrowedStr : Cast → Option String
  | .str s true => some s
  | _ => none

/-- `Display for Value` (core/src/value.rs:241-267: an error shows `{err} ({root cause})`), then
    `Display for ValueBag` (vb:internal/fmt.rs:274-391). `none` where the text is produced by serde_fmt / sval_fmt
    (not constrained by the property, not modelled). -/
def Cap.toDisplay : Cap → Option String
  | .signed i | .bigSigned i => some (toString i)
  | .unsigned n | .bigUnsigned n => some (toString n)
  | .float x => some x.disp
  | .bool b => some (if b then "true" else "false")
  | .char c _ => some (String.singleton c)
  | .str s _ => some s
  | .empty => some "None"
  | .display t _ => some t
  | .debug t _ => some t
  | .error chain =>
    match chain with
    | [] => some ""
    | [e] => some e
    | e :: rest => some (e ++ " (" ++ rest.getLast?.getD "" ++ ")")
  -- `to_borrowed_error` is `None` for a shared error, so only the error's own Display is shown
  | .sharedError chain => some (chain.head?.getD "")
  | .sval _ _ _ | .serde _ _ _ => none

/-- `Debug for ValueBag` (vb:internal/fmt.rs:147-272): primitives with `Debug`, a display capture shows its
    Display text, a debug capture its Debug text. Errors (Debug of the error value; `OwnedError {…}` once buffered)
    and sval/serde captures are not modelled. -/
def Cap.toDebug : Cap → Option String
  | .signed i | .bigSigned i => some (toString i)
  | .unsigned n | .bigUnsigned n => some (toString n)
  | .float x => some x.dbg
  | .bool b => some (if b then "true" else "false")
  | .char _ d => some d
  | .str _ d => some d
  | .empty => some "None"
  | .display t _ => some t
  | .debug t _ => some t
  | .error _ | .sharedError _ => none
  | .sval _ _ _ | .serde _ _ _ => none

/-- `serde_json::to_string(&value)` (vb:internal/serde/v1.rs:122-277): primitives as themselves, display / debug /
    error captures as the string of their text (`collect_str`), serde captures through erased-serde, sval captures
    through the sval→serde bridge `sval_serde` — which in sval_nested/sval_buffer 2.22 announces every buffered
    (= non-root) sequence with length 0 (finding `sval-nested-seq-via-serde`). -/
def Cap.serdeJson : Cap → String
  | .signed i | .bigSigned i => toString i
  | .unsigned n | .bigUnsigned n => toString n
  | .float x => x.sj
  | .bool b => if b then "true" else "false"
  | .char c _ => jsonStr (String.singleton c)
  | .str s _ => jsonStr s
  | .empty => "null"
  | .display t _ => jsonStr t
  | .debug t _ => jsonStr t
  | .error chain | .sharedError chain => jsonStr (chain.head?.getD "")
  | .serde v _ _ => v.json .serde false true
  | .sval v _ _ => v.json .serde true true

/-- `sval_json::stream_to_string(&value)` (vb:internal/sval/v2.rs): the mirror image; a serde capture is streamed
    through the serde→sval bridge. -/
def Cap.svalJson : Cap → String
  | .signed i | .bigSigned i => toString i
  | .unsigned n | .bigUnsigned n => toString n
  | .float x => x.vj
  | .bool b => if b then "true" else "false"
  | .char c _ => jsonStr (String.singleton c)
  | .str s _ => jsonStr s
  | .empty => "null"
  | .display t _ => jsonStr t
  | .debug t _ => jsonStr t
  | .error chain | .sharedError chain => jsonStr (chain.head?.getD "")
  | .serde v _ _ => v.json .sval false true
  | .sval v _ _ => v.json .sval false true

/-- `to_borrowed_error` (core/src/value.rs:215 → vb:internal/error.rs:29-36) and its `source()` chain, each shown
    with Display. value_bag looks at `Internal::Error` and `AnonError` only: an error behind an `Arc` (after
    `to_shared`) is no longer reachable as an error. -/
def Cap.chain : Cap → Option (List String)
  | .error chain => some chain
  | _ => none

/-- `downcast_ref` (vb:internal/cast/mod.rs:139-183): only `Any`-bounded captures. -/
def Cap.tid : Cap → Tid
  | .display _ t | .debug _ t | .sval _ _ t | .serde _ _ t => t
  | _ => .no

def Cap.isNull : Cap → Bool
  | .empty => true
  | _ => false

/-! ## Buffering and read paths -/

/-- `Value::to_owned` then `OwnedValue::by_ref` (core/src/value.rs:500-527; vb:internal/owned.rs:148-340, :53-103):
    64-bit integers are widened to the 128-bit carriers, Display/Debug are formatted into a buffer (their type is
    gone), errors keep their chain of messages, sval/serde values are buffered by sval_buffer / serde_buf. -/
def toOwned : Cap → Cap
  | .signed i => .bigSigned i
  | .unsigned n => .bigUnsigned n
  | .display t _ => .display t .no
  | .debug t _ => .debug t .no
  | .sval v _ _ => .sval v true .no
  | .serde v _ _ => .serde v true .no
  | c => c

/-- `Value::to_shared` = `to_owned().into_shared()` (vb:owned.rs; vb:internal/owned.rs:105-145): the buffers move
    into `Arc`s. Nothing observable changes — except for errors (see `Cap.chain`). -/
def toShared (c : Cap) : Cap :=
  match toOwned c with
  | .error chain => .sharedError chain
  | c => c

/-- `ThreadLocalValue::from_value` then `to_value` (src/platform/thread_local_ctxt.rs:70-95): trace and span ids
    are kept typed (and re-captured with `capture_display`), everything else is `to_shared`. -/
def ctxtStore (c : Cap) : Cap :=
  match c.tid with
  | .trace n => .display (traceIdText n) (.trace n)
  | .span n => .display (spanIdText n) (.span n)
  | _ => toShared c

inductive Path where
  | direct       -- `Props::get` / `pull` on the macro's props
  | erased       -- through `&dyn ErasedProps`
  | event        -- through `Event::erase()`
  | owned        -- `Value::to_owned()`
  | shared       -- `Value::to_shared()`
  | ownedThread  -- an `OwnedValue` moved to another thread
  | ctxtPush     -- pushed into a `ThreadLocalCtxt` frame, read back through `with_current`
  | ctxtRoot     -- `open_root`
  | ctxtNested   -- a further frame pushed on top (the map is cloned)
  | ctxtThread   -- the frame moved to and entered on another thread
  | emit         -- captured by `emit::emit!` itself, observed by the runtime's emitter through the erased event
  | emitCtxt     -- pushed with `Frame::push` into the runtime's ambient context, observed by the emitter of a later `emit!`
  deriving DecidableEq, Repr

/-- A path on which nothing is put behind an `Arc` (`to_shared`): read in place, erased, as the event a sink
    receives, or copied into an owned value (also on another thread). -/
def Path.unshared : Path → Bool
  | .direct | .erased | .event | .emit | .owned | .ownedThread => true
  | _ => false

/-- `by_ref` keeps the variant (vb:internal/mod.rs:447-513), erased dispatch forwards `get`. -/
def readVia : Path → Cap → Cap
  | .direct, c | .erased, c | .event, c | .emit, c => c
  | .owned, c | .ownedThread, c => toOwned c
  | .shared, c => toShared c
  | .ctxtPush, c | .ctxtRoot, c | .ctxtNested, c | .ctxtThread, c | .emitCtxt, c => ctxtStore c

/-! ## Observations -/

inductive ObsKind where
  | pullBool | pullI64 | pullU64 | pullI128 | pullU128 | pullI32 | pullU8 | pullF64 | pullStr | pullBorrowedStr
  | isNull | display | debug | serdeJson | svalJson | chain | downcast
  deriving DecidableEq, Repr

inductive Res where
  | b (x : Option Bool)
  | i (x : Option Int)
  | n (x : Option Nat)
  | s (x : Option String)
  | t (x : String)
  | l (x : Option (List String))
  | flag (x : Bool)
  | tid (x : Tid)
  deriving DecidableEq, Repr

def observe : ObsKind → Cap → Res
  | .pullBool, c => .b c.cast.toBool
  | .pullI64, c => .i (c.cast.toInt .i64)
  | .pullU64, c => .i (c.cast.toInt .u64)
  | .pullI128, c => .i (c.cast.toInt .i128)
  | .pullU128, c => .i (c.cast.toInt .u128)
  | .pullI32, c => .i (c.cast.toInt .i32)
  | .pullU8, c => .i (c.cast.toInt .u8)
  | .pullF64, c => .n c.cast.toF64
  | .pullStr, c => .s c.cast.toStr
  | .pullBorrowedStr, c => .s c.cast.toBorrowedStr
  | .isNull, c => .flag c.isNull
  | .display, c => .s c.toDisplay
  | .debug, c => .s c.toDebug
  | .serdeJson, c => .t c.serdeJson
  | .svalJson, c => .t c.svalJson
  | .chain, c => .l c.chain
  | .downcast, c => .tid c.tid

end EmitModel.Capture
