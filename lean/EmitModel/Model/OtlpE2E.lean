/-
  Model/OtlpE2E.lean — the carry-through clauses of C07 and C09 for the OTLP emitter.
    * `OtlpInner::blocking_flush` (/repo/emitter/otlp/src/client.rs:689-711): the configured signals are flushed
      in the order logs, traces, metrics, each with what is left of the timeout; the first `false` is returned.
    * `Sender::send` on the OTLP channel, at the level of counts (`Channel::len` = `total_items`, reset by
      `Channel::clear`), /repo/batcher/src/lib.rs:181-198 + /repo/emitter/otlp/src/client.rs:750-800.
-/
import EmitModel.Model.Batcher

namespace EmitModel.OtlpE2E

/-- What the harness arranged for one signal before flushing. -/
inductive SigState where
  | absent      -- signal not configured
  | idle        -- configured, nothing ever emitted
  | done        -- an event was emitted, acknowledged and flushed
  | held        -- an event's request is parked at the collector (in flight)
  | dead        -- an event is waiting in the retry back-off of an unreachable endpoint
  deriving Repr, DecidableEq

def SigState.configured : SigState → Bool
  | .absent => false
  | _ => true

def SigState.busy : SigState → Bool
  | .held => true
  | .dead => true
  | _ => false

/-- `emit_batcher::blocking_flush` on one channel, with a timeout shorter than the busy work needs
    (C07 `blocking_true_only_if_fired`): true iff nothing is queued or in flight. -/
def channelFlush (s : SigState) : Bool := !s.busy

/-- `OtlpInner::blocking_flush`. -/
def otlpFlush (l t m : SigState) : Bool :=
  if l.configured && !channelFlush l then false
  else if t.configured && !channelFlush t then false
  else if m.configured && !channelFlush m then false
  else true

/-- (pending length, truncation counter) after one `Sender::send` on an open channel. -/
def sendCount (cap : Nat) (st : Nat × Nat) : Nat × Nat :=
  if st.1 ≥ cap then (1, st.2 + 1) else (st.1 + 1, st.2)

def sendN (cap : Nat) : Nat → Nat × Nat → Nat × Nat
  | 0, st => st
  | n + 1, st => sendN cap n (sendCount cap st)

/-! ### The time budget of `OtlpInner::blocking_flush` across signals

Each configured signal's channel is flushed with what is left of the one timeout (`timeout.saturating_sub(
start.elapsed())`), in the order logs, traces, metrics; the first `false` is returned at once. A signal is given
by the instant (from the start of the flush) at which its channel becomes flushed: `some t`, or `none` = never. -/

/-- (result, instant at which the flush returns), started with `e` already elapsed -/
def flushSeq (T : Nat) : List (Option Nat) → Nat → Bool × Nat
  | [], e => (true, e)
  | some t :: rest, e => if t ≤ T then flushSeq T rest (max e t) else (false, T)
  | none :: _, _ => (false, T)

end EmitModel.OtlpE2E
