/-
  Model/KindText.lean — C15. /repo/src/kind.rs:
    * `Display for Kind` :70-77 (`EVENT_KIND_SPAN = "span"`, `EVENT_KIND_METRIC = "metric"`, core/src/well_known.rs:56-58)
    * `FromStr for Kind` :97-113: `s.trim()`, then `eq_ignore_ascii_case` against the two names
    * `FromValue for Kind` :88-95: downcast, else `Value::parse` (a string value is parsed directly, anything else
      is formatted with `Display` and then parsed)
  `str::trim` is the same Unicode-whitespace trim the level parser uses (Model/Level.lean `trim`).
  `eq_ignore_ascii_case` compares bytes; on `List Char` that is: same number of chars and pairwise equal after
  ASCII lower-casing (a non-ASCII char never equals an ASCII letter, and its bytes never match ASCII bytes).
-/
import EmitModel.Model.Level

namespace EmitModel.KindText

inductive Kind where
  | span | metric
  deriving Repr, DecidableEq, Inhabited

def Kind.display : Kind → String
  | .span => "span"
  | .metric => "metric"

def asciiLower (c : Char) : Char := if 'A' ≤ c ∧ c ≤ 'Z' then Char.ofNat (c.toNat + 32) else c

/-- `a.eq_ignore_ascii_case(b)` -/
def eqIgnoreAsciiCase : List Char → List Char → Bool
  | [], [] => true
  | a :: as, b :: bs => asciiLower a == asciiLower b && eqIgnoreAsciiCase as bs
  | _, _ => false

def parseKindChars (s : List Char) : Option Kind :=
  let s := Level.trim s
  if eqIgnoreAsciiCase s "span".toList then some .span
  else if eqIgnoreAsciiCase s "metric".toList then some .metric
  else none

/-- `Kind::from_str` / `Kind::try_from_str` -/
def parseKind (s : String) : Option Kind := parseKindChars s.toList

/-- What can sit in a `Value` that is cast to a `Kind`. -/
inductive KindVal where
  | typed (k : Kind)
  | text (s : String)

def KindVal.cast : KindVal → Option Kind
  | .typed k => some k
  | .text s => parseKind s

end EmitModel.KindText
