/-
  Model/SpanGuard.lean — C05. Mirrors /repo/src/span.rs:
    * `SpanGuard { state, data, completion }`, `SpanGuardState = Initial(clock) | Started(timer) | Completed` (:854-879)
    * `Drop` = `complete_default` (:881-885)
    * `start`, `is_enabled`, `with_completion`, `with_mdl`, `with_name`, `with_props`, `map_props`,
      `complete`, `complete_default`, `complete_with` (:978-1097)
    * `Timer::start` / `Timer::extent` (/repo/src/timer.rs:24-55)
    * `completion::Default::complete` (:1156-1226): panic branch adds `lvl` (panic_lvl or Error) and `err`,
      otherwise `lvl` if configured; template override; emitted through `emit_core::emit` with an `Empty` clock.
  The clock is a script: every `Clock::now()` call pops one reading (none once exhausted).
-/
namespace EmitModel.SpanGuard

abbrev Ts := Nat
abbrev Str := String
abbrev Props := List (Str × Str)

inductive St where
  | initial
  | started (start : Option Ts)
  | completed
  deriving Repr, DecidableEq

structure Data where
  mdl : Str
  name : Str
  props : Props
  deriving Repr, DecidableEq

/-- `completion : Option F`; completions are identified by a number (the recording completion's id). -/
structure Guard where
  st : St
  data : Option Data
  completion : Option Nat
  deriving Repr, DecidableEq

/-- One invocation of `Completion::complete(span)`: which completion ran and the `Span` it received. -/
structure Call where
  by_ : Nat
  mdl : Str
  name : Str
  props : Props
  extent : Option (Ts × Ts)
  deriving Repr, DecidableEq

abbrev Clock := List (Option Ts)

/-- `Clock::now()` on the scripted clock. -/
def now : Clock → Option Ts × Clock
  | [] => (none, [])
  | r :: rest => (r, rest)

/-- `Timer::extent`: `(Some start, Some end) → Some(range start..end)`, else `None` (also when end < start). -/
def timerExtent (start : Option Ts) (end_ : Option Ts) : Option (Ts × Ts) :=
  match start, end_ with
  | some a, some b => some (a, b)
  | _, _ => none

/-- `SpanGuard::new` (the part relevant here): `completion = if is_enabled { Some(c) } else { None }`. -/
def new (enabled : Bool) (c : Nat) (d : Data) : Guard :=
  { st := .initial, data := some d, completion := if enabled then some c else none }

/-- The guard every consuming method leaves behind in `self` (all three fields taken); its `Drop` then runs. -/
def movedFrom : Guard := { st := .completed, data := none, completion := none }

/-- `complete_default` / `complete_with`: all three fields are TAKEN whatever they hold; the completion is
    called only for `(Started(timer), Some(data), Some(_))`. `who` selects the completion to call given the
    stored one. Returns (called?, new guard, calls, clock). The clock is read (by `Span::new(.., timer, ..)`
    → `Timer::to_extent`) only when the call happens. -/
def completeCore (g : Guard) (clk : Clock) (who : Nat → Nat) : Bool × Guard × List Call × Clock :=
  match g.st, g.data, g.completion with
  | .started start, some d, some c =>
    let (e, clk') := now clk
    (true, movedFrom, [{ by_ := who c, mdl := d.mdl, name := d.name, props := d.props, extent := timerExtent start e }], clk')
  | _, _, _ => (false, movedFrom, [], clk)

inductive Op where
  | start
  | withMdl (m : Str)
  | withName (n : Str)
  | withProps (ps : Props)
  | mapProps (extra : Props)            -- `map_props(|p| extra ++ p)`
  | withCompletion (c : Nat)
  | complete
  | completeWith (c : Nat)
  | drop
  deriving Repr, DecidableEq

/-- Result of one operation: the bool returned (`complete`/`complete_with`), the guard the program holds
    afterwards, completion calls made (including by the `Drop` of the moved-from `self`), the clock. -/
structure StepOut where
  ret : Option Bool
  guard : Guard
  calls : List Call
  clock : Clock
  deriving Repr

/-- Dropping a guard = `complete_default` on it. -/
def dropCalls (g : Guard) (clk : Clock) : List Call × Clock :=
  let (_, _, calls, clk') := completeCore g clk id
  (calls, clk')

def step (g : Guard) (clk : Clock) : Op → StepOut
  | .start =>
    -- Initial(clock) → Started(Timer::start(clock)); otherwise the state is put back
    match g.st with
    | .initial => let (r, clk') := now clk; ⟨none, { g with st := .started r }, [], clk'⟩
    | _ => ⟨none, g, [], clk⟩
  | .withMdl m => ⟨none, { g with data := g.data.map fun d => { d with mdl := m } }, [], clk⟩
  | .withName n => ⟨none, { g with data := g.data.map fun d => { d with name := n } }, [], clk⟩
  | .withProps ps =>
    -- map_props(|_| props): new guard from the taken fields; `self` (now moved-from) is dropped
    let g' : Guard := { st := g.st, data := g.data.map fun d => { d with props := ps }, completion := g.completion }
    let (calls, clk') := dropCalls movedFrom clk
    ⟨none, g', calls, clk'⟩
  | .mapProps extra =>
    let g' : Guard := { st := g.st, data := g.data.map fun d => { d with props := extra ++ d.props }, completion := g.completion }
    let (calls, clk') := dropCalls movedFrom clk
    ⟨none, g', calls, clk'⟩
  | .withCompletion c =>
    -- (fixed tree) `completion: self.completion.take().map(|_| completion)`: a disabled guard stays disabled
    let g' : Guard := { st := g.st, data := g.data, completion := g.completion.map fun _ => c }
    let (calls, clk') := dropCalls movedFrom clk
    ⟨none, g', calls, clk'⟩
  | .complete =>
    let (b, g', calls, clk') := completeCore g clk id
    let (calls2, clk'') := dropCalls g' clk'
    ⟨some b, g', calls ++ calls2, clk''⟩
  | .completeWith c =>
    let (b, g', calls, clk') := completeCore g clk (fun _ => c)
    let (calls2, clk'') := dropCalls g' clk'
    ⟨some b, g', calls ++ calls2, clk''⟩
  | .drop =>
    let (_, g', calls, clk') := completeCore g clk id
    ⟨none, g', calls, clk'⟩

/-- Run an operation list; returns all completion calls, the returned bools, the final guard and clock.
    After a consuming terminal operation Rust's types allow no further use of the guard; the model keeps
    going on the (inert) moved-from guard, which only makes the theorems stronger. -/
def run (g : Guard) (clk : Clock) : List Op → List Call × List Bool × Guard × Clock
  | [] => ([], [], g, clk)
  | op :: rest =>
    let o := step g clk op
    let (calls, rets, gf, cf) := run o.guard o.clock rest
    (o.calls ++ calls, (match o.ret with | some b => [b] | none => []) ++ rets, gf, cf)

/-! ### Completion adapters (src/span.rs `completion`, :1129-1136 and :1306-1400)

  A `SpanGuard` calls `Completion::complete(span)` on whatever it holds. The adapters the crate offers:
    * `&C`                              → `(**self).complete(span)`
    * `completion::from_fn(f)`          → `f(span.erase())`
    * `dyn ErasedCompletion`, `… + Send + Sync` → `dispatch_complete(span.erase())` → the erased value's `complete`
    * `completion::from_emitter(e)`     → `e.emit(span)`: the span AS AN EVENT (`Span::to_event`: module, template
                                          `{span_name} completed`, the span's extent, props = `evt_kind`, `span_name`,
                                          then the span's own) handed straight to the emitter — no filter, no ambient
                                          context, no clock
    * `Empty`                           → nothing at all
  A completion is named in the model by a number; `compCode` packs the recorder's id and the adapter it sits
  behind into that number, `deliver` says what reaches the recorder for one `Completion::complete` call. -/

inductive Adapter where
  | direct | ref | fromFn | fromEmitter | erased | erasedSendSync | empty
  deriving Repr, DecidableEq

def Adapter.code : Adapter → Nat
  | .direct => 0 | .ref => 1 | .fromFn => 2 | .fromEmitter => 3 | .erased => 4 | .erasedSendSync => 5 | .empty => 6

def Adapter.ofCode (n : Nat) : Adapter :=
  match n % 8 with
  | 1 => .ref | 2 => .fromFn | 3 => .fromEmitter | 4 => .erased | 5 => .erasedSendSync | 6 => .empty | _ => .direct

/-- recorder `n` behind adapter `a` -/
def compCode (n : Nat) (a : Adapter) : Nat := n * 8 + a.code
def compId (c : Nat) : Nat := c / 8
def compAdapter (c : Nat) : Adapter := Adapter.ofCode c

/-- The extent of an emitted event. -/
inductive Ext where
  | range (a b : Ts)
  | point (t : Ts)
  deriving Repr, DecidableEq

def rangeExt : Option (Ts × Ts) → Option Ext
  | some (a, b) => some (.range a b)
  | none => none

structure Emitted where
  mdl : Str
  tpl : Str
  extent : Option Ext
  props : Props             -- as enumerated: completion props, then the span's own, then ambient
  deriving Repr, DecidableEq

/-- What reaches the recorder: the span itself, or (behind `from_emitter`) the span as an event. -/
inductive Delivered where
  | span (to : Nat) (c : Call)
  | event (to : Nat) (e : Emitted)
  deriving Repr, DecidableEq

/-- `Span::to_event` (:683-700) -/
def spanEvent (c : Call) : Emitted :=
  { mdl := c.mdl, tpl := "{span_name} completed", extent := rangeExt c.extent
    props := [("evt_kind", "span"), ("span_name", c.name)] ++ c.props }

def deliver (c : Call) : List Delivered :=
  match compAdapter c.by_ with
  | .empty => []
  | .fromEmitter => [.event (compId c.by_) (spanEvent c)]
  | _ => [.span (compId c.by_) { c with by_ := compId c.by_ }]

/-! ### How the guard holds its clock (core/src/clock.rs:21-115, core/src/runtime.rs:452-456)

  `&T`, `Option<T>`, `Box<T>`, `Arc<T>`, `AssertInternal<T>`, `dyn ErasedClock (+ Send + Sync)` forward `now()` to
  the clock they hold — one call per call; `Option::None` is the `Empty` clock: it never reads anything. -/

inductive ClockHolder where
  | direct | ref | some_ | none_ | box | arc | assertInternal | erased | erasedSendSync
  deriving Repr, DecidableEq

/-- the script the guard effectively runs against -/
def ClockHolder.script (h : ClockHolder) (clk : Clock) : Clock :=
  match h with
  | .none_ => []
  | _ => clk

/-- The variant of `with_completion` on the UNFIXED tree (`completion: Some(completion)`), kept to state the
    defect as a theorem. -/
def stepUnfixedWithCompletion (g : Guard) (c : Nat) : Guard :=
  { st := g.st, data := g.data, completion := some c }

/-! ### The default completion (`completion::Default`) -/

structure DefaultCfg where
  tpl : Option Str          -- with_tpl
  lvl : Option Str          -- with_lvl (Display text of the level value)
  panicLvl : Option Str     -- with_panic_lvl
  deriving Repr

/-- `Default::complete`: completion props ++ (evt_kind, span_name, span props) ++ ambient; the extent is the
    span's (the emit call gets an `Empty` clock, so no fallback reading). -/
def defaultComplete (cfg : DefaultCfg) (panicking : Bool) (ambient : Props) (c : Call) : Emitted :=
  let completionProps : Props :=
    if panicking then [("lvl", cfg.panicLvl.getD "error"), ("err", "panicked")]
    else match cfg.lvl with
      | some l => [("lvl", l)]
      | none => []
  { mdl := c.mdl
    tpl := cfg.tpl.getD "{span_name} completed"
    extent := rangeExt c.extent
    props := completionProps ++ [("evt_kind", "span"), ("span_name", c.name)] ++ c.props ++ ambient }


/-! ### The macro forms (`#[emit::span]`, `#[emit::info_span]`…, `emit::new_span!`)

  /repo/macros/src/span.rs:222-290 (inject_sync / inject_async), :395-510 (result_completion / completion) and
  /repo/src/macro_hooks.rs:819-1018. The expansion is: `begin_span` (= `SpanGuard::new` with the default
  completion `__private_complete_span(rt, tpl, lvl, panic_lvl)`), then inside the frame `start()`, the body, and
    * without `ok_lvl`/`err_lvl`/`err`: the guard is dropped when the body ends (normally or by unwinding);
    * with any of them: the body runs in a closure and its `Result` is matched:
        Ok  → `guard.complete_with(__private_complete_span_ok(rt, tpl, ok_lvl.or(default_lvl)))`
        Err → `guard.complete_with(__private_complete_span_err(rt, tpl, err_lvl.or(default_lvl).unwrap_or("error"), err_mapper(&e)))`
      and a panic still unwinds through the guard's `Drop`.
  With `guard: g` the user receives the guard; the fixtures complete it manually or let it drop.
-/

structure MacroCfg where
  lvlDefault : Option Str     -- `#[emit::info_span]` etc. (none for plain `#[emit::span]`)
  okLvl : Option Str
  errLvl : Option Str
  errMapped : Bool            -- `err: <mapper>` given
  hasErrArg : Bool            -- whether `err` was given at all (selects the Result-aware expansion)
  panicLvl : Option Str
  manual : Bool               -- `guard: g` and the body calls `g.complete()` itself
  deriving Repr, DecidableEq

inductive Exit where
  | ok        -- normal return (fall-through or early `return`) with `Ok` / a non-Result value
  | err       -- the body evaluates to `Err(e)` (directly or through `?`)
  | panic     -- the body panics
  deriving Repr, DecidableEq

def MacroCfg.useResult (c : MacroCfg) : Bool := c.okLvl.isSome || c.errLvl.isSome || c.hasErrArg

/-- completion ids used by the macro model -/
def compDefault : Nat := 0
def compOk : Nat := 1
def compErr : Nat := 2

/-- The guard operations the expansion performs for a body that exits by `exit`. -/
def macroProgram (c : MacroCfg) (exit : Exit) : List Op :=
  match exit with
  | .panic => [.start, .drop]
  | .ok => if c.useResult then [.start, .completeWith compOk] else if c.manual then [.start, .complete] else [.start, .drop]
  | .err => if c.useResult then [.start, .completeWith compErr] else [.start, .drop]

/-- The event a completion call turns into. `errText` is the Display of the error (after the mapper). -/
def macroEvent (c : MacroCfg) (exit : Exit) (tpl : Str) (errText : Str) (ambient : Props) (fallback : Option Ts)
    (call : Call) : Emitted :=
  -- the Ok/Err completions hand `rt.clock()` to `emit_core::emit`, which reads it (a point extent) only when
  -- the span has no extent of its own; the default completion hands it an `Empty` clock
  let ext : Option Ext := (rangeExt call.extent).or (fallback.map .point)
  if call.by_ = compOk then
    { mdl := call.mdl, tpl := tpl, extent := ext
      props := (match c.okLvl.or c.lvlDefault with | some l => [("lvl", l)] | none => []) ++
        [("evt_kind", "span"), ("span_name", call.name)] ++ call.props ++ ambient }
  else if call.by_ = compErr then
    { mdl := call.mdl, tpl := tpl, extent := ext
      props := [("lvl", ((c.errLvl.or c.lvlDefault).getD "error")), ("err", errText)] ++
        [("evt_kind", "span"), ("span_name", call.name)] ++ call.props ++ ambient }
  else
    defaultComplete ⟨some tpl, c.lvlDefault, c.panicLvl⟩ (exit == .panic) ambient call

/-- Everything a macro-instrumented function emits for its own span. -/
def macroRun (c : MacroCfg) (enabled : Bool) (exit : Exit) (clk : Clock) (mdl name tpl errText : Str)
    (ambient : Props) : List Emitted :=
  let r := run (new enabled compDefault ⟨mdl, name, []⟩) clk (macroProgram c exit)
  r.1.map (macroEvent c exit tpl errText ambient (now r.2.2.2).1)

end EmitModel.SpanGuard
