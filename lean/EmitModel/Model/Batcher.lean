/-
  Model/Batcher.lean — executable model of `emit_batcher` (batcher/src/lib.rs, sync.rs, tokio.rs) as a labelled
  transition system in the `Base/Sched` framework. Shared by C06, C07, C08, C09.

  SHARED STATE = exactly the fields behind `Mutex<State<T>>` (lib.rs:681-690, 707-710):
      pending      State.next_batch.channel         (items accepted, not yet taken)
      pendFlushW   State.next_batch.watchers.on_flush
      pendTakeW    State.next_batch.watchers.on_take   (the `when_empty` callbacks)
      isOpen       State.is_open
      inBatch      State.is_in_batch
  RECEIVER-LOCAL STATE (the locals of `Receiver::exec`, lib.rs:348-472): the control point `rx` with the batch
  and watchers it owns, `retryCur` (Retry.current), `retryDelay` / `idleDelay` (Delay.current).
  ATOMIC STEPS (labels) = the critical sections of the code + the receiver's await points:
      send x, trySend x, whenFlushed w, whenEmpty w, dropSender              (sender side, each one lock section)
      rxTake          lock; swap out the pending batch or take its watchers; unlock          (lib.rs:363-394)
      rxFireTake      ONE `when_empty` callback of the taken batch runs (notify_on_take, lib.rs:397, 742-746)
      rxFireFlush     ONE flush callback runs: of an empty hand-off (lib.rs:460) or after the last attempt of a
                      batch (lib.rs:455). A callback is arbitrary code — it may itself perform sender operations —
                      so every invocation is its own control point: sender labels can be interleaved between two
                      callbacks, between the last callback and the call of on_batch, and between the last callback
                      of an empty hand-off and the exit check.
      rxBegin         once the callbacks have run: resets, re-allocation of the next buffer, the call of on_batch
                      (lib.rs:399-412) — or, for an empty hand-off, the exit check on the `is_open` value read
                      under the lock by rxTake, return / idle wait                            (lib.rs:464-469)
      rxOutcome o     the on_batch call / its future concludes with `o` (the processor is adversarial: any
                      outcome, any remainder): counters, retry decision and wait request, or the batch is
                      finalised and its flush callbacks are due                               (lib.rs:412-455)
      rxRetryWaited   the retry back-off wait completes, on_batch is called with the remainder (lib.rs:427-435)
      rxIdleWaited    the idle wait completes                                                (lib.rs:469)
      dropReceiver    the receiver (future) is torn down at an await point                   (lib.rs:330-338)
  `Capacity::next` (lib.rs:595-622) only sizes the replacement buffer (`with_capacity`); it has no effect on any
  observable and is part of `rxBegin`.

  GHOST HISTORY (written by steps, never read by the non-ghost part of a step):
      accepted / acceptedKept / truncations   everything pushed; minus each cleared segment; the cleared segments
      calls / firstAttempts / retryCalls / lastReturned / callsPerBatch
                                              every on_batch argument; the first attempts; (remainder returned, argument
                                              passed) per retry call; the last returned remainder; calls per batch
      fired / firedTake / registered / registeredTake / dropped
                                              flush resp. when_empty callbacks that ran / were registered (two name
                                              spaces); flush callbacks dropped unrun by a receiver teardown
      obligations / acceptedAt / finalised    per flush watcher: pending ++ in flight resp. everything accepted at its
                                              registration; items of batches whose last attempt has concluded
      waits / batchWaits                      every requested wait duration; the retry waits of the current batch
      tornDown / pendingAtTeardown            the receiver was torn down (not: returned); what was queued then

  Items and watcher ids are natural numbers chosen by the environment (the theorems hold for any choice; the
  correspondence harness uses unique ones).   Import-free.
-/
import EmitModel.Base.Sched

namespace EmitModel.Batcher

/-- Configuration: channel capacity (`Sender.max_capacity`), retry budget (`Retry.max`) and the two `Delay`s. -/
structure Cfg where
  cap : Nat
  retryMax : Nat
  retryStep : Nat
  retryCap : Nat
  idleStep : Nat
  idleCap : Nat
  deriving Repr

/-- The constants of `bounded` (lib.rs:148-156), durations in nanoseconds. -/
def Cfg.real (cap : Nat) : Cfg :=
  { cap := cap, retryMax := 10, retryStep := 700000000, retryCap := 10000000000,
    idleStep := 1000000, idleCap := 500000000 }

/-- `Delay::next` (lib.rs:589-592): `current = min(current * 2 + step, max)`. -/
def delayNext (cur step cap : Nat) : Nat := min (cur * 2 + step) cap

/-- What an `on_batch` invocation does (lib.rs:412-451). -/
inductive Outcome where
  | ok
  | failNoRetry
  | failRetry (rem : List Nat)
  | panicSync
  | panicAsync
  deriving Repr, DecidableEq

inductive Label where
  | send (x : Nat)
  | trySend (x : Nat)
  | whenFlushed (w : Nat)
  | whenEmpty (w : Nat)
  | rxTake
  | rxFireTake
  | rxFireFlush
  | rxBegin
  | rxOutcome (o : Outcome)
  | rxRetryWaited
  | rxIdleWaited
  | dropSender
  | dropReceiver
  deriving Repr, DecidableEq

/-- Control point of `Receiver::exec` together with the data it owns there. `orig` is the first-attempt batch
    (ghost: the items whose final attempt has not concluded), `cur`/`rem` the argument of the current / next call. -/
inductive Rx where
  | idle
  | taken (batch takeW flushW : List Nat) (wasOpen : Bool)   -- takeW / flushW: callbacks still to run / to carry
  | processing (orig cur ws : List Nat)
  | retryWait (orig rem ws : List Nat)
  | notifying (ws : List Nat)                               -- batch finalised; its flush callbacks still to run
  | idleWait
  | done
  deriving Repr, DecidableEq

/-- Items taken out of the channel whose final processing attempt has not concluded. -/
def Rx.inflight : Rx → List Nat
  | .taken b _ _ _ => b
  | .processing o _ _ => o
  | .retryWait o _ _ => o
  | _ => []

/-- Flush watchers travelling with the batch the receiver holds. -/
def Rx.ws : Rx → List Nat
  | .taken _ _ fw _ => fw
  | .processing _ _ ws => ws
  | .retryWait _ _ ws => ws
  | .notifying ws => ws
  | _ => []

/-- `when_empty` watchers the receiver holds (between the unlock and `notify_on_take`). -/
def Rx.takeWs : Rx → List Nat
  | .taken _ tw _ _ => tw
  | _ => []

/-- The batch swapped out but not yet handed to `on_batch`. -/
def Rx.takenBatch : Rx → List Nat
  | .taken b _ _ _ => b
  | _ => []

structure St where
  -- shared, behind the mutex
  pending : List Nat
  pendFlushW : List Nat
  pendTakeW : List Nat
  isOpen : Bool
  inBatch : Bool
  -- receiver-local
  rx : Rx
  retryCur : Nat
  retryDelay : Nat
  idleDelay : Nat
  -- the Sender handle exists
  senderAlive : Bool
  -- InternalMetrics (write-only counters, internal_metrics.rs:49-56)
  mTruncated : Nat
  mProcessed : Nat
  mFailed : Nat
  mPanicked : Nat
  mRetry : Nat
  -- ghost history
  accepted : List Nat
  acceptedKept : List Nat
  truncations : List (List Nat)
  calls : List (List Nat)
  firstAttempts : List (List Nat)
  retryCalls : List (List Nat × List Nat)
  lastReturned : List Nat
  callsPerBatch : List Nat
  fired : List Nat            -- flush callbacks that ran (ids of `whenFlushed`)
  firedTake : List Nat        -- `when_empty` callbacks that ran (ids of `whenEmpty`; a separate name space)
  registered : List Nat
  registeredTake : List Nat
  dropped : List Nat
  obligations : List (Nat × List Nat)   -- (w, pending ++ in flight) at the registration of flush watcher w
  acceptedAt : List (Nat × List Nat)    -- (w, everything accepted so far) at the registration of flush watcher w
  finalised : List Nat
  waits : List Nat
  batchWaits : List Nat
  tornDown : Bool
  pendingAtTeardown : List Nat
  deriving Repr

/-- `bounded(max_capacity)` (lib.rs:130-159). -/
def init : St :=
  { pending := [], pendFlushW := [], pendTakeW := [], isOpen := true, inBatch := false,
    rx := .idle, retryCur := 0, retryDelay := 0, idleDelay := 0, senderAlive := true,
    mTruncated := 0, mProcessed := 0, mFailed := 0, mPanicked := 0, mRetry := 0,
    accepted := [], acceptedKept := [], truncations := [], calls := [], firstAttempts := [],
    retryCalls := [], lastReturned := [], callsPerBatch := [], fired := [], firedTake := [], registered := [],
    registeredTake := [], dropped := [],
    obligations := [], acceptedAt := [], finalised := [], waits := [], batchWaits := [], tornDown := false,
    pendingAtTeardown := [] }

/-- Result of `try_send` (lib.rs:205-220): `Ok`, `Err(retry(.., msg))`, `Err(no_retry(..))`. -/
inductive TryRes where
  | ok
  | full (x : Nat)
  | closed
  deriving Repr, DecidableEq

/-- `l` without its last `n` elements (ghost bookkeeping of a truncation). -/
def dropTail (l : List Nat) (n : Nat) : List Nat := l.take (l.length - n)

/-- `channel.clear()` + `queue_full_truncated.increment()` (lib.rs:188-189). Ghost: the cleared segment is
    recorded and removed from `acceptedKept` (it is its tail, theorem `partition_fifo`). -/
def truncate (s : St) : St :=
  { s with pending := [], mTruncated := s.mTruncated + 1,
           truncations := s.truncations ++ [s.pending],
           acceptedKept := dropTail s.acceptedKept s.pending.length }

/-- `channel.push(msg)` (lib.rs:197, 214). Ghost: the item is accepted. -/
def push (s : St) (x : Nat) : St :=
  { s with pending := s.pending ++ [x], accepted := s.accepted ++ [x],
           acceptedKept := s.acceptedKept ++ [x] }

/-- `Sender::send` (lib.rs:181-198): clear when `len >= capacity` and count; return if closed; push. -/
def send (cfg : Cfg) (s : St) (x : Nat) : St :=
  let s1 := if s.pending.length ≥ cfg.cap then truncate s else s
  if !s1.isOpen then s1 else push s1 x

/-- `Sender::try_send` (lib.rs:205-220). -/
def trySend (cfg : Cfg) (s : St) (x : Nat) : St × TryRes :=
  if !s.isOpen then (s, .closed)
  else if s.pending.length < cfg.cap then (push s x, .ok)
  else (s, .full x)

/-- `ChannelMetrics::sample_metrics` (lib.rs:658-679): the queue length is read in its own scoped lock section
    (`{ lock().next_batch.channel.len() }`) — the guard is released BEFORE any `sampler.metric(..)` callback runs.
    Sampling is a pure read of the shared state; whatever the sampler's callback does (e.g. `send` on the very
    channel it samples) is an ordinary subsequent step. -/
def sampleQueueLength (s : St) : Nat := s.pending.length

/-- `Sender::when_empty` (lib.rs:263-277). -/
def whenEmpty (s : St) (w : Nat) : St :=
  let s := { s with registeredTake := s.registeredTake ++ [w] }
  if s.pending.isEmpty then { s with firedTake := s.firedTake ++ [w] }
  else { s with pendTakeW := s.pendTakeW ++ [w] }

/-- `Sender::when_flushed` (lib.rs:284-303). Ghost: the obligation of `w` is everything accepted and not yet
    through its final attempt at this instant. -/
def whenFlushed (s : St) (w : Nat) : St :=
  let s := { s with registered := s.registered ++ [w],
                    obligations := s.obligations ++ [(w, s.pending ++ s.rx.inflight)],
                    acceptedAt := s.acceptedAt ++ [(w, s.accepted)] }
  if !s.inBatch && (s.pending.isEmpty || !s.isOpen) then { s with fired := s.fired ++ [w] }
  else { s with pendFlushW := s.pendFlushW ++ [w] }

/-- The critical section of the receiver loop (lib.rs:363-394). -/
def rxTake (s : St) : Option St :=
  match s.rx with
  | .idle =>
    if s.pending.length > 0 then
      some { s with inBatch := true, rx := .taken s.pending s.pendTakeW s.pendFlushW s.isOpen,
                    pending := [], pendTakeW := [], pendFlushW := [] }
    else
      some { s with inBatch := false, rx := .taken [] s.pendTakeW s.pendFlushW s.isOpen,
                    pendTakeW := [], pendFlushW := [] }
  | _ => none

/-- One `when_empty` callback of the taken batch runs (`notify_on_take`, lib.rs:397). -/
def rxFireTake (s : St) : Option St :=
  match s.rx with
  | .taken b (w :: tw) fw wasOpen =>
    some { s with firedTake := s.firedTake ++ [w], rx := .taken b tw fw wasOpen }
  | _ => none

/-- Loop head, or flush callbacks of a finalised batch still to run. -/
def afterNotify : List Nat → Rx
  | [] => .idle
  | ws => .notifying ws

/-- One flush callback runs: of an empty hand-off, after its `when_empty` callbacks (lib.rs:460), or of a batch
    whose last attempt has concluded (lib.rs:455). -/
def rxFireFlush (s : St) : Option St :=
  match s.rx with
  | .taken [] [] (w :: fw) wasOpen =>
    some { s with fired := s.fired ++ [w], rx := .taken [] [] fw wasOpen }
  | .notifying (w :: ws) =>
    some { s with fired := s.fired ++ [w], rx := afterNotify ws }
  | _ => none

/-- After the callbacks up to the first await (lib.rs:399-412 and 464-469). -/
def rxBegin (cfg : Cfg) (s : St) : Option St :=
  match s.rx with
  | .taken b [] fw wasOpen =>
    if b.length > 0 then
      some { s with retryCur := 0, retryDelay := 0, idleDelay := 0,              -- resets (399-402)
                    rx := .processing b b fw,                                    -- on_batch(batch) (412)
                    calls := s.calls ++ [b], firstAttempts := s.firstAttempts ++ [b],
                    callsPerBatch := s.callsPerBatch ++ [1], batchWaits := [] }
    else
      match fw with
      | [] =>
        -- the exit check uses the `is_open` value read under the lock by rxTake (lib.rs:376/384, 464)
        if !wasOpen then some { s with rx := .done, isOpen := false }            -- return; Receiver dropped (464-466)
        else
          let d := delayNext s.idleDelay cfg.idleStep cfg.idleCap                -- wait(idle_delay.next()) (469)
          some { s with idleDelay := d, waits := s.waits ++ [d], rx := .idleWait }
      | _ => none
  | _ => none

/-- The last attempt of the batch has concluded: its items are final, its flush callbacks are due (lib.rs:455). -/
def conclude (s : St) (orig ws : List Nat) : St :=
  { s with finalised := s.finalised ++ orig, rx := afterNotify ws }

/-- The on_batch call concludes with outcome `o` (lib.rs:412-451). -/
def rxOutcome (cfg : Cfg) (s : St) (o : Outcome) : Option St :=
  match s.rx with
  | .processing orig _cur ws =>
    match o with
    | .ok => some (conclude { s with mProcessed := s.mProcessed + 1 } orig ws)
    | .failNoRetry => some (conclude { s with mFailed := s.mFailed + 1 } orig ws)
    | .failRetry rem =>
      let s := { s with mFailed := s.mFailed + 1 }
      if rem.length > 0 then
        let s := { s with retryCur := s.retryCur + 1 }                           -- Retry::next (638-641)
        if s.retryCur ≤ cfg.retryMax then
          let d := delayNext s.retryDelay cfg.retryStep cfg.retryCap             -- wait(retry_delay.next()) (427)
          some { s with retryDelay := d, waits := s.waits ++ [d], batchWaits := s.batchWaits ++ [d],
                        lastReturned := rem, rx := .retryWait orig rem ws }
        else some (conclude s orig ws)
      else some (conclude s orig ws)
    | .panicSync => some (conclude { s with mPanicked := s.mPanicked + 1 } orig ws)
    | .panicAsync => some (conclude { s with mPanicked := s.mPanicked + 1 } orig ws)
  | _ => none

/-- `x :: xs` with the last element incremented (ghost: one more call for the current batch). -/
def bumpLast : List Nat → List Nat
  | [] => []
  | [n] => [n + 1]
  | n :: ns => n :: bumpLast ns

/-- The retry wait is over: the remainder becomes the batch, the watchers stay (lib.rs:429-435, 412). -/
def rxRetryWaited (s : St) : Option St :=
  match s.rx with
  | .retryWait orig rem ws =>
    some { s with rx := .processing orig rem ws, mRetry := s.mRetry + 1, calls := s.calls ++ [rem],
                  retryCalls := s.retryCalls ++ [(s.lastReturned, rem)],
                  callsPerBatch := bumpLast s.callsPerBatch }
  | _ => none

def rxIdleWaited (s : St) : Option St :=
  match s.rx with
  | .idleWait => some { s with rx := .idle }
  | _ => none

/-- `Drop for Sender` (lib.rs:169-173). -/
def dropSender (s : St) : St := { s with isOpen := false, senderAlive := false }

/-- The receiver is torn down (`Drop for Receiver`, lib.rs:330-338): possible before `exec` is first polled and at
    its await points, not between the unlock and the call of `on_batch` (no await there). Watchers owned by the
    future are dropped unfired. -/
def dropReceiver (s : St) : Option St :=
  match s.rx with
  | .taken _ _ _ _ => none
  | .notifying _ => none
  | .done => none
  | r => some { s with isOpen := false, rx := .done, tornDown := true, pendingAtTeardown := s.pending,
                        dropped := s.dropped ++ r.ws }

/-- The transition function. Sender-side labels need the `Sender` handle. -/
def step (cfg : Cfg) (s : St) : Label → Option St
  | .send x => if s.senderAlive then some (send cfg s x) else none
  | .trySend x => if s.senderAlive then some (trySend cfg s x).1 else none
  | .whenFlushed w => if s.senderAlive then some (whenFlushed s w) else none
  | .whenEmpty w => if s.senderAlive then some (whenEmpty s w) else none
  | .rxTake => rxTake s
  | .rxFireTake => rxFireTake s
  | .rxFireFlush => rxFireFlush s
  | .rxBegin => rxBegin cfg s
  | .rxOutcome o => rxOutcome cfg s o
  | .rxRetryWaited => rxRetryWaited s
  | .rxIdleWaited => rxIdleWaited s
  | .dropSender => if s.senderAlive then some (dropSender s) else none
  | .dropReceiver => dropReceiver s

/-- Every state reachable under SOME interleaving of sender operations, receiver steps and outcomes. -/
def Reachable (cfg : Cfg) (s : St) : Prop := Sched.Reachable (step cfg) init s

/-! ### User code the receiver calls besides `wait` / `on_batch` / the watchers: the `Channel` trait methods

`Channel` (lib.rs:44-94) is implemented by the USER of the crate, so every call of one of its methods is a call-out
into arbitrary code — which may itself use the `Sender`. `Receiver::exec` calls `new`, `len` and `with_capacity`
(never `push` / `clear` / `is_empty`: those are the sender's, always under the lock). A call made while the state
lock is held is part of the atomic step it sits in (re-entering the channel from there dead-locks; nothing can be
interleaved); a call made outside the lock is an interleaving point BETWEEN two labels of the system: sender
labels executed "inside" it are ordinary steps of the LTS at that position. The two functions below say where
the calls are, in code order; the driver (Driver/Batcher.lean `chanWindows`) takes the window positions and the
`held` verdicts from them, and stream `batcher` checks both against the real receiver (a harness-defined channel
type whose methods probe the lock and run scripted sender ops). -/

/-- The `Channel` methods `Receiver::exec` calls. -/
inductive ChanCall where
  | new            -- `T::new()`
  | len            -- `channel.len()`
  | withCapacity   -- `T::with_capacity(n)`
  deriving Repr, DecidableEq

/-- A call site: which method, and whether the state lock is held there. -/
structure ChanSite where
  call : ChanCall
  locked : Bool
  deriving Repr, DecidableEq

/-- `let mut next_batch = Batch::new()` (lib.rs:365): when `exec` is first polled, before the loop — no lock. -/
def chanCallsAtStart : List ChanSite := [⟨.new, false⟩]

/-- The `Channel` calls the receiver makes at the START of label `l` in state `s`, before any effect of the label:
      rxTake                 `state.next_batch.channel.len()` (lib.rs:377), then `mem::take(&mut next_batch)` =
                             `Batch::default()` = `T::new()` (381) resp. `T::new()` (394) — INSIDE the critical section
      rxBegin, batch ≠ []    `current_batch.channel.len()` and `T::with_capacity(..)` (lib.rs:412), no lock
      rxOutcome (retry rem)  `retryable.len()` (lib.rs:430), no lock — before `Retry::next` and the wait request -/
def chanCallsIn (s : St) : Label → List ChanSite
  | .rxTake => [⟨.len, true⟩, ⟨.new, true⟩]
  | .rxBegin => if s.rx.takenBatch.length > 0 then [⟨.len, false⟩, ⟨.withCapacity, false⟩] else []
  | .rxOutcome (.failRetry _) => [⟨.len, false⟩]
  | _ => []

/-- … and right AFTER label `l` has led to `s'`: `current_batch.channel.len()` (lib.rs:405), once per hand-off, as soon
    as `notify_on_take` is through (after the hand-off itself when no `when_empty` watcher was taken, else after the
    callback of the last one) — no lock; before the flush callbacks of an empty hand-off resp. the resets. -/
def chanCallsAfter (s' : St) : Label → List ChanSite
  | .rxTake | .rxFireTake => match s'.rx with
    | .taken _ [] _ _ => [⟨.len, false⟩]
    | _ => []
  | _ => []

/-! ### The blocking / async send variants as steps (`send_or_wait`, lib.rs:225-259)

`send_or_wait` = a first `try_send`; on ANY error the call is counted in `queue_full_blocked` (lib.rs:237) —
never in `queue_full_truncated` — and the loop is entered: clock reading, timeout check, `wait_until_empty` (a
`when_empty` registration plus a runtime wait for the REMAINING time), `try_send` again. Every one of these is a
step of the base system except the counter, so the extended system below adds exactly one label. The second
counter lives outside `St`: no step of the base system reads or writes it, so every theorem about `Reachable`
carries over verbatim (`BReachable b → Reachable b.st`, Lemmas/Batcher.lean `breachable_base`). -/

/-- The channel state together with `InternalMetrics::queue_full_blocked` (internal_metrics.rs:49-56). -/
structure BSt where
  st : St
  mBlocked : Nat
  deriving Repr

def binit : BSt := { st := init, mBlocked := 0 }

/-- The first attempt of `send_or_wait` (lib.rs:232-237): `try_send`; `Ok` → done; any `Err` (full or closed) →
    `queue_full_blocked.increment()` before the loop is entered. -/
def sendOrWaitFirst (cfg : Cfg) (b : BSt) (x : Nat) : BSt × TryRes :=
  match trySend cfg b.st x with
  | (s, .ok) => ({ b with st := s }, .ok)
  | (s, e) => ({ st := s, mBlocked := b.mBlocked + 1 }, e)

/-- Labels of the extended system: every label of the base system, plus the first attempt of a blocking / async
    send (`sync::blocking_send`, `tokio::blocking_send`, `tokio::send`). The later rounds of such a call are the
    base labels `whenEmpty w` (the waker registered by `wait_until_empty`) and `trySend x`. -/
inductive BLabel where
  | base (l : Label)
  | sendOrWaitFirst (x : Nat)
  deriving Repr, DecidableEq

def bstep (cfg : Cfg) (b : BSt) : BLabel → Option BSt
  | .base l => (step cfg b.st l).map fun s => { b with st := s }
  | .sendOrWaitFirst x => if b.st.senderAlive then some (sendOrWaitFirst cfg b x).1 else none

def BReachable (cfg : Cfg) (b : BSt) : Prop := Sched.Reachable (bstep cfg) binit b

/-- 1 if this label, executed in `b`, is a plain `send` that finds the queue full (lib.rs:190-193), else 0. -/
def truncatingSend (cfg : Cfg) (b : BSt) : BLabel → Nat
  | .base (.send _) => if b.st.pending.length ≥ cfg.cap then 1 else 0
  | _ => 0

/-- 1 if this label, executed in `b`, is the first attempt of a blocking / async send that fails, else 0. -/
def blockedSend (cfg : Cfg) (b : BSt) : BLabel → Nat
  | .sendOrWaitFirst x => if (trySend cfg b.st x).2 = .ok then 0 else 1
  | _ => 0

/-- Sum of `f state label` along the execution of `ls` from `b`. -/
def countAlong (cfg : Cfg) (f : BSt → BLabel → Nat) : BSt → List BLabel → Nat
  | _, [] => 0
  | b, l :: ls => match bstep cfg b l with
    | none => 0
    | some b' => f b l + countAlong cfg f b' ls

/-- Labels that are steps of the receiver's loop (or of the processor / timer it awaits). The individual callback
    invocations `rxFireTake` / `rxFireFlush` are NOT counted: the bounded-liveness theorems bound the number of
    loop steps, however many callbacks are registered. -/
def Label.isRx : Label → Bool
  | .rxTake | .rxBegin | .rxOutcome _ | .rxRetryWaited | .rxIdleWaited => true
  | _ => false

def Rx.alive : Rx → Bool
  | .done => false
  | _ => true

/-! ### The blocking / async entry points: decision logic (sync.rs, tokio.rs)

The runtime parts (condvar, oneshot, timers, clocks) are parameters: the functions below take what those
primitives returned and reproduce the control flow of the code around them. -/

/-- What one `Condvar::wait_timeout` call returned (sync.rs:171): the flag as seen after re-acquiring the
    mutex, whether the wait timed out, and the time that passed. -/
structure CvWake where
  flag : Bool
  timedOut : Bool
  elapsed : Nat
  deriving Repr

/-- `Trigger::wait_timeout` (sync.rs:155-193). `flag0` is the flag at the first lock; `none` = the condvar has
    not returned (yet) — the list of wake-ups is exhausted. -/
def waitTimeout : (timeout : Nat) → (flag0 : Bool) → List CvWake → Option Bool
  | timeout, flag, wakes =>
    if flag then some true                                      -- sync.rs:160
    else if timeout = 0 then some false                         -- sync.rs:166
    else match wakes with
      | [] => none
      | w :: rest =>
        if !w.timedOut then
          if w.elapsed ≤ timeout then waitTimeout (timeout - w.elapsed) w.flag rest   -- checked_sub = Some
          else some w.flag                                      -- checked_sub = None (sync.rs:180)
        else some w.flag                                        -- timed out (sync.rs:188)

/-- Total time `Trigger::wait_timeout` spends inside `Condvar::wait_timeout` calls. -/
def waitTimeoutSpent : (timeout : Nat) → (flag0 : Bool) → List CvWake → Nat
  | timeout, flag, wakes =>
    if flag then 0
    else if timeout = 0 then 0
    else match wakes with
      | [] => 0
      | w :: rest =>
        if !w.timedOut then
          if w.elapsed ≤ timeout then w.elapsed + waitTimeoutSpent (timeout - w.elapsed) w.flag rest
          else w.elapsed
        else w.elapsed

/-- Every condvar wait that is performed returns within the time it was asked for, plus a slack `δ`
    (the runtime assumption about `Condvar::wait_timeout`). -/
def waitTimeoutHonest (δ : Nat) : (timeout : Nat) → (flag0 : Bool) → List CvWake → Prop
  | timeout, flag, wakes =>
    if flag then True
    else if timeout = 0 then True
    else match wakes with
      | [] => True
      | w :: rest =>
        w.elapsed ≤ timeout + δ ∧
        (if !w.timedOut then
          (if w.elapsed ≤ timeout then waitTimeoutHonest δ (timeout - w.elapsed) w.flag rest else True)
         else True)

/-- State of the oneshot at `try_recv` (tokio.rs:123). -/
inductive Oneshot where
  | sent      -- the callback ran (`notifier.send(())`)
  | empty     -- neither sent nor dropped
  | hungUp    -- the callback was dropped without running
  deriving Repr, DecidableEq

/-- What `tokio::time::timeout(timeout, notified)` resolved to (tokio.rs:133). -/
inductive TimedRecv where
  | received
  | hungUp
  | elapsed
  deriving Repr, DecidableEq

/-- `tokio::wait` (tokio.rs:121-141). -/
def oneshotWait (timeout : Nat) (atTry : Oneshot) (later : TimedRecv) : Bool :=
  if atTry = .sent then true                                    -- try_recv().is_ok()
  else if timeout = 0 then false
  else match later with
    | .received => true
    | .hungUp => true
    | .elapsed => false

/-- Result of `send_or_wait` (lib.rs:222-256). -/
inductive SendRes where
  | ok                  -- the item was enqueued
  | handedBack (x : Nat)  -- `Err` carrying the item
  | errNoItem           -- `Err` without the item (the channel was closed)
  deriving Repr, DecidableEq

/-- The loop of `send_or_wait` (lib.rs:236-253) given, per iteration, the clock reading and the result of the
    `try_send` after the wait. `none` = still waiting (observations exhausted). -/
def sendOrWaitLoop (timeout : Nat) : (err : TryRes) → List (Nat × TryRes) → Option SendRes
  | err, [] => match err with
    | .ok => some .ok
    | _ => none
  | err, (elapsed, next) :: rest =>
    match err with
    | .ok => some .ok
    | .full x =>
      if elapsed ≥ timeout then some (.handedBack x)             -- lib.rs:239-241
      else match next with                                       -- wait, then try_send again (243-246)
        | .ok => some .ok
        | e => sendOrWaitLoop timeout e rest
    | .closed =>
      if elapsed ≥ timeout then some .errNoItem                  -- `Err(err)` with retryable = None
      else some .errNoItem                                       -- `err.try_into_retryable()?` (246)

/-- The clock reading of the last loop iteration of `send_or_wait` that was entered (the call returns right at it,
    or right after the `try_send` that follows its wait). -/
def sendOrWaitLastReading (timeout : Nat) : (err : TryRes) → List (Nat × TryRes) → Option Nat
  | _, [] => none
  | err, (elapsed, next) :: rest =>
    match err with
    | .ok => none
    | .closed => some elapsed
    | .full _ =>
      if elapsed ≥ timeout then some elapsed
      else match next with
        | .ok => some elapsed
        | e => match sendOrWaitLastReading timeout e rest with
          | some t => some t
          | none => some elapsed

/-- What `send_or_wait` passes to `wait_until_empty` (lib.rs:246), per loop iteration that waits: the clock reading
    and the duration asked for — `timeout.saturating_sub(elapsed)`, the REMAINING time, not `timeout`. (With a
    `closed` error the loop still waits once before `try_into_retryable()?` returns, lib.rs:246-249.) -/
def sendOrWaitAsked (timeout : Nat) : (err : TryRes) → List (Nat × TryRes) → List (Nat × Nat)
  | _, [] => []
  | err, (elapsed, next) :: rest =>
    match err with
    | .ok => []
    | .closed => if elapsed ≥ timeout then [] else [(elapsed, timeout - elapsed)]
    | .full _ =>
      if elapsed ≥ timeout then []
      else (elapsed, timeout - elapsed) :: (match next with
        | .ok => []
        | e => sendOrWaitAsked timeout e rest)

/-- Remaining-time accounting (lib.rs:243): every wait round is asked for `timeout - elapsed`, NOT for `timeout`.
    The runtime assumption: a wait returns within the time it was asked for plus a slack `δ`, i.e. the next
    clock reading is at most `elapsed + (timeout - elapsed) + δ`; `bound` is that bound for the current reading
    (`δ` for the first one: the loop is entered right after the start). -/
def sendOrWaitHonest (δ timeout : Nat) : (bound : Nat) → (err : TryRes) → List (Nat × TryRes) → Prop
  | _, _, [] => True
  | bound, err, (elapsed, next) :: rest =>
    elapsed ≤ bound ∧
    match err with
    | .full _ =>
      if elapsed ≥ timeout then True
      else match next with
        | .ok => True
        | e => sendOrWaitHonest δ timeout (elapsed + (timeout - elapsed) + δ) e rest
    | _ => True

/-- `send_or_wait` (lib.rs:222-256): first `try_send`, then the loop. -/
def sendOrWait (timeout : Nat) (first : TryRes) (obs : List (Nat × TryRes)) : Option SendRes :=
  match first with
  | .ok => some .ok
  | e => sendOrWaitLoop timeout e obs

/-- Calling context of a blocking entry point. -/
inductive Ctx where
  | plainThread
  | tokioMultiThread
  | tokioCurrentThread
  | tokioMultiThreadNoDrivers          -- worker of a multi-thread runtime built without time / io drivers
  | tokioMultiThreadNoDriversBlockOn   -- inside `block_on` of such a runtime (runtime context, not a worker)
  | tokioCurrentThreadNoDrivers        -- current-thread runtime built without drivers
  deriving Repr, DecidableEq

/-- The runtime of the calling context has a time driver (`enable_time` / `enable_all`). -/
def Ctx.hasTimeDriver : Ctx → Bool
  | .tokioMultiThread | .tokioCurrentThread => true
  | _ => false

def Ctx.isCurrentThread : Ctx → Bool
  | .tokioCurrentThread | .tokioCurrentThreadNoDrivers => true
  | _ => false

/-- Which module's blocking entry points are called. -/
inductive Api where
  | sync     -- `emit_batcher::sync::{blocking_flush, blocking_send}`
  | tokio    -- `emit_batcher::tokio::{blocking_flush, blocking_send}`
  | async    -- `emit_batcher::tokio::{flush, send}` awaited inside a runtime (no blocking at all)
  deriving Repr, DecidableEq

/-- How a blocking entry point waits. -/
inductive BlockingPath where
  | condvar          -- `sync::blocking_*` on the calling thread (condvar + `Trigger::wait_timeout`)
  | blockInPlace     -- the same inside `tokio::task::block_in_place` (worker of a multi-thread runtime)
  | handleBlockOn    -- `Handle::block_on` from a thread that drives a runtime: tokio panics
  | blockInPlaceAsync  -- `block_in_place(|| handle.block_on(<async variant>))`: waits with `tokio::time::timeout`,
                       -- which panics ("timers are disabled") on a runtime built without a time driver
  deriving Repr, DecidableEq

/-- `tokio::block_in_place_if_possible` (tokio.rs, after fix D3): `Handle::try_current()` succeeds inside both
    runtime flavours; only the multi-thread flavour may `block_in_place`; everything else runs the condvar path
    directly. (Before the fix both runtime contexts took `Handle::block_on`, i.e. `handleBlockOn`.)
    `sync::*` never looks at the context. -/
def blockingPath : Api → Ctx → BlockingPath
  | .sync, _ => .condvar
  | .async, _ => .condvar   -- not blocking: awaited (listed so that the table is total; never panics)
  | .tokio, .plainThread => .condvar
  | .tokio, .tokioMultiThread => .blockInPlace
  | .tokio, .tokioMultiThreadNoDrivers => .blockInPlace
  | .tokio, .tokioMultiThreadNoDriversBlockOn => .blockInPlace
  | .tokio, .tokioCurrentThread => .condvar
  | .tokio, .tokioCurrentThreadNoDrivers => .condvar

/-- tokio's documented behaviour (parameter table, trusted): `block_in_place` is legal on a multi-thread worker
    and panics on a current-thread runtime; `Handle::block_on` panics on any thread that is driving a runtime;
    a condvar wait is legal anywhere and needs no runtime driver; `tokio::time::timeout` needs the time driver. -/
def pathPanics : BlockingPath → Ctx → Bool
  | .condvar, _ => false
  | .blockInPlace, ctx => ctx.isCurrentThread
  | .handleBlockOn, .plainThread => false
  | .handleBlockOn, _ => true
  | .blockInPlaceAsync, .plainThread => false
  | .blockInPlaceAsync, ctx => ctx.isCurrentThread || !ctx.hasTimeDriver   -- a call that has to wait

/-- Receiver the blocking call runs against (stream `batcher_blocking`). -/
inductive RxKind where
  | live | stalled | gone
  | refill   -- full queue, one take at 0.7·T, refilled at once by an earlier when_empty callback, no further take
  | late     -- stalled when the call starts, started 30 ms later: the call has to wait, then the queue is drained
  | hangup   -- the receiver takes the batch with the watcher, never finishes it and is torn down
  deriving Repr, DecidableEq

/-- The channel state before the blocking call: receiver dropped or not, then `prefill` plain sends. -/
def prefillState (cfg : Cfg) (rx : RxKind) (prefill : Nat) : St :=
  let s0 := if rx = .gone then (dropReceiver init).getD init else init
  (List.range prefill).foldl (fun s i => send cfg s (i + 1)) s0

/-- `sync::blocking_flush` (sync.rs:65-90): register a callback that sets the trigger, then `wait_timeout`.
    The wake-ups are what the runtime delivers: against a live receiver the callback runs (bounded liveness,
    C08 `callbacks_fire_bounded`) and notifies the condvar; against a stalled or dropped one the wait times out. -/
def blockingFlush (cfg : Cfg) (rx : RxKind) (prefill timeout : Nat) : Option Bool :=
  let s := whenFlushed (prefillState cfg rx prefill) 0
  let flag0 := decide (0 ∈ s.fired)
  let wakes : List CvWake := match rx with
    | .live => [{ flag := true, timedOut := false, elapsed := 0 }]
    | .late => [{ flag := true, timedOut := false, elapsed := 30 }]
    | .refill => [{ flag := false, timedOut := true, elapsed := timeout }]
    | _ => [{ flag := false, timedOut := true, elapsed := timeout }]
  waitTimeout timeout flag0 wakes

/-- `tokio::flush` (tokio.rs:65-73): register a callback that sends on a oneshot, then `wait`. Against a live
    receiver the callback runs; against a stalled one the timeout elapses; when the receiver is torn down while
    it holds the watcher the oneshot hangs up. -/
def asyncFlush (cfg : Cfg) (rx : RxKind) (prefill timeout : Nat) : Bool :=
  let s := whenFlushed (prefillState cfg rx prefill) 0
  let atTry : Oneshot := if 0 ∈ s.fired then .sent else .empty
  let later : TimedRecv := match rx with
    | .live => .received
    | .late => .received
    | .hangup => .hungUp
    | _ => .elapsed
  oneshotWait timeout atTry later

/-- Stream `batcher_blocking`, case `blseq`: two blocking flushes in a row on one thread against a hand-driven
    receiver. Each call owns its trigger (`Trigger::new()` per call, sync.rs:79), so what a call's `wait_timeout`
    reads is "has the callback registered by THIS call run"; the callback of the earlier, timed-out call running
    during the later call does not concern it. Returns the two results and the final state. -/
def flushSequence (cfg : Cfg) : Option (Bool × Bool × St) := do
  let run := Sched.run (step cfg)
  -- item 1 in flight, item 2 queued, flush #1 (watcher 1, 50 ms): nothing completes meanwhile → times out
  let s1 ← run init [.send 1, .rxTake, .rxBegin, .send 2, .whenFlushed 1]
  let f1 ← waitTimeout 50 (decide (1 ∈ s1.fired)) [{ flag := decide (1 ∈ s1.fired), timedOut := true, elapsed := 50 }]
  -- [1] completes, [2] is taken (with watcher 1); item 3; flush #2 (watcher 2, 3 s)
  let s2 ← run s1 [.rxOutcome .ok, .rxTake, .rxBegin, .send 3, .whenFlushed 2]
  -- +100 ms: [2] completes, the callback of flush #1 runs, [3] is taken (with watcher 2)
  let s3 ← run s2 [.rxOutcome .ok, .rxFireFlush, .rxTake, .rxBegin]
  -- +100 ms: [3] completes, the callback of flush #2 runs
  let s4 ← run s3 [.rxOutcome .ok, .rxFireFlush]
  let f2 ← waitTimeout 3000 (decide (2 ∈ s2.fired))
    [{ flag := decide (2 ∈ s3.fired), timedOut := false, elapsed := 100 },
     { flag := decide (2 ∈ s4.fired), timedOut := false, elapsed := 100 }]
  pure (f1, f2, s4)

/-- Stream `batcher_blocking`, case `blslow`: a processor whose single attempt takes arbitrarily long behind
    `tokio::spawn` (tokio.rs:17-44: `exec` with `tokio::time::sleep` as the wait and the user's `on_batch` awaited in
    place). `n` items are queued before the receiver starts; it takes them and hands them to the processor; while
    that attempt is in flight a companion watcher (0) and the flush's own watcher (1) are registered. The attempt
    concludes with `o` — after however long it takes: NO label carries a duration, which is why the length of the
    attempt cannot matter — the next hand-off finds the queue empty and notifies both watchers, one after the other.
    The flush (`tokio::flush` = `oneshotWait`; the blocking ones read their trigger the same way) sees its oneshot
    sent. Returns the result, the number of items through their final attempt when the companion ran and when the
    flush's own callback had run, and the final state. -/
def slowFlush (cfg : Cfg) (n : Nat) (o : Outcome) (timeout : Nat) : Option (Bool × Nat × Nat × St) := do
  let run := Sched.run (step cfg)
  let s1 ← run (prefillState cfg .live n) [.rxTake, .rxBegin, .whenFlushed 0, .whenFlushed 1]
  let s2 ← run s1 [.rxOutcome o, .rxTake, .rxFireFlush]
  let s3 ← run s2 [.rxFireFlush]
  let r := oneshotWait timeout (if 1 ∈ s1.fired then .sent else .empty) (if 1 ∈ s3.fired then .received else .elapsed)
  pure (r, s2.finalised.length, s3.finalised.length, s3)

/-- `sync::blocking_send` (sync.rs:97-140) = `send_or_wait` with the condvar wait. Against a live receiver the
    queue has been taken when the wait returns; against a stalled one the wait lasts until the timeout. -/
def blockingSendObs (cfg : Cfg) (rx : RxKind) (prefill timeout : Nat) (x : Nat) : TryRes × List (Nat × TryRes) :=
  let s := prefillState cfg rx prefill
  let first := (trySend cfg s x).2
  let obs : List (Nat × TryRes) := match rx with
    | .live => [(0, .ok)]
    -- woken at 0.7·T, the slot is gone; the second wait is asked for the remaining 0.3·T and times out at T
    | .refill => [(0, first), (timeout * 7 / 10, first), (timeout, first)]
    | .late => [(0, .ok)]
    | _ => [(0, first), (timeout, first)]
  (first, obs)

def blockingSend (cfg : Cfg) (rx : RxKind) (prefill timeout : Nat) (x : Nat) : Option SendRes :=
  let (first, obs) := blockingSendObs cfg rx prefill timeout x
  sendOrWait timeout first obs

/-- `(queue_full_truncated, queue_full_blocked)` after a blocking / async send against the prefilled channel: the
    first attempt is the label `sendOrWaitFirst` (the only place `send_or_wait` touches a counter, lib.rs:237); the
    later rounds are `when_empty` registrations and `try_send`s, which move neither counter. So the truncations are
    those of the prefill (plain sends) and the call counts as blocked iff its first attempt failed. -/
def blockingSendCounters (cfg : Cfg) (rx : RxKind) (prefill : Nat) (x : Nat) : Nat × Nat :=
  let b := (sendOrWaitFirst cfg { st := prefillState cfg rx prefill, mBlocked := 0 } x).1
  (b.st.mTruncated, b.mBlocked)

/-! ### `BatchError<T>`: what a processor can hand back (lib.rs:495-545) -/

/-- `BatchError { retryable: Option<T> }` — the error value itself is not kept. -/
structure BErr (T : Type) where
  retryable : Option T
  deriving Repr, DecidableEq

def BErr.noRetry {T : Type} : BErr T := ⟨none⟩
def BErr.retry {T : Type} (rem : T) : BErr T := ⟨some rem⟩
/-- `map_retryable`: `f` always runs, on `Some` or on `None` -/
def BErr.mapRetryable {T U : Type} (e : BErr T) (f : Option T → Option U) : BErr U := ⟨f e.retryable⟩
def BErr.tryIntoRetryable {T : Type} (e : BErr T) : Except (BErr T) T :=
  match e.retryable with
  | some r => .ok r
  | none => .error ⟨none⟩

end EmitModel.Batcher
