/-
  Model/Pipeline.lean — executable model of emit's event pipeline (property C01).

  Mirrors, branch by branch:
    core/src/lib.rs:56-79          `emit()`: with_current → extent-or-clock → props.and_props(ctxt) → filter → emitter
    core/src/filter.rs:54-92       Filter for &F / Box<F> / Arc<F> / Option<F> / Empty
    core/src/filter.rs:127-164     Always, And (short-circuit `&&`), Or (short-circuit `||`)
    core/src/filter.rs:166-214     type-erased dispatch (dyn ErasedFilter)
    core/src/emitter.rs:66-122     Emitter for &T / Box<T> / Arc<T> / Option<T> / Empty
    core/src/emitter.rs:146-186    FromFn leaf (flush = true), And (both sides, flush with timeout/2 each)
    core/src/emitter.rs:213-222    Wrap (emit through the wrapping, flush defers)
    core/src/emitter.rs:258-310    wrapping::FromFn (here: "map the event, forward once"), wrapping::FromFilter
    core/src/emitter.rs:430-476    type-erased dispatch (dyn ErasedEmitter)
    core/src/runtime.rs:300-315    Runtime::emit, Emitter for Runtime
    core/src/runtime.rs:404-420    AssertInternal
    src/macro_hooks.rs:707-719     FirstDefined (the call-site `when` REPLACES the runtime filter)
    src/macro_hooks.rs:754-801     __private_emit / __private_emit_event

    src/level.rs:254-264,364-386   MinLevelFilter / MinLevelPathMap as leaf filters (through Model/Level.lean)
    src/kind.rs:136-170            KindFilter / is_span_filter / is_metric_filter as leaf filters
    macros/src/{lib,emit,build,span,props}.rs + src/macro_hooks.rs:803-872  the level macros
                                   (`debug!`…`error!`, `*_evt!`, `emit!(evt: …)`, `#[*_span]`, `new_*_span!`)

  Everything observable is a list of `Obs` in call order: which leaf filter was asked about which event,
  which leaf emitter received which event. Imports only the (Std-only) level and kind models it evaluates
  the library leaf filters with (linked into the driver executable).
-/
import EmitModel.Model.KindText

namespace EmitModel.Pipeline
open EmitModel.Level (Level)
open EmitModel.KindText (Kind)

/-- Property values. Only identity matters for C01 (what was delivered is what was built). -/
inductive Val where
  | int (i : Int)
  | str (s : String)
  /-- a captured `emit::Level` (downcasts to `Level`; the level macros attach one under `lvl`) -/
  | lvl (l : Level)
  /-- a captured `emit::Kind` (`Span::to_event` puts one under `evt_kind`) -/
  | kind (k : Kind)
  /-- any other `Display`-captured value (trace and span ids), identified by its text -/
  | disp (s : String)
  deriving DecidableEq, Repr, Inhabited

/-- core/src/extent.rs: a point in time or a range; timestamps are nanoseconds since the epoch. -/
inductive Extent where
  | point (t : Nat)
  | range (a b : Nat)
  deriving DecidableEq, Repr, Inhabited

/-- core/src/event.rs:25-37. `props` is the enumeration order of `Props::for_each` (duplicates kept). -/
structure Evt where
  mdl : String
  tpl : String
  extent : Option Extent
  props : List (String × Val)
  deriving DecidableEq, Repr, Inhabited

/-- One observable effect. -/
inductive Obs where
  /-- leaf filter `i` was asked whether it matches `x` -/
  | flt (i : Nat) (x : Evt)
  /-- leaf emitter `i` received `x` -/
  | dlv (i : Nat) (x : Evt)
  deriving DecidableEq, Repr, Inhabited

def Obs.dlv? : Obs → Option (Nat × Evt)
  | .dlv i x => some (i, x)
  | .flt _ _ => none

def Obs.flt? : Obs → Option (Nat × Evt)
  | .flt i x => some (i, x)
  | .dlv _ _ => none

/-! ### Filters -/

/-- Filter expression trees over the public combinators. `leaf i` is a user filter (its verdict is the
    parameter `ρ i`), the last five constructors are the transparent layers: `&F`, `Box<F>`, `Arc<F>`,
    `dyn ErasedFilter` (behind a box / arc / reference) and `AssertInternal<F>`. -/
inductive Flt where
  | leaf (i : Nat)
  | always
  | empty
  | and (a b : Flt)
  | or (a b : Flt)
  | opt (o : Option Flt)
  | ref (f : Flt)
  | boxed (f : Flt)
  | shared (f : Flt)
  | erased (f : Flt)
  | internal (f : Flt)
  deriving Repr, Inhabited

/-- `Filter::matches` with the log of leaf calls it makes, in call order. -/
def Flt.evalTrace (ρ : Nat → Evt → Bool) : Flt → Evt → Bool × List Obs
  | .leaf i, x => (ρ i x, [.flt i x])
  -- filter.rs:141-145
  | .always, _ => (true, [])
  -- filter.rs:86-90
  | .empty, _ => (true, [])
  -- filter.rs:150-156: `self.left().matches(&evt) && self.right().matches(&evt)`
  | .and a b, x =>
    let ra := a.evalTrace ρ x
    if ra.1 then
      let rb := b.evalTrace ρ x
      (rb.1, ra.2 ++ rb.2)
    else (false, ra.2)
  -- filter.rs:158-164: `self.left().matches(&evt) || self.right().matches(&evt)`
  | .or a b, x =>
    let ra := a.evalTrace ρ x
    if ra.1 then (true, ra.2)
    else
      let rb := b.evalTrace ρ x
      (rb.1, ra.2 ++ rb.2)
  -- filter.rs:77-84: `None => Empty.matches(evt)`
  | .opt none, _ => (true, [])
  | .opt (some f), x => f.evalTrace ρ x
  -- filter.rs:54-58, 60-65, 67-72
  | .ref f, x => f.evalTrace ρ x
  | .boxed f, x => f.evalTrace ρ x
  | .shared f, x => f.evalTrace ρ x
  -- filter.rs:194-214: erase_filter().0.dispatch_matches(&evt.to_event().erase()) → self.matches(evt)
  | .erased f, x => f.evalTrace ρ x
  -- runtime.rs:416-420
  | .internal f, x => f.evalTrace ρ x

/-- The verdict of `Filter::matches`. -/
def Flt.eval (ρ : Nat → Evt → Bool) (f : Flt) (x : Evt) : Bool := (f.evalTrace ρ x).1

/-- The leaf calls `Filter::matches` makes, in order. -/
def Flt.calls (ρ : Nat → Evt → Bool) (f : Flt) (x : Evt) : List Obs := (f.evalTrace ρ x).2

/-! ### The pipeline of `emit_core::emit` -/

/-- core/src/lib.rs:66-72: `evt.extent().cloned().or_else(|| clock.now().to_extent())` and
    `map_props(|props| props.and_props(ctxt))` — own extent wins, own properties first. -/
def build (amb : List (String × Val)) (clk : Option Nat) (x : Evt) : Evt :=
  { x with
    extent := (match x.extent with
      | some e => some e
      | none => clk.map Extent.point)
    props := x.props ++ amb }

/-- core/src/lib.rs:56-79 with the filter and the emitter abstracted as the functions they are called as:
    `ft` = `filter.matches` (verdict + leaf calls), `k` = `emitter.emit`. -/
def emitCore (k : Evt → List Obs) (ft : Evt → Bool × List Obs)
    (amb : List (String × Val)) (clk : Option Nat) (x : Evt) : List Obs :=
  let built := build amb clk x
  let r := ft built
  r.2 ++ (if r.1 then k built else [])

/-! ### Emitters -/

/-- Destination trees. `leaf i` is a user emitter whose `blocking_flush` is the parameter `φ i`;
    `fnLeaf i` is `emitter::from_fn` (flush is constantly `true`); `wrapMap g` is a `wrapping::from_fn`
    whose body forwards the event transformed by the user function `μ g` exactly once;
    `runtime` is a whole `Runtime` used through its `Emitter` impl (runtime.rs:305-315). -/
inductive Emt where
  | leaf (i : Nat)
  | fnLeaf (i : Nat)
  | empty
  | and (a b : Emt)
  | opt (o : Option Emt)
  | wrapFilter (f : Flt) (e : Emt)
  | wrapMap (g : Nat) (e : Emt)
  | ref (e : Emt)
  | boxed (e : Emt)
  | shared (e : Emt)
  | erased (e : Emt)
  | internal (e : Emt)
  | runtime (f : Flt) (amb : List (String × Val)) (clk : Option Nat) (e : Emt)
  deriving Repr, Inhabited

/-- `Emitter::emit`: every effect it causes, in call order. -/
def Emt.run (ρ : Nat → Evt → Bool) (μ : Nat → Evt → Evt) : Emt → Evt → List Obs
  | .leaf i, x => [.dlv i x]
  -- emitter.rs:146-154
  | .fnLeaf i, x => [.dlv i x]
  -- emitter.rs:111-117
  | .empty, _ => []
  -- emitter.rs:165-171: `self.left().emit(&evt); self.right().emit(&evt);`
  | .and a b, x => a.run ρ μ x ++ b.run ρ μ x
  -- emitter.rs:95-101: `None => Empty.emit(evt)`
  | .opt none, _ => []
  | .opt (some e), x => e.run ρ μ x
  -- emitter.rs:213-216 + 304-310: `if self.0.matches(&evt) { output.emit(evt) }`
  | .wrapFilter f e, x =>
    let r := f.evalTrace ρ x
    r.2 ++ (if r.1 then e.run ρ μ x else [])
  -- emitter.rs:213-216 + 273-277: the function is handed `&dyn ErasedEmitter` and the erased event
  | .wrapMap g e, x => e.run ρ μ (μ g x)
  -- emitter.rs:66-93
  | .ref e, x => e.run ρ μ x
  | .boxed e, x => e.run ρ μ x
  | .shared e, x => e.run ρ μ x
  -- emitter.rs:456-476
  | .erased e, x => e.run ρ μ x
  -- runtime.rs:404-412
  | .internal e, x => e.run ρ μ x
  -- runtime.rs:308-310 → 300-302 → lib.rs:56-79
  | .runtime f amb clk e, x => emitCore (fun y => e.run ρ μ y) (f.evalTrace ρ) amb clk x

/-- What each leaf emitter received, in call order. -/
def Emt.deliver (ρ : Nat → Evt → Bool) (μ : Nat → Evt → Evt) (e : Emt) (x : Evt) : List (Nat × Evt) :=
  (e.run ρ μ x).filterMap Obs.dlv?

/-- `Emitter::blocking_flush`: the result and the `(leaf, timeout)` calls made on user emitters, in order.
    Timeouts are nanoseconds; `Duration / 2` is the floor of half the nanoseconds. -/
def Emt.flush (φ : Nat → Nat → Bool) : Emt → Nat → Bool × List (Nat × Nat)
  | .leaf i, t => (φ i t, [(i, t)])
  -- emitter.rs:151-153
  | .fnLeaf _, _ => (true, [])
  -- emitter.rs:114-116
  | .empty, _ => (true, [])
  -- emitter.rs:173-185: both sides are always flushed, each with `timeout / 2`; result `lhs && rhs`
  | .and a b, t =>
    let ra := a.flush φ (t / 2)
    let rb := b.flush φ (t / 2)
    (ra.1 && rb.1, ra.2 ++ rb.2)
  -- emitter.rs:103-108: `None => Empty.blocking_flush(timeout)`
  | .opt none, _ => (true, [])
  | .opt (some e), t => e.flush φ t
  -- emitter.rs:218-220
  | .wrapFilter _ e, t => e.flush φ t
  | .wrapMap _ e, t => e.flush φ t
  | .ref e, t => e.flush φ t
  | .boxed e, t => e.flush φ t
  | .shared e, t => e.flush φ t
  -- emitter.rs:463-465
  | .erased e, t => e.flush φ t
  -- runtime.rs:409-411
  | .internal e, t => e.flush φ t
  -- runtime.rs:312-314
  | .runtime _ _ _ e, t => e.flush φ t

/-! ### Runtimes and entry points -/

/-- core/src/runtime.rs:90-96 without the rng. The ctxt is represented by the ambient properties its
    `with_current` yields at the time of the call, the clock by its reading. -/
structure Rt where
  filter : Flt
  emitter : Emt
  amb : List (String × Val)
  clk : Option Nat
  deriving Repr, Inhabited

/-- src/macro_hooks.rs:707-719: `if let Some(ref first) = self.0 { return first.matches(evt); } self.1.matches(evt)`. -/
def firstDefined (ρ : Nat → Evt → Bool) (callSite : Option Flt) (rtf : Flt) (x : Evt) : Bool × List Obs :=
  match callSite with
  | some w => w.evalTrace ρ x
  | none => rtf.evalTrace ρ x

/-- Emitting through a runtime, with an optional call-site filter. `callSite = none` is
    `Runtime::emit` (runtime.rs:300-302) / `emit_core::emit` (lib.rs:56-79) on the runtime's components;
    `some w` is what the macro hooks do (macro_hooks.rs:764-776). -/
def emit (ρ : Nat → Evt → Bool) (μ : Nat → Evt → Evt) (rt : Rt) (callSite : Option Flt) (x : Evt) : List Obs :=
  emitCore (rt.emitter.run ρ μ) (firstDefined ρ callSite rt.filter) rt.amb rt.clk x

/-- src/macro_hooks.rs:754-777 `__private_emit`: the event is assembled from the control parameters, its
    properties are the call-site properties followed by the `props:` base properties. -/
def hookEmit (ρ : Nat → Evt → Bool) (μ : Nat → Evt → Evt) (rt : Rt) (callSite : Option Flt)
    (mdl tpl : String) (extent : Option Extent) (base props : List (String × Val)) : List Obs :=
  emit ρ μ rt callSite { mdl := mdl, tpl := tpl, extent := extent, props := props ++ base }

/-- src/macro_hooks.rs:779-801 `__private_emit_event`: optional template override, call-site properties
    are put in front of the event's own. -/
def hookEmitEvent (ρ : Nat → Evt → Bool) (μ : Nat → Evt → Evt) (rt : Rt) (callSite : Option Flt)
    (x : Evt) (tpl : Option String) (props : List (String × Val)) : List Obs :=
  emit ρ μ rt callSite
    { x with tpl := tpl.getD x.tpl, props := props ++ x.props }

/-- Emitting straight to the runtime's emitter (`rt.emitter().emit(evt)`). -/
def direct (ρ : Nat → Evt → Bool) (μ : Nat → Evt → Evt) (rt : Rt) (x : Evt) : List Obs :=
  rt.emitter.run ρ μ x

/-- Flushing a runtime (`Emitter for Runtime`, `Init::blocking_flush`): defers to the emitter. -/
def Rt.flush (φ : Nat → Nat → Bool) (rt : Rt) (t : Nat) : Bool × List (Nat × Nat) :=
  rt.emitter.flush φ t

/-! ### Library leaf filters: `MinLevelFilter`, `MinLevelPathMap` (src/level.rs), `KindFilter` (src/kind.rs)

  In a filter tree these are leaves like any user filter (`Flt.leaf i`); their verdict `ρ i` is not arbitrary
  but the function below of the event they are shown. -/

/-- What `Props::pull::<Level, _>` is handed for a pipeline value: a captured `Level` downcasts, a string is
    parsed, everything else is formatted with `Display` and parsed (src/level.rs:205-212). -/
def Val.toLvlVal : Val → EmitModel.Level.LvlVal
  | .int i => .int i
  | .str s => .text s
  | .lvl l => .typed l
  | .kind k => .display k.display
  | .disp s => .display s

def lvlProps (props : List (String × Val)) : List (String × EmitModel.Level.LvlVal) :=
  props.map fun kv => (kv.1, kv.2.toLvlVal)

/-- `MinLevelFilter::matches` (src/level.rs:254-264) on a pipeline event. -/
def minLevelLeaf (f : EmitModel.Level.MinF) (x : Evt) : Bool := f.matches (lvlProps x.props)

/-- `MinLevelPathMap::matches` (src/level.rs:364-386) on a pipeline event: the module selects the filter. -/
def pathMapLeaf (regs : List EmitModel.Level.Reg) (x : Evt) : Bool :=
  EmitModel.Level.pathMapMatches regs x.mdl (lvlProps x.props)

/-- `FromValue for Kind` (src/kind.rs:88-95): downcast, else parse the string / the `Display` text. -/
def Val.toKind : Val → Option Kind
  | .kind k => some k
  | .str s => EmitModel.KindText.parseKind s
  | .int i => EmitModel.KindText.parseKind (toString i)
  | .lvl l => EmitModel.KindText.parseKind l.display
  | .disp s => EmitModel.KindText.parseKind s

/-- first-wins lookup (the default `Props::get`) -/
def lookupFirst (k : String) : List (String × Val) → Option Val
  | [] => none
  | (k', v) :: rest => if k' == k then some v else lookupFirst k rest

/-- `KindFilter::matches` (src/kind.rs:165-169): `props.pull::<Kind, _>("evt_kind") == Some(self.0)`;
    `is_span_filter()` = `KindFilter::new(Kind::Span)`, `is_metric_filter()` = `KindFilter::new(Kind::Metric)`. -/
def kindLeaf (k : Kind) (x : Evt) : Bool := (lookupFirst "evt_kind" x.props).bind Val.toKind == some k

/-! ### The level macros (macros/src/lib.rs)

  `emit!` / `debug!` / `info!` / `warn!` / `error!` (:679-750), `evt!` / `debug_evt!` … `error_evt!` (:262-340),
  `#[span]` / `#[debug_span]` … `#[error_span]` (:380-480) and `new_span!` / `new_debug_span!` … (:520-590) differ
  only in the `level: Option<TokenStream>` they hand to the shared expansion. -/

inductive LevelMacro where
  | plain | debug | info | warn | error
  deriving DecidableEq, Repr, Inhabited

/-- `level: None` for the plain forms, `Some(quote!(emit::Level::X))` for the `x` forms. -/
def LevelMacro.level : LevelMacro → Option Level
  | .plain => none
  | .debug => some .debug
  | .info => some .info
  | .warn => some .warn
  | .error => some .error

/-- macros/src/props.rs:62-85: call-site properties are kept in a `BTreeMap<String, _>` and enumerated in key
    order; a new key is enumerated at its sorted position (duplicate keys are a compile error). -/
def insertProp (k : String) (v : Val) : List (String × Val) → List (String × Val)
  | [] => [(k, v)]
  | (k', v') :: rest => if k < k' then (k, v) :: (k', v') :: rest else (k', v') :: insertProp k v rest

/-- macros/src/props.rs:237-248 `push_evt_props`: the level is pushed as the call-site property `lvl`, captured
    as a typed `emit::Level`. `props` are the user's call-site properties in key order. -/
def macroProps (m : LevelMacro) (props : List (String × Val)) : List (String × Val) :=
  match m.level with
  | none => props
  | some l => insertProp "lvl" (.lvl l) props

/-- `emit::<m>!(rt, [when: w,] mdl, extent, props: base, "tpl", k: v…)` → `__private_emit`
    (macros/src/emit.rs:142-160). -/
def macroEmit (ρ : Nat → Evt → Bool) (μ : Nat → Evt → Evt) (rt : Rt) (callSite : Option Flt) (m : LevelMacro)
    (mdl tpl : String) (extent : Option Extent) (base props : List (String × Val)) : List Obs :=
  hookEmit ρ μ rt callSite mdl tpl extent base (macroProps m props)

/-- `emit::<m>_evt!(mdl, extent, props: base, "tpl", k: v…)` → `__private_evt` (macros/src/build.rs:175-199,
    src/macro_hooks.rs:803-817): an event value; nothing is emitted. -/
def macroEvt (m : LevelMacro) (mdl tpl : String) (extent : Option Extent) (base props : List (String × Val)) : Evt :=
  { mdl := mdl, tpl := tpl, extent := extent, props := macroProps m props ++ base }

/-- `emit::<m>!(rt, [when: w,] evt: e [, "tpl", k: v…])` → `__private_emit_event` (macros/src/emit.rs:121-140):
    the outer macro's own level and properties go in front of the event's. -/
def macroEmitEvt (ρ : Nat → Evt → Bool) (μ : Nat → Evt → Evt) (rt : Rt) (callSite : Option Flt) (m : LevelMacro)
    (e : Evt) (tpl : Option String) (props : List (String × Val)) : List Obs :=
  hookEmitEvent ρ μ rt callSite e tpl (macroProps m props)

/-! ### The span macros: the level is shown to the filter on the span-start event -/

def lvlProp (m : LevelMacro) : List (String × Val) :=
  match m.level with
  | none => []
  | some l => [("lvl", .lvl l)]

/-- The event `SpanGuard::new` (src/span.rs:923-940) presents to `__PrivateBeginSpanFilter`
    (src/macro_hooks.rs:853-872): a `Span` without extent carrying `evt_kind`, `span_name`, the span's own
    (empty) properties, the call-site `ctxt_props`, the generated ids, the current ambient properties — and, put
    BEHIND all of them by the begin-span filter, the macro's level as `lvl`. -/
def spanStartEvt (m : LevelMacro) (mdl name : String) (ctxtProps ids amb : List (String × Val)) : Evt :=
  { mdl := mdl, tpl := "{span_name} started", extent := none
    props := [("evt_kind", .kind .span), ("span_name", .str name)] ++ ctxtProps ++ ids ++ amb ++ lvlProp m }

/-- The verdict that enables or disables the span: the call-site `when` if given, else the runtime's filter
    (`FirstDefined`), on the start event. -/
def spanEnabled (ρ : Nat → Evt → Bool) (rt : Rt) (callSite : Option Flt) (m : LevelMacro) (mdl name : String)
    (ctxtProps ids : List (String × Val)) : Bool × List Obs :=
  firstDefined ρ callSite rt.filter (spanStartEvt m mdl name ctxtProps ids rt.amb)

/-- The ambient properties inside the span's frame: `Frame::push(ctxt, ctxt_props.and_props(span_ctxt))` when
    enabled, `Frame::disabled` (nothing pushed) otherwise (src/span.rs:963-971). -/
def spanInner (enabled : Bool) (ctxtProps ids amb : List (String × Val)) : List (String × Val) :=
  if enabled then ctxtProps ++ ids ++ amb else amb

/-- The completion event: `__PrivateCompleteSpan::complete` (src/macro_hooks.rs:896-920) →
    `completion::Default` with the macro's template and level (src/span.rs:1156-1226) →
    `emit_core::emit(emitter, Empty, ctxt, Empty, …)`: level first, then `evt_kind`, `span_name`, then the ambient
    properties of the frame it completes in; the extent is the timer's two clock readings, if there are any. -/
def spanDoneEvt (m : LevelMacro) (mdl name : String) (clk : Option Nat) (inner : List (String × Val)) : Evt :=
  { mdl := mdl, tpl := name, extent := clk.map fun t => Extent.range t t
    props := lvlProp m ++ [("evt_kind", .kind .span), ("span_name", .str name)] ++ inner }

/-- A whole macro-instrumented span whose body sends `body` straight through the runtime's emitter with the
    ambient context (`emit_core::emit(rt.emitter(), Empty, rt.ctxt(), Empty, body)`), so that the frame's
    properties become visible. The span completes when the body ends, inside the frame. -/
def spanMacro (ρ : Nat → Evt → Bool) (μ : Nat → Evt → Evt) (rt : Rt) (callSite : Option Flt) (m : LevelMacro)
    (mdl name : String) (ctxtProps ids : List (String × Val)) (body : Evt) : List Obs :=
  let r := spanEnabled ρ rt callSite m mdl name ctxtProps ids
  let inner := spanInner r.1 ctxtProps ids rt.amb
  r.2 ++ rt.emitter.run ρ μ { body with props := body.props ++ inner } ++
    (if r.1 then rt.emitter.run ρ μ (spanDoneEvt m mdl name rt.clk inner) else [])

end EmitModel.Pipeline
