/-
  Model/Pipeline.lean — executable model of emit's event pipeline (property C01).

  Mirrors, branch by branch:
    core/src/lib.rs:56-79          `emit()`: with_current → extent-or-clock → props.and_props(ctxt) → filter → emitter
    core/src/filter.rs:54-92       Filter for &F / Box<F> / Arc<F> / Option<F> / Empty
    core/src/filter.rs:127-164     Always, And (short-circuit `&&`), Or (short-circuit `||`)
    core/src/filter.rs:166-214     type-erased dispatch (dyn ErasedFilter)
    core/src/emitter.rs:66-122     Emitter for &T / Box<T> / Arc<T> / Option<T> / Empty
    core/src/emitter.rs:146-186    FromFn leaf (flush = true), And (both sides, flush with timeout/2 each)
    core/src/emitter.rs:213-222    Wrap (emit through the wrapping, flush defers)
    core/src/emitter.rs:258-310    wrapping::FromFn (here: "map the event, forward once"), wrapping::FromFilter
    core/src/emitter.rs:430-476    type-erased dispatch (dyn ErasedEmitter)
    core/src/runtime.rs:300-315    Runtime::emit, Emitter for Runtime
    core/src/runtime.rs:404-420    AssertInternal
    src/macro_hooks.rs:707-719     FirstDefined (the call-site `when` REPLACES the runtime filter)
    src/macro_hooks.rs:754-801     __private_emit / __private_emit_event

  Everything observable is a list of `Obs` in call order: which leaf filter was asked about which event,
  which leaf emitter received which event. Import-free (linked into the driver executable).
-/
namespace EmitModel.Pipeline

/-- Property values. Only identity matters for C01 (what was delivered is what was built). -/
inductive Val where
  | int (i : Int)
  | str (s : String)
  deriving DecidableEq, Repr, Inhabited

/-- core/src/extent.rs: a point in time or a range; timestamps are nanoseconds since the epoch. -/
inductive Extent where
  | point (t : Nat)
  | range (a b : Nat)
  deriving DecidableEq, Repr, Inhabited

/-- core/src/event.rs:25-37. `props` is the enumeration order of `Props::for_each` (duplicates kept). -/
structure Evt where
  mdl : String
  tpl : String
  extent : Option Extent
  props : List (String × Val)
  deriving DecidableEq, Repr, Inhabited

/-- One observable effect. -/
inductive Obs where
  /-- leaf filter `i` was asked whether it matches `x` -/
  | flt (i : Nat) (x : Evt)
  /-- leaf emitter `i` received `x` -/
  | dlv (i : Nat) (x : Evt)
  deriving DecidableEq, Repr, Inhabited

def Obs.dlv? : Obs → Option (Nat × Evt)
  | .dlv i x => some (i, x)
  | .flt _ _ => none

def Obs.flt? : Obs → Option (Nat × Evt)
  | .flt i x => some (i, x)
  | .dlv _ _ => none

/-! ### Filters -/

/-- Filter expression trees over the public combinators. `leaf i` is a user filter (its verdict is the
    parameter `ρ i`), the last five constructors are the transparent layers: `&F`, `Box<F>`, `Arc<F>`,
    `dyn ErasedFilter` (behind a box / arc / reference) and `AssertInternal<F>`. -/
inductive Flt where
  | leaf (i : Nat)
  | always
  | empty
  | and (a b : Flt)
  | or (a b : Flt)
  | opt (o : Option Flt)
  | ref (f : Flt)
  | boxed (f : Flt)
  | shared (f : Flt)
  | erased (f : Flt)
  | internal (f : Flt)
  deriving Repr, Inhabited

/-- `Filter::matches` with the log of leaf calls it makes, in call order. -/
def Flt.evalTrace (ρ : Nat → Evt → Bool) : Flt → Evt → Bool × List Obs
  | .leaf i, x => (ρ i x, [.flt i x])
  -- filter.rs:141-145
  | .always, _ => (true, [])
  -- filter.rs:86-90
  | .empty, _ => (true, [])
  -- filter.rs:150-156: `self.left().matches(&evt) && self.right().matches(&evt)`
  | .and a b, x =>
    let ra := a.evalTrace ρ x
    if ra.1 then
      let rb := b.evalTrace ρ x
      (rb.1, ra.2 ++ rb.2)
    else (false, ra.2)
  -- filter.rs:158-164: `self.left().matches(&evt) || self.right().matches(&evt)`
  | .or a b, x =>
    let ra := a.evalTrace ρ x
    if ra.1 then (true, ra.2)
    else
      let rb := b.evalTrace ρ x
      (rb.1, ra.2 ++ rb.2)
  -- filter.rs:77-84: `None => Empty.matches(evt)`
  | .opt none, _ => (true, [])
  | .opt (some f), x => f.evalTrace ρ x
  -- filter.rs:54-58, 60-65, 67-72
  | .ref f, x => f.evalTrace ρ x
  | .boxed f, x => f.evalTrace ρ x
  | .shared f, x => f.evalTrace ρ x
  -- filter.rs:194-214: erase_filter().0.dispatch_matches(&evt.to_event().erase()) → self.matches(evt)
  | .erased f, x => f.evalTrace ρ x
  -- runtime.rs:416-420
  | .internal f, x => f.evalTrace ρ x

/-- The verdict of `Filter::matches`. -/
def Flt.eval (ρ : Nat → Evt → Bool) (f : Flt) (x : Evt) : Bool := (f.evalTrace ρ x).1

/-- The leaf calls `Filter::matches` makes, in order. -/
def Flt.calls (ρ : Nat → Evt → Bool) (f : Flt) (x : Evt) : List Obs := (f.evalTrace ρ x).2

/-! ### The pipeline of `emit_core::emit` -/

/-- core/src/lib.rs:66-72: `evt.extent().cloned().or_else(|| clock.now().to_extent())` and
    `map_props(|props| props.and_props(ctxt))` — own extent wins, own properties first. -/
def build (amb : List (String × Val)) (clk : Option Nat) (x : Evt) : Evt :=
  { x with
    extent := (match x.extent with
      | some e => some e
      | none => clk.map Extent.point)
    props := x.props ++ amb }

/-- core/src/lib.rs:56-79 with the filter and the emitter abstracted as the functions they are called as:
    `ft` = `filter.matches` (verdict + leaf calls), `k` = `emitter.emit`. -/
def emitCore (k : Evt → List Obs) (ft : Evt → Bool × List Obs)
    (amb : List (String × Val)) (clk : Option Nat) (x : Evt) : List Obs :=
  let built := build amb clk x
  let r := ft built
  r.2 ++ (if r.1 then k built else [])

/-! ### Emitters -/

/-- Destination trees. `leaf i` is a user emitter whose `blocking_flush` is the parameter `φ i`;
    `fnLeaf i` is `emitter::from_fn` (flush is constantly `true`); `wrapMap g` is a `wrapping::from_fn`
    whose body forwards the event transformed by the user function `μ g` exactly once;
    `runtime` is a whole `Runtime` used through its `Emitter` impl (runtime.rs:305-315). -/
inductive Emt where
  | leaf (i : Nat)
  | fnLeaf (i : Nat)
  | empty
  | and (a b : Emt)
  | opt (o : Option Emt)
  | wrapFilter (f : Flt) (e : Emt)
  | wrapMap (g : Nat) (e : Emt)
  | ref (e : Emt)
  | boxed (e : Emt)
  | shared (e : Emt)
  | erased (e : Emt)
  | internal (e : Emt)
  | runtime (f : Flt) (amb : List (String × Val)) (clk : Option Nat) (e : Emt)
  deriving Repr, Inhabited

/-- `Emitter::emit`: every effect it causes, in call order. -/
def Emt.run (ρ : Nat → Evt → Bool) (μ : Nat → Evt → Evt) : Emt → Evt → List Obs
  | .leaf i, x => [.dlv i x]
  -- emitter.rs:146-154
  | .fnLeaf i, x => [.dlv i x]
  -- emitter.rs:111-117
  | .empty, _ => []
  -- emitter.rs:165-171: `self.left().emit(&evt); self.right().emit(&evt);`
  | .and a b, x => a.run ρ μ x ++ b.run ρ μ x
  -- emitter.rs:95-101: `None => Empty.emit(evt)`
  | .opt none, _ => []
  | .opt (some e), x => e.run ρ μ x
  -- emitter.rs:213-216 + 304-310: `if self.0.matches(&evt) { output.emit(evt) }`
  | .wrapFilter f e, x =>
    let r := f.evalTrace ρ x
    r.2 ++ (if r.1 then e.run ρ μ x else [])
  -- emitter.rs:213-216 + 273-277: the function is handed `&dyn ErasedEmitter` and the erased event
  | .wrapMap g e, x => e.run ρ μ (μ g x)
  -- emitter.rs:66-93
  | .ref e, x => e.run ρ μ x
  | .boxed e, x => e.run ρ μ x
  | .shared e, x => e.run ρ μ x
  -- emitter.rs:456-476
  | .erased e, x => e.run ρ μ x
  -- runtime.rs:404-412
  | .internal e, x => e.run ρ μ x
  -- runtime.rs:308-310 → 300-302 → lib.rs:56-79
  | .runtime f amb clk e, x => emitCore (fun y => e.run ρ μ y) (f.evalTrace ρ) amb clk x

/-- What each leaf emitter received, in call order. -/
def Emt.deliver (ρ : Nat → Evt → Bool) (μ : Nat → Evt → Evt) (e : Emt) (x : Evt) : List (Nat × Evt) :=
  (e.run ρ μ x).filterMap Obs.dlv?

/-- `Emitter::blocking_flush`: the result and the `(leaf, timeout)` calls made on user emitters, in order.
    Timeouts are nanoseconds; `Duration / 2` is the floor of half the nanoseconds. -/
def Emt.flush (φ : Nat → Nat → Bool) : Emt → Nat → Bool × List (Nat × Nat)
  | .leaf i, t => (φ i t, [(i, t)])
  -- emitter.rs:151-153
  | .fnLeaf _, _ => (true, [])
  -- emitter.rs:114-116
  | .empty, _ => (true, [])
  -- emitter.rs:173-185: both sides are always flushed, each with `timeout / 2`; result `lhs && rhs`
  | .and a b, t =>
    let ra := a.flush φ (t / 2)
    let rb := b.flush φ (t / 2)
    (ra.1 && rb.1, ra.2 ++ rb.2)
  -- emitter.rs:103-108: `None => Empty.blocking_flush(timeout)`
  | .opt none, _ => (true, [])
  | .opt (some e), t => e.flush φ t
  -- emitter.rs:218-220
  | .wrapFilter _ e, t => e.flush φ t
  | .wrapMap _ e, t => e.flush φ t
  | .ref e, t => e.flush φ t
  | .boxed e, t => e.flush φ t
  | .shared e, t => e.flush φ t
  -- emitter.rs:463-465
  | .erased e, t => e.flush φ t
  -- runtime.rs:409-411
  | .internal e, t => e.flush φ t
  -- runtime.rs:312-314
  | .runtime _ _ _ e, t => e.flush φ t

/-! ### Runtimes and entry points -/

/-- core/src/runtime.rs:90-96 without the rng. The ctxt is represented by the ambient properties its
    `with_current` yields at the time of the call, the clock by its reading. -/
structure Rt where
  filter : Flt
  emitter : Emt
  amb : List (String × Val)
  clk : Option Nat
  deriving Repr, Inhabited

/-- src/macro_hooks.rs:707-719: `if let Some(ref first) = self.0 { return first.matches(evt); } self.1.matches(evt)`. -/
def firstDefined (ρ : Nat → Evt → Bool) (callSite : Option Flt) (rtf : Flt) (x : Evt) : Bool × List Obs :=
  match callSite with
  | some w => w.evalTrace ρ x
  | none => rtf.evalTrace ρ x

/-- Emitting through a runtime, with an optional call-site filter. `callSite = none` is
    `Runtime::emit` (runtime.rs:300-302) / `emit_core::emit` (lib.rs:56-79) on the runtime's components;
    `some w` is what the macro hooks do (macro_hooks.rs:764-776). -/
def emit (ρ : Nat → Evt → Bool) (μ : Nat → Evt → Evt) (rt : Rt) (callSite : Option Flt) (x : Evt) : List Obs :=
  emitCore (rt.emitter.run ρ μ) (firstDefined ρ callSite rt.filter) rt.amb rt.clk x

/-- src/macro_hooks.rs:754-777 `__private_emit`: the event is assembled from the control parameters, its
    properties are the call-site properties followed by the `props:` base properties. -/
def hookEmit (ρ : Nat → Evt → Bool) (μ : Nat → Evt → Evt) (rt : Rt) (callSite : Option Flt)
    (mdl tpl : String) (extent : Option Extent) (base props : List (String × Val)) : List Obs :=
  emit ρ μ rt callSite { mdl := mdl, tpl := tpl, extent := extent, props := props ++ base }

/-- src/macro_hooks.rs:779-801 `__private_emit_event`: optional template override, call-site properties
    are put in front of the event's own. -/
def hookEmitEvent (ρ : Nat → Evt → Bool) (μ : Nat → Evt → Evt) (rt : Rt) (callSite : Option Flt)
    (x : Evt) (tpl : Option String) (props : List (String × Val)) : List Obs :=
  emit ρ μ rt callSite
    { x with tpl := tpl.getD x.tpl, props := props ++ x.props }

/-- Emitting straight to the runtime's emitter (`rt.emitter().emit(evt)`). -/
def direct (ρ : Nat → Evt → Bool) (μ : Nat → Evt → Evt) (rt : Rt) (x : Evt) : List Obs :=
  rt.emitter.run ρ μ x

/-- Flushing a runtime (`Emitter for Runtime`, `Init::blocking_flush`): defers to the emitter. -/
def Rt.flush (φ : Nat → Nat → Bool) (rt : Rt) (t : Nat) : Bool × List (Nat × Nat) :=
  rt.emitter.flush φ t

end EmitModel.Pipeline
