/-
  Model/Level.lean — C17. Mirrors /repo/src/level.rs:
    * `Level` and its order (derive(Ord): Debug < Info < Warn < Error), Default = Info      (:63-101)
    * the lenient parser `FromStr for Level` + `parse`                                       (:121-190)
    * `FromValue for Level` (downcast, else parse text / Display text)                       (:205-212)
    * `MinLevelFilter::matches`                                                              (:254-264)
    * `MinLevelPathMap`: `PathNode` trie, `min_level` insertion into sorted children,
      `matches` walking segments keeping the deepest level seen                              (:292-386)
  and `Path::segments` = `str::split("::")` (/repo/core/src/path.rs:123-131).
-/
import Std

namespace EmitModel.Level

inductive Level where
  | debug | info | warn | error
  deriving Repr, DecidableEq, Inhabited

def Level.rank : Level → Nat
  | .debug => 0 | .info => 1 | .warn => 2 | .error => 3

/-- `a >= b` of the derived `Ord`. -/
def Level.ge (a b : Level) : Bool := decide (b.rank ≤ a.rank)

/-! ### The lenient parser (char-level; the Rust code works on bytes after `str::trim`) -/

/-- Rust's `char::is_whitespace` (Unicode `White_Space`). -/
def isRustWhitespace (c : Char) : Bool :=
  let n := c.toNat
  (0x09 ≤ n && n ≤ 0x0D) || n == 0x20 || n == 0x85 || n == 0xA0 || n == 0x1680 ||
  (0x2000 ≤ n && n ≤ 0x200A) || n == 0x2028 || n == 0x2029 || n == 0x202F || n == 0x205F || n == 0x3000

def trim (cs : List Char) : List Char :=
  ((cs.dropWhile isRustWhitespace).reverse.dropWhile isRustWhitespace).reverse

def isAsciiAlpha (c : Char) : Bool := ('a' ≤ c && c ≤ 'z') || ('A' ≤ c && c ≤ 'Z')
def asciiUpper (c : Char) : Char := if 'a' ≤ c && c ≤ 'z' then Char.ofNat (c.toNat - 32) else c
/-- `b.is_ascii() && !b.is_ascii_control()` -/
def isAsciiNonControl (c : Char) : Bool := c.toNat < 128 && !(c.toNat < 32 || c.toNat == 127)

/-- `fn parse(input, expected_uppercase, ok)` after both slices dropped their first element. -/
def parseTail : List Char → List Char → Bool
  | [], _ => true
  | c :: rest, expected =>
    if isAsciiAlpha c then
      match expected with
      | [] => false
      | e :: es => if asciiUpper c == e then parseTail rest es else false
    else if isAsciiNonControl c then true
    else false

def parseLevelChars (s : List Char) : Option Level :=
  match trim s with
  | [] => none
  | c :: rest =>
    if c == 'I' || c == 'i' then (if parseTail rest "NFORMATION".toList then some .info else none)
    else if c == 'D' || c == 'd' then
      (if parseTail rest "EBUG".toList || parseTail rest "BG".toList then some .debug else none)
    else if c == 'E' || c == 'e' then (if parseTail rest "RROR".toList then some .error else none)
    else if c == 'W' || c == 'w' then
      (if parseTail rest "ARNING".toList || parseTail rest "RN".toList then some .warn else none)
    else none

def parseLevel (s : String) : Option Level := parseLevelChars s.toList

def Level.display : Level → String
  | .debug => "debug" | .info => "info" | .warn => "warn" | .error => "error"

/-! ### Values that can sit under the `lvl` key -/

inductive LvlVal where
  | typed (l : Level)      -- a captured `emit::Level` (downcast succeeds)
  | text (s : String)      -- a string value: parsed directly
  | int (i : Int)          -- any other value: formatted with Display, then parsed
  | bool (b : Bool)
  | ownedTyped (l : Level) -- a captured Level after `Value::to_owned()`: the downcast no longer applies, its
                           --   Display text ("debug" | "info" | "warn" | "error") is parsed
  | display (s : String)   -- a Display-only value: formatted, then parsed
  | ownedText (s : String) -- a string after `to_owned()`: still visited as a string, parsed
  deriving Repr

def LvlVal.cast : LvlVal → Option Level
  | .typed l => some l
  | .text s => parseLevel s
  | .int i => parseLevel (toString i)
  | .bool b => parseLevel (if b then "true" else "false")
  | .ownedTyped l => parseLevel l.display
  | .display s => parseLevel s
  | .ownedText s => parseLevel s

/-- first-wins lookup (the default `Props::get`) -/
def lookupFirst (k : String) : List (String × LvlVal) → Option LvlVal
  | [] => none
  | (k', v) :: rest => if k' == k then some v else lookupFirst k rest

/-- `MinLevelFilter { min, default }` -/
structure MinF where
  min : Level
  dflt : Option Level
  deriving Repr, DecidableEq

/-- `props.pull::<Level>("lvl").or(default).unwrap_or(Level::default()) >= min` -/
def MinF.matches (f : MinF) (props : List (String × LvlVal)) : Bool :=
  let pulled := (lookupFirst "lvl" props).bind LvlVal.cast
  ((pulled.or f.dflt).getD .info).ge f.min

/-- The level the filter compares (exposed for the spec). -/
def effectiveLevel (dflt : Option Level) (props : List (String × LvlVal)) : Level :=
  (((lookupFirst "lvl" props).bind LvlVal.cast).or dflt).getD .info

/-! ### The path trie, generic in the segment type `α` (ordered by `cmp`) and the payload `β` -/

inductive Node (α β : Type) where
  | mk (lvl : Option β) (children : List (α × Node α β))

namespace Node
variable {α β : Type}

def lvl : Node α β → Option β | .mk l _ => l
def children : Node α β → List (α × Node α β) | .mk _ cs => cs

def empty : Node α β := .mk none []

/-- Inserting the remaining segments into a freshly created empty node: a chain. -/
def chain : List α → β → Node α β
  | [], f => .mk (some f) []
  | s :: rest, f => .mk none [(s, chain rest f)]

variable (cmp : α → α → Ordering)

/- `min_level`: per segment, `binary_search_by_key` on the sorted children; `Ok(idx)` descends, `Err(idx)`
   inserts an empty node at `idx` and descends into it. On strictly sorted children the binary search is
   determined: it finds the unique equal key, or the insertion point after all smaller keys. -/
mutual
def insert : Node α β → List α → β → Node α β
  | .mk _ cs, [], f => .mk (some f) cs
  | .mk l cs, s :: rest, f => .mk l (insertCh cs s rest f)
def insertCh : List (α × Node α β) → α → List α → β → List (α × Node α β)
  | [], s, rest, f => [(s, chain rest f)]
  | (k, n) :: cs, s, rest, f =>
    match cmp k s with
    | .lt => (k, n) :: insertCh cs s rest f
    | .eq => (k, insert n rest f) :: cs
    | .gt => (s, chain rest f) :: (k, n) :: cs
end

/- `matches`: walk the segments; `Err(_)` from the binary search breaks; `filter = node.min_level.or(filter)`. -/
mutual
def walk : Node α β → List α → Option β → Option β
  | .mk _ _, [], acc => acc
  | .mk _ cs, s :: rest, acc => walkCh cs s rest acc
def walkCh : List (α × Node α β) → α → List α → Option β → Option β
  | [], _, _, acc => acc
  | (k, n) :: cs, s, rest, acc =>
    match cmp k s with
    | .lt => walkCh cs s rest acc
    | .eq => walk n rest (n.lvl.or acc)
    | .gt => acc
end

/-- `let mut filter = self.root.min_level.as_ref(); for segment in … { … }` -/
def lookup (root : Node α β) (m : List α) : Option β := walk cmp root m root.lvl

end Node

/-! ### `Path::segments` = `str::split("::")` on chars -/

/-- Leftmost non-overlapping split on the two-char separator `::`. -/
def splitColons : List Char → List Char → List (List Char)
  | [], cur => [cur.reverse]
  | ':' :: ':' :: rest, cur => cur.reverse :: splitColons rest []
  | c :: rest, cur => splitColons rest (c :: cur)

def segments (p : String) : List String := (splitColons p.toList []).map String.ofList

/-! ### `MinLevelPathMap` -/

inductive Reg where
  | dflt (f : MinF)                 -- `default_min_level`
  | path (p : String) (f : MinF)    -- `min_level(path, f)`
  deriving Repr

def Reg.segs : Reg → List String
  | .dflt _ => []
  | .path p _ => segments p

def Reg.f : Reg → MinF
  | .dflt f => f
  | .path _ f => f

abbrev Trie := Node String MinF

def build (regs : List Reg) : Trie :=
  regs.foldl (fun n r => Node.insert compare n r.segs r.f) Node.empty

/-- `Filter for MinLevelPathMap`: `filter.matches(evt)` where `Option<&F>::None` matches everything. -/
def pathMapMatches (regs : List Reg) (mdl : String) (props : List (String × LvlVal)) : Bool :=
  match Node.lookup compare (build regs) (segments mdl) with
  | none => true
  | some f => f.matches props

/-! ### `Path::is_child_of` (/repo/core/src/path.rs:137-150) -/

/-- On chars: `parent` is a prefix of `child` and what follows is nothing or starts with `::`. (The byte-level
    `is_char_boundary(parent.len())` test is implied by the prefix comparison succeeding.) -/
def isChildOf (child parent : List Char) : Bool :=
  parent.isPrefixOf child &&
    ((child.drop parent.length).isEmpty || (child.drop parent.length).take 2 == [':', ':'])

/-- join segments with `::` -/
def joinSegs : List (List Char) → List Char
  | [] => []
  | [s] => s
  | s :: t :: rest => s ++ ':' :: ':' :: joinSegs (t :: rest)

/-! ### `From<Level> for MinLevelFilter` (src/level.rs:231-235) -/

/-- A bare `Level` handed to `min_level` / `default_min_level` / `min_by_path_filter` is
    `MinLevelFilter::new(min)`: that minimum, no unleveled default. -/
def MinF.ofLevel (l : Level) : MinF := ⟨l, none⟩

/-! ### `MinLevelFilter<L>` / `MinLevelPathMap<L>` at a user level type `L` (src/level.rs:226-264, 292-386)

  The code is generic in `L: for<'a> FromValue<'a> + Ord + Default`; nothing in it mentions `emit::Level`. -/

/-- What the generic code uses of `L`: `FromValue::from_value` (`cast`), `>=` of its `Ord` (`ge`), `Default`. -/
structure LevelType (L : Type) where
  cast : LvlVal → Option L
  ge : L → L → Bool
  default : L

/-- `MinLevelFilter<L> { min, default }` -/
structure MinG (L : Type) where
  min : L
  dflt : Option L
  deriving Repr

/-- `props.pull::<L, _>("lvl").as_ref().or_else(|| self.default.as_ref()).unwrap_or(&L::default()) >= &self.min` -/
def MinG.matches {L : Type} (T : LevelType L) (f : MinG L) (props : List (String × LvlVal)) : Bool :=
  T.ge ((((lookupFirst "lvl" props).bind T.cast).or f.dflt).getD T.default) f.min

/-- `L = emit::Level` -/
def emitLevel : LevelType Level := ⟨LvlVal.cast, Level.ge, .info⟩

/-- The trie built from (segments, payload) registrations, for any payload. -/
def buildG {β : Type} (regs : List (List String × β)) : Node String β :=
  regs.foldl (fun n r => Node.insert compare n r.1 r.2) Node.empty

/-- `Filter for MinLevelPathMap<L>` with the selected filter's verdict abstracted as `accept`. -/
def pathMapMatchesG {β : Type} (accept : β → Bool) (regs : List (List String × β)) (mdl : String) : Bool :=
  match Node.lookup compare (buildG regs) (segments mdl) with
  | none => true
  | some f => accept f

/-- The harness's user level type `Sev` (harness/hcore/src/streams/c17.rs): a syslog-style severity 0-7 where a
    SMALLER number is MORE severe (its `Ord` is the reverse of the numeric one), read from integer values only,
    `Default` = 6. -/
def sevType : LevelType Nat where
  cast
    | .int i => if 0 ≤ i ∧ i ≤ 7 then some i.toNat else none
    | _ => none
  ge a b := decide (a ≤ b)
  default := 6

end EmitModel.Level
