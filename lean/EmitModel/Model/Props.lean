/-
  Model/Props.lean — C02. Mirrors the `Props` impls of /repo (paths relative to /repo):
    core/src/props.rs   trait defaults `get` (:57-72), `pull` (:81-83), `is_unique` (:90-92);
                        `&P` (:128-147), `Option<P>` (:149-159), `Box<P>` (:162-169), `Arc<P>` (:172-179),
                        `(K, V)` (:181-192), `[P]` (:194-205), `[T; N]` (:207-217), `Empty` (:219-234),
                        `And<A, B>` (:236-250), `Dedup<P>` (:273-306), `BTreeMap` (:308-331),
                        `HashMap` (:396-419), `AsMap<P>` (:457-476), `dyn ErasedProps` (:588-620)
    src/macro_hooks.rs  `__PrivateMacroProps` (:1021-1060) — the collection `emit::props!`, `emit::emit!`,
                        `#[emit::span]` … build; macros/src/props.rs (:74-84, :165-181) sorts the fields by
                        IDENTIFIER in a `BTreeMap<String, KeyValue>`, `#[cfg]` removes array elements,
                        `#[emit::optional]` yields `None` values, `#[emit::key(..)]` (macros/src/key.rs:75-91)
                        renames the runtime key after sorting.

  Every function is written as the impl is: `forEach` is the state-passing reading of
  `for_each<F: FnMut(Str, Value) -> ControlFlow<()>>` (the visitor returns its new state and `true` for `Break`),
  `get` is the override where the impl has one and the default scan (a `for_each` with a breaking visitor)
  where it has none, `isUnique` likewise. `enum` is the enumeration order (what a never-breaking visitor sees).
-/
import Std
import EmitModel.Base.Assoc

namespace EmitModel.Props
open EmitModel.Assoc

/-- The values the harness stores (`i64` and `String` captured through `ToValue`) and the typed values the views
    synthesise: `tok "t" n` a `Timestamp` (n nanoseconds after the epoch), `tok "T" n` a `TraceId`, `tok "S" n` a
    `SpanId`, `tok "k" 0|1` `Kind::Span|Metric`. -/
inductive Val where
  | int (i : Int)
  | str (s : String)
  | tok (tag : String) (n : Nat)
  deriving DecidableEq, Repr, Inhabited

/-- `Value::cast::<i64>()`: integers convert, text and the typed tokens do not. -/
def Val.castInt : Val → Option Int
  | .int i => some i
  | .str _ => none
  | .tok _ _ => none

/-- `Display` of a value (template rendering writes holes with `{}`); tokens never reach a rendered template in the
    streams, their text is only a placeholder. -/
def Val.display : Val → String
  | .int i => toString i
  | .str s => s
  | .tok tag n => tag ++ toString n

/-- One constructor per public collection. Keys are `String`s compared like Rust `str` (`Str: Ord` delegates to
    `str::cmp`, core/src/str.rs:216-220). -/
inductive P where
  | pair (k : String) (v : Val)                 -- `(K, V)`
  | slice (ps : List P)                         -- `[P]` (also `Vec<P>` through deref)
  | arr (ps : List P)                           -- `[P; N]`, forwards to the slice impl
  | btree (es : List (String × Val))            -- `BTreeMap<K, V>`: entries in iteration (= key) order
  | hash (es : List (String × Val))             -- `HashMap<K, V>`: entries in its (arbitrary, fixed) iteration order
  | optNone                                     -- `Option<P>::None`
  | optSome (p : P)                             -- `Option<P>::Some`
  | and (a b : P)                               -- `And<A, B>` (`a.and_props(b)`)
  | ref (p : P)                                 -- `&P`
  | boxed (p : P)                               -- `Box<P>`
  | shared (p : P)                              -- `Arc<P>`
  | erased (p : P)                              -- `dyn ErasedProps` (behind `&`, `Box` or `Arc`)
  | asMap (p : P)                               -- `AsMap<P>` (`p.as_map()`)
  | dedup (p : P)                               -- `Dedup<P>` (`p.dedup()`)
  | empty                                       -- `emit::Empty`
  | macro (es : List (String × Option Val))     -- `__PrivateMacroProps`: the runtime array `[(Str, Option<Value>); N]`
  | extentPoint (ts : Nat)                      -- `Extent::point`     core/src/extent.rs:182-195
  | extentRange (start end_ : Nat)              -- `Extent::range`
  | spanCtxt (trace span parent : Option Nat)   -- `SpanCtxt`          src/span.rs:814-834
  | spanView (name : String) (p : P)            -- `Span<P>`           src/span.rs:683-694
  | metricView (name agg : String) (value : Val) (p : P)   -- `Metric<P>`   src/metric.rs:282-295
  | frame (es : List (String × Val))            -- `ThreadLocalCtxtFrame` (a `HashMap`; `props: None` = no entries)
                                                --                     src/platform/thread_local_ctxt.rs:97-118
  | slot (p : P)                                -- `ctxt::Slot<T>` / `ErasedCurrent`: what `Option<C>` and `dyn ErasedCtxt`
                                                -- hand to `with_current`; forward `for_each` only  core/src/ctxt.rs:280-287, 342-349
  deriving Inhabited

/-- `is_unique`: the trait default is `false` (props.rs:90-92); overrides cited per arm. -/
def isUnique : P → Bool
  | .pair _ _ => true          -- :189-191
  | .slice _ => false          -- default
  | .arr _ => false            -- default
  | .btree _ => true           -- :328-330
  | .hash _ => true            -- :416-418
  | .optNone => false          -- default (Option<P> overrides nothing but for_each)
  | .optSome _ => false
  | .and _ _ => false          -- default
  | .ref p => isUnique p       -- :144-146
  | .boxed _ => false          -- default (Box<P> overrides nothing but for_each)
  | .shared _ => false         -- default (Arc<P> likewise)
  | .erased p => isUnique p    -- :617-619 → dispatch_is_unique :600-602
  | .asMap p => isUnique p     -- :473-475
  | .dedup _ => true           -- :303-305
  | .empty => true             -- :231-233
  | .macro _ => true           -- macro_hooks.rs:1057-1059
  | .extentPoint _ => false    -- default
  | .extentRange _ _ => false  -- default
  | .spanCtxt _ _ _ => false   -- default
  | .spanView _ _ => false     -- default
  | .metricView _ _ _ _ => false -- default
  | .frame _ => true           -- thread_local_ctxt.rs:115-117
  | .slot _ => false           -- default

/-- What `__PrivateMacroProps::for_each` yields: array order, `None` values skipped (macro_hooks.rs:1030-1043). -/
def macroEnum : List (String × Option Val) → List (String × Val)
  | [] => []
  | (k, some v) :: rest => (k, v) :: macroEnum rest
  | (_, none) :: rest => macroEnum rest

/-! ### The fixed pairs the views put in front of (or instead of) their inner collection -/

def tsVal (n : Nat) : Val := .tok "t" n

/-- `Extent` as props: `ts_start`, `ts` for a range; `ts` for a point (extent.rs:186-193). -/
def extentPairs : Option Nat → Nat → List (String × Val)
  | some start, end_ => [("ts_start", tsVal start), ("ts", tsVal end_)]
  | none, ts => [("ts", tsVal ts)]

/-- `SpanCtxt` as props: each id only when it is `Some`, in the order trace, span, parent (span.rs:819-831). -/
def spanCtxtPairs (trace span parent : Option Nat) : List (String × Val) :=
  (match trace with | some n => [("trace_id", Val.tok "T" n)] | none => []) ++
  (match span with | some n => [("span_id", Val.tok "S" n)] | none => []) ++
  (match parent with | some n => [("span_parent", Val.tok "S" n)] | none => [])

/-- `Span<P>`: `evt_kind`, `span_name`, then the inner props (span.rs:688-693). -/
def spanPairs (name : String) : List (String × Val) :=
  [("evt_kind", .tok "k" 0), ("span_name", .str name)]

/-- `Metric<P>`: `evt_kind`, `metric_name`, `metric_agg`, `metric_value`, then the inner props (metric.rs:287-294). -/
def metricPairs (name agg : String) (value : Val) : List (String × Val) :=
  [("evt_kind", .tok "k" 1), ("metric_name", .str name), ("metric_agg", .str agg), ("metric_value", value)]

/-! ### Enumeration order -/

mutual
/-- The pairs `for_each` passes to a visitor that never breaks, in order. -/
def enum : P → List (String × Val)
  | .pair k v => [(k, v)]
  | .slice ps => enumList ps
  | .arr ps => enumList ps
  | .btree es => es
  | .hash es => es
  | .optNone => []
  | .optSome p => enum p
  | .and a b => enum a ++ enum b
  | .ref p => enum p
  | .boxed p => enum p
  | .shared p => enum p
  | .erased p => enum p
  | .asMap p => enum p
  | .dedup p => if isUnique p then enum p else collectFirst compare (enum p)
  | .empty => []
  | .macro es => macroEnum es
  | .extentPoint ts => extentPairs none ts
  | .extentRange a b => extentPairs (some a) b
  | .spanCtxt t sp pa => spanCtxtPairs t sp pa
  | .spanView name p => spanPairs name ++ enum p
  | .metricView name agg v p => metricPairs name agg v ++ enum p
  | .frame es => es
  | .slot p => enum p
def enumList : List P → List (String × Val)
  | [] => []
  | p :: ps => enum p ++ enumList ps
end

/-! ### `for_each` with an arbitrary visitor -/

/-- A visitor: `FnMut(Str, Value) -> ControlFlow<()>` with its captured state made explicit. `true` = `Break`. -/
abbrev Visitor (σ : Type) := σ → String → Val → σ × Bool

/-- `?` on a `ControlFlow`: stop with `Break`, or continue with the new state. -/
@[inline] def andThen {σ : Type} (r : σ × Bool) (k : σ → σ × Bool) : σ × Bool :=
  match r with
  | (s, true) => (s, true)
  | (s, false) => k s

mutual
/-- `Props::for_each`: returns the visitor's final state and whether the result is `ControlFlow::Break`. -/
def forEach : {σ : Type} → P → Visitor σ → σ → σ × Bool
  | _, .pair k v, f, s => f s k v                                        -- :182-187
  | _, .slice ps, f, s => forEachList ps f s                             -- :195-204  `p.for_each(&mut for_each)?`
  | _, .arr ps, f, s => forEachList ps f s                               -- :211-216
  | _, .btree es, f, s => foldUntil (fun s kv => f s kv.1 kv.2) s es     -- :313-322  `for_each(k, v)?`
  | _, .hash es, f, s => foldUntil (fun s kv => f s kv.1 kv.2) s es      -- :401-410
  | _, .optNone, _, s => (s, false)                                      -- :156  `None => Continue(())`
  | _, .optSome p, f, s => forEach p f s                                 -- :155
  | _, .and a b, f, s => andThen (forEach a f s) (fun s' => forEach b f s')   -- :237-243
  | _, .ref p, f, s => forEach p f s                                     -- :129-134
  | _, .boxed p, f, s => forEach p f s                                   -- :163-168
  | _, .shared p, f, s => forEach p f s                                  -- :173-178
  | _, .erased p, f, s => forEach p f s                                  -- :606-611 → :589-594
  | _, .asMap p, f, s => forEach p f s                                   -- :458-463
  | _, .dedup p, f, s =>                                                 -- :274-297
    if isUnique p then forEach p f s                                     --   "already unique" short-cut
    else
      -- inner pass: every pair goes into `seen.entry(key).or_insert(value)`; its own visitor never breaks and
      -- "any break from this iteration" is ignored
      let seen := (forEach p (fun (m : List (String × Val)) k v => (insertIfAbsent compare m k v, false)) []).1
      -- outer pass: `for (key, value) in seen { for_each(key, value)?; } Continue(())`
      foldUntil (fun s kv => f s kv.1 kv.2) s seen
  | _, .empty, _, s => (s, false)                                        -- :220-225
  | _, .macro es, f, s =>                                                -- macro_hooks.rs:1030-1043
    foldUntil (fun s kv => match kv.2 with
                           | some v => f s kv.1 v
                           | none => (s, false)) s es
  -- the views below are straight-line sequences of `for_each(key, value)?;` over their fixed pairs
  | _, .extentPoint ts, f, s => foldUntil (fun s kv => f s kv.1 kv.2) s (extentPairs none ts)
  | _, .extentRange a b, f, s => foldUntil (fun s kv => f s kv.1 kv.2) s (extentPairs (some a) b)
  | _, .spanCtxt t sp pa, f, s => foldUntil (fun s kv => f s kv.1 kv.2) s (spanCtxtPairs t sp pa)
  | _, .spanView name p, f, s =>                                         -- … then `self.props.for_each(&mut for_each)`
    andThen (foldUntil (fun s kv => f s kv.1 kv.2) s (spanPairs name)) (fun s' => forEach p f s')
  | _, .metricView name agg v p, f, s =>
    andThen (foldUntil (fun s kv => f s kv.1 kv.2) s (metricPairs name agg v)) (fun s' => forEach p f s')
  | _, .frame es, f, s => foldUntil (fun s kv => f s kv.1 kv.2) s es     -- thread_local_ctxt.rs:98-109
  | _, .slot p, f, s => forEach p f s                                    -- ctxt.rs:281-286, 343-348
def forEachList : {σ : Type} → List P → Visitor σ → σ → σ × Bool
  | _, [], _, s => (s, false)
  | _, p :: ps, f, s => andThen (forEach p f s) (fun s' => forEachList ps f s')
end

/-! ### Lookup -/

/-- The trait default `Props::get` (props.rs:57-72): a `for_each` whose visitor stores the value and breaks at the
    first pair whose key equals the wanted one. -/
def scan (p : P) (key : String) : Option Val :=
  (forEach p (fun (value : Option Val) k v => if k = key then (some v, true) else (value, false)) none).1

/-- `BTreeMap::get`: search in key order; stops at the first key that is not smaller. -/
def btreeGet : List (String × Val) → String → Option Val
  | [], _ => none
  | (k, v) :: rest, q =>
    match compare k q with
    | .lt => btreeGet rest q
    | .eq => some v
    | .gt => none

/-- `HashMap::get`: the value of the entry whose key is equal (at most one in a hash map). -/
def hashGet (es : List (String × Val)) (q : String) : Option Val := lookupFirst q es

/-- `__PrivateMacroProps::get` (macro_hooks.rs:1045-1055, after the D1 fix): the first array element with the
    key that carries a value. -/
def macroGet : List (String × Option Val) → String → Option Val
  | [], _ => none
  | (k, some v) :: rest, q => if k = q then some v else macroGet rest q
  | (_, none) :: rest, q => macroGet rest q

/-- `Props::get`. -/
def get : P → String → Option Val
  | .pair k v, q => scan (.pair k v) q            -- default
  | .slice ps, q => scan (.slice ps) q            -- default
  | .arr ps, q => scan (.arr ps) q                -- default
  | .btree es, q => btreeGet es q                 -- :324-326
  | .hash es, q => hashGet es q                   -- :412-414
  | .optNone, q => scan .optNone q                -- default
  | .optSome p, q => scan (.optSome p) q          -- default
  | .and a b, q =>                                -- :245-249  `left.get(key).or_else(|| right.get(key))`
    match get a q with
    | some v => some v
    | none => get b q
  | .ref p, q => get p q                          -- :136-138
  | .boxed p, q => scan (.boxed p) q              -- default
  | .shared p, q => scan (.shared p) q            -- default
  | .erased p, q => get p q                       -- :613-615 → dispatch_get :596-598
  | .asMap p, q => get p q                        -- :465-467
  | .dedup p, q => get p q                        -- :299-301
  | .empty, _ => none                             -- :227-229
  | .macro es, q => macroGet es q
  | .extentPoint ts, q => scan (.extentPoint ts) q                  -- default
  | .extentRange a b, q => scan (.extentRange a b) q                -- default
  | .spanCtxt t sp pa, q => scan (.spanCtxt t sp pa) q              -- default
  | .spanView name p, q => scan (.spanView name p) q                -- default
  | .metricView name agg v p, q => scan (.metricView name agg v p) q  -- default
  | .frame es, q => hashGet es q                                    -- thread_local_ctxt.rs:111-113
  | .slot p, q => scan (.slot p) q                                  -- default

/-- `Props::pull::<i64, _>` — default `get(key).and_then(cast)` (:81-83); `&P` (:140-142) and `AsMap` (:469-471)
    forward to the inner `pull`. -/
def pullInt : P → String → Option Int
  | .ref p, q => pullInt p q
  | .asMap p, q => pullInt p q
  | p, q => (get p q).bind Val.castInt

/-! ### Well-formedness: what the std maps guarantee about their own entry lists -/

mutual
/-- Every `btree` node lists strictly increasing keys, every `hash` node distinct keys, and the value-carrying
    elements of every macro array have distinct final keys (the macro only rejects duplicate *identifiers*). -/
def WF : P → Prop
  | .pair _ _ => True
  | .slice ps => WFList ps
  | .arr ps => WFList ps
  | .btree es => Sorted compare es
  | .hash es => (keys es).Nodup
  | .optNone => True
  | .optSome p => WF p
  | .and a b => WF a ∧ WF b
  | .ref p => WF p
  | .boxed p => WF p
  | .shared p => WF p
  | .erased p => WF p
  | .asMap p => WF p
  | .dedup p => WF p
  | .empty => True
  | .macro es => (keys (macroEnum es)).Nodup
  | .extentPoint _ => True
  | .extentRange _ _ => True
  | .spanCtxt _ _ _ => True
  | .spanView _ p => WF p
  | .metricView _ _ _ p => WF p
  | .frame es => (keys es).Nodup
  | .slot p => WF p
def WFList : List P → Prop
  | [] => True
  | p :: ps => WF p ∧ WFList ps
end

/-! ### Ambient frames -/

/-- `open_push` (thread_local_ctxt.rs:142-158) / `open_root` (:129-140, `cur = []`): every pair the pushed props
    enumerate goes into `HashMap::insert`, so within one push the LAST value of a duplicated key stays. The map is
    listed in key order (its real iteration order is arbitrary; see `hash`). -/
def pushInto (cur : List (String × Val)) (pushed : List (String × Val)) : List (String × Val) :=
  pushed.foldl (fun m kv => insertOverwrite compare m kv.1 kv.2) cur

/-! ### The `ControlFlow::Break` observable and template rendering -/

/-- The visitor the harness uses: counts its calls and breaks at call index `i` and at every later call. -/
def breakAt (i : Nat) : Visitor Nat := fun n _ _ => (n + 1, decide (i ≤ n))

/-- `(number of visitor calls, result is Break)` for the visitor that breaks at call index `i`. -/
def visits (p : P) (i : Nat) : Nat × Bool := forEach p (breakAt i) 0

/-- A template part: literal text or a hole naming a key (core/src/template.rs:555-575). -/
inductive Part where
  | text (s : String)
  | hole (label : String)

/-- `Template::render(props)`: a hole prints the value `props.get(label)` finds, else `{label}`. -/
def render (parts : List Part) (p : P) : String :=
  String.join (parts.map fun
    | .text s => s
    | .hole l => match get p l with
      | some v => v.display
      | none => "{" ++ l ++ "}")

/-! ### The expansion-time half of the macro collection -/

/-- One `key: value` field of a macro call site. -/
structure Field where
  ident : String          -- the identifier written at the call site (what the macro sorts by)
  key : String            -- the final runtime key: `ident`, or the `#[emit::key("…")]` name
  cfg : Bool              -- `#[cfg(…)]` evaluates to true (or there is none)
  val : Option Val        -- `None` for `#[emit::optional]` fields whose value is `None`
  deriving Repr, Inhabited

/-- macros/src/props.rs:165-186: fields are inserted into a `BTreeMap` keyed by identifier; a second field with
    the same identifier is a compile error ("keys cannot be duplicated"), also when one of them is cfg'd out. -/
def insertField : List (String × Field) → Field → Option (List (String × Field))
  | [], f => some [(f.ident, f)]
  | (k, g) :: rest, f =>
    match compare k f.ident with
    | .lt => (insertField rest f).map ((k, g) :: ·)
    | .eq => none
    | .gt => some ((f.ident, f) :: (k, g) :: rest)

def insertFields : List (String × Field) → List Field → Option (List (String × Field))
  | m, [] => some m
  | m, f :: fs => (insertField m f).bind (insertFields · fs)

/-- The runtime array of a call site, `none` when the macro rejects it: identifier order (:74-84), elements under a
    false `#[cfg]` removed, each element `(final key, Option value)`. -/
def expand (fields : List Field) : Option (List (String × Option Val)) :=
  (insertFields [] fields).map fun m => (m.filter (·.2.cfg)).map fun (_, f) => (f.key, f.val)

/-! ### The pre-fix lookup (defect D1), kept to document what was wrong -/

/-- The pre-fix `get`: `slice::binary_search_by` (core 1.95: `size` halves while `base` moves, no early exit, one
    final comparison) comparing the element's *runtime* key with the wanted key, over an array that is sorted by
    *identifier*. -/
def macroGetBinarySearch (es : List (String × Option Val)) (q : String) : Option Val :=
  let a := es.toArray
  let rec go (size base : Nat) (fuel : Nat) : Nat :=
    match fuel with
    | 0 => base
    | fuel + 1 =>
      if size > 1 then
        let half := size / 2
        let mid := base + half
        let base := if compare (a[mid]!).1 q == .gt then base else mid
        go (size - half) base fuel
      else base
  if a.size = 0 then none
  else
    let base := go a.size 0 a.size
    if compare (a[base]!).1 q == .eq then (a[base]!).2 else none

end EmitModel.Props
