/-
  Model/Term.lean — C13. The terminal writer, `write_event` of /repo/emitter/term/src/lib.rs:263-345 (without
  colors), and the sparkline of `write_timeseries` (:347-368).

  Only these parts of an event reach the terminal: span / trace id prefixes, the extent (local wall-clock time —
  the harness pins the zone to UTC — and a friendly duration), level, kind, first and last module segment, the
  message (template holes are written through sval_fmt tokens: text and Display captures raw, an error as its
  own message only, `null` as `()`), the error chain, and a sparkline for a sequence under `metric_value`.
  Every other property is ignored, whatever its value.
-/
import EmitModel.Model.AnyValue

namespace EmitModel.Encode

def pad2 (n : Nat) : String := (if n < 10 then "0" else "") ++ toString n
def pad3 (n : Nat) : String := (if n < 10 then "00" else if n < 100 then "0" else "") ++ toString n

/-- `write_timestamp` (:420-429) with a UTC local offset: `HH:MM:SS.mmm` -/
def clockText (t : Ts) : String :=
  let s := t.secs % 86400
  pad2 (s / 3600) ++ ":" ++ pad2 (s % 3600 / 60) ++ ":" ++ pad2 (s % 60) ++ "." ++ pad3 (t.nanos / 1000000)

/-- `friendly_duration` + `write_duration` (:431-476) -/
def durationText (nanos : Nat) : String :=
  if nanos < 2000 then toString nanos ++ "ns"
  else if nanos < 2000000 then toString (nanos / 1000) ++ "μs"
  else if nanos < 2000000000 then toString (nanos / 1000000) ++ "ms"
  else if nanos < 120000000000 then toString (nanos / 1000000000) ++ "s"
  else toString (nanos / 60000000000) ++ "m"

/-- `str::split("::")` on characters -/
def splitColons (cs : List Char) : List (List Char) :=
  let rec go : List Char → List Char → List (List Char) → List (List Char)
    | [], cur, acc => (cur.reverse :: acc).reverse
    | ':' :: ':' :: rest, cur, acc => go rest [] (cur.reverse :: acc)
    | c :: rest, cur, acc => go rest (c :: cur) acc
  go cs [] []

/-- what sval_fmt's token writer prints for a value in a template hole (`TokenWriter`, :478-540) -/
def PV.termText : PV → String
  | .simple .null => "()"
  | .simple (.err top _) => top
  | pv => pv.display

def termPart (props : List (String × PV)) : Part → String
  | .text s => s
  | .hole l => match lookupFirst l props with
    | some v => v.termText
    | none => "{" ++ l ++ "}"

def termMsg (props : List (String × PV)) : List Part → String
  | [] => ""
  | p :: ps => termPart props p ++ termMsg props ps

/-! ### `Value::to_f64_sequence` (value.rs:473-485) for the value shapes the stream generates: a flat sequence
    of scalars; each element through value_bag's LOSSLESS `to_f64` (floats; integers that fit 32 bits), anything
    else is NaN. `none` = not a sequence. Values outside this fragment are not modelled (`unsupported`). -/

inductive SeqView where
  | notSeq
  | seq (bits : List UInt64)
  | unsupported

def nanBits : UInt64 := 0x7FF8000000000000

def elemF64 : V → Option UInt64
  | .null => some nanBits
  | .bool _ => some nanBits
  | .text _ => some nanBits
  | .f64 b _ _ => some b
  | .f32 b _ _ => some b
  | .int i =>
    -- u32 / i32 fit; the unsigned-only window 2^31 ≤ i < 2^32 depends on the Rust integer type: not modelled
    if -(2 : Int) ^ 31 ≤ i ∧ i < (2 : Int) ^ 31 then some (Float.ofInt i).toBits
    else if (2 : Int) ^ 31 ≤ i ∧ i < (2 : Int) ^ 32 then none
    else some nanBits
  | _ => none

def elemsF64 : List V → Option (List UInt64)
  | [] => some []
  | x :: xs => match elemF64 x, elemsF64 xs with
    | some b, some bs => some (b :: bs)
    | _, _ => none

def seqView : PV → SeqView
  | .simple _ => .notSeq
  | .tree (.seq xs) _ => match elemsF64 xs with
    | some bs => .seq bs
    | none => .unsupported
  | .tree (.null) _ => .notSeq
  | .tree (.bool _) _ => .notSeq
  | .tree (.int _) _ => .notSeq
  | .tree (.f64 _ _ _) _ => .notSeq
  | .tree (.text _) _ => .notSeq
  | .tree _ _ => .unsupported

/-! ### the sparkline (:347-368) -/

/-- position of a double in `f64::total_cmp`'s order -/
def totalKey (bits : UInt64) : Nat :=
  if bits.toNat ≥ 2 ^ 63 then 2 ^ 64 - 1 - bits.toNat else bits.toNat + 2 ^ 63

/-- `cmp::min_by(v, acc, total_cmp)` / `cmp::max_by(v, acc, total_cmp)` folded from `NAN` / `-NAN` -/
def bucketMin (bs : List UInt64) : UInt64 :=
  bs.foldl (fun acc v => if totalKey v ≤ totalKey acc then v else acc) 0x7FF8000000000000
def bucketMax (bs : List UInt64) : UInt64 :=
  bs.foldl (fun acc v => if totalKey v > totalKey acc then v else acc) 0xFFF8000000000000

/-- `(((v - min) / (max - min)) * 6.0).ceil() as usize` — IEEE arithmetic, saturating cast (NaN ↦ 0) -/
def blockIndex (mn mx v : UInt64) : Nat :=
  let x := ((Float.ofBits v - Float.ofBits mn) / (Float.ofBits mx - Float.ofBits mn)) * 6.0
  x.ceil.toUInt64.toNat

def blocks : List String := ["▁", "▂", "▃", "▄", "▅", "▆", "▇"]

/-- `BLOCKS[idx]` panics for `idx > 6` -/
def sparkline (bs : List UInt64) : Enc String :=
  let mn := bucketMin bs
  let mx := bucketMax bs
  let rec go : List UInt64 → Enc String
    | [] => .ok "\n"
    | v :: rest => match blocks[blockIndex mn mx v]? with
      | some b => (go rest).bind fun s => .ok (b ++ s)
      | none => .panic
  go bs

/-- the exact counterpart of `blockIndex` on integers `mn ≤ v ≤ mx`, `mn < mx`:
    `⌈(v - mn) / (mx - mn) · 6⌉` -/
def blockIndexExact (mn mx v : Int) : Int := ((v - mn) * 6 + (mx - mn) - 1) / (mx - mn)

/-! ### the whole event -/

/-- `none` = a `metric_value` outside the modelled fragment -/
def termOutput (e : Event) : Option (Enc String) :=
  let ps := e.props
  let ids : String := match (lookupFirst "span_id" ps).bind (PV.castId 64) with
    | none => ""
    | some sid =>
      (match (lookupFirst "trace_id" ps).bind (PV.castId 128) with
        | some tid => "▓ " ++ String.ofList ((hexFixed 32 tid).take 6) ++ " "
        | none => "░      ")
      ++ "▓ " ++ String.ofList ((hexFixed 16 sid).take 4) ++ " "
  let ext : String := match e.extent with
    | .none => ""
    | .point t => clockText t ++ " "
    | .range a b =>
      -- `extent.len()` is `None` for a reversed range (timestamp.rs:146-148)
      if a.unixNanos ≤ b.unixNanos then clockText b ++ " " ++ durationText (b.unixNanos - a.unixNanos) ++ " "
      else clockText a ++ ".." ++ clockText b ++ " "
  let lvl : String := match (lookupFirst "lvl" ps).bind PV.castLevel with
    | some l => l.display ++ " "
    | none => ""
  let kind : String := match lookupFirst "evt_kind" ps with
    | some k => k.display ++ " "
    | none => ""
  let mdl : String := match splitColons e.mdl.toList with
    | [] => ""
    | [first] => String.ofList first ++ " "
    | first :: rest => String.ofList first ++ " " ++ String.ofList (rest.getLastD []) ++ " "
  let err : String := match (lookupFirst "err" ps).bind PV.error? with
    | some (top, causes) => "  err: " ++ top ++ "\n" ++ String.join (causes.map fun c => "  caused by: " ++ c ++ "\n")
    | none => ""
  let head := ids ++ ext ++ lvl ++ kind ++ mdl ++ termMsg ps e.tpl ++ "\n" ++ err
  match lookupFirst "metric_value" ps with
  | none => some (.ok head)
  | some mv => match seqView mv with
    | .unsupported => none
    | .notSeq => some (.ok head)
    | .seq [] => some (.ok head)
    | .seq bs => some ((sparkline bs).bind fun s => .ok (head ++ s))

end EmitModel.Encode
