/-
  Model/Value.lean — C13. Events and property values as the encoders see them.

  An `emit::Value` wraps a `value_bag::ValueBag` (/repo/core/src/value.rs:29-30). The encoders observe it only
  through
    * its `sval` stream (`impl sval::Value for Value`, value.rs:270-275)            → `V`, the sval-level tree
    * its `Display`    (`impl Display for Value`, value.rs:241-268)                  → `PV.display`
    * casts: `to_borrowed_error`, `cast::<Level|TraceId|SpanId>`, `to_cow_str`       → below
  `V` is the image of a Rust value under value_bag/sval; the table Rust value ↦ `V` is `Simple.image`
  (primitives, strings, Display/Debug/error captures, typed level/ids) and, for values captured through
  `sval` (`Value::from_sval`), the tree the harness streams. The correspondence streams validate it.
-/
import EmitModel.Model.Level

namespace EmitModel.Encode
open EmitModel.Level (Level parseLevel)

/-- The sval data model as far as the encoders distinguish it. Integers of every width are one constructor:
    every consumer here (sval_json's `itoa`, the `u8..u128 → i64/u128/i128` defaults of `sval::Stream`)
    depends on the numeric value only. `Option::None`, `()` and a missing value are all `null`
    (`tag(RUST_OPTION_NONE)` / `tag(RUST_UNIT)` default to `null`, sval-2.22.0/src/stream.rs:1590-1616). -/
inductive V where
  | null
  | bool (b : Bool)
  | int (i : Int)
  /-- `f64`: IEEE bits, the token `ryu` prints for it in JSON (finite values), its Rust `Display` text -/
  | f64 (bits : UInt64) (tok : String) (disp : String)
  /-- `f32`: bits of the value widened to f64 (`as f64`), the token `ryu` prints for the f32 in JSON, the
      `Display` text of the widened value -/
  | f32 (bits : UInt64) (tok : String) (disp : String)
  | text (s : String)
  | bytes (bs : List UInt8)
  | seq (xs : List V)
  | map (kvs : List (V × V))
  | record (fs : List (String × V))
  | tuple (xs : List V)
  /-- `Option::Some(v)`: `tagged_begin(RUST_OPTION_SOME, "Some", 1)` -/
  | some (v : V)
  /-- unit struct / unit enum variant: `tag(_, label, _)` -/
  | uvar (l : String)
  /-- newtype enum variant `E::L(v)` inside `enum_begin … enum_end` -/
  | nvar (l : String) (v : V)
  /-- struct enum variant `E::L { … }` -/
  | svar (l : String) (fs : List (String × V))
  /-- tuple enum variant `E::L(…)` -/
  | tvar (l : String) (xs : List V)
  deriving Inhabited

/-- exponent field all ones ⇔ NaN or ±inf -/
def isFiniteBits (bits : UInt64) : Bool := (bits.toNat / 2 ^ 52) % 2048 != 2047

/-- `emit::Kind` (/repo/src/kind.rs:41-60) -/
inductive Kind where
  | span | metric
  deriving DecidableEq, Inhabited

def Kind.display : Kind → String
  | .span => "span" | .metric => "metric"

/-! ### Simple captured values (primitives, strings, Display/Debug/error captures, typed well-known values) -/

inductive Simple where
  | null
  | bool (b : Bool)
  | int (i : Int)
  | f64 (bits : UInt64) (tok : String) (disp : String)
  | str (s : String)
  /-- `Value::capture_display` / `from_display` of something printing `s` -/
  | disp (s : String)
  /-- `Value::capture_debug` / `from_debug` of something whose Debug prints `s` -/
  | dbg (s : String)
  /-- `Value::capture_error`: the error's own message and the messages of its `source()` chain -/
  | err (top : String) (causes : List String)
  /-- a captured `emit::Level` -/
  | lvl (l : Level)
  /-- a captured `emit::TraceId` (non-zero u128) -/
  | tid (n : Nat)
  /-- a captured `emit::SpanId` (non-zero u64) -/
  | sid (n : Nat)
  /-- a captured `emit::Kind` -/
  | kind (k : Kind)
  deriving Inhabited

/-- A property value: a simple capture, or a value captured through `sval` together with the text its
    `Display` prints (sval_fmt — third party, supplied by the harness, only used when a template hole or a
    lenient cast formats the value). -/
inductive PV where
  | simple (s : Simple)
  | tree (v : V) (disp : String)
  deriving Inhabited

def hexDigitLower (n : Nat) : Char :=
  if n < 10 then Char.ofNat (48 + n) else Char.ofNat (87 + n)

/-- fixed-width lower-case hex, most significant digit first (`TraceId::to_hex`, `SpanId::to_hex`) -/
def hexFixed : Nat → Nat → List Char
  | 0, _ => []
  | w + 1, n => hexFixed w (n / 16) ++ [hexDigitLower (n % 16)]

def hexString (w n : Nat) : String := String.ofList (hexFixed w n)

/-- `impl Display for Value` (value.rs:241-268): an error prints `"{err} ({root})"` when it has a source
    chain; everything else is value_bag's Display. -/
def Simple.display : Simple → String
  | .null => "None"
  | .bool b => if b then "true" else "false"
  | .int i => toString i
  | .f64 _ _ d => d
  | .str s => s
  | .disp s => s
  | .dbg s => s
  | .err top causes => match causes.getLast? with
    | none => top
    | some root => top ++ " (" ++ root ++ ")"
  | .lvl l => l.display
  | .tid n => hexString 32 n
  | .sid n => hexString 16 n
  | .kind k => k.display

/-- The sval stream of a simple value (value-bag-1.14.1/src/internal/sval/v2.rs:140-215): integers through
    `u64/i64/u128/i128`, Display/Debug captures and errors as text (an error streams only its own message),
    typed level / ids were captured with `capture_display`. -/
def Simple.image : Simple → V
  | .null => .null
  | .bool b => .bool b
  | .int i => .int i
  | .f64 b t d => .f64 b t d
  | .str s => .text s
  | .disp s => .text s
  | .dbg s => .text s
  | .err top _ => .text top
  | .lvl l => .text l.display
  | .tid n => .text (hexString 32 n)
  | .sid n => .text (hexString 16 n)
  | .kind k => .text k.display

def PV.image : PV → V
  | .simple s => s.image
  | .tree v _ => v

def PV.display : PV → String
  | .simple s => s.display
  | .tree _ d => d

/-- `Value::to_borrowed_error` → message chain -/
def PV.error? : PV → Option (String × List String)
  | .simple (.err top causes) => some (top, causes)
  | _ => none

/-- integer view used by `u128::from_value` / `u64::from_value` (value-bag cast: any integer capture;
    `Option::Some` and newtype-variant wrappers are transparent for the visitor, whose `tagged_*` / `enum_*`
    are the no-op defaults) -/
def V.asInt? : V → Option Int
  | .int i => Option.some i
  | .some v => v.asInt?
  | .nvar _ v => v.asInt?
  | _ => Option.none

def PV.asInt? : PV → Option Int
  | .simple (.int i) => some i
  | .simple _ => none
  | .tree v _ => v.asInt?

/-- `Value::to_cow_str` : captured strings and sval text -/
def PV.str? : PV → Option String
  | .simple (.str s) => some s
  | .tree (.text s) _ => some s
  | _ => none

/-- `FromValue for Level` (/repo/src/level.rs:205-212): downcast, else parse the text / Display text. -/
def PV.castLevel : PV → Option Level
  | .simple (.lvl l) => some l
  | pv => parseLevel pv.display

def asciiLower (c : Char) : Char := if 'A' ≤ c ∧ c ≤ 'Z' then Char.ofNat (c.toNat + 32) else c

/-- `FromStr for Kind` (kind.rs:97-113): trim, then compare ignoring ASCII case -/
def parseKind (s : String) : Option Kind :=
  let t := (EmitModel.Level.trim s.toList).map asciiLower
  if t = "span".toList then some .span
  else if t = "metric".toList then some .metric
  else none

/-- `FromValue for Kind` (kind.rs:88-95): downcast, else parse the text / Display text -/
def PV.castKind : PV → Option Kind
  | .simple (.kind k) => some k
  | pv => parseKind pv.display

def hexVal (c : Char) : Option Nat :=
  if '0' ≤ c ∧ c ≤ '9' then some (c.toNat - 48)
  else if 'a' ≤ c ∧ c ≤ 'f' then some (c.toNat - 87)
  else if 'A' ≤ c ∧ c ≤ 'F' then some (c.toNat - 55)
  else none

def parseHexAcc : List Char → Nat → Option Nat
  | [], acc => some acc
  | c :: cs, acc => match hexVal c with
    | some d => parseHexAcc cs (acc * 16 + d)
    | none => none

/-- `TraceId::try_from_hex` / `SpanId::try_from_hex` (/repo/src/span.rs:169-207, 335-373): exactly
    `digits` hex characters, value non-zero. -/
def parseHexId (digits : Nat) (s : String) : Option Nat :=
  if s.toList.length = digits then
    match parseHexAcc s.toList 0 with
    | some n => if n = 0 then none else some n
    | none => none
  else none

/-- `FromValue for TraceId` (span.rs:76-84) / `SpanId` (span.rs:242-250) with `bits` = 128 / 64:
    downcast; else an integer in `1 .. 2^bits`; else hex text of the Display. -/
def PV.castId (bits : Nat) (pv : PV) : Option Nat :=
  let typed : Option Nat := match pv with
    | .simple (.tid n) => if bits = 128 then some n else none
    | .simple (.sid n) => if bits = 64 then some n else none
    | _ => none
  match typed with
  | some n => some n
  | none =>
    let fromInt : Option Nat := match pv.asInt? with
      | some i => if 0 < i ∧ i < 2 ^ bits then some i.toNat else none
      | none => none
    match fromInt with
    | some n => some n
    | none => parseHexId (bits / 4) pv.display

/-! ### Events -/

/-- A timestamp: seconds and sub-second nanoseconds since the Unix epoch, and the RFC 3339 text its
    `Display` prints (C15 owns the formatter; here the text is an opaque parameter). -/
structure Ts where
  secs : Nat
  nanos : Nat
  text : String
  deriving Inhabited

def Ts.unixNanos (t : Ts) : Nat := t.secs * 1000000000 + t.nanos

inductive Extent where
  | none
  | point (t : Ts)
  | range (a b : Ts)
  deriving Inhabited

/-- `Extent::as_point`: the end of a range -/
def Extent.point? : Extent → Option Ts
  | .none => Option.none
  | .point t => some t
  | .range _ b => some b

inductive Part where
  | text (s : String)
  | hole (label : String)
  deriving Inhabited

structure Event where
  mdl : String
  tpl : List Part
  extent : Extent
  /-- what the props collection answers to `Props::is_unique()` -/
  unique : Bool
  props : List (String × PV)
  deriving Inhabited

/-- the default `Props::get`: first match in enumeration order (/repo/core/src/props.rs) -/
def lookupFirst {α : Type} (k : String) : List (String × α) → Option α
  | [] => none
  | (k', v) :: rest => if k' = k then some v else lookupFirst k rest

/-- `Template::render(props)` into a string (/repo/core/src/template.rs:298-304, 555-577, 335-357) -/
def renderPart (props : List (String × PV)) : Part → String
  | .text s => s
  | .hole l => match lookupFirst l props with
    | some v => v.display
    | none => "{" ++ l ++ "}"

def renderParts (props : List (String × PV)) : List Part → String
  | [] => ""
  | p :: ps => renderPart props p ++ renderParts props ps

def Event.msg (e : Event) : String := renderParts e.props e.tpl
/-- `Display for Template` = render against no properties (template.rs:68-72) -/
def Event.tplText (e : Event) : String := renderParts [] e.tpl

/-! ### `Props::dedup()` (/repo/core/src/props.rs:273-306)
    `is_unique()` ⇒ the enumeration as it is; otherwise a `BTreeMap<Str, Value>` filled with
    `entry(key).or_insert(value)` and enumerated — sorted by key, first value wins. -/

def insertFirst {α : Type} (k : String) (v : α) : List (String × α) → List (String × α)
  | [] => [(k, v)]
  | (k', v') :: rest =>
    match compare k k' with
    | .lt => (k, v) :: (k', v') :: rest
    | .eq => (k', v') :: rest
    | .gt => (k', v') :: insertFirst k v rest

def dedupSorted {α : Type} : List (String × α) → List (String × α) → List (String × α)
  | acc, [] => acc
  | acc, (k, v) :: rest => dedupSorted (insertFirst k v acc) rest

def dedup {α : Type} (unique : Bool) (ps : List (String × α)) : List (String × α) :=
  if unique then ps else dedupSorted [] ps

def Event.deduped (e : Event) : List (String × PV) := dedup e.unique e.props

end EmitModel.Encode
