/-
  Model/Timestamp.lean — C15. /repo/core/src/timestamp.rs:
    * `Timestamp::from_unix` range check                       :103-109   (MIN = 0, MAX = 9999-12-31T23:59:59.999999999Z)
    * `Timestamp::from_parts` (calendar → instant)             :167-255
    * `Timestamp::to_parts`   (instant → calendar)             :262-337
    * `parse_rfc3339` (after the D10 fix: strict, byte-wise)   :471-…
    * `fmt_rfc3339` with `f.precision()`                        (below the parser)
    * `Timestamp::parse(impl Display)` through `Buffer<30>` :127-134, `FromValue` :435-442
  A timestamp is its total number of nanoseconds since the Unix epoch (`Duration` = secs * 10^9 + subsec_nanos).
  Integer arithmetic follows the Rust types: signed `/` and `%` truncate toward zero (`Int.tdiv`/`Int.tmod`), the
  harness is built in the dev profile so `u8 - 1` on `0` panics (modelled as `Outcome.panic`).
-/
import EmitModel.Model.Text

namespace EmitModel.Timestamp
open EmitModel.Text

def NANOS : Nat := 1000000000
/-- `MAX.as_secs()` -/
def MAX_SECS : Nat := 253402300799
/-- `Timestamp::MAX` in nanoseconds -/
def MAX_NS : Nat := MAX_SECS * NANOS + 999999999

/-- `Parts` (:46-75): u16, u8 ×5, u32. -/
structure Parts where
  years : Nat
  months : Nat
  days : Nat
  hours : Nat
  minutes : Nat
  seconds : Nat
  nanos : Nat
  deriving Repr, DecidableEq, Inhabited

/-- the fields fit their Rust types -/
def Parts.Fits (p : Parts) : Prop :=
  p.years < 65536 ∧ p.months < 256 ∧ p.days < 256 ∧ p.hours < 256 ∧ p.minutes < 256 ∧ p.seconds < 256 ∧
  p.nanos < 4294967296

/-! ### from_parts -/

/-- cumulative days before each month of a non-leap year (the `seconds_within_year` table / 86400, :228-241) -/
def CUM_DAYS : List Nat := [0, 31, 59, 90, 120, 151, 181, 212, 243, 273, 304, 334]

/-- `(is_leap, start_of_year in seconds)` of `from_parts` (:168-221); `year = parts.years - 1900`. -/
def startOfYear (years : Nat) : Bool × Int :=
  let year : Int := (years : Int) - 1900
  -- `year as u64 <= 138`: negative values become huge
  if 0 ≤ year ∧ year ≤ 138 then
    -- `(year - 68) >> 2` is an arithmetic shift (floor); `trailing_zeros() >= 2` is divisibility by 4 (0 included)
    let leaps : Int := (year - 68) / 4
    if (year - 68) % 4 = 0 then (true, 31536000 * (year - 70) + 86400 * (leaps - 1))
    else (false, 31536000 * (year - 70) + 86400 * leaps)
  else
    let cycles0 : Int := (year - 100).tdiv 400
    let rem0 : Int := (year - 100).tmod 400
    let cycles := if rem0 < 0 then cycles0 - 1 else cycles0
    let rem := if rem0 < 0 then rem0 + 400 else rem0
    let (isLeap, centuries, leaps) : Bool × Int × Int :=
      if rem = 0 then (true, 0, 0)
      else
        let (centuries, rem) : Int × Int :=
          if rem ≥ 200 then (if rem ≥ 300 then (3, rem - 300) else (2, rem - 200))
          else if rem ≥ 100 then (1, rem - 100)
          else (0, rem)
        if rem = 0 then (false, centuries, 0)
        else (decide (rem.tmod 4 = 0), centuries, rem.tdiv 4)
    let leaps := leaps + 97 * cycles + 24 * centuries - (if isLeap then 1 else 0)
    (isLeap, (year - 100) * 31536000 + (leaps * 86400 + 946684800 + 86400))

/-- `Timestamp::from_parts` (:167-255). `.panic`: `parts.days - 1` / `parts.months - 1` on a zero `u8`.
    `.ok none`: the result is outside `MIN..=MAX`. -/
def fromParts (p : Parts) : Outcome (Option Nat) :=
  let (isLeap, startOfYear) := startOfYear p.years
  if p.days = 0 then .panic
  else
    let secondsWithinMonth : Nat := 86400 * (p.days - 1) + 3600 * p.hours + 60 * p.minutes + p.seconds
    if p.months = 0 then .panic
    else
      let swy0 : Nat := 86400 * CUM_DAYS[(p.months - 1) % 12]! + secondsWithinMonth
      let secondsWithinYear : Nat := if isLeap ∧ p.months > 2 then swy0 + 86400 else swy0
      let total : Int := startOfYear + secondsWithinYear
      -- `i128 → u64` `try_into().ok()?`
      if total < 0 then .ok none
      else
        -- `Duration::new(secs, nanos)` carries whole seconds out of `nanos`
        let secs := total.toNat + p.nanos / NANOS
        let nanos := p.nanos % NANOS
        -- `Timestamp::from_unix`: `unix_time >= MIN && unix_time <= MAX`
        if secs ≤ MAX_SECS then .ok (some (secs * NANOS + nanos)) else .ok none

/-! ### to_parts -/

/-- `DAYS_IN_MONTH` starting in March (:84) -/
def DAYS_IN_MONTH : List Nat := [31, 30, 31, 30, 31, 31, 30, 31, 30, 31, 31, 29]

/-- the `while DAYS_IN_MONTH[months] <= remdays` loop (:312-316); indexing past the table would panic -/
def monthLoop : List Nat → Nat → Int → Outcome (Nat × Int)
  | [], _, _ => .panic
  | dm :: rest, months, remdays =>
    if (dm : Int) ≤ remdays then monthLoop rest (months + 1) (remdays - dm) else .ok (months, remdays)

/-- The date half of `to_parts` (:273-321): from `days` (days since 2000-03-01, after the `remsecs` fix-up) to
    `(years, months, remdays)` as they stand just before the final `as u16` / `as u8` casts, i.e. `years` still
    relative to 2000, `months` relative to March (−2 … 9), `remdays` the zero-based day of the month. -/
def dateOfDays (days : Int) : Outcome (Int × Int × Int) :=
  let qc0 := days.tdiv 146097
  let rd0 := days.tmod 146097
  let remdays := if rd0 < 0 then rd0 + 146097 else rd0
  let qcCycles := if rd0 < 0 then qc0 - 1 else qc0
  let c0 := remdays.tdiv 36524
  let cCycles := if c0 = 4 then c0 - 1 else c0
  let remdays := remdays - cCycles * 36524
  let q0 := remdays.tdiv 1461
  let qCycles := if q0 = 25 then q0 - 1 else q0
  let remdays := remdays - qCycles * 1461
  let y0 := remdays.tdiv 365
  let remyears := if y0 = 4 then y0 - 1 else y0
  let remdays := remdays - remyears * 365
  let years : Int := remyears + 4 * qCycles + 100 * cCycles + 400 * qcCycles
  match monthLoop DAYS_IN_MONTH 0 remdays with
  | .panic => .panic
  | .err => .err
  | .ok (months, remdays) =>
    let months : Int := months
    if months ≥ 10 then .ok (years + 1, months - 12, remdays) else .ok (years, months, remdays)

/-- `Timestamp::to_parts` (:262-337) for the instant `t` ns. -/
def toPartsO (t : Nat) : Outcome Parts :=
  let secs := t / NANOS
  let nanos := t % NANOS
  -- LEAPOCH_SECS / 86400 = 11017 (2000-03-01)
  let days0 : Int := ((secs / 86400 : Nat) : Int) - 11017
  let remsecs0 : Int := ((secs % 86400 : Nat) : Int)
  let remsecs := if remsecs0 < 0 then remsecs0 + 86400 else remsecs0
  let days := if remsecs0 < 0 then days0 - 1 else days0
  match dateOfDays days with
  | .panic => .panic
  | .err => .err
  | .ok (years, months, remdays) =>
    .ok {
      years := (years + 2000).toNat
      months := (months + 3).toNat
      days := (remdays + 1).toNat
      hours := (remsecs.tdiv 3600).toNat
      minutes := ((remsecs.tdiv 60).tmod 60).toNat
      seconds := (remsecs.tmod 60).toNat
      nanos := nanos }

/-- `to_parts` as a total function (the month loop never leaves its table: theorem `toPartsO_ok`). -/
def toParts (t : Nat) : Parts :=
  match toPartsO t with
  | .ok p => p
  | _ => default

/-! ### fmt_rfc3339 -/

/-- `b'0' + n as u8` -/
def dig (n : Nat) : UInt8 := UInt8.ofNat (48 + n)

/-- `YYYY-MM-DDThh:mm:ss` (buf[0..19]) -/
def fmtDateTime (p : Parts) : List UInt8 :=
  [dig (p.years / 1000), dig (p.years / 100 % 10), dig (p.years / 10 % 10), dig (p.years % 10), 45,
   dig (p.months / 10), dig (p.months % 10), 45,
   dig (p.days / 10), dig (p.days % 10), 84,
   dig (p.hours / 10), dig (p.hours % 10), 58,
   dig (p.minutes / 10), dig (p.minutes % 10), 58,
   dig (p.seconds / 10), dig (p.seconds % 10)]

/-- the first `k ≤ 9` fractional digits: `subsecond_nanos / divisor % 10`, divisor = 10^8, 10^7, … -/
def fracDigits (k : Nat) (nanos : Nat) : List UInt8 :=
  (List.range k).map fun i => dig (nanos / 10 ^ (8 - i) % 10)

/-- `fmt_rfc3339(ts, f)` with `f.precision() = prec`. -/
def fmtParts (prec : Option Nat) (p : Parts) : List UInt8 :=
  match prec with
  | some 0 => fmtDateTime p ++ [90]
  | _ => fmtDateTime p ++ [46] ++ fracDigits (min 9 (prec.getD 9)) p.nanos ++ [90]

def fmtRfc3339O (prec : Option Nat) (t : Nat) : Outcome (List UInt8) :=
  (toPartsO t).map (fmtParts prec)

def fmtRfc3339 (prec : Option Nat) (t : Nat) : List UInt8 := fmtParts prec (toParts t)

/-! ### parse_rfc3339 (strict, after the D10 fix) -/

/-- the local `digits` helper: a run of ASCII digits → its value, anything else → `Err` -/
def digits (bs : List UInt8) : Option Nat :=
  if bs.all isDigit then some (digitsVal bs) else none

def sub (bs : List UInt8) (a b : Nat) : List UInt8 := (bs.drop a).take (b - a)

/-- the tail of `parse_rfc3339`: month/day `00` are rejected, then `from_parts(..).ok_or_else(..)` -/
def finish (years months days hours minutes seconds nanos : Nat) : Outcome Nat :=
  if months = 0 ∨ days = 0 then .err
  else
    match fromParts ⟨years, months, days, hours, minutes, seconds, nanos⟩ with
    | .ok (some t) => .ok t
    | .ok none => .err
    | .err => .err
    | .panic => .panic

/-- every `digits(..)?` must have succeeded -/
def parseFields (years months days hours minutes seconds nanos : Option Nat) : Outcome Nat :=
  match years, months, days, hours, minutes, seconds, nanos with
  | some years, some months, some days, some hours, some minutes, some seconds, some nanos =>
    finish years months days hours minutes seconds nanos
  | _, _, _, _, _, _, _ => .err

/-- the sub-second field: absent, or `.` followed by 1–9 digits, scaled to nanoseconds -/
def parseNanos (s : List UInt8) : Option Nat :=
  if s.length > 20 then
    if s[19]? ≠ some 46 ∨ s.length = 21 then none
    else
      let subsecond := sub s 20 (s.length - 1)
      (digits subsecond).map fun v => v * 10 ^ (9 - subsecond.length)
  else some 0

/-- `parse_rfc3339(fmt: &str)`, check for check in the code's order. No site can panic: all indices are below the
    checked length, slicing is on bytes, month and day `00` are rejected before `from_parts`. (Every failure is
    the same `Err`, so the order in which the fields are examined is not observable.) -/
def parseRfc3339 (s : List UInt8) : Outcome Nat :=
  if s.length < 20 ∨ s.length > 30 then .err
  else if s[4]? ≠ some 45 ∨ s[7]? ≠ some 45 ∨ s[10]? ≠ some 84 ∨ s[13]? ≠ some 58 ∨ s[16]? ≠ some 58 then .err
  else if s[s.length - 1]? ≠ some 90 then .err
  else
    parseFields (digits (sub s 0 4)) (digits (sub s 5 7)) (digits (sub s 8 10)) (digits (sub s 11 13))
      (digits (sub s 14 16)) (digits (sub s 17 19)) (parseNanos s)

/-- `Buffer::<30>::buffer(value)` for a one-`write_str` Display (core/src/buf.rs) -/
def buffer30 (s : List UInt8) : Option (List UInt8) := if s.length ≤ 30 then some s else none

/-- `Timestamp::parse(ts: impl Display)` (:127-134) for a text -/
def parseDisplay (s : List UInt8) : Outcome Nat :=
  match buffer30 s with
  | none => .err
  | some b => parseRfc3339 b

end EmitModel.Timestamp
