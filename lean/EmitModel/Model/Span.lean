/-
  Model/Span.lean — C04, on top of Model/Ctxt.lean (the thread-local context machine of C03). Mirrors
    * /repo/src/span.rs
        - `FromValue for TraceId / SpanId`: downcast, else unsigned integer, else hex text of the value's Display
          (:76-84, 242-250); `try_from_hex` = Display into a fixed buffer, exact length, hex decode, non-zero
          (:169-207, 335-373, 436-474)
        - `TraceId::random` / `SpanId::random`: an absent or zero rng reading gives NO id (:106-108, 272-274)
        - `SpanCtxt::current` (pull trace_id / span_parent / span_id from the ambient props) (:758-768)
        - `SpanCtxt::new_child` (trace inherited or fresh, parent = current span id, fresh span id) (:775-781)
        - `Props for SpanCtxt`: trace_id, span_id, span_parent — only the ids that are present (:814-835)
        - `SpanGuard::new`: child ctxt, filter verdict, `Frame::push(ctxt_props ++ ids)` or `Frame::disabled`
          (:909-976); completion on guard drop emits the span event with the AMBIENT props (:1062-1075, 1156-1226)
    * /repo/src/macro_hooks.rs `__private_begin_span` (:819-851) and /repo/macros/src/span.rs `inject_sync` /
      `inject_async` (:222-390): begin_span, then `frame.call(|| { guard.start(); body })` /
      `frame.in_future(async { .. }).await` with the guard dropped inside the frame
    * /repo/core/src/lib.rs `emit` (:56-78): event props = own props ++ ambient props (first match wins in `pull`)
  Import-free apart from the C03 model (core Lean only).
-/
import EmitModel.Model.Ctxt

namespace EmitModel.Span
open EmitModel.Ctxt

/-- A property value as far as ids care. -/
inductive IdVal where
  | trace (n : Nat)     -- a captured `emit::TraceId` (typed fast path of `ThreadLocalValue`)
  | span (n : Nat)      -- a captured `emit::SpanId`
  | num (n : Nat)       -- an unsigned integer value (`u64` / `u128`)
  | text (s : String)   -- a string value
  deriving Repr, DecidableEq, Inhabited

def nz (n : Nat) : Option Nat := if n = 0 then none else some n

/-- `HEX_DECODE_TABLE` (span.rs:386-404): `none` = the 0xff sentinel. The Rust code indexes the table by byte;
    the model works on chars: a non-ASCII char (several bytes, each ≥ 0x80 → sentinel) is invalid either way, and
    for all-ASCII text the byte length is the char count, so length check + decode give the same verdict. -/
def hexVal (b : Char) : Option Nat :=
  let n := b.toNat
  if 48 ≤ n ∧ n ≤ 57 then some (n - 48)
  else if 97 ≤ n ∧ n ≤ 102 then some (n - 97 + 10)
  else if 65 ≤ n ∧ n ≤ 70 then some (n - 65 + 10)
  else none

/-- the decode loop: two hex chars per byte, bytes big-endian (span.rs:174-195) -/
def decodePairs (acc : Nat) : List Char → Option Nat
  | [] => some acc
  | [_] => none
  | a :: b :: rest =>
    match hexVal a, hexVal b with
    | some h1, some h2 => decodePairs (acc * 256 + (h1 * 16 + h2)) rest
    | _, _ => none

/-- `try_from_hex(display)` for an id of `len` hex chars: the text must have exactly `len` bytes, all hex, value ≠ 0 -/
def parseHexId (len : Nat) (s : String) : Option Nat :=
  let bs := s.toList
  if bs.length = len then (decodePairs 0 bs).bind nz else none

def hexChar (n : Nat) : Char := if n < 10 then Char.ofNat (48 + n) else Char.ofNat (97 + n - 10)

/-- `to_hex`: `len` lower-case hex chars, big-endian, zero padded -/
def toHex : Nat → Nat → List Char
  | 0, _ => []
  | len + 1, n => toHex len (n / 16) ++ [hexChar (n % 16)]

/-- `Display` of a value -/
def IdVal.display : IdVal → String
  | .trace n => String.ofList (toHex 32 n)
  | .span n => String.ofList (toHex 16 n)
  | .num n => toString n
  | .text s => s

/-- `TraceId::from_value` (span.rs:76-84) -/
def castTrace (v : IdVal) : Option Nat :=
  ((match v with
    | .trace n => some n
    | _ => none).or
   ((match v with
     | .num n => if n < 2 ^ 128 then some n else none
     | _ => none).bind nz)).or
  (parseHexId 32 v.display)

/-- `SpanId::from_value` (span.rs:242-250) -/
def castSpan (v : IdVal) : Option Nat :=
  ((match v with
    | .span n => some n
    | _ => none).or
   ((match v with
     | .num n => if n < 2 ^ 64 then some n else none
     | _ => none).bind nz)).or
  (parseHexId 16 v.display)

structure SpanCtxt where
  trace : Option Nat
  parent : Option Nat
  span : Option Nat
  deriving Repr, DecidableEq

/-- `SpanCtxt::current`: pull = first value under the key, then cast (a value that does not cast gives `None`) -/
def current (amb : List (String × IdVal)) : SpanCtxt :=
  ⟨(get amb "trace_id").bind castTrace, (get amb "span_parent").bind castSpan, (get amb "span_id").bind castSpan⟩

/-- `TraceId::random(rng)`: reading absent, zero (or out of range) → no id -/
def randTrace (r : Option Nat) : Option Nat := r.bind fun n => if n < 2 ^ 128 then nz n else none
def randSpan (r : Option Nat) : Option Nat := r.bind fun n => if n < 2 ^ 64 then nz n else none

/-- `SpanCtxt::new_child` with this node's rng readings -/
def newChild (cur : SpanCtxt) (rt rs : Option Nat) : SpanCtxt :=
  ⟨cur.trace.or (randTrace rt), cur.span, randSpan rs⟩

/-- `Props for SpanCtxt` -/
def SpanCtxt.props (c : SpanCtxt) : List (String × IdVal) :=
  (match c.trace with | some n => [("trace_id", IdVal.trace n)] | none => []) ++
  (match c.span with | some n => [("span_id", IdVal.span n)] | none => []) ++
  (match c.parent with | some n => [("span_parent", IdVal.span n)] | none => [])

/-- `props.pull::<u64>("id")`-style tag of a record: the harness tags completion events by the ambient `id` -/
def pullNum (ps : List (String × IdVal)) (k : String) : Option Nat :=
  match get ps k with
  | some (.num n) => some n
  | _ => none

/-- What the harness records of one emitted event / one `SpanCtxt::current` reading. -/
structure Rec where
  kind : String          -- "e" explicit event, "s" span completion, "c" SpanCtxt::current
  tag : Option Nat       -- event id / ambient span node id / observation id
  trace : Option Nat
  parent : Option Nat
  span : Option Nat
  deriving Repr, DecidableEq

/-- ids of an event whose props are `ps` (= own props ++ ambient, first match wins) -/
def recOf (kind : String) (tag : Option Nat) (ps : List (String × IdVal)) : Rec :=
  let c := current ps
  ⟨kind, tag, c.trace, c.parent, c.span⟩

inductive Tree where
  /-- `emit::emit!(rt, "evt", eid, props: own)` -/
  | event (eid : Nat) (own : List (String × IdVal))
  /-- `SpanCtxt::current(rt.ctxt())` -/
  | cur (cid : Nat)
  /-- a span: node id (also a ctxt prop), the scripted filter verdict, this node's rng readings (u128 for the trace
      id, u64 for the span id), further user ctxt props, children -/
  | span (id : Nat) (enabled : Bool) (rt rs : Option Nat) (user : List (String × IdVal)) (children : List Tree)
  /-- the children run inside `Frame::current(ctxt)` carried to thread `t` (`in_fn` on another actor, or an
      `in_future` task polled there) -/
  | group (t : Nat) (children : List Tree)
  /-- `panic!()` at this position of the enclosing body -/
  | panic
  /-- `catch_unwind(|| children)` -/
  | catch_ (children : List Tree)

mutual
/-- Does running this node raise a panic that leaves it? Static: nothing in a tree depends on data. A panic in
    a span body unwinds through the span (the guard completes it inside the frame, the frame is exited by the
    `EnterGuard` drop) and through carried frames, up to the nearest `catch_`. -/
def Tree.panics : Tree → Bool
  | .span _ _ _ _ _ children => panicsL children
  | .group _ children => panicsL children
  | .panic => true
  | .catch_ _ => false
  | _ => false
def panicsL : List Tree → Bool
  | [] => false
  | x :: xs => x.panics || panicsL xs
end

/-- the ctxt props a span pushes: `id`, the user's, then the ids (later pairs overwrite) -/
def spanProps (id : Nat) (user : List (String × IdVal)) (child : SpanCtxt) : List (String × IdVal) :=
  ("id", IdVal.num id) :: user ++ child.props

mutual
/-- Execute a tree on thread `t`, context `c`, on the C03 machine; `n` = next unused frame handle.
    Returns the records in order, the state, and the next unused handle. -/
def runT (t c : Nat) : Tree → St IdVal → Nat → List Rec × St IdVal × Nat
  | .event eid own, s, n => ([recOf "e" (some eid) (own ++ (s.active t c).getD [])], s, n)
  | .cur cid, s, n => ([recOf "c" (some cid) ((s.active t c).getD [])], s, n)
  | .span id enabled rt rs user children, s, n =>
    -- SpanGuard::new: child of the current ctxt, filter verdict, push or disabled frame
    let child := newChild (current ((s.active t c).getD [])) rt rs
    let kind := if enabled then Kind.push else Kind.disabled
    let s1 := step s (.open t c n kind (spanProps id user child))
    -- frame.call / in_future: enter, body, guard drop (completion inside the frame), exit
    let s2 := step s1 (.enter t c n)
    let (rs, s3, n3) := runL t c children s2 (n + 1)
    let amb := (s3.active t c).getD []
    let comp := if enabled then [recOf "s" (pullNum amb "id") amb] else []
    (rs ++ comp, step s3 (.exit t c n), n3)
  | .group t' children, s, n =>
    let s1 := step s (.open t c n Kind.current [])
    let s2 := step s1 (.enter t' c n)
    let (rs, s3, n3) := runL t' c children s2 (n + 1)
    (rs, step s3 (.exit t' c n), n3)
  | .panic, s, n => ([], s, n)
  | .catch_ children, s, n => runL t c children s n
/-- a body: the elements in order, up to and including the first one that panics. The enclosing span still
    runs its completion and its `exit` (drop order during unwinding: the span guard inside the closure first,
    then `Frame::call`'s / `FrameFuture::poll`'s `EnterGuard`). -/
def runL (t c : Nat) : List Tree → St IdVal → Nat → List Rec × St IdVal × Nat
  | [], s, n => ([], s, n)
  | x :: xs, s, n =>
    let (r1, s1, n1) := runT t c x s n
    if x.panics then (r1, s1, n1)
    else
      let (r2, s2, n2) := runL t c xs s1 n1
      (r1 ++ r2, s2, n2)
end

mutual
/-- The same as a function of the ambient map alone. -/
def spec (amb : List (String × IdVal)) : Tree → List Rec
  | .event eid own => [recOf "e" (some eid) (own ++ amb)]
  | .cur cid => [recOf "c" (some cid) amb]
  | .span id enabled rt rs user children =>
    let child := newChild (current amb) rt rs
    if enabled then
      let amb' := insertAll amb (spanProps id user child)
      specL amb' children ++ [recOf "s" (pullNum amb' "id") amb']
    else specL amb children
  | .group _ children => specL amb children
  | .panic => []
  | .catch_ children => specL amb children
def specL (amb : List (String × IdVal)) : List Tree → List Rec
  | [] => []
  | x :: xs => spec amb x ++ (if x.panics then [] else specL amb xs)
end

mutual
/-- The trace tree, with no maps at all: the trace id, the id of the innermost enabled span (or the incoming
    one) and that span's parent are handed down. -/
def ref (tr sp pa : Option Nat) : Tree → List Rec
  | .event eid _ => [⟨"e", some eid, tr, pa, sp⟩]
  | .cur cid => [⟨"c", some cid, tr, pa, sp⟩]
  | .span id enabled rt rs _ children =>
    if enabled then
      let tr' := tr.or (randTrace rt)
      let sp' := (randSpan rs).or sp
      let pa' := sp.or pa
      refL tr' sp' pa' children ++ [⟨"s", some id, tr', pa', sp'⟩]
    else refL tr sp pa children
  | .group _ children => refL tr sp pa children
  | .panic => []
  | .catch_ children => refL tr sp pa children
def refL (tr sp pa : Option Nat) : List Tree → List Rec
  | [] => []
  | x :: xs => ref tr sp pa x ++ (if x.panics then [] else refL tr sp pa xs)
end

/-! ### How the runtime holds its `Rng` (core/src/rng.rs:35-160, core/src/runtime.rs:458-470)

  `&T`, `Option<T>`, `Box<T>`, `Arc<T>`, `AssertInternal<T>` and `dyn ErasedRng (+ Send + Sync)` forward `fill`,
  `gen_u64` and `gen_u128` to the rng they hold — one call each; `Option::None` answers `None` to everything. -/

inductive RngHolder where
  | direct | ref | some_ | none_ | box | arc | assertInternal | erased
  deriving Repr, DecidableEq

/-- one reading drawn through the holder -/
def RngHolder.read (h : RngHolder) (r : Option Nat) : Option Nat :=
  match h with
  | .none_ => none
  | _ => r

mutual
/-- the tree as it runs when every rng reading is drawn through the holder -/
def Tree.hold (h : RngHolder) : Tree → Tree
  | .span id en rt rs user ch => .span id en (h.read rt) (h.read rs) user (holdL h ch)
  | .group t ch => .group t (holdL h ch)
  | .catch_ ch => .catch_ (holdL h ch)
  | .event eid own => .event eid own
  | .cur cid => .cur cid
  | .panic => .panic
def holdL (h : RngHolder) : List Tree → List Tree
  | [] => []
  | x :: xs => x.hold h :: holdL h xs
end

/-! ### The class of cases on which `emit_traceparent::TraceparentCtxt<ThreadLocalCtxt>` shows the same ids as the
    plain context (traceparent/src/lib.rs:789-970): every span enabled (a rejected span opens an UNSAMPLED
    traceparent, which hides all ids below it — C18's subject), every rng reading a valid id (a span without a
    span id, or a root without a trace id, is not a traceparent), span ids pairwise distinct and distinct from the
    incoming one (`incoming_traceparent` ignores props whose span id equals the active one), no user ctxt props
    (`pull` takes the FIRST `span_id`), and incoming props that either carry no usable span id (then they pass
    through to the wrapped context untouched) or form a whole traceparent: usable trace id, no `span_parent`. -/

def validId (bits : Nat) (r : Option Nat) : Bool :=
  match r with
  | some n => decide (0 < n) && decide (n < 2 ^ bits)
  | none => false

mutual
/-- the span-id readings of the tree, if every span is in the class -/
def tpSpans : Tree → Option (List Nat)
  | .span _ en rt rs user ch =>
    if en && validId 128 rt && validId 64 rs && user.isEmpty then
      match tpSpansL ch with
      | some ids => some (rs.toList ++ ids)
      | none => none
    else none
  | .group _ ch => tpSpansL ch
  | .catch_ ch => tpSpansL ch
  | _ => some []
def tpSpansL : List Tree → Option (List Nat)
  | [] => some []
  | x :: xs =>
    match tpSpans x, tpSpansL xs with
    | some a, some b => some (a ++ b)
    | _, _ => none
end

def allDistinct : List Nat → Bool
  | [] => true
  | x :: xs => !xs.contains x && allDistinct xs

def tpClass (incoming : List (String × IdVal)) (ts : List Tree) : Bool :=
  match tpSpansL ts with
  | none => false
  | some ids =>
    let incSpan := (get incoming "span_id").bind castSpan
    allDistinct (incSpan.toList ++ ids) &&
    (match incSpan with
     | none => true
     | some _ => ((get incoming "trace_id").bind castTrace).isSome && (get incoming "span_parent").isNone)

end EmitModel.Span
