/-
  Model/OtlpRecords.lean — C13. The OTLP records built from one event, as structured data
  (the wire form — protobuf or JSON — is produced by sval_protobuf / sval_json and is checked by decoding).

  Shared pieces:
    * `stream_attributes` (/repo/emitter/otlp/src/data.rs:327-347): a sequence over `props.dedup()`; the
      per-signal closure decides for every (key, value) whether it becomes an attribute or is lifted.
    * timestamps: `to_unix().as_nanos() as u64` — a truncating cast, i.e. mod 2^64
      (logs.rs:35-38, traces.rs:49-56, metrics.rs:62-80).
    * trace / span ids: dedicated fields, 16 / 8 big-endian bytes in protobuf and 32 / 16 hex characters in
      JSON (data.rs:108-233); the model keeps the number, the harness canonicalises both forms to hex.
-/
import EmitModel.Model.AnyValue

namespace EmitModel.Encode
open EmitModel.Level (Level)

def u64Wrap (n : Nat) : Nat := n % 2 ^ 64

def Ts.otlpNanos (t : Ts) : Nat := u64Wrap t.unixNanos

/-- `Stacktrace` Display (any_value.rs:107-123): one `caused by: …` line per error of the source chain -/
def stacktraceText : List String → String
  | [] => ""
  | [c] => "caused by: " ++ c
  | c :: rest => "caused by: " ++ c ++ "\n" ++ stacktraceText rest

/-- last value enumerated under `k` (a variable assigned once per visit keeps the last assignment; on
    de-duplicated properties there is at most one visit) -/
def lookupLast {α : Type} (k : String) (ps : List (String × α)) : Option α := lookupFirst k ps.reverse

/-! ### Logs: /repo/emitter/otlp/src/data/logs.rs:30-60, logs/log_record.rs:84-176 -/

structure LogRecord where
  /-- `EncodedEvent::scope` = the module (logs.rs:43), the name of the instrumentation scope the record is filed under -/
  scope : String
  timeUnixNano : Nat
  observedTimeUnixNano : Nat
  severityNumber : Nat
  severityText : String
  body : String
  traceId : Option Nat
  spanId : Option Nat
  attributes : List (String × AnyValue)
  deriving Inhabited

/-- `SeverityNumber` (log_record.rs:7-15, 123-128) -/
def severityNumber : Level → Nat
  | .debug => 5 | .info => 9 | .warn => 13 | .error => 17

/-- the attributes one property contributes to a log record (log_record.rs:97-131) -/
def logAttr (k : String) (v : PV) : Enc (List (String × AnyValue)) :=
  if k = "lvl" ∨ k = "span_id" ∨ k = "trace_id" then .ok []
  else if k = "err" then
    (anyValue v.image).bind fun a =>
      let stack : List (String × AnyValue) := match v.error? with
        | some (_, c :: cs) => [("exception.stacktrace", .str (stacktraceText (c :: cs)))]
        | _ => []
      .ok (stack ++ [("exception.message", a)])
  else (anyValue v.image).bind fun a => .ok [(k, a)]

def logAttrs : List (String × PV) → Enc (List (String × AnyValue))
  | [] => .ok []
  | (k, v) :: rest => (logAttr k v).bind fun as => (logAttrs rest).bind fun bs => .ok (as ++ bs)

def logRecord (e : Event) : Enc LogRecord :=
  let ps := e.deduped
  let t := match e.extent.point? with
    | some t => t.otlpNanos
    | none => 0
  let level := ((lookupLast "lvl" ps).bind PV.castLevel).getD .info
  (logAttrs ps).bind fun attrs => .ok {
    scope := e.mdl
    timeUnixNano := t
    observedTimeUnixNano := t
    severityNumber := severityNumber level
    severityText := level.display
    body := e.msg
    traceId := (lookupLast "trace_id" ps).bind (PV.castId 128)
    spanId := (lookupLast "span_id" ps).bind (PV.castId 64)
    attributes := attrs }

/-- `KindFilter::matches` (/repo/src/kind.rs:165-169): `props.pull::<Kind>("evt_kind") == Some(kind)`, where
    `pull` is the default `get` (first match in enumeration order) followed by the cast -/
def Event.isKind (e : Event) (k : Kind) : Bool :=
  (lookupFirst "evt_kind" e.props).bind PV.castKind == some k

/-! ### Traces: /repo/emitter/otlp/src/data/traces.rs:26-79, traces/span.rs:100-270 -/

structure SpanEvent where
  name : String
  timeUnixNano : Nat
  attributes : List (String × AnyValue)
  deriving Inhabited

structure SpanRecord where
  scope : String
  name : String
  /-- `SpanKind::Unspecified` -/
  kind : Nat
  startTimeUnixNano : Nat
  endTimeUnixNano : Nat
  traceId : Option Nat
  spanId : Option Nat
  parentSpanId : Option Nat
  attributes : List (String × AnyValue)
  events : List SpanEvent
  statusMessage : String
  /-- `StatusCode`: Ok = 1, Error = 2 -/
  statusCode : Nat
  deriving Inhabited

/-- the closure shape shared by the span and metric encoders: a lifted key contributes nothing, every other
    property is streamed as `KeyValue { key, value: EmitValue(v) }` (`stream_attribute`, data.rs:352-370) -/
def plainAttr (lifted : String → Bool) (k : String) (v : PV) : Enc (List (String × AnyValue)) :=
  if lifted k then .ok [] else (anyValue v.image).bind fun a => .ok [(k, a)]

def plainAttrs (lifted : String → Bool) : List (String × PV) → Enc (List (String × AnyValue))
  | [] => .ok []
  | (k, v) :: rest => (plainAttr lifted k v).bind fun as => (plainAttrs lifted rest).bind fun bs => .ok (as ++ bs)

/-- span.rs:131-166: kind, name, level, ids and `err` are lifted out of a span's attributes -/
def spanLifted (k : String) : Bool :=
  k = "evt_kind" || k = "span_name" || k = "lvl" || k = "span_id" || k = "span_parent" || k = "trace_id" || k = "err"

def spanAttrs : List (String × PV) → Enc (List (String × AnyValue)) := plainAttrs spanLifted

/-- span.rs:200-243: the conventional `exception` event built from the FIRST `err` property -/
def exceptionEvent (time : Nat) (err : PV) : Enc SpanEvent :=
  (anyValue err.image).bind fun a =>
    let stack : List (String × AnyValue) := match err.error? with
      | some (_, c :: cs) => [("exception.stacktrace", .str (stacktraceText (c :: cs)))]
      | _ => []
    .ok ⟨"exception", time, stack ++ [("exception.message", a)]⟩

/-- `default_name_formatter` (traces.rs:26-34 / metrics.rs:37-45): the first value under `key`, else the message -/
def nameOr (key : String) (e : Event) : String :=
  match lookupFirst key e.props with
  | some v => v.display
  | none => e.msg

/-- status code from the level when there is no error (span.rs:253-257): Ok = 1 for debug / info, Error = 2 -/
def levelStatusCode : Level → Nat
  | .debug => 1 | .info => 1 | .warn => 2 | .error => 2

/-- span.rs:192-268: the `exception` event and the status. `has_err` is set while the de-duplicated properties are
    streamed; the error value is then `props.get("err")` (the first one). -/
def spanErrPart (e : Event) (ps : List (String × PV)) (endNanos : Nat) (level : Level) :
    Enc (List SpanEvent × String × Nat) :=
  match (if (ps.map Prod.fst).contains "err" then lookupFirst "err" e.props else none) with
  | some err => (exceptionEvent endNanos err).bind fun ev => .ok ([ev], err.display, 2)
  | none => .ok ([], level.display, levelStatusCode level)

/-- traces.rs:58-77 + span.rs:100-270 for a span event with the range extent `a..b` -/
def spanBody (e : Event) (a b : Ts) : Enc SpanRecord :=
  let ps := e.deduped
  let level := ((lookupLast "lvl" ps).bind PV.castLevel).getD .info
  (spanAttrs ps).bind fun attrs =>
    (spanErrPart e ps b.otlpNanos level).bind fun x => .ok {
      scope := e.mdl
      name := nameOr "span_name" e
      kind := 0
      startTimeUnixNano := a.otlpNanos
      endTimeUnixNano := b.otlpNanos
      traceId := (lookupLast "trace_id" ps).bind (PV.castId 128)
      spanId := (lookupLast "span_id" ps).bind (PV.castId 64)
      parentSpanId := (lookupLast "span_parent" ps).bind (PV.castId 64)
      attributes := attrs
      events := x.1
      statusMessage := x.2.1
      statusCode := x.2.2 }

/-- `none`: the event is not a span with a range extent, nothing is encoded (traces.rs:41-56) -/
def spanRecord (e : Event) : Option (Enc SpanRecord) :=
  if e.isKind .span then
    match e.extent with
    | .range a b => some (spanBody e a b)
    | _ => none
  else none

/-! ### Metrics: /repo/emitter/otlp/src/data/metrics.rs:47-365, metrics/metric.rs -/

/-- one extracted sample -/
inductive Pt where
  | int (i : Int)
  | dbl (bits : UInt64)
  deriving Inhabited

mutual
/-- `points_from_value` (metrics.rs:160-240): the `Extract` stream over the sval stream of `metric_value`.
    `inSeq` is its flag; `none` = `sval::error()` (the value is not a number or a flat sequence of numbers).
    Integers outside the i64 range arrive as number TEXT (default `u128/i128`) and are an error, bytes are a
    sequence of `u8`, a non-empty map / record opens a tuple inside its sequence and is an error. -/
def extractPts (inSeq : Bool) : V → Option (List Pt)
  | .null => none
  | .bool _ => none
  | .text _ => none
  | .uvar _ => none
  | .int i => if inI64 i then some [.int i] else none
  | .f64 bits _ _ => some [.dbl bits]
  | .f32 bits _ _ => some [.dbl bits]
  | .bytes bs => if inSeq then none else some (bs.map fun b => .int b.toNat)
  | .seq xs => if inSeq then none else extractPtsList xs
  | .tuple xs => if inSeq then none else extractPtsList xs
  | .tvar _ xs => if inSeq then none else extractPtsList xs
  | .map kvs => if inSeq then none else (if kvs.isEmpty then some [] else none)
  | .record fs => if inSeq then none else (if fs.isEmpty then some [] else none)
  | .svar _ fs => if inSeq then none else (if fs.isEmpty then some [] else none)
  | .some v => extractPts inSeq v
  | .nvar _ v => extractPts inSeq v
def extractPtsList : List V → Option (List Pt)
  | [] => some []
  | x :: xs => match extractPts true x, extractPtsList xs with
    | some a, some b => some (a ++ b)
    | _, _ => none
end

def i64ToF (i : Int) : Float := Float.ofInt i

/-- `SumPoints::push_point_*` (metrics.rs:262-291): integers are added exactly while the total fits an i64
    (`checked_add`), an overflow turns the total into `+inf`, a double turns it into a double -/
def sumStep (acc : Pt) (p : Pt) : Pt :=
  match acc, p with
  | .int c, .int v => if inI64 (c + v) then .int (c + v) else .dbl 0x7FF0000000000000
  | .dbl c, .int v => .dbl (Float.ofBits c + i64ToF v).toBits
  | .int c, .dbl v => .dbl (Float.ofBits v + i64ToF c).toBits
  | .dbl c, .dbl v => .dbl (Float.ofBits c + Float.ofBits v).toBits

def sumPts (ps : List Pt) : Pt := ps.foldl sumStep (.int 0)

structure DataPoint where
  startTimeUnixNano : Nat
  timeUnixNano : Nat
  value : Pt
  attributes : List (String × AnyValue)
  deriving Inhabited

/-- `RawPointSet::into_points` (metrics.rs:330-360): the extent is spread evenly over several samples -/
def spreadTimes (start time : Nat) (n : Nat) : List (Nat × Nat) :=
  let step := (time - start) / n   -- `saturating_sub`, integer division
  (List.range n).map fun i => (start + i * step, start + (i + 1) * step)

def gaugePoints (start time : Nat) (attrs : List (String × AnyValue)) (pts : List Pt) : Option (List DataPoint) :=
  match pts with
  | [] => none
  | [p] => some [⟨start, time, p, attrs⟩]
  | _ => some ((spreadTimes start time pts.length).zip pts |>.map fun ((s, t), p) => ⟨s, t, p, attrs⟩)

inductive MetricData where
  /-- `Sum { aggregation_temporality, is_monotonic }` -/
  | sum (temporality : Nat) (monotonic : Bool)
  | gauge
  deriving Inhabited

structure MetricRecord where
  scope : String
  name : String
  unit : String
  data : MetricData
  points : List DataPoint
  deriving Inhabited

/-- metrics.rs:91-113: the metric's own keys, the ids and the kind are lifted (after the repair
    `fix: OTLP metric attributes come from de-duplicated properties` the loop runs over `props().dedup()`) -/
def metricLifted (k : String) : Bool :=
  k = "metric_unit" || k = "metric_name" || k = "metric_value" || k = "metric_agg" || k = "span_id" ||
  k = "span_parent" || k = "trace_id" || k = "evt_kind"

def metricAttrs : List (String × PV) → Enc (List (String × AnyValue)) := plainAttrs metricLifted

/-- (start, time, aggregation temporality) from the extent (metrics.rs:61-81): none → Unspecified = 0,
    range → Delta = 1, point → Cumulative = 2 -/
def metricTimes : Extent → Nat × Nat × Nat
  | .none => (0, 0, 0)
  | .range a b => (a.otlpNanos, b.otlpNanos, 1)
  | .point t => (t.otlpNanos, t.otlpNanos, 2)

/-- metrics.rs:115-152: the data points from the extracted samples; `none` = a gauge without samples -/
def metricPoints (agg : Option String) (start time temporality : Nat) (attrs : List (String × AnyValue))
    (pts : List Pt) : Option (MetricData × List DataPoint) :=
  if agg = some "sum" then some (.sum temporality false, [⟨start, time, sumPts pts, attrs⟩])
  else if agg = some "count" then some (.sum temporality true, [⟨start, time, sumPts pts, attrs⟩])
  else (gaugePoints start time attrs pts).map fun points => (.gauge, points)

/-- metrics.rs:56-158 for a metric event whose first `metric_value` is `value`. The attributes are collected
    BEFORE the samples are extracted, so a panic of the any-value bridge wins over "nothing encoded". -/
def metricBody (e : Event) (value : PV) : Option (Enc MetricRecord) :=
  let ps := e.deduped
  match metricAttrs ps with
  | .panic => some .panic
  | .ok attrs =>
    let t := metricTimes e.extent
    let unit := match lookupLast "metric_unit" ps with
      | some u => u.display
      | none => ""
    let agg := (lookupFirst "metric_agg" e.props).bind PV.str?
    match extractPts false value.image with
    | none => none
    | some pts => match metricPoints agg t.1 t.2.1 t.2.2 attrs pts with
      | none => none
      | some (data, points) => some (.ok ⟨e.mdl, nameOr "metric_name" e, unit, data, points⟩)

/-- `none`: nothing is encoded — not a metric, no `metric_value`, or the value has no numeric samples
    (metrics.rs:51-60, `points_from_value(..)?`) -/
def metricRecord (e : Event) : Option (Enc MetricRecord) :=
  if e.isKind .metric then
    match lookupFirst "metric_value" e.props with
    | none => none
    | some value => metricBody e value
  else none

/-! ### `Otlp::emit` re-entered from a value's formatting code

  `OtlpInner::emit` (/repo/emitter/otlp/src/client.rs:655-687) encodes the event on the caller's thread
  (`encoder.encode_event`) and only then hands the payload to the signal's channel (`sender.send`). Encoding
  streams the property values, so a value whose `Display` / `sval::Value` code itself emits through the same
  emitter re-enters `emit` on the same thread *while the outer event is being encoded*. Nothing is held across
  the value's code: the protobuf encoder's thread-local allocation cache (`LOCAL_CAPACITY`, data.rs:150-190) is
  borrowed to take the re-usable buffers out and, after `value.stream(..)` returned, to put them back — never
  while it runs; the JSON encoder has no state; the channel is locked inside `send`, after encoding. So the nested
  emit is just another emit: it runs to completion (encode, queue) and the outer one continues. -/

/-- `emit` of one event through a signal whose encoder is `enc` (`none` = the event is declined: nothing is
    queued); the state is the list of records queued so far, oldest first; `.panic` = the emitting thread
    panicked. -/
def emitOne {ρ : Type} (enc : Event → Option (Enc ρ)) (e : Event) (q : List ρ) : Enc (List ρ) :=
  match enc e with
  | none => .ok q
  | some .panic => .panic
  | some (.ok r) => .ok (q ++ [r])

/-- the `k` nested emits, one after the other; a panic in one of them unwinds through everything -/
def emitNested {ρ : Type} (enc : Event → Option (Enc ρ)) (inner : Event) : Nat → List ρ → Enc (List ρ)
  | 0, q => .ok q
  | k + 1, q => (emitOne enc inner q).bind (emitNested enc inner k)

/-- `emit outer` when the encoder formats, `k` times in all, values of `outer` whose formatting code emits
    `inner` through the same emitter: every nested emit completes (its record is queued) before the outer
    record is complete and queued. -/
def emitRe {ρ : Type} (enc : Event → Option (Enc ρ)) (outer inner : Event) (k : Nat) (q : List ρ) : Enc (List ρ) :=
  (emitNested enc inner k q).bind (emitOne enc outer)

/-- plain emits, one after the other -/
def emitAll {ρ : Type} (enc : Event → Option (Enc ρ)) : List Event → List ρ → Enc (List ρ)
  | [], q => .ok q
  | e :: es, q => (emitOne enc e q).bind (emitAll enc es)

/-- Does the encoder of a signal format the ordinary (not lifted, not shadowed) attribute values of an event?
    Logs: always (logs.rs:30-58 encodes every event). Traces: iff the event is encoded (traces.rs:41-56 declines
    before anything is streamed). Metrics: as soon as the event is metric-kinded and has a `metric_value` — the
    attributes are buffered (metrics.rs:91-113) BEFORE the samples are extracted, so also for an event that is
    then declined for want of numeric samples. -/
inductive SignalS where
  | logs | traces | metrics
  deriving DecidableEq, Inhabited

def formatsAttributes : SignalS → Event → Bool
  | .logs, _ => true
  | .traces, e => (spanRecord e).isSome
  | .metrics, e => e.isKind .metric && (lookupFirst "metric_value" e.props).isSome

end EmitModel.Encode
