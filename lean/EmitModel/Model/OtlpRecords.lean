/-
  Model/OtlpRecords.lean — C13. The OTLP records built from one event, as structured data
  (the wire form — protobuf or JSON — is produced by sval_protobuf / sval_json and is checked by decoding).

  Shared pieces:
    * `stream_attributes` (/repo/emitter/otlp/src/data.rs:327-347): a sequence over `props.dedup()`; the
      per-signal closure decides for every (key, value) whether it becomes an attribute or is lifted.
    * timestamps: `to_unix().as_nanos() as u64` — a truncating cast, i.e. mod 2^64
      (logs.rs:35-38, traces.rs:49-56, metrics.rs:62-80).
    * trace / span ids: dedicated fields, 16 / 8 big-endian bytes in protobuf and 32 / 16 hex characters in
      JSON (data.rs:108-233); the model keeps the number, the harness canonicalises both forms to hex.
-/
import EmitModel.Model.AnyValue

namespace EmitModel.Encode
open EmitModel.Level (Level)

def u64Wrap (n : Nat) : Nat := n % 2 ^ 64

def Ts.otlpNanos (t : Ts) : Nat := u64Wrap t.unixNanos

/-- `Stacktrace` Display (any_value.rs:107-123): one `caused by: …` line per error of the source chain -/
def stacktraceText : List String → String
  | [] => ""
  | [c] => "caused by: " ++ c
  | c :: rest => "caused by: " ++ c ++ "\n" ++ stacktraceText rest

/-- last value enumerated under `k` (a variable assigned once per visit keeps the last assignment; on
    de-duplicated properties there is at most one visit) -/
def lookupLast {α : Type} (k : String) (ps : List (String × α)) : Option α := lookupFirst k ps.reverse

/-! ### Logs: /repo/emitter/otlp/src/data/logs.rs:30-60, logs/log_record.rs:84-176 -/

structure LogRecord where
  /-- `EncodedEvent::scope` = the module (logs.rs:43), the name of the instrumentation scope the record is filed under -/
  scope : String
  timeUnixNano : Nat
  observedTimeUnixNano : Nat
  severityNumber : Nat
  severityText : String
  body : String
  traceId : Option Nat
  spanId : Option Nat
  attributes : List (String × AnyValue)
  deriving Inhabited

/-- `SeverityNumber` (log_record.rs:7-15, 123-128) -/
def severityNumber : Level → Nat
  | .debug => 5 | .info => 9 | .warn => 13 | .error => 17

/-- the attributes one property contributes to a log record (log_record.rs:97-131) -/
def logAttr (k : String) (v : PV) : Enc (List (String × AnyValue)) :=
  if k = "lvl" ∨ k = "span_id" ∨ k = "trace_id" then .ok []
  else if k = "err" then
    (anyValue v.image).bind fun a =>
      let stack : List (String × AnyValue) := match v.error? with
        | some (_, c :: cs) => [("exception.stacktrace", .str (stacktraceText (c :: cs)))]
        | _ => []
      .ok (stack ++ [("exception.message", a)])
  else (anyValue v.image).bind fun a => .ok [(k, a)]

def logAttrs : List (String × PV) → Enc (List (String × AnyValue))
  | [] => .ok []
  | (k, v) :: rest => (logAttr k v).bind fun as => (logAttrs rest).bind fun bs => .ok (as ++ bs)

def logRecord (e : Event) : Enc LogRecord :=
  let ps := e.deduped
  let t := match e.extent.point? with
    | some t => t.otlpNanos
    | none => 0
  let level := ((lookupLast "lvl" ps).bind PV.castLevel).getD .info
  (logAttrs ps).bind fun attrs => .ok {
    scope := e.mdl
    timeUnixNano := t
    observedTimeUnixNano := t
    severityNumber := severityNumber level
    severityText := level.display
    body := e.msg
    traceId := (lookupLast "trace_id" ps).bind (PV.castId 128)
    spanId := (lookupLast "span_id" ps).bind (PV.castId 64)
    attributes := attrs }

end EmitModel.Encode
