/-
  Model/FileSetLegacy.lean — `Worker::on_batch` as it was BEFORE the fix of defect D19
  (/repo commit "fix: sync the events a failed write leaves behind before retrying the rest of the batch"):
  a failed write handed the remainder back at once; what the attempt had already written stayed unsynced in a file
  the worker let go of. Kept only to state the defect as a theorem (`C10.legacy_retry_leaves_prefix_unsynced`);
  no stream runs it.
-/
import EmitModel.Model.FileSet

namespace EmitModel.FileSet

def onBatchLegacy (cfg : Config) (plan : Nat → Fault) (now : Parts) (id : Nat) (b : Batch) (s : St) : Res × St :=
  match acquire cfg plan now id b s with
  | .err s => (.retry b, s)
  | .crash s => (.crashed, s)
  | .ok a s =>
    match writeEvents cfg plan a b s b.rest with
    | (.ok, some a, s) =>
      match flushFile plan s with
      | .err s => (.noRetry, s)
      | .crash s => (.crashed, s)
      | .ok () s =>
        match syncAll plan a.name s with
        | .err s => (.noRetry, s)
        | .crash s => (.crashed, s)
        | .ok () s => (.ok, { s with active := some a })
    | (r, _, s) => (r, s)

def processBatchLegacy (cfg : Config) (plan : Nat → Fault) : List (Parts × Nat) → Batch → St → Res × St
  | [], b, s => (.retry b, s)
  | (now, id) :: rest, b, s =>
    match onBatchLegacy cfg plan now id b s with
    | (.retry b', s') => processBatchLegacy cfg plan rest b' s'
    | r => r

end EmitModel.FileSet
