/-
  Model/TraceparentText.lean — C15. Text codecs of /repo/traceparent/src/lib.rs:
    * `Traceparent::try_from_str` :308-351, `FromStr` :430-436, `Display` :438-458
    * `TraceFlags::{to_hex, try_from_hex_slice}` :505-561, `FromStr` :588-594, `Display` :596-600
  No site can panic: the fixed indices 2/35/52 and the ranges 0..2, 3..35, 36..52, 53..55 are only reached after
  `bytes.len() == 55`, and slicing is on `&[u8]` (no char-boundary condition).
-/
import EmitModel.Model.HexId

namespace EmitModel.TraceparentText
open EmitModel.Text EmitModel.HexId

/-- `TraceFlags::to_hex` (:505-515) -/
def flagsToHex (f : UInt8) : List UInt8 := [hexEncode (f >>> 4), hexEncode (f &&& 0x0f)]

/-- `TraceFlags::try_from_hex_slice` (:522-561): exactly two hex chars; `(h1 << 4) | h2`. -/
def flagsParse (hex : List UInt8) : Option UInt8 :=
  match hex with
  | [a, b] =>
    let h1 := hexDecode a
    let h2 := hexDecode b
    if (h1 ||| h2) == 0xff then none else some ((h1 <<< 4) ||| h2)
  | _ => none

structure Traceparent where
  traceId : Option Nat
  spanId : Option Nat
  flags : UInt8
  deriving Repr, DecidableEq

def zeros (n : Nat) : List UInt8 := List.replicate n 48

def dash : UInt8 := 45

/-- `Display for Traceparent` (:438-458) -/
def fmtTraceparent (tp : Traceparent) : List UInt8 :=
  [48, 48, dash]
    ++ (match tp.traceId with
        | some t => toHex 16 t ++ [dash]
        | none => zeros 32 ++ [dash])
    ++ (match tp.spanId with
        | some s => toHex 8 s ++ [dash]
        | none => zeros 16 ++ [dash])
    ++ flagsToHex tp.flags

/-- `&bytes[a..b]` on a byte slice already known to be long enough -/
def sub (bs : List UInt8) (a b : Nat) : List UInt8 := (bs.drop a).take (b - a)

/-- `Traceparent::try_from_str` (:308-351), check for check in the code's order. -/
def parseTraceparent (bytes : List UInt8) : Option Traceparent :=
  if bytes.length ≠ 55 then none
  else if bytes[2]? ≠ some dash ∨ bytes[35]? ≠ some dash ∨ bytes[52]? ≠ some dash then none
  else if sub bytes 0 2 ≠ [48, 48] then none
  else
    let traceId := sub bytes 3 35
    let spanId := sub bytes 36 52
    let traceFlags := sub bytes 53 55
    let tid : Option (Option Nat) :=
      if traceId = zeros 32 then some none else (tryFromHexSlice 16 traceId).map some
    match tid with
    | none => none
    | some tid =>
      let sid : Option (Option Nat) :=
        if spanId = zeros 16 then some none else (tryFromHexSlice 8 spanId).map some
      match sid with
      | none => none
      | some sid =>
        match flagsParse traceFlags with
        | none => none
        | some fl => some ⟨tid, sid, fl⟩

end EmitModel.TraceparentText
