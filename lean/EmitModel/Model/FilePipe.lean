/-
  Model/FilePipe.lean — the rolling-file emitter as a whole: the batching channel (Model/Batcher.lean) with the
  file worker (Model/FileSet.lean) as its processor. This is the composition `emit_file` builds in
  /repo/emitter/file/src/lib.rs:430-470 (`emit_batcher::bounded` + `emit_batcher::sync::spawn(receiver, move |batch|
  worker.on_batch(batch))`) and the one C07's last clause is about ("it carries through to the emitters built on the
  channel: rolling files are written and synced").

  * an item `x` of the channel is the formatted event `ev x` (`FileSetInner::emit` pushes the bytes, lib.rs:480-506);
  * when the receiver hands a batch to the processor (`rxBegin`) the worker gets the `EventBatch` holding exactly
    those buffers (`Batch.ofEvents`);
  * the conclusion of an `on_batch` call is no longer adversarial: it is what `FileSet.onBatch` returns on the held
    batch under the fault plan, with the clock / id readings of the attempt —
        Ok                         ↦ `Outcome.ok`
        Err(BatchError::retry(_, batch))  ↦ `Outcome.failRetry` with the items still in `batch` (`retryable.len()`,
                                     batcher lib.rs:430: the last `batch.len()` items of the current call)
        Err(BatchError::no_retry(_))      ↦ `Outcome.failNoRetry`
        a crash of the filesystem         ↦ the process is gone: the filesystem is what the crash left (synced content,
                                     durable entries), `crashed` is set and no label is enabled any more;
  * every other label of the channel (sends, flush registrations, hand-off, callbacks, waits, drops) is unchanged.

  Ghost components record, for the theorems, where the filesystem log stood when the held batch began, which
  batches concluded Ok (with that position) and which concluded as failed.
-/
import EmitModel.Model.Batcher
import EmitModel.Model.FileSet

namespace EmitModel.FilePipe
open EmitModel

structure Cfg where
  ch : Batcher.Cfg
  file : FileSet.Config
  ev : Nat → List Nat
  plan : Nat → FileSet.Fault

structure St where
  ch : Batcher.St
  fs : FileSet.St
  cur : Option FileSet.Batch        -- the EventBatch the receiver holds (in `on_batch` or waiting for its retry)
  crashed : Bool                    -- a filesystem call crashed the process: nothing runs any more
  -- ghost
  began : Nat                       -- length of the filesystem log when the held batch was first handed over
  okd : List (Nat × Nat)            -- (item, `began` of its batch) for batches that concluded Ok
  failed : List Nat                 -- items of batches that concluded as failed (no_retry / retries exhausted)

def init (fs0 : FileSet.St) : St :=
  { ch := Batcher.init, fs := fs0, cur := none, crashed := false, began := 0, okd := [], failed := [] }

inductive Label where
  | chan (l : Batcher.Label)                     -- a channel step other than the conclusion of `on_batch`
  | process (now : FileSet.Parts) (id : Nat)     -- `Worker::on_batch` runs on the held batch and concludes
  deriving Repr

/-- The items of the current call that are still in the batch handed back for a retry. -/
def remainder (cur : List Nat) (b' : FileSet.Batch) : List Nat := cur.drop (cur.length - b'.rest.length)

def stepLive (cfg : Cfg) (s : St) : Label → Option St
  | .chan (.rxOutcome _) => none
  | .chan .rxBegin =>
    match Batcher.step cfg.ch s.ch .rxBegin with
    | none => none
    | some ch' =>
      match ch'.rx with
      | .processing _ c _ =>
        some { s with ch := ch', cur := some (FileSet.Batch.ofEvents (c.map cfg.ev)), began := s.fs.log.length }
      | _ => some { s with ch := ch' }
  | .chan l => (Batcher.step cfg.ch s.ch l).map fun ch' => { s with ch := ch' }
  | .process now id =>
    match s.ch.rx, s.cur with
    | .processing orig c _, some b =>
      match FileSet.onBatch cfg.file cfg.plan now id b s.fs with
      | (.ok, fs') =>
        (Batcher.step cfg.ch s.ch (.rxOutcome .ok)).map fun ch' =>
          { s with ch := ch', fs := fs', cur := none, okd := s.okd ++ orig.map fun x => (x, s.began) }
      | (.retry b', fs') =>
        (Batcher.step cfg.ch s.ch (.rxOutcome (.failRetry (remainder c b')))).map fun ch' =>
          match ch'.rx with
          | .retryWait _ _ _ => { s with ch := ch', fs := fs', cur := some b' }
          | _ => { s with ch := ch', fs := fs', cur := none, failed := s.failed ++ orig }
      | (.noRetry, fs') =>
        (Batcher.step cfg.ch s.ch (.rxOutcome .failNoRetry)).map fun ch' =>
          { s with ch := ch', fs := fs', cur := none, failed := s.failed ++ orig }
      | (.crashed, fs') => some { s with fs := fs', crashed := true }
    | _, _ => none

/-- After a crash nothing runs; before it, `stepLive`. -/
def step (cfg : Cfg) (s : St) (l : Label) : Option St := if s.crashed then none else stepLive cfg s l

/-- The channel label a composite label is, given the state it is taken in. -/
def chanLabel (cfg : Cfg) (s : St) : Label → Option Batcher.Label
  | .chan l => some l
  | .process now id =>
    match s.ch.rx, s.cur with
    | .processing _ c _, some b =>
      match (FileSet.onBatch cfg.file cfg.plan now id b s.fs).1 with
      | .ok => some (.rxOutcome .ok)
      | .retry b' => some (.rxOutcome (.failRetry (remainder c b')))
      | .noRetry => some (.rxOutcome .failNoRetry)
      | .crashed => none
    | _, _ => none

def Reachable (cfg : Cfg) (fs0 : FileSet.St) (s : St) : Prop := Sched.Reachable (step cfg) (init fs0) s

end EmitModel.FilePipe
