/-
  Model/FileSet.lean — executable model of the rolling file worker of `emit_file`
  (`emitter/file/src/lib.rs`: `EventBatch` :641-695, `Worker::on_batch` :745-915, `ActiveFileSet` :917-1000,
  `ActiveFile` :1002-1076, name formatting :1112-1189) over a fault-injecting in-memory filesystem.

  Conventions
  * bytes, characters of names and separators are plain `Nat`s (`List Nat`), so `omega` applies;
    the driver converts from/to the hex transport. Name comparison is lexicographic on these lists,
    which is what `str::cmp` is on UTF-8 bytes.
  * every filesystem call takes its outcome from a fault plan `Nat → Fault` indexed by a global
    operation counter `St.op`; `write_all` of an empty buffer makes no call (std's loop body never runs).
  * the model follows the code AFTER the fixes D4 (list before every create, retention loop guarded),
    D5 (strict membership parse), D9 (`clear` resets the cursor) and the parent-directory sync on reuse;
    see DESIGN §8 and props/C10.json.
  Import-free (the driver links as a `lean_exe`).
-/
namespace EmitModel.FileSet

/-! ## Digits and names -/

/-- ASCII of a digit value: `0-9`, then lower-case `a-f` (`{:x}`). -/
def digitChar (d : Nat) : Nat := if d < 10 then 48 + d else 87 + d

/-- `w` digits of `n` in `base`, most significant first (the value modulo `base^w`).
    Equals Rust's zero-padded `{:0w}` / `{:0wx}` whenever `n < base^w`, which holds at every call site
    (years ≤ 9999, months/days/hours/minutes two digits, ms-in-period < 10^8, id < 16^8). -/
def fixedBase (base : Nat) : Nat → Nat → List Nat
  | 0, _ => []
  | w + 1, n => fixedBase base w (n / base) ++ [digitChar (n % base)]

def dot : Nat := 46
def dash : Nat := 45

inductive RollBy where
  | day | hour | minute
  deriving Repr, DecidableEq, Inhabited

/-- `emit::timestamp::Parts` (the clock reading after `to_parts`). -/
structure Parts where
  years : Nat
  months : Nat
  days : Nat
  hours : Nat
  minutes : Nat
  seconds : Nat
  nanos : Nat
  deriving Repr, DecidableEq, Inhabited

/-- `file_ts` (lib.rs:1147-1162). -/
def fileTs (rb : RollBy) (p : Parts) : List Nat :=
  let d := fixedBase 10 4 p.years ++ [dash] ++ fixedBase 10 2 p.months ++ [dash] ++ fixedBase 10 2 p.days
  match rb with
  | .day => d
  | .hour => d ++ [dash] ++ fixedBase 10 2 p.hours
  | .minute => d ++ [dash] ++ fixedBase 10 2 p.hours ++ [dash] ++ fixedBase 10 2 p.minutes

/-- `rolling_millis` (lib.rs:1112-1141): milliseconds since the start of the rolling period. -/
def rollingMillis (rb : RollBy) (p : Parts) : Nat :=
  let ms := p.nanos / 1000000
  match rb with
  | .day => ((p.hours * 60 + p.minutes) * 60 + p.seconds) * 1000 + ms
  | .hour => (p.minutes * 60 + p.seconds) * 1000 + ms
  | .minute => p.seconds * 1000 + ms

/-- `file_id` (lib.rs:1164-1166). -/
def fileId (ms id : Nat) : List Nat := fixedBase 10 8 ms ++ [dot] ++ fixedBase 16 8 id

/-- `file_name` (lib.rs:1187-1189). -/
def fileName (pfx ext ts id : List Nat) : List Nat := pfx ++ [dot] ++ ts ++ [dot] ++ id ++ [dot] ++ ext

/-- The name created for a clock reading and a random id. -/
def nameFor (pfx ext : List Nat) (rb : RollBy) (now : Parts) (id : Nat) : List Nat :=
  fileName pfx ext (fileTs rb now) (fileId (rollingMillis rb now) id)

/-! ### Parsing names (membership, D5 fix) -/

def stripPrefix? : List Nat → List Nat → Option (List Nat)
  | [], l => some l
  | _ :: _, [] => none
  | p :: ps, x :: xs => if p = x then stripPrefix? ps xs else none

def stripSuffix? (suf l : List Nat) : Option (List Nat) :=
  (stripPrefix? suf.reverse l.reverse).map List.reverse

/-- `str::split(c)`: always at least one piece. -/
def splitOn (c : Nat) : List Nat → List (List Nat)
  | [] => [[]]
  | x :: xs =>
    match splitOn c xs with
    | [] => [[]]
    | r :: rs => if x = c then [] :: r :: rs else (x :: r) :: rs

def isDecDigit (c : Nat) : Bool := decide (48 ≤ c) && decide (c ≤ 57)
def isHexDigit (c : Nat) : Bool := isDecDigit c || (decide (97 ≤ c) && decide (c ≤ 102))

def isDigits (n : Nat) (l : List Nat) : Bool := decide (l.length = n) && l.all isDecDigit
def isHexDigits (n : Nat) (l : List Nat) : Bool := decide (l.length = n) && l.all isHexDigit

/-- `yyyy-mm-dd`, optionally followed by `-hh` and `-mm`. -/
def isFileTs (ts : List Nat) : Bool :=
  match splitOn dash ts with
  | [y, m, d] => isDigits 4 y && isDigits 2 m && isDigits 2 d
  | [y, m, d, h] => isDigits 4 y && isDigits 2 m && isDigits 2 d && isDigits 2 h
  | [y, m, d, h, mi] => isDigits 4 y && isDigits 2 m && isDigits 2 d && isDigits 2 h && isDigits 2 mi
  | _ => false

/-- The membership parse: `prefix '.' ts '.' 8 digits '.' 8 hex '.' ext`, returning `ts`. -/
def memberTs? (pfx ext name : List Nat) : Option (List Nat) :=
  match stripPrefix? pfx name with
  | none => none
  | some r1 =>
    match stripPrefix? [dot] r1 with
    | none => none
    | some r2 =>
      match stripSuffix? ext r2 with
      | none => none
      | some r3 =>
        match stripSuffix? [dot] r3 with
        | none => none
        | some mid =>
          match splitOn dot mid with
          | [ts, ms, id] => if isFileTs ts && isDigits 8 ms && isHexDigits 8 id then some ts else none
          | _ => none

def isMember (pfx ext name : List Nat) : Bool := (memberTs? pfx ext name).isSome

/-! ### The template path (`dir_prefix_ext`, lib.rs:1078-1110) -/

/-- Split at the last occurrence of `c`: `(before, after)`. -/
def splitLast (c : Nat) : List Nat → Option (List Nat × List Nat)
  | [] => none
  | x :: xs =>
    match splitLast c xs with
    | some (b, a) => some (x :: b, a)
    | none => if x = c then some ([], xs) else none

def slash : Nat := 47

/-- `dir_prefix_ext` on simple Unix paths (segments separated by single slashes, no `.`/`..` segments inside, no
    trailing slash): directory = `Path::parent` (`.` when that is empty), prefix = `file_stem`, extension = `extension` or `log`.
    `none` = the error "paths must include a file name". -/
def dirPrefixExt (path : List Nat) : Option (List Nat × List Nat × List Nat) :=
  let (dir, name) :=
    match splitLast slash path with
    -- no directory part (`app.log`): the current directory (an empty directory string can be neither listed nor
    -- opened to sync; defect D18, repaired)
    | none => ([dot], path)
    | some (d, n) => (if d = [] then [slash] else d, n)
  if name = [] ∨ name = [dot] ∨ name = [dot, dot] then none
  else
    match splitLast dot name with
    | none => some (dir, name, [108, 111, 103])
    | some (before, after) => if before = [] then some (dir, name, [108, 111, 103]) else some (dir, before, after)

/-! ### Lexicographic order on names (`str::cmp`) and the descending sort -/

def lexLt : List Nat → List Nat → Bool
  | [], [] => false
  | [], _ :: _ => true
  | _ :: _, [] => false
  | x :: xs, y :: ys => if x < y then true else if y < x then false else lexLt xs ys

/-- Insert into a list sorted in descending order (stable: after the elements that are ≥). -/
def insertDesc (n : List Nat) : List (List Nat) → List (List Nat)
  | [] => [n]
  | m :: ms => if lexLt m n then n :: m :: ms else m :: insertDesc n ms

/-- `file_set.sort_by(|a, b| a.cmp(b).reverse())` (lib.rs:958). -/
def sortDesc : List (List Nat) → List (List Nat)
  | [] => []
  | n :: ns => insertDesc n (sortDesc ns)

/-! ## Filesystem with faults -/

structure File where
  synced : List Nat
  unsynced : List Nat
  /-- the directory entry has been made durable (`sync_parent`) -/
  durable : Bool
  deriving Repr, DecidableEq, Inhabited

def File.content (f : File) : List Nat := f.synced ++ f.unsynced

/-- The directory entry becomes durable. -/
def File.setDurable (f : File) : File := { f with durable := true }

/-- `sync_all`: everything written so far becomes durable content. -/
def File.syncedAll (f : File) : File := { f with synced := f.synced ++ f.unsynced, unsynced := [] }

inductive Fault where
  | ok
  | err
  /-- a write puts `n % len` bytes of the buffer, then fails; any other call just fails -/
  | short (n : Nat)
  /-- the process dies at this call: a write first puts `w % (len+1)` bytes; then every file keeps a prefix of
      its unsynced bytes (a file with `u` unsynced bytes loses `min (lose[u % lose.length]) u`), entries never
      synced to the directory vanish when `dropNew`, and the worker restarts without an active file -/
  | crash (w : Nat) (lose : List Nat) (dropNew : Bool)
  deriving Repr, DecidableEq, Inhabited

inductive Ev where
  | created (n : List Nat)
  | deleted (n : List Nat)
  | opened (n : List Nat)
  deriving Repr, DecidableEq, Inhabited

/-- `ActiveFile` (lib.rs:1002-1008); the handle is the name. -/
structure Active where
  name : List Nat
  ts : List Nat
  needsRecovery : Bool
  size : Nat
  deriving Repr, DecidableEq, Inhabited

structure St where
  fs : List (List Nat × File)
  /-- global index of the next filesystem call -/
  op : Nat
  active : Option Active
  /-- observation log (oldest first); never read by the worker -/
  log : List Ev
  /-- ghost: an interrupting fault (short write that put bytes, or crash) has happened -/
  faulted : Bool
  deriving Repr, Inhabited

def fsGet (fs : List (List Nat × File)) (n : List Nat) : Option File :=
  match fs with
  | [] => none
  | (m, f) :: rest => if m = n then some f else fsGet rest n

def fsSet (fs : List (List Nat × File)) (n : List Nat) (f : File) : List (List Nat × File) :=
  match fs with
  | [] => [(n, f)]
  | (m, g) :: rest => if m = n then (m, f) :: rest else (m, g) :: fsSet rest n f

def fsErase (fs : List (List Nat × File)) (n : List Nat) : List (List Nat × File) :=
  fs.filter fun e => decide (e.1 ≠ n)

def lossOf (lose : List Nat) (u : Nat) : Nat := min (lose.getD (u % lose.length) 0) u

def crashFile (lose : List Nat) (f : File) : File :=
  { synced := f.synced ++ f.unsynced.take (f.unsynced.length - lossOf lose f.unsynced.length),
    unsynced := [], durable := true }

def crashFs (lose : List Nat) (dropNew : Bool) (fs : List (List Nat × File)) : List (List Nat × File) :=
  (fs.filter fun e => e.2.durable || !dropNew).map fun e => (e.1, crashFile lose e.2)

def St.tick (s : St) : St := { s with op := s.op + 1 }

def St.crashed (s : St) (lose : List Nat) (dropNew : Bool) : St :=
  { s with fs := crashFs lose dropNew s.fs, op := s.op + 1, active := none, faulted := true }

/-- Outcome of one filesystem call. -/
inductive R (α : Type) where
  | ok (a : α) (s : St)
  | err (s : St)
  | crash (s : St)
  deriving Inhabited

/-- A call without data effect on failure; `act` is applied when the plan says `ok`. -/
def simpleOp {α : Type} (plan : Nat → Fault) (s : St) (act : St → R α) : R α :=
  match plan s.op with
  | .ok => act s.tick
  | .err => .err s.tick
  | .short _ => .err s.tick
  | .crash _ lose dropNew => .crash (s.crashed lose dropNew)

def createDirAll (plan : Nat → Fault) (s : St) : R Unit :=
  simpleOp plan s fun s => .ok () s

def readDir (plan : Nat → Fault) (s : St) : R (List (List Nat)) :=
  simpleOp plan s fun s => .ok (s.fs.map (·.1)) s

/-- `create_new(true)`: fails when the name exists. -/
def openNew (plan : Nat → Fault) (n : List Nat) (s : St) : R Unit :=
  simpleOp plan s fun s =>
    match fsGet s.fs n with
    | some _ => .err s
    | none => .ok () { s with fs := s.fs ++ [(n, { synced := [], unsynced := [], durable := false })],
                              log := s.log ++ [.created n] }

def syncParent (plan : Nat → Fault) (s : St) : R Unit :=
  simpleOp plan s fun s => .ok () { s with fs := s.fs.map fun e => (e.1, e.2.setDurable) }

def openExisting (plan : Nat → Fault) (n : List Nat) (s : St) : R Unit :=
  simpleOp plan s fun s =>
    match fsGet s.fs n with
    | some _ => .ok () { s with log := s.log ++ [.opened n] }
    | none => .err s

def fileLen (plan : Nat → Fault) (n : List Nat) (s : St) : R Nat :=
  simpleOp plan s fun s =>
    match fsGet s.fs n with
    | some f => .ok f.content.length s
    | none => .err s

def appendBytes (fs : List (List Nat × File)) (n : List Nat) (bytes : List Nat) : List (List Nat × File) :=
  match fsGet fs n with
  | some f => fsSet fs n { f with unsynced := f.unsynced ++ bytes }
  | none => fs

/-- One `write_all(buf)` (std's loop over `write`). -/
def writeAll (plan : Nat → Fault) (n : List Nat) (buf : List Nat) (s : St) : R Unit :=
  if buf = [] then .ok () s
  else
    match plan s.op with
    | .ok => .ok () { s.tick with fs := appendBytes s.fs n buf }
    | .err => .err s.tick
    | .short k =>
      let k := k % buf.length
      .err { s.tick with fs := appendBytes s.fs n (buf.take k), faulted := s.faulted || decide (0 < k) }
    | .crash w lose dropNew =>
      .crash ({ s with fs := appendBytes s.fs n (buf.take (w % (buf.length + 1))) }.crashed lose dropNew)

def flushFile (plan : Nat → Fault) (s : St) : R Unit :=
  simpleOp plan s fun s => .ok () s

def syncAll (plan : Nat → Fault) (n : List Nat) (s : St) : R Unit :=
  simpleOp plan s fun s =>
    match fsGet s.fs n with
    | some f => .ok () { s with fs := fsSet s.fs n f.syncedAll }
    | none => .ok () s

def removeFile (plan : Nat → Fault) (n : List Nat) (s : St) : R Unit :=
  simpleOp plan s fun s =>
    match fsGet s.fs n with
    | some _ => .ok () { s with fs := fsErase s.fs n, log := s.log ++ [.deleted n] }
    | none => .err s

/-! ## The batch (`EventBatch`, lib.rs:641-695) -/

structure Batch where
  bufs : List (List Nat)
  remaining : Nat
  index : Nat
  deriving Repr, DecidableEq, Inhabited

def Batch.empty : Batch := { bufs := [], remaining := 0, index := 0 }

def Batch.push (b : Batch) (e : List Nat) : Batch :=
  { b with bufs := b.bufs ++ [e], remaining := b.remaining + e.length }

/-- `Channel::clear` after the D9 fix: the byte counter and the cursor are reset with the buffers. -/
def Batch.clear (_b : Batch) : Batch := Batch.empty

def Batch.len (b : Batch) : Nat := b.bufs.length - b.index

def Batch.ofEvents (evs : List (List Nat)) : Batch := evs.foldl Batch.push Batch.empty

/-- The events from the cursor onwards. -/
def Batch.rest (b : Batch) : List (List Nat) := b.bufs.drop b.index

/-- `advance` (lib.rs:689-694) over the current event `e`. -/
def Batch.advance (b : Batch) (e : List Nat) : Batch :=
  { bufs := b.bufs.set b.index [], remaining := b.remaining - e.length, index := b.index + 1 }

/-! ## `FileSetInner::emit` (lib.rs:480-506): the separator is appended unless the writer already ended with it -/

def finishEvent (sep buf : List Nat) : List Nat := if sep.isSuffixOf buf then buf else buf ++ sep

/-- What the writer closure did for one event: formatted `p` and returned Ok, or wrote `partial` and returned Err. -/
inductive Formatted where
  | ok (p : List Nat)
  | fail (part : List Nat)
  deriving Repr, DecidableEq, Inhabited

/-- The buffer `emit` sends to the worker: a fresh buffer per event, nothing on the error arm (the event is
    dropped and counted in `event_format_failed`), whatever the writer had already put into the buffer. -/
def emitBuf (sep : List Nat) : Formatted → Option (List Nat)
  | .ok p => some (finishEvent sep p)
  | .fail _ => none

/-- All buffers sent for a sequence of events, and the number of format failures. -/
def emitAll (sep : List Nat) (ws : List Formatted) : List (List Nat) × Nat :=
  (ws.filterMap (emitBuf sep), (ws.filter fun w => match w with | .fail _ => true | .ok _ => false).length)

/-! ## The worker -/

structure Config where
  pfx : List Nat
  ext : List Nat
  rollBy : RollBy
  reuse : Bool
  maxFiles : Nat
  maxSize : Nat
  sep : List Nat
  deriving Repr, Inhabited

inductive Res where
  | ok
  | retry (b : Batch)
  | noRetry
  | crashed
  deriving Repr, DecidableEq, Inhabited

/-- `ActiveFileSet::read` (lib.rs:932-963): a failed listing leaves the set empty (the caller ignores the error). -/
def readSet (cfg : Config) (plan : Nat → Fault) (s : St) : R (List (List Nat)) :=
  match readDir plan s with
  | .ok names s => .ok (sortDesc (names.filter (isMember cfg.pfx cfg.ext))) s
  | .err s => .ok [] s
  | .crash s => .crash s

/-- `apply_retention` (lib.rs:973-1000) over the victims in deletion order; a failed delete is skipped. -/
def removeAll (plan : Nat → Fault) : List (List Nat) → St → R Unit
  | [], s => .ok () s
  | n :: ns, s =>
    match removeFile plan n s with
    | .ok () s => removeAll plan ns s
    | .err s => removeAll plan ns s
    | .crash s => .crash s

/-- The names popped by `while len > keep { pop }` from a list sorted in descending order. -/
def victims (keep : Nat) (set : List (List Nat)) : List (List Nat) := (set.drop keep).reverse

/-- `ActiveFile::try_open_reuse` (lib.rs:1011-1032); `err` = `Err(_)`, which the caller turns into `None`. -/
def tryOpenReuse (cfg : Config) (plan : Nat → Fault) (n : List Nat) (s : St) : R Active :=
  match memberTs? cfg.pfx cfg.ext n with
  | none => .err s
  | some ts =>
    match openExisting plan n s with
    | .err s => .err s
    | .crash s => .crash s
    | .ok () s =>
      match syncParent plan s with
      | .err s => .err s
      | .crash s => .crash s
      | .ok () s =>
        match fileLen plan n s with
        | .err s => .err s
        | .crash s => .crash s
        | .ok len s => .ok { name := n, ts := ts, needsRecovery := true, size := len } s

/-- The create branch of `on_batch` (lib.rs:819-864): retention, name, `try_open_create`. -/
def createFile (cfg : Config) (plan : Nat → Fault) (now : Parts) (id : Nat) (set : List (List Nat)) (s : St) :
    R Active :=
  match removeAll plan (victims (cfg.maxFiles - 1) set) s with
  | .err s => .err s
  | .crash s => .crash s
  | .ok () s =>
    let n := nameFor cfg.pfx cfg.ext cfg.rollBy now id
    match memberTs? cfg.pfx cfg.ext n with
    | none => .err s
    | some ts =>
      match openNew plan n s with
      | .err s => .err s
      | .crash s => .crash s
      | .ok () s =>
        match syncParent plan s with
        | .err s => .err s
        | .crash s => .crash s
        | .ok () s => .ok { name := n, ts := ts, needsRecovery := false, size := 0 } s

/-- The fit/period test (lib.rs:812-815). -/
def fits (cfg : Config) (now : Parts) (b : Batch) (a : Active) : Bool :=
  decide (a.size + b.remaining ≤ cfg.maxSize) && decide (a.ts = fileTs cfg.rollBy now)

/-- With the listing in hand and no active file: reuse the newest file if enabled, it opens and the batch fits
    (lib.rs:788-815), else create one. -/
def openOrCreate (cfg : Config) (plan : Nat → Fault) (now : Parts) (id : Nat) (b : Batch) (set : List (List Nat))
    (s : St) : R Active :=
  match (if cfg.reuse then set.head? else none) with
  | none => createFile cfg plan now id set s
  | some n =>
    match tryOpenReuse cfg plan n s with
    | .crash s => .crash s
    | .err s => createFile cfg plan now id set s
    | .ok a s => if fits cfg now b a then .ok a s else createFile cfg plan now id set s

/-- Everything `on_batch` does before the write loop (lib.rs:752-864): which file the batch goes to. -/
def acquire (cfg : Config) (plan : Nat → Fault) (now : Parts) (id : Nat) (b : Batch) (s : St) : R Active :=
  let s0 := { s with active := none }
  match s.active with
  | some a =>
    if fits cfg now b a then .ok a s0
    else
      match readSet cfg plan s0 with
      | .err s => .err s
      | .crash s => .crash s
      | .ok set s => createFile cfg plan now id set s
  | none =>
    match createDirAll plan s0 with
    | .err s => .err s
    | .crash s => .crash s
    | .ok () s =>
      match readSet cfg plan s with
      | .err s => .err s
      | .crash s => .crash s
      | .ok set s => openOrCreate cfg plan now id b set s

/-- `ActiveFile::write_event` (lib.rs:1057-1075). -/
def writeEvent (cfg : Config) (plan : Nat → Fault) (a : Active) (e : List Nat) (s : St) : R Active :=
  let r := if a.needsRecovery then writeAll plan a.name cfg.sep s else .ok () s
  let a1 := if a.needsRecovery then { a with size := a.size + cfg.sep.length } else a
  match r with
  | .err s => .err s
  | .crash s => .crash s
  | .ok () s =>
    match writeAll plan a.name e s with
    | .err s => .err s
    | .crash s => .crash s
    | .ok () s => .ok { a1 with needsRecovery := false, size := a1.size + e.length } s

/-- The write loop (lib.rs:868-888) over `b.rest`; on failure the batch is returned with the cursor on the
    event whose write failed. -/
def writeEvents (cfg : Config) (plan : Nat → Fault) : Active → Batch → St → List (List Nat) → Res × Option Active × St
  | a, _, s, [] => (.ok, some a, s)
  | a, b, s, e :: rest =>
    match writeEvent cfg plan a e s with
    | .err s => (.retry b, none, s)
    | .crash s => (.crashed, none, s)
    | .ok a s => writeEvents cfg plan a (b.advance e) s rest

/-- After a failed write (lib.rs:887-914): the events written before it are not part of the retry, so — when there
    are any (`batch.remaining_bytes != written_bytes`) — they are flushed and synced before the file is let go of;
    a failure of either gives the batch up (`no_retry`), like a failed sync after a complete write. `b` is the
    batch as `on_batch` received it, `b'` the batch with the cursor on the event whose write failed. -/
def syncWritten (plan : Nat → Fault) (n : List Nat) (b b' : Batch) (s : St) : Res × St :=
  if b'.remaining ≠ b.remaining then
    match flushFile plan s with
    | .err s => (.noRetry, s)
    | .crash s => (.crashed, s)
    | .ok () s =>
      match syncAll plan n s with
      | .err s => (.noRetry, s)
      | .crash s => (.crashed, s)
      | .ok () s => (.retry b', s)
  else (.retry b', s)

/-- `Worker::on_batch` (lib.rs:745-915). -/
def onBatch (cfg : Config) (plan : Nat → Fault) (now : Parts) (id : Nat) (b : Batch) (s : St) : Res × St :=
  match acquire cfg plan now id b s with
  | .err s => (.retry b, s)
  | .crash s => (.crashed, s)
  | .ok a s =>
    match writeEvents cfg plan a b s b.rest with
    | (.ok, some a, s) =>
      match flushFile plan s with
      | .err s => (.noRetry, s)
      | .crash s => (.crashed, s)
      | .ok () s =>
        match syncAll plan a.name s with
        | .err s => (.noRetry, s)
        | .crash s => (.crashed, s)
        | .ok () s => (.ok, { s with active := some a })
    | (.retry b', _, s) => syncWritten plan a.name b b' s
    | (r, _, s) => (r, s)

/-- The batcher's retry loop around `on_batch` (emit_batcher lib.rs:412-455): one `(now, id)` clock / id reading per
    attempt; a `retry` re-submits the batch that came back; running out of attempts leaves the batch unfinished. -/
def processBatch (cfg : Config) (plan : Nat → Fault) : List (Parts × Nat) → Batch → St → Res × St
  | [], b, s => (.retry b, s)
  | (now, id) :: rest, b, s =>
    match onBatch cfg plan now id b s with
    | (.retry b', s') => processBatch cfg plan rest b' s'
    | r => r

/-- Dropping the worker and constructing a new one over the same directory. -/
def restart (s : St) : St := { s with active := none }

end EmitModel.FileSet
