/-
  Model/FileRecord.lean — C13. The default writer of the rolling file emitter.

  /repo/emitter/file/src/lib.rs:574-646 `default_writer`: one sval record streamed into `sval_json`:
      ts_start? ts?  (from the extent, Display text)        :594-604
      mdl msg tpl    (Display text)                          :606-616
      then every property of `props().dedup()` whose key is not one of these five reserved names :618-644
  A property whose value fails to stream makes the whole event fail (the error is returned, the caller
  `FileSetInner::emit` counts `event_format_failed` and discards the event, :487-505) — this is the behaviour
  after the repair `fix: file default writer reports a property that fails to format`; before it the error was
  swallowed and a truncated, unbalanced line was written.

  `toJson` is what sval_json-2.22.0 (src/to_fmt.rs) prints for a value tree:
    * non-finite floats → `null` (:202-224); bytes → array of numbers (default `binary_*` of sval::Stream)
    * maps and records → objects; a map key is written between quotes WITHOUT a nested value syntax:
      text (escaped), integers, booleans, `null`, floats print their token (:244-262, `is_text_quoted`);
      a sequence / map / bytes / tuple / record / data-carrying variant in key position is the error
      `invalid_key` (:226-231, 264-269)
    * enum variants are externally tagged: `"L"`, `{"L":v}`, `{"L":{…}}`, `{"L":[…]}` (:302-336, 463-520);
      `Some(v)` prints `v`.
-/
import EmitModel.Model.Json
import EmitModel.Model.Value

namespace EmitModel.Encode
open EmitModel.Json (Json)

/-- text of a value in map-key position; `none` = sval_json's `invalid_key` error -/
def keyText : V → Option String
  | .null => some "null"
  | .bool b => some (if b then "true" else "false")
  | .int i => some (String.ofList (EmitModel.Json.intDec i))
  | .f64 bits tok _ => some (if isFiniteBits bits then tok else "null")
  | .f32 bits tok _ => some (if isFiniteBits bits then tok else "null")
  | .text s => some s
  | .some k => keyText k
  | .uvar l => some l
  | _ => none

def floatJson (bits : UInt64) (tok : String) : Json :=
  if isFiniteBits bits then .num tok else .null

mutual
def toJson : V → Option Json
  | .null => some .null
  | .bool b => some (.bool b)
  | .int i => some (.int i)
  | .f64 bits tok _ => some (floatJson bits tok)
  | .f32 bits tok _ => some (floatJson bits tok)
  | .text s => some (.str s)
  | .bytes bs => some (.arr (bs.map fun b => .int b.toNat))
  | .seq xs => (toJsonList xs).map .arr
  | .tuple xs => (toJsonList xs).map .arr
  | .map kvs => (toJsonEntries kvs).map .obj
  | .record fs => (toJsonFields fs).map .obj
  | .some v => toJson v
  | .uvar l => some (.str l)
  | .nvar l v => (toJson v).map fun j => .obj [(l, j)]
  | .svar l fs => (toJsonFields fs).map fun ms => .obj [(l, .obj ms)]
  | .tvar l xs => (toJsonList xs).map fun js => .obj [(l, .arr js)]
def toJsonList : List V → Option (List Json)
  | [] => some []
  | x :: xs => match toJson x, toJsonList xs with
    | some j, some js => some (j :: js)
    | _, _ => none
def toJsonEntries : List (V × V) → Option (List (String × Json))
  | [] => some []
  | (k, v) :: rest => match keyText k, toJson v, toJsonEntries rest with
    | some ks, some j, some ms => some ((ks, j) :: ms)
    | _, _, _ => none
def toJsonFields : List (String × V) → Option (List (String × Json))
  | [] => some []
  | (l, v) :: rest => match toJson v, toJsonFields rest with
    | some j, some ms => some ((l, j) :: ms)
    | _, _ => none
end

/-- lib.rs:594-616 -/
def fixedFields (e : Event) : List (String × Json) :=
  (match e.extent with
    | .none => []
    | .point t => [("ts", .str t.text)]
    | .range a b => [("ts_start", .str a.text), ("ts", .str b.text)])
  ++ [("mdl", .str e.mdl), ("msg", .str e.msg), ("tpl", .str e.tplText)]

/-- the keys of the built-in fields are reserved: a property using one is not written
    (after the repair `fix: file default writer skips properties named like the built-in fields`; before it the
    record got a second member of that name) -/
def reservedKey (k : String) : Bool :=
  k = "ts_start" || k = "ts" || k = "mdl" || k = "msg" || k = "tpl"

/-- lib.rs:618-644 (after the repairs: reserved keys are skipped, the first failing property fails the event) -/
def propFields : List (String × PV) → Option (List (String × Json))
  | [] => some []
  | (k, v) :: rest =>
    if reservedKey k then propFields rest
    else match toJson v.image, propFields rest with
      | some j, some ms => some ((k, j) :: ms)
      | _, _ => none

/-- the record of one event; `none` = formatting failed, the event is discarded and counted -/
def fileRecord (e : Event) : Option Json :=
  (propFields e.deduped).map fun ps => .obj (fixedFields e ++ ps)

/-- the bytes appended to the file for one event: the JSON text and the separator `\n`
    (lib.rs:487-496; sval_json never ends its output with a newline, so the separator is always added) -/
def fileLine (e : Event) : Option (List Char) :=
  (fileRecord e).map fun j => EmitModel.Json.render j ++ ['\n']

end EmitModel.Encode
