/-
  Model/Ctxt.lean — C03 (and the base of C04). Mirrors
    * /repo/src/platform/thread_local_ctxt.rs
        - `ACTIVE : thread_local HashMap<ctxt id, ThreadLocalCtxtFrame>`                          (:185-187)
        - `current(id)` = clone of the thread's entry (created as `props: None`)                  (:189-197)
        - `swap(id, frame)` = `mem::swap(entry, frame)`                                           (:199-209)
        - `open_root` (fresh map, `HashMap::insert` per pair)                                     (:129-141)
        - `open_push` (snapshot `current`, `None` becomes an empty map, `insert` per pair)        (:143-159)
        - `enter` / `exit` = `swap`                                                               (:161-167)
    * /repo/core/src/ctxt.rs  `open_disabled(props) = open_push(Empty)`                           (:48-52)
      and the erased frame storage `ErasedFrame::{new, get_mut, into_inner}` inline / boxed       (:358-450)
    * /repo/src/frame.rs  `Frame::{current = push(Empty), push, root, disabled}`                  (:32-69),
      `enter` + `EnterGuard::drop` = exit (:85-103, 207-211), `with` = enter, with_current, exit (:75-77),
      `call` = enter, scope(), exit (:100-103), `in_fn` = a closure around `call` (:114-116),
      `FrameFuture::poll` = enter, poll the inner future, exit (:221-234).

  Three layers, each a plain structural function:
    `desugar`  async task bodies  → the list of synchronous segments each `poll` runs (static: no data-dependent
               control flow exists in the programs; a panic's propagation is static too)
    `compile`  synchronous programs → the list of atomic events `open / enter / exit / observe` in execution
               order; guard drop, closure return, poll return and unwinding all become the same `exit`
    `exec`     events → states and observations (the thread-local maps and the frame slots)
  Import-free (core Lean only).
-/
namespace EmitModel.Ctxt

/-! ### Property maps: `HashMap<Str, Value>` as an assoc list kept sorted by key (the canonical form the
    observations are compared in). `insert` overwrites, like `HashMap::insert`. -/

def insert {V : Type} (k : String) (v : V) : List (String × V) → List (String × V)
  | [] => [(k, v)]
  | (k', v') :: r =>
    if k < k' then (k, v) :: (k', v') :: r
    else if k = k' then (k, v) :: r
    else (k', v') :: insert k v r

/-- `props.for_each(|k, v| { map.insert(k, v) })` -/
def insertAll {V : Type} (m : List (String × V)) (ps : List (String × V)) : List (String × V) :=
  ps.foldl (fun acc kv => insert kv.1 kv.2 acc) m

/-- `HashMap::get` -/
def get {V : Type} (m : List (String × V)) (k : String) : Option V :=
  match m with
  | [] => none
  | (k', v) :: r => if k' = k then some v else get r k

/-! ### Frames -/

inductive Kind where
  | push | root | disabled | current
  /-- `open_push` as the TRAIT DEFAULT has it (core/src/ctxt.rs:39-41), for a `Ctxt` that implements only the
      required methods: `with_current(|current| open_root(props.and_props(current)))` — the own pairs are
      enumerated first, the ambient ones after them, all into `open_root` (a fresh map, `HashMap::insert`) -/
  | pushDefault
  deriving Repr, DecidableEq, Inhabited

/-- What `Frame::{push, root, disabled, current}(ctxt, props)` stores in the new frame, given the calling
    thread's current entry `cur` for that context (`None` until something was entered).
    thread_local_ctxt.rs:129-159; `disabled` ignores its props (core/src/ctxt.rs:48-52); `current` pushes `Empty`. -/
def openFrame {V : Type} (kind : Kind) (cur : Option (List (String × V))) (ps : List (String × V)) :
    Option (List (String × V)) :=
  match kind with
  | .root => some (insertAll [] ps)
  | .push => some (insertAll (cur.getD []) ps)
  | .disabled => some (insertAll (cur.getD []) [])
  | .current => some (insertAll (cur.getD []) [])
  | .pushDefault => some (insertAll [] (ps ++ cur.getD []))

/-- What `Frame::<kind>(ctxt, props)` amounts to on a `Ctxt` that leaves `open_push` and `open_disabled` to the
    trait defaults (core/src/ctxt.rs:39-52): `push` is the default push, `current` = `push(Empty)`,
    `disabled` = default `open_disabled` = `open_push(Empty)` (its props are dropped unread), `root` is the
    ctxt's own `open_root`. -/
def viaDefault {V : Type} (kind : Kind) (ps : List (String × V)) : Kind × List (String × V) :=
  match kind with
  | .root => (.root, ps)
  | .push => (.pushDefault, ps)
  | .pushDefault => (.pushDefault, ps)
  | .current => (.pushDefault, [])
  | .disabled => (.pushDefault, [])

/-- How a forwarding `Ctxt` wrapper (`&C`, `Box<C>`, `Arc<C>`, `Option<C>`, `dyn ErasedCtxt`, `AssertInternal<C>`,
    the ambient slot's erased ctxt) implements an `open_*` method: by calling the inner ctxt's method of the same
    name, or not at all, so that the trait default applies (core/src/ctxt.rs:39-52):
    `open_push(props) = with_current(|cur| open_root(props.and_props(cur)))`,
    `open_disabled(props) = open_push(Empty)`. `open_root`, `enter`, `exit`, `with_current` have no default. -/
inductive Via where
  | forward | traitDefault
  deriving Repr, DecidableEq

structure Wrapper where
  push : Via
  disabled : Via
  deriving Repr, DecidableEq

/-- core/src/ctxt.rs:85-228, 505-543 (`&C`, `Option`, `Box`, `Arc`, `dyn ErasedCtxt`): every method forwarded -/
def Wrapper.forwarding : Wrapper := ⟨.forward, .forward⟩
/-- core/src/runtime.rs `impl Ctxt for AssertInternal<T>`: `open_disabled` is left to the trait default -/
def Wrapper.assertInternal : Wrapper := ⟨.forward, .traitDefault⟩

/-- `open_push` as the wrapper has it, over an inner `ThreadLocalCtxt` -/
def pushVia {V : Type} (w : Wrapper) (cur : Option (List (String × V))) (ps : List (String × V)) :
    Option (List (String × V)) :=
  match w.push with
  | .forward => openFrame .push cur ps
  | .traitDefault => openFrame .root cur (ps ++ cur.getD [])

/-- `Frame::<kind>(wrapper(ctxt), props)` -/
def openVia {V : Type} (w : Wrapper) (kind : Kind) (cur : Option (List (String × V))) (ps : List (String × V)) :
    Option (List (String × V)) :=
  match kind with
  | .root => openFrame .root cur ps
  | .push => pushVia w cur ps
  | .current => pushVia w cur []
  | .pushDefault => openFrame .pushDefault cur ps
  | .disabled =>
    match w.disabled with
    | .forward => openFrame .disabled cur ps
    | .traitDefault => pushVia w cur []

/-- `ErasedFrame`: a frame value stored inline (≤ 16 bytes, align ≤ 8) or boxed. core/src/ctxt.rs:358-450 -/
inductive Erased (α : Type) where
  | inline (a : α)
  | boxed (a : α)
  deriving Repr

/-- `ErasedFrame::new::<T>` — the storage class is a function of `T` alone (`inline::<T>()`), here a parameter. -/
def Erased.new {α : Type} (fitsInline : Bool) (a : α) : Erased α := if fitsInline then .inline a else .boxed a
/-- `get_mut` (read) / `into_inner` -/
def Erased.get {α : Type} : Erased α → α
  | .inline a => a
  | .boxed a => a
/-- `*get_mut() = b` -/
def Erased.set {α : Type} : Erased α → α → Erased α
  | .inline _, b => .inline b
  | .boxed _, b => .boxed b

/-- The machine state: one optional map per (thread, context id) — the thread-locals — and the slot each
    frame handle holds. Frame handles are named by numbers (`f`); a handle that was never opened holds `none`.
    `inl` = the storage class erased frames use in this run (identity on the contents, see `Erased`). -/
structure St (V : Type) where
  active : Nat → Nat → Option (List (String × V))
  slot : Nat → Erased (Option (List (String × V)))
  inl : Bool

def St.init (V : Type) (inl : Bool) : St V := ⟨fun _ _ => none, fun _ => Erased.new inl none, inl⟩

inductive Ev (V : Type) where
  | open (t c f : Nat) (kind : Kind) (ps : List (String × V))
  | enter (t c f : Nat)
  | exit (t c f : Nat)
  | observe (t c : Nat)
  deriving Repr

def setActive {V : Type} (a : Nat → Nat → Option (List (String × V))) (t c : Nat) (v : Option (List (String × V))) :
    Nat → Nat → Option (List (String × V)) :=
  fun t' c' => if t' = t ∧ c' = c then v else a t' c'

def setSlot {α : Type} (s : Nat → α) (f : Nat) (v : α) : Nat → α :=
  fun f' => if f' = f then v else s f'

/-- `swap(id, frame)` on thread `t`: thread_local_ctxt.rs:199-209 -/
def swap {V : Type} (s : St V) (t c f : Nat) : St V :=
  { s with active := setActive s.active t c (s.slot f).get
           slot := setSlot s.slot f ((s.slot f).set (s.active t c)) }

/-- One atomic step. `observe` is `with_current` (a clone of the entry; `None` shows as no properties). -/
def step {V : Type} (s : St V) : Ev V → St V
  | .open t c f kind ps => { s with slot := setSlot s.slot f (Erased.new s.inl (openFrame kind (s.active t c) ps)) }
  | .enter t c f => swap s t c f
  | .exit t c f => swap s t c f
  | .observe _ _ => s

/-- What an event shows to the program: only `observe` shows anything. -/
def output {V : Type} (s : St V) : Ev V → Option (List (String × V))
  | .observe t c => some ((s.active t c).getD [])
  | _ => none

def exec {V : Type} (s : St V) : List (Ev V) → St V
  | [] => s
  | e :: es => exec (step s e) es

/-- The observations of an execution, in order. -/
def observations {V : Type} (s : St V) : List (Ev V) → List (List (String × V))
  | [] => []
  | e :: es =>
    match output s e with
    | some o => o :: observations (step s e) es
    | none => observations (step s e) es

/-! ### `Ctxt for Option<C>` (core/src/ctxt.rs:118-160)
    `Some(c)` forwards every method to `c`. With `None`: `open_*` return `None` (the props are never enumerated),
    `enter` / `exit` / `close` do nothing, and `with_current` hands out `&None`, a `Props` with no pairs. -/

def stepOpt {V : Type} (present : Bool) (s : St V) (e : Ev V) : St V := if present then step s e else s

def outputOpt {V : Type} (present : Bool) (s : St V) (e : Ev V) : Option (List (String × V)) :=
  if present then output s e
  else match e with
    | .observe _ _ => some []
    | _ => none

def observationsOpt {V : Type} (present : Bool) (s : St V) : List (Ev V) → List (List (String × V))
  | [] => []
  | e :: es =>
    match outputOpt present s e with
    | some o => o :: observationsOpt present (stepOpt present s e) es
    | none => observationsOpt present (stepOpt present s e) es

/-! ### Synchronous programs -/

/-- How a frame is used: `enter` (guard held over the body), `with_` (`Frame::with`: the closure receives the
    current props — an observation — then the body runs inside it), `guardWith` (`enter` then
    `EnterGuard::with`), `call` (consumes the frame), `inFn t` (`in_fn` closure created here, invoked on
    thread `t`; consumes the frame). -/
inductive Mode where
  | enter | with_ | guardWith | call | inFn (t : Nat)
  deriving Repr, DecidableEq

def Mode.observes : Mode → Bool
  | .with_ => true | .guardWith => true | _ => false
def Mode.consumes : Mode → Bool
  | .call => true | .inFn _ => true | _ => false
def Mode.thread (cur : Nat) : Mode → Nat
  | .inFn t => t | _ => cur

inductive SProg (V : Type) where
  | obs (c : Nat)
  | new (f c : Nat) (kind : Kind) (ps : List (String × V))
  | use (f : Nat) (m : Mode) (body : List (SProg V))
  | on (t : Nat) (body : List (SProg V))
  | catch_ (body : List (SProg V))
  | panic
  | drop (f : Nat)
  /-- `let (ctxt, raw) = frame.into_parts(); frame = Frame::from_parts(ctxt, raw)` (+ `inner()`, `inner_mut()`):
      no `Ctxt` method runs (frame.rs:135-176) -/
  | parts (f : Nat)

mutual
/-- Does running this raise a panic that leaves it (static: nothing in a program depends on data)? -/
def SProg.panics {V : Type} : SProg V → Bool
  | .use _ _ body => panicsL body
  | .on _ body => panicsL body
  | .catch_ _ => false
  | .panic => true
  | _ => false
def panicsL {V : Type} : List (SProg V) → Bool
  | [] => false
  | p :: ps => p.panics || panicsL ps
end

/-- Scoping state of the frame variables while compiling (the Rust borrow checker's view). -/
inductive FSt where
  | idle (c : Nat)     -- opened on context `c`, not entered
  | entered            -- mutably borrowed by a guard / closure / poll
  | gone               -- consumed by `call` / `in_fn` / dropped
  deriving Repr, DecidableEq

def lookupF (σ : List (Nat × FSt)) (f : Nat) : Option FSt :=
  match σ with
  | [] => none
  | (f', s) :: r => if f' = f then some s else lookupF r f

mutual
/-- Events of one program on thread `t`, in execution order; `none` = ill-scoped (a frame used while entered,
    after it was consumed, before it exists, or a handle opened twice). A panicking element ends its list:
    the enclosing `use`s still emit their `exit` (guards drop during unwinding). -/
def compile {V : Type} (t : Nat) (σ : List (Nat × FSt)) : SProg V → Option (List (Ev V) × List (Nat × FSt))
  | .obs c => some ([.observe t c], σ)
  | .new f c kind ps =>
    match lookupF σ f with
    | none => some ([.open t c f kind ps], (f, .idle c) :: σ)
    | some _ => none
  | .use f m body =>
    match lookupF σ f with
    | some (.idle c) =>
      let t' := m.thread t
      match compileL t' ((f, .entered) :: σ) body with
      | some (evs, σ') =>
        some (.enter t' c f :: (if m.observes then [.observe t' c] else []) ++ evs ++ [.exit t' c f],
              (f, if m.consumes then .gone else .idle c) :: σ')
      | none => none
    | _ => none
  | .on t' body => compileL t' σ body
  | .catch_ body => compileL t σ body
  | .panic => some ([], σ)
  | .drop f =>
    match lookupF σ f with
    | some (.idle _) => some ([], (f, .gone) :: σ)
    | _ => none
  | .parts f =>
    match lookupF σ f with
    | some (.idle _) => some ([], σ)
    | _ => none
def compileL {V : Type} (t : Nat) (σ : List (Nat × FSt)) : List (SProg V) → Option (List (Ev V) × List (Nat × FSt))
  | [] => some ([], σ)
  | p :: ps =>
    match compile t σ p with
    | some (e1, σ1) =>
      if p.panics then some (e1, σ1)
      else
        match compileL t σ1 ps with
        | some (e2, σ2) => some (e1 ++ e2, σ2)
        | none => none
    | none => none
end

/-! ### Asynchronous tasks, polled by hand -/

mutual
inductive Prog (V : Type) where
  | obs (c : Nat)
  | new (f c : Nat) (kind : Kind) (ps : List (String × V))
  | use (f : Nat) (m : Mode) (body : List (Prog V))
  | on (t : Nat) (body : List (Prog V))
  | catch_ (body : List (Prog V))
  | panic
  | drop (f : Nat)
  | parts (f : Nat)
  /-- create one boxed future per task body, then poll them in the scripted order `(task index, thread)`;
      a poll's panic is caught and kills that task; unfinished tasks are dropped at the end -/
  | tasks (ts : List (List (AProg V))) (sched : List (Nat × Nat))
inductive AProg (V : Type) where
  | sync (ps : List (Prog V))
  | yield                                  -- a future that returns `Pending` once
  /-- `Frame::<kind>(ctxt c, ps).in_future(async { body }).await` — the frame is created when reached -/
  | aframe (f c : Nat) (kind : Kind) (ps : List (String × V)) (body : List (AProg V))
  /-- `frames.take(f).in_future(async { body }).await` for an existing frame -/
  | ause (f : Nat) (body : List (AProg V))
end

/-- Sequencing two segment lists: the last segment of the first continues into the first of the second. -/
def joinSegs {α : Type} : List (List α) → List (List α) → List (List α)
  | [], ys => ys
  | [x], [] => [x]
  | [x], y :: ys => (x ++ y) :: ys
  | x :: x' :: xs, ys => x :: joinSegs (x' :: xs) ys

/-- Keep the segments up to and including the first one that panics (the future is never polled again). -/
def cutAtPanic {V : Type} : List (List (SProg V)) → List (List (SProg V))
  | [] => []
  | s :: ss => if panicsL s then [s] else s :: cutAtPanic ss

/-- How many earlier entries of the schedule poll task `i`. -/
def pollsBefore (i : Nat) : List (Nat × Nat) → Nat
  | [] => 0
  | (j, _) :: r => (if j = i then 1 else 0) + pollsBefore i r

/-- The schedule as a synchronous program: entry `(i, t)` runs, on thread `t` under `catch_unwind`, the next
    segment of task `i` if it has one left. `done` = the entries already processed, in reverse. -/
def runSched {V : Type} (segs : List (List (List (SProg V)))) :
    List (Nat × Nat) → List (Nat × Nat) → List (SProg V)
  | _, [] => []
  | done, (i, t) :: rest =>
    (match (segs.getD i []).drop (pollsBefore i done) with
     | [] => []
     | s :: _ => [SProg.on t [SProg.catch_ s]]) ++ runSched segs ((i, t) :: done) rest

mutual
def desugar {V : Type} : Prog V → List (SProg V)
  | .obs c => [.obs c]
  | .new f c kind ps => [.new f c kind ps]
  | .use f m body => [.use f m (desugarL body)]
  | .on t body => [.on t (desugarL body)]
  | .catch_ body => [.catch_ (desugarL body)]
  | .panic => [.panic]
  | .drop f => [.drop f]
  | .parts f => [.parts f]
  | .tasks ts sched => runSched (segsT ts) [] sched
def desugarL {V : Type} : List (Prog V) → List (SProg V)
  | [] => []
  | p :: ps => desugar p ++ desugarL ps
/-- The segments of an async body: what each successive `poll` of it runs. Never empty. -/
def segsA {V : Type} : AProg V → List (List (SProg V))
  | .sync ps => [desugarL ps]
  | .yield => [[], []]
  | .aframe f c kind ps body =>
    match segsL body with
    | [] => [[.new f c kind ps]]
    | s :: ss => [.new f c kind ps, .use f .enter s] :: ss.map (fun s => [.use f .enter s])
  | .ause f body => (segsL body).map (fun s => [.use f .enter s])
def segsL {V : Type} : List (AProg V) → List (List (SProg V))
  | [] => [[]]
  | a :: as => joinSegs (segsA a) (segsL as)
def segsT {V : Type} : List (List (AProg V)) → List (List (List (SProg V)))
  | [] => []
  | t :: ts => cutAtPanic (segsL t) :: segsT ts
end

/-- A whole case: thread 0 runs the program from the pristine state. -/
def runProg {V : Type} (inl : Bool) (p : List (Prog V)) : Option (List (List (String × V))) :=
  match compileL 0 [] (desugarL p) with
  | some (evs, _) => some (observations (St.init V inl) evs)
  | none => none

end EmitModel.Ctxt
