/-
  Model/Json.lean — C13. The JSON text the default file writer produces, as a tree plus a renderer.

  The file writer (/repo/emitter/file/src/lib.rs:574-639) streams the event into `sval_json`
  (sval_json-2.22.0/src/to_fmt.rs). This file mirrors what that formatter prints for the value shapes
  the model knows:
    * `null` / `true` / `false`                                         (to_fmt.rs:82-92)
    * integers of every width with `itoa` (plain decimal, `-` sign)       (to_fmt.rs:120-200)
    * finite floats with `ryu` — an OPAQUE token supplied by the harness (the model never prints a float);
      non-finite floats print `null`                                     (to_fmt.rs:202-224)
    * text in double quotes with `escape_str`                            (to_fmt.rs:94-118, 664-741)
    * sequences `[a,b]`, maps / records `{"k":v,...}` without whitespace  (to_fmt.rs:226-300, 421-462)
  and the JSON grammar (RFC 8259, no insignificant whitespace) as inductive predicates, used by the
  theorem `file_line_is_json`.
-/
namespace EmitModel.Json

inductive Json where
  | null
  | bool (b : Bool)
  | int (i : Int)
  | num (tok : String)
  | str (s : String)
  | arr (xs : List Json)
  | obj (kvs : List (String × Json))
  deriving Repr, Inhabited

/-! ### Text escaping: `escape_str` (to_fmt.rs:664-741) on characters.
    The Rust code walks UTF-8 bytes; only bytes < 0x20, `"` and `\` are escaped, all of which are
    single-byte characters, so the per-character formulation is the same function. -/

def hexDigit (n : Nat) : Char :=
  if n < 10 then Char.ofNat (48 + n) else Char.ofNat (87 + n)

def escapeChar (c : Char) : List Char :=
  if c = '"' then ['\\', '"']
  else if c = '\\' then ['\\', '\\']
  else if c.toNat = 8 then ['\\', 'b']
  else if c.toNat = 9 then ['\\', 't']
  else if c.toNat = 10 then ['\\', 'n']
  else if c.toNat = 12 then ['\\', 'f']
  else if c.toNat = 13 then ['\\', 'r']
  else if c.toNat < 32 then ['\\', 'u', '0', '0', hexDigit (c.toNat / 16), hexDigit (c.toNat % 16)]
  else [c]

def escape : List Char → List Char
  | [] => []
  | c :: cs => escapeChar c ++ escape cs

def quote (s : String) : List Char := '"' :: (escape s.toList ++ ['"'])

/-! ### Integers: `itoa` prints plain decimal. -/

def digitChar (n : Nat) : Char := Char.ofNat (48 + n)

def natDec (n : Nat) : List Char :=
  if _h : n < 10 then [digitChar n] else natDec (n / 10) ++ [digitChar (n % 10)]
termination_by n
decreasing_by omega

def intDec (i : Int) : List Char :=
  if i < 0 then '-' :: natDec i.natAbs else natDec i.toNat

/-! ### Rendering (no whitespace, members in list order) -/

def commaSep : List (List Char) → List Char
  | [] => []
  | [x] => x
  | x :: y :: rest => x ++ ',' :: commaSep (y :: rest)

mutual
def render : Json → List Char
  | .null => ['n', 'u', 'l', 'l']
  | .bool true => ['t', 'r', 'u', 'e']
  | .bool false => ['f', 'a', 'l', 's', 'e']
  | .int i => intDec i
  | .num t => t.toList
  | .str s => quote s
  | .arr xs => '[' :: (commaSep (renderElems xs) ++ [']'])
  | .obj kvs => '{' :: (commaSep (renderMembers kvs) ++ ['}'])
def renderElems : List Json → List (List Char)
  | [] => []
  | x :: xs => render x :: renderElems xs
def renderMembers : List (String × Json) → List (List Char)
  | [] => []
  | (k, v) :: rest => (quote k ++ ':' :: render v) :: renderMembers rest
end

def renderString (j : Json) : String := String.ofList (render j)

/-! ### The JSON grammar (RFC 8259 §2-§7, without insignificant whitespace) -/

def IsDigit (c : Char) : Prop := 48 ≤ c.toNat ∧ c.toNat ≤ 57

/-- `int = zero / ( digit1-9 *DIGIT )` -/
inductive IsIntPart : List Char → Prop
  | zero : IsIntPart ['0']
  | nz (d : Char) (ds : List Char) : IsDigit d → d ≠ '0' → (∀ c ∈ ds, IsDigit c) → IsIntPart (d :: ds)

/-- `frac = decimal-point 1*DIGIT`, optional -/
inductive IsFrac : List Char → Prop
  | none : IsFrac []
  | some (d : Char) (ds : List Char) : IsDigit d → (∀ c ∈ ds, IsDigit c) → IsFrac ('.' :: d :: ds)

/-- `exp = e [ minus / plus ] 1*DIGIT`, optional -/
inductive IsExp : List Char → Prop
  | none : IsExp []
  | some (e : Char) (sign : List Char) (d : Char) (ds : List Char) :
      (e = 'e' ∨ e = 'E') → (sign = [] ∨ sign = ['+'] ∨ sign = ['-']) → IsDigit d → (∀ c ∈ ds, IsDigit c) →
      IsExp (e :: (sign ++ d :: ds))

/-- `number = [ minus ] int [ frac ] [ exp ]` -/
inductive IsNumber : List Char → Prop
  | mk (sign ip fr ex : List Char) : (sign = [] ∨ sign = ['-']) → IsIntPart ip → IsFrac fr → IsExp ex →
      IsNumber (sign ++ (ip ++ (fr ++ ex)))

def IsHexDigit (c : Char) : Prop :=
  (48 ≤ c.toNat ∧ c.toNat ≤ 57) ∨ (97 ≤ c.toNat ∧ c.toNat ≤ 102) ∨ (65 ≤ c.toNat ∧ c.toNat ≤ 70)

/-- The characters between the quotes of a JSON string: unescaped (`%x20-21 / %x23-5B / %x5D-10FFFF`),
    two-character escapes, or `\uXXXX`. -/
inductive IsStrBody : List Char → Prop
  | nil : IsStrBody []
  | plain (c : Char) (rest : List Char) : 32 ≤ c.toNat → c ≠ '"' → c ≠ '\\' → IsStrBody rest → IsStrBody (c :: rest)
  | esc (e : Char) (rest : List Char) :
      (e = '"' ∨ e = '\\' ∨ e = '/' ∨ e = 'b' ∨ e = 'f' ∨ e = 'n' ∨ e = 'r' ∨ e = 't') → IsStrBody rest →
      IsStrBody ('\\' :: e :: rest)
  | uni (a b c d : Char) (rest : List Char) : IsHexDigit a → IsHexDigit b → IsHexDigit c → IsHexDigit d →
      IsStrBody rest → IsStrBody ('\\' :: 'u' :: a :: b :: c :: d :: rest)

mutual
/-- `value = false / null / true / object / array / number / string` -/
inductive IsJson : List Char → Prop
  | null : IsJson ['n', 'u', 'l', 'l']
  | tru : IsJson ['t', 'r', 'u', 'e']
  | fls : IsJson ['f', 'a', 'l', 's', 'e']
  | num (t : List Char) : IsNumber t → IsJson t
  | str (b : List Char) : IsStrBody b → IsJson ('"' :: (b ++ ['"']))
  | arr (parts : List (List Char)) : IsJsonList parts → IsJson ('[' :: (commaSep parts ++ [']']))
  | obj (parts : List (List Char)) : IsMemberList parts → IsJson ('{' :: (commaSep parts ++ ['}']))
/-- every part is a JSON value -/
inductive IsJsonList : List (List Char) → Prop
  | nil : IsJsonList []
  | cons (x : List Char) (rest : List (List Char)) : IsJson x → IsJsonList rest → IsJsonList (x :: rest)
/-- every part is `string ":" value` -/
inductive IsMemberList : List (List Char) → Prop
  | nil : IsMemberList []
  | cons (k v : List Char) (rest : List (List Char)) : IsStrBody k → IsJson v → IsMemberList rest →
      IsMemberList ((('"' :: (k ++ ['"'])) ++ ':' :: v) :: rest)
end

/- `NumsOk`: every opaque number token in the tree is a JSON number (checked by the harness on the real tokens). -/
mutual
def Json.NumsOk : Json → Prop
  | .num t => IsNumber t.toList
  | .arr xs => Json.NumsOkList xs
  | .obj kvs => Json.NumsOkMembers kvs
  | _ => True
def Json.NumsOkList : List Json → Prop
  | [] => True
  | x :: xs => x.NumsOk ∧ Json.NumsOkList xs
def Json.NumsOkMembers : List (String × Json) → Prop
  | [] => True
  | (_, v) :: rest => v.NumsOk ∧ Json.NumsOkMembers rest
end

end EmitModel.Json
